#!/usr/bin/env python3
"""usage: tools_seedround.py <round-dir> <k1> <k2>
Prepares one round of seeded-change testing: per property a prompt (<round-dir>/<ID>.prompt.txt: the property text and the
titles of the changes of earlier rounds, nothing else from /verif), the property record, an output directory and a
detached scratch worktree of /repo (<round-dir>/<ID>); writes <round-dir>/lane.sh, which evaluates the delivered changes
with tools_seed.py and stores them as seeded/<ID>-<k1> and -<k2>. Remove the worktrees afterwards:
git -C /repo worktree remove --force <round-dir>/<ID>; git -C /repo worktree prune."""
import json, os, subprocess, sys

rd, k1, k2 = sys.argv[1], sys.argv[2], sys.argv[3]
os.makedirs(rd, exist_ok=True)
props = [json.loads(l) for l in open('/verif/properties.jsonl')]
tmpl = '''You are testing a verification effort by seeding a realistic defect. You work ONLY inside your scratch git worktree of the Go library safing/portbase at {RD}/{ID} (a detached checkout; do not touch /repo, /verif or any other directory, and do not read anything under /verif). Environment for every shell call: `export GOFLAGS=-mod=mod GOPROXY=off GOSUMDB=off GOTOOLCHAIN=local` (no network; Go 1.23.5). The machine is busy: allow for slow test runs. Keep each of your messages short; write files in several small steps rather than one huge one.

The property (full record in {RD}/{ID}.property.json — read it; the `statement` is what must hold, `quantifier` says over what):

{ID} — {TITLE}

STATEMENT: {STATEMENT}

QUANTIFIER: {QUANT}

Task: make TWO different, independent changes to safing/portbase (each as its own patch against the clean worktree) that BREAK this property while the code still compiles and the package's existing tests still pass (`go test -vet=off -count=1 ./<affected packages>/...`; note: in package modules the tests TestMicroTaskOrdering, TestMicroTaskWaiting, TestQueuedTask, TestScheduledTaskWaiting are timing-flaky on this busy machine even on the clean tree — judge them against a clean-tree run; utils.TestCallLimiter/TestOnceAgain always fail).

Requirements for each change:
- Realistic: the kind of slip a maintainer could make in a refactoring or "optimisation" (an off-by-one, a dropped or reordered statement, a wrong comparison, a missing lock/unlock or check on one path, two cooperating sites that each look fine alone). Small (1–15 changed lines). Not a syntax trick, not dead code, not a change in a *_test.go file, not in files named verif_on.go/verif_off.go and not touching lines that call verifPoint(...).
- Subtle: it must need something specific to manifest — a particular interleaving or timing, a fault at a particular point, a multi-step sequence of operations, an unusual input or boundary value, or a specific configuration — NOT something every ordinary use exposes at once (the existing tests must stay green).
- It must violate the property AS STATED (not merely some other behaviour, and not something the statement leaves open), for an element that the quantifier covers.
- Demonstration: a Go test file (placed in the worktree next to the code, name it zz_seed_<n>_test.go, or a small program under ./zzseed<n>/) that FAILS with the change and PASSES on the clean worktree, deterministically or with high probability within ~30 s; explain how to run it.

Procedure: read the code behind the property; design change 1; apply it; run the existing tests of the affected packages; write and run the demonstration with and without the change (use `git diff > {RD}/{ID}-out/1.patch`, `git checkout -- .`, `git apply <patch>`; NEVER use `git stash`: the stash is shared with other worktrees of the same repository and other agents work in those); then the same for change 2. Deliver in {RD}/{ID}-out/: `1.patch`, `1_demo_test.go` (or program dir), `1.md` (first line: a one-line title of the change; then what it breaks, what it needs in order to manifest, exact commands you ran and their outcome with and without the patch), and likewise `2.*`. Patches must apply with `git apply` to the clean worktree at its current HEAD. Leave the worktree clean (`git status` empty) when done.

Reply with a 10-line summary of both changes (files/lines touched, what is needed to manifest, demo command and the package directory the demo file goes into).


Already taken by earlier rounds (do NOT repeat these or close variants; choose other code sites / other clauses of the statement — look at every clause and every element of the quantifier and pick what the earlier changes left untouched; prefer changes that need a particular interleaving, timing, fault position, unusual input/configuration or multi-step history; configurations, option combinations, error paths, rarely used exported entry points, interactions between two features, and value ranges that ordinary callers rarely use but the quantifier covers have been the most productive):
'''
for p in props:
    pid = p['id']
    h = (tmpl.replace('{RD}', rd).replace('{ID}', pid).replace('{TITLE}', p['title'])
         .replace('{STATEMENT}', p['statement']).replace('{QUANT}', p['quantifier']['text']))
    taken = []
    for k in range(1, 100):
        n = f'/verif/seeded/{pid}-{k}/notes.md'
        if os.path.exists(n):
            t = open(n).readline().strip().lstrip('# ').strip()
            taken.append('- ' + t[:180])
    h += "\n".join(taken) + "\n"
    open(f'{rd}/{pid}.prompt.txt', 'w').write(h)
    json.dump(p, open(f'{rd}/{pid}.property.json', 'w'), indent=1)
    os.makedirs(f'{rd}/{pid}-out', exist_ok=True)
    r = subprocess.run(['git', '-C', '/repo', 'worktree', 'add', '--detach', f'{rd}/{pid}', 'HEAD'], capture_output=True, text=True)
    if r.returncode:
        print(pid, r.stderr[:200])
lane = f'''#!/bin/bash
# lane.sh <clone> <ID:pkg1[:pkg2][:tags1]> ...
export GOFLAGS=-mod=mod GOPROXY=off GOSUMDB=off GOTOOLCHAIN=local
clone=$1; shift
cd /verif
for spec in "$@"; do
  IFS=: read id p1 p2 <<<"$spec"
  [ -z "$p2" ] && p2=$p1
  SEED_CLONE=$clone ./tools_seed.py $id 1 --src {rd}/$id-out --store-as {k1} --demo-pkg $p1 > {rd}/$id-1.result 2>&1
  SEED_CLONE=$clone ./tools_seed.py $id 2 --src {rd}/$id-out --store-as {k2} --demo-pkg $p2 > {rd}/$id-2.result 2>&1
done
echo lane done
'''
open(f'{rd}/lane.sh', 'w').write(lane)
os.chmod(f'{rd}/lane.sh', 0o755)
print("prepared", rd)
