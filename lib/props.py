"""Per-property check configuration (see DESIGN.md section 4)."""

REG = {"name": "regressions", "kind": "plain", "run": "^TestReg", "timeout": (120, 300)}

PROPS = {
    "C10": {
        "pkg": "./c10",
        "level": "exploration",
        "exhaustive_claim": True,
        "rule": "exhaustive: all 2^8/2^16 values through Pack/Unpack/EncodedSize and all byte strings of length<=3 through "
        "Unpack8/16/32/64+GetNextBlock, each compared with an independent LEB128 reference; generated: uint64 values biased "
        "to 7-bit-group and bit boundaries, byte strings <=12 bytes biased to continuation bits, blocks with length prefixes "
        "up to 2^64-1. Non-trivial = multi-byte encodings (value>=128 / first byte has the continuation bit) and every block case; "
        "distinct by value / byte string.",
        "assumptions": ["the reference LEB128 decoder/encoder in harness/c10 is correct (40 lines, exhaustively cross-checked on <=3 bytes)"],
        "jobs": [
            REG,
            {"name": "exhaustive", "kind": "plain", "run": "^TestExhaustive", "timeout": (300, 600)},
            {"name": "rapid", "kind": "rapid", "run": "^TestProp", "checks": (20000, 400000), "shards": (4, 16), "timeout": (300, 1500)},
            {"name": "fuzz", "kind": "fuzz", "target": "FuzzUnpack", "fuzztime": (0, 60), "tiers": ("thorough",)},
        ],
    },
}
