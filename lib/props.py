"""Per-property check configuration: every harness/cXX/check.json describes one property's check
(see harness/README.md for the format); this module just loads them."""
import glob
import json
import os

VERIF = os.path.dirname(os.path.dirname(os.path.abspath(__file__)))

REG = {"name": "regressions", "kind": "plain", "run": "^TestReg", "timeout": [120, 300]}


def _load():
    out = {}
    for f in sorted(glob.glob(os.path.join(VERIF, "harness", "*", "check.json"))):
        cfg = json.load(open(f))
        pid = cfg["id"]
        cfg.setdefault("pkg", "./" + os.path.basename(os.path.dirname(f)))
        jobs = cfg.get("jobs", [])
        if not any(j.get("name") == "regressions" for j in jobs):
            jobs.insert(0, dict(REG))
        cfg["jobs"] = jobs
        out[pid] = cfg
    return out


PROPS = _load()
