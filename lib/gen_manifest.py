#!/usr/bin/env python3
"""Regenerate /verif/MANIFEST.json from lib/props.py (single source of truth)."""
import json
import os
import subprocess
import sys

sys.path.insert(0, os.path.dirname(os.path.abspath(__file__)))
import props  # noqa: E402

VERIF = os.path.dirname(os.path.dirname(os.path.abspath(__file__)))
ALL = ["C%02d" % i for i in range(1, 21)]


def hook_commits():
    try:
        out = subprocess.run(["git", "-C", "/repo", "log", "--format=%H %s"], stdout=subprocess.PIPE, text=True).stdout
    except OSError:
        return []
    return [l.split()[0] for l in out.splitlines() if " verif:" in l or " hooks:" in l]


BASE = open("/root/.vp/BASELINE.json").read() if os.path.exists("/root/.vp/BASELINE.json") else "{}"
try:
    baseline_cmd = json.loads(BASE).get("cmd", "")
except ValueError:
    baseline_cmd = ""

m = {
    "version": 1,
    "setup_cmd": "./setup.sh",
    "hooks": {
        "guard": "verif",
        "enable": "go build tag: -tags verif (harness builds /repo through a replace directive with the tag on)",
        "baseline_off_cmd": "cd /repo && GOFLAGS=-mod=mod GOPROXY=off GOSUMDB=off GOTOOLCHAIN=local go test -json -vet=off -count=1 -timeout 25m ./...",
        "source_commits": hook_commits(),
        "add_only": True,
    },
    "engines": [
        {
            "name": "rapid+gofuzz harness",
            "path": "harness/",
            "serves_properties": sorted(set(props.PROPS.keys()) & set(open(os.path.join(VERIF, "lib", "ready.txt")).read().split())),
            "kind_free_text": "property-based testing (pgregory.net/rapid v1.3.0, stateful and model based) and native go fuzzing, driven by ./check (python3) which shards by seed, supervises children, merges stats into evidence",
        }
    ],
    "checks": [],
    "not_applicable": [],
    "notes": "All checks: ./check <ID> [--tier quick|thorough] [--replay FILE]; VERIF_SEED selects the rapid seeds. known-findings.txt lists open/fixed findings.",
}
READY = set(open(os.path.join(VERIF, "lib", "ready.txt")).read().split())
for pid in ALL:
    cfg = props.PROPS.get(pid)
    if cfg and pid not in READY:
        cfg = None
    if not cfg or cfg.get("unclaimed"):
        m["not_applicable"].append({"property_id": pid, "reason": (cfg or {}).get("unclaimed", "check not built yet (work in progress; see DESIGN.md build order)")})
        continue
    m["checks"].append(
        {
            "property_id": pid,
            "quick_cmd": "./check %s --tier quick" % pid,
            "thorough_cmd": "./check %s --tier thorough" % pid,
            "evidence_file": "evidence/%s.json" % pid,
            "replay_cmd_template": "./check %s --replay {path}" % pid,
            "engine": "rapid+gofuzz harness",
            "level_claimed": {"category": cfg["level"], "text": cfg.get("level_text", cfg["rule"]), "design_ref": "DESIGN.md section 4, " + pid},
            "level_note": "; ".join(cfg.get("assumptions", [])) or "harness oracle code is trusted",
            "technique": cfg.get("technique", "property-based testing (rapid) against an explicit oracle"),
        }
    )
json.dump(m, open(os.path.join(VERIF, "MANIFEST.json"), "w"), indent=1)
print("MANIFEST.json: %d checks, %d not_applicable" % (len(m["checks"]), len(m["not_applicable"])))
