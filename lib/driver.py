"""Check driver for the portbase verification harness (see DESIGN.md section 3.1)."""
import argparse
import array
import concurrent.futures as cf
import hashlib
import json
import os
import re
import shutil
import signal
import subprocess
import sys
import time

import props

VERIF = os.path.dirname(os.path.dirname(os.path.abspath(__file__)))
HARNESS = os.path.join(VERIF, "harness")
BUILD = os.path.join(VERIF, ".build")
REPO = os.environ.get("VERIF_REPO", "/repo")
NCPU = os.cpu_count() or 4


def goenv():
    e = dict(os.environ)
    e.update(
        GOFLAGS="-mod=mod",
        GOPROXY="off",
        GOSUMDB="off",
        GOTOOLCHAIN="local",
        CGO_ENABLED=e.get("CGO_ENABLED", "1"),
    )
    return e


def log(msg):
    print(msg, flush=True)


# --------------------------------------------------------------------------
# known findings


def load_known():
    import glob

    paths = [os.path.join(VERIF, "known-findings.txt")] + sorted(glob.glob(os.path.join(HARNESS, "*", "known-findings.part")))
    out = []
    lines = []
    for path in paths:
        if os.path.exists(path):
            lines += open(path).read().splitlines()
    for line in lines:
        line = line.strip()
        if not line or line.startswith("#"):
            continue
        m = re.match(r"^(open|fixed):\s+(.*)$", line)
        if not m:
            continue
        kind, rest = m.group(1), m.group(2)
        kv = dict(re.findall(r"(\w+)=(\S+)", rest))
        desc = re.sub(r"\b\w+=\S+\s*", "", rest).strip()
        out.append({"kind": kind, "desc": desc, **kv})
    return out


# --------------------------------------------------------------------------
# processes


def run_proc(cmd, cwd, env, timeout, logfile):
    """Run cmd, write combined output to logfile; return (rc, timed_out)."""
    with open(logfile, "wb") as lf:
        p = subprocess.Popen(
            cmd, cwd=cwd, env=env, stdout=lf, stderr=subprocess.STDOUT, start_new_session=True
        )
        try:
            rc = p.wait(timeout=timeout)
            return rc, False
        except subprocess.TimeoutExpired:
            try:
                os.killpg(p.pid, signal.SIGKILL)
            except ProcessLookupError:
                pass
            p.wait()
            return -9, True


def modfile_args():
    """When VERIF_REPO points elsewhere, build with an alternative go.mod."""
    if REPO == "/repo":
        return []
    os.makedirs(BUILD, exist_ok=True)
    src = open(os.path.join(HARNESS, "go.mod")).read()
    alt = os.path.join(BUILD, "alt-%s.mod" % hashlib.sha1(REPO.encode()).hexdigest()[:8])
    open(alt, "w").write(src.replace("=> /repo", "=> " + REPO))
    shutil.copy(os.path.join(HARNESS, "go.sum"), alt[:-4] + ".sum")
    return ["-modfile=" + alt]


def build(pid, cfg, tier="quick"):
    os.makedirs(BUILD, exist_ok=True)
    env = goenv()
    outs = {}
    tag = hashlib.sha1(REPO.encode()).hexdigest()[:6] if REPO != "/repo" else "repo"
    for pkg in cfg.get("pkgs", [cfg["pkg"]]):
        name = pkg.strip("./").replace("/", "_")
        out = os.path.join(BUILD, "%s-%s.test" % (name, tag))
        cmd = ["go", "test", "-c", "-tags", "verif"] + modfile_args() + ["-o", out, pkg]
        if cfg.get("race"):
            cmd.insert(3, "-race")
        r = subprocess.run(cmd, cwd=HARNESS, env=env, stdout=subprocess.PIPE, stderr=subprocess.STDOUT)
        if r.returncode != 0:
            sys.stdout.write(r.stdout.decode(errors="replace"))
            log("BUILD-FAILED property=%s pkg=%s (infrastructure, not a verdict)" % (pid, pkg))
            return None
        outs[pkg] = out
        # native fuzzing needs coverage instrumentation, which "go test -c" only adds when -fuzz is given
        if tier == "thorough" and any(j.get("kind") == "fuzz" and j.get("pkg", cfg.get("pkg")) == pkg for j in cfg.get("jobs", [])):
            fout = os.path.join(BUILD, "%s-%s.fuzz.test" % (name, tag))
            fcmd = ["go", "test", "-c", "-tags", "verif", "-fuzz=Fuzz"] + modfile_args() + ["-o", fout, pkg]
            r = subprocess.run(fcmd, cwd=HARNESS, env=env, stdout=subprocess.PIPE, stderr=subprocess.STDOUT)
            if r.returncode == 0:
                outs["fuzz:" + pkg] = fout
            else:
                sys.stdout.write(r.stdout.decode(errors="replace"))
                log("note: instrumented fuzz build failed for %s, fuzzing without coverage guidance" % pkg)
    for extra in cfg.get("bins", []):
        out = os.path.join(BUILD, "%s-%s" % (extra["name"], tag))
        if extra.get("lang") == "c":
            cmd = ["gcc", "-O1", "-o", out, os.path.join(VERIF, extra["src"])]
            r = subprocess.run(cmd, cwd=VERIF, stdout=subprocess.PIPE, stderr=subprocess.STDOUT)
        else:
            cmd = ["go", "build", "-tags", "verif"] + modfile_args() + ["-o", out, extra["src"]]
            r = subprocess.run(cmd, cwd=HARNESS, env=env, stdout=subprocess.PIPE, stderr=subprocess.STDOUT)
        if r.returncode != 0:
            sys.stdout.write(r.stdout.decode(errors="replace"))
            log("BUILD-FAILED property=%s bin=%s (infrastructure, not a verdict)" % (pid, extra["name"]))
            return None
        outs["bin:" + extra["name"]] = out
    return outs


def derive_seed(base, job, shard):
    h = hashlib.sha256(("%d/%s/%d" % (base, job, shard)).encode()).digest()
    s = int.from_bytes(h[:8], "little") & 0x7FFFFFFFFFFFFFFF
    return s or 1


FAIL_RE = re.compile(r"^\s*--- FAIL: (\S+)", re.M)
RAPID_FILE_RE = re.compile(r'-rapid\.failfile="([^"]+)"')
RAPID_OK_RE = re.compile(r"\[rapid\] OK, passed (\d+) tests")
FUZZ_EXEC_RE = re.compile(r"fuzz: elapsed: \S+, execs: (\d+)")
FUZZ_CRASH_RE = re.compile(r"Failing input written to (\S+)")


class Task:
    def __init__(self, pid, job, shard, cmd, cwd, env, timeout, kind, test=None, requested=0):
        self.pid, self.job, self.shard, self.cmd, self.cwd, self.env = pid, job, shard, cmd, cwd, env
        self.timeout, self.kind, self.test, self.requested = timeout, kind, test, requested
        self.rc = None
        self.timed_out = False
        self.log = os.path.join(cwd, "output.log")
        self.stats = os.path.join(cwd, "stats.json")
        self.wall = 0.0

    def run(self):
        t0 = time.time()
        self.rc, self.timed_out = run_proc(self.cmd, self.cwd, self.env, self.timeout, self.log)
        self.wall = time.time() - t0
        return self


def save_replay(pid, task, text, failing_tests):
    """Store what is needed to re-execute the failing case(s); return list of (test, path)."""
    rdir = os.path.join(VERIF, "replays", pid)
    os.makedirs(rdir, exist_ok=True)
    stamp = "%s-%s-s%d-%d" % (task.job["name"], time.strftime("%Y%m%d%H%M%S"), task.shard, os.getpid())
    base = {"property": pid, "job": task.job["name"], "pkg": task.job.get("pkg"), "tests": failing_tests, "cmd": task.cmd}
    out = []

    def finish(dst, meta):
        open(dst + ".log", "w").write(text[-200000:])
        m = dict(base)
        m.update(meta)
        json.dump(m, open(dst + ".meta.json", "w"), indent=1)
        out.append((meta.get("test", ""), dst))

    rapid = re.findall(r'-run="([^"]+)" -rapid\.failfile="([^"]+)"', text)
    covered = set()
    for test, ff in rapid:
        src = os.path.join(task.cwd, ff)
        if not os.path.exists(src):
            continue
        dst = os.path.join(rdir, "%s-%s.fail" % (stamp, re.sub(r"\W+", "_", test)))
        shutil.copy(src, dst)
        covered.add(test.split("/")[0])
        finish(dst, {"kind": "rapid", "test": "^%s$" % test})
    fm = FUZZ_CRASH_RE.search(text)
    if fm:
        src = fm.group(1)
        src = src if os.path.isabs(src) else os.path.join(task.cwd, src)
        dst = os.path.join(rdir, stamp + ".fuzz")
        if os.path.exists(src):
            shutil.copy(src, dst)
            os.remove(src)
        else:
            open(dst, "w").write("")
        finish(dst, {"kind": "fuzz", "test": task.job["target"]})
        covered.add(task.job["target"])
    rest = [t for t in failing_tests if t.split("/")[0] not in covered]
    if rest or not out:
        dst = os.path.join(rdir, stamp + ".case")
        j = os.path.join(task.cwd, "journal.json")
        if os.path.exists(j):
            shutil.copy(j, dst)
        else:
            open(dst, "w").write(json.dumps({"tests": rest}))
        tests = sorted({t.split("/")[0] for t in rest})
        finish(dst, {"kind": "plain", "test": "|".join("^%s$" % t for t in tests) or task.job.get("run", "")})
    return out


def classify(task):
    """-> (verdict, failing_tests, text); verdict in ok|violation|inconclusive"""
    try:
        text = open(task.log, errors="replace").read()
    except OSError:
        text = ""
    if task.timed_out or "panic: test timed out" in text:
        return "inconclusive", [], text
    if task.rc == 0:
        return "ok", [], text
    fails = [f for f in FAIL_RE.findall(text)]
    if task.rc in (-9, 137) and not fails:
        return "inconclusive", [], text  # killed from outside (OOM etc.)
    if "cannot allocate memory" in text or "out of memory" in text:
        return "inconclusive", [], text
    return "violation", fails, text


def merge_stats(tasks):
    agg = {
        "evaluations": 0,
        "nontrivial_evaluations": 0,
        "classes": {},
        "samples": [],
        "excluded": {},
        "warnings": [],
        "exhaustive": set(),
        "enum_distinct": 0,
    }
    fps = set()
    overflow = 0
    for t in tasks:
        if not os.path.exists(t.stats):
            continue
        try:
            s = json.load(open(t.stats))
        except (OSError, ValueError):
            continue
        agg["evaluations"] += s.get("evaluations", 0)
        agg["nontrivial_evaluations"] += s.get("nontrivial_evaluations", 0)
        for k, v in (s.get("classes") or {}).items():
            agg["classes"][k] = agg["classes"].get(k, 0) + v
        for k, v in (s.get("excluded") or {}).items():
            agg["excluded"][k] = agg["excluded"].get(k, 0) + v
        for smp in s.get("samples") or []:
            kinds = [x.get("kind") for x in agg["samples"]]
            if len(agg["samples"]) < 8 and kinds.count(smp.get("kind")) < 2:
                agg["samples"].append(smp)
        for w in s.get("warnings") or []:
            if w not in agg["warnings"]:
                agg["warnings"].append(w)
        for e in s.get("exhaustive") or []:
            agg["exhaustive"].add(e)
        overflow += s.get("fingerprint_overflow", 0)
        fp = t.stats + ".fp"
        if os.path.exists(fp):
            a = array.array("Q")
            data = open(fp, "rb").read()
            a.frombytes(data[: len(data) // 8 * 8])
            fps.update(a)
    # enumerated distinct cases are counted once per job (identical across shards never happens: plain jobs run once)
    agg["enum_distinct"] = agg["classes"].pop("enumerated_distinct_nontrivial", 0)
    agg["distinct"] = len(fps) + agg["enum_distinct"]
    agg["fingerprint_overflow"] = overflow
    agg["exhaustive"] = sorted(agg["exhaustive"])
    return agg


def write_evidence(pid, cfg, tier, seed, agg, wall, violations, extra):
    ev = {
        "property_id": pid,
        "tier": tier,
        "seed": seed,
        "level": cfg["level"],
        "coverage": {
            "evaluations": agg["evaluations"],
            "distinct_nontrivial": agg["distinct"],
            "rule": cfg["rule"],
            "samples": agg["samples"],
            "nontrivial_evaluations": agg["nontrivial_evaluations"],
            "class_histogram": dict(sorted(agg["classes"].items())),
            "excluded_by_known_findings": agg["excluded"],
            "generator_warnings": agg["warnings"],
            "exhaustive_subspaces": agg["exhaustive"],
            "exhaustive": bool(cfg.get("exhaustive_claim")) and bool(agg["exhaustive"]),
        },
        "assumptions": cfg.get("assumptions", []),
        "wall_s": round(wall, 2),
        "violations": violations,
    }
    ev["coverage"].update(extra)
    os.makedirs(os.path.join(VERIF, "evidence"), exist_ok=True)
    path = os.path.join(VERIF, "evidence", pid + ".json")
    tmp = path + ".tmp"
    json.dump(ev, open(tmp, "w"), indent=1, sort_keys=False, default=str)
    os.replace(tmp, path)
    return path


def plan(pid, cfg, tier, seed, bins, rundir, known, replay=None):
    """Build the task list."""
    ti = 0 if tier == "quick" else 1
    env_base = goenv()
    env_base["VERIF_TIER"] = tier
    env_base["VERIF_ROOT"] = VERIF
    env_base["VERIF_REPO_DIR"] = REPO
    env_base["VERIF_SEED_VALUE"] = str(seed)
    env_base["VERIF_EXCLUDE"] = ",".join(k["exclude"] for k in known if k["kind"] == "open" and k.get("property") == pid and k.get("exclude"))
    for k, v in bins.items():
        if k.startswith("bin:"):
            env_base["VERIF_BIN_" + k[4:].upper()] = v
    tasks = []

    def mk(job, shard, args, kind, timeout, test=None, requested=0, extra_env=None):
        cwd = os.path.join(rundir, "%s-%d" % (job["name"], shard))
        os.makedirs(cwd, exist_ok=True)
        env = dict(env_base)
        env["VERIF_STATS_OUT"] = os.path.join(cwd, "stats.json")
        env["VERIF_JOURNAL"] = os.path.join(cwd, "journal.json")
        env["VERIF_SCRATCH"] = cwd
        env["VERIF_SHARD"] = str(shard)
        env.update(job.get("env", {}))
        if extra_env:
            env.update(extra_env)
        binp = bins[job.get("pkg", cfg["pkg"])]
        if kind == "fuzz":
            binp = bins.get("fuzz:" + job.get("pkg", cfg["pkg"]), binp)
        t = Task(pid, job, shard, [binp] + args, cwd, env, timeout, kind, test, requested)
        tasks.append(t)
        return t

    for job in cfg["jobs"]:
        job = dict(job)
        job.setdefault("pkg", cfg["pkg"])
        tiers = job.get("tiers", ("quick", "thorough"))
        if tier not in tiers:
            continue
        kind = job["kind"]
        to = job.get("timeout", (120, 1800))[ti]
        if kind == "plain":
            mk(job, 0, ["-test.v", "-test.run", job["run"], "-test.timeout", "%ds" % to], kind, to + 30)
        elif kind == "rapid":
            shards = job.get("shards", (4, 16))[ti]
            checks = job.get("checks", (500, 20000))[ti]
            for s in range(shards):
                rs = derive_seed(seed, job["name"], s)
                args = [
                    "-test.v",
                    "-test.run",
                    job["run"],
                    "-test.timeout",
                    "%ds" % to,
                    "-rapid.seed=%d" % rs,
                    "-rapid.checks=%d" % checks,
                    "-rapid.shrinktime=%s" % job.get("shrinktime", "20s"),
                    "-rapid.nofailfile=false",
                ]
                mk(job, s, args, kind, to + 30, requested=checks, extra_env={"VERIF_RAPID_SEED": str(rs)})
        elif kind == "fuzz":
            ft = job.get("fuzztime", (0, 60))[ti]
            if ft <= 0:
                continue
            cwd = os.path.join(rundir, "%s-0" % job["name"])
            os.makedirs(os.path.join(cwd, "testdata", "fuzz", job["target"]), exist_ok=True)
            # seed corpus committed with the harness package
            src = os.path.join(HARNESS, job["pkg"].strip("./"), "testdata", "fuzz", job["target"])
            if os.path.isdir(src):
                for f in os.listdir(src):
                    shutil.copy(os.path.join(src, f), os.path.join(cwd, "testdata", "fuzz", job["target"], f))
            args = [
                "-test.run",
                "^$",
                "-test.fuzz",
                "^%s$" % job["target"],
                "-test.fuzztime",
                "%ds" % ft,
                "-test.fuzzcachedir",
                os.path.join(cwd, "fuzzcache"),
                "-test.timeout",
                "%ds" % (ft + 300),
                "-test.parallel",
                str(job.get("parallel", NCPU)),
            ]
            mk(job, 0, args, kind, ft + 330)
    return tasks


def run_witnesses(pid, cfg, bins, rundir, known):
    """Replay the witness of each open finding; print KNOWN-FINDING while it still fails."""
    lines = []
    env = goenv()
    env["VERIF_TIER"] = "quick"
    env["VERIF_WITNESS"] = "1"
    for k in known:
        if k["kind"] != "open" or k.get("property") != pid or not k.get("witness"):
            continue
        pkg = k.get("pkg", cfg["pkg"])
        cwd = os.path.join(rundir, "witness-" + k["witness"])
        os.makedirs(cwd, exist_ok=True)
        lf = os.path.join(cwd, "output.log")
        rc, to = run_proc([bins[pkg], "-test.run", "^%s$" % k["witness"], "-test.timeout", "120s", "-test.v"], cwd, env, 150, lf)
        text = open(lf, errors="replace").read()
        ran = re.search(r"^=== RUN\s+%s\b" % re.escape(k["witness"]), text, re.M)
        if not ran:
            log("WITNESS-MISSING property=%s witness=%s (listed in known-findings.txt but no such test)" % (pid, k["witness"]))
            continue
        if rc != 0 and not to:
            lines.append("KNOWN-FINDING: property=%s %s [%s]" % (pid, k["desc"], k.get("id", k["witness"])))
        else:
            log("note: witness %s of open finding no longer fails" % k["witness"])
    return lines


def do_replay(pid, cfg, bins, path, known):
    path = os.path.abspath(path)
    meta = {}
    if os.path.exists(path + ".meta.json"):
        meta = json.load(open(path + ".meta.json"))
    rundir = os.path.join(BUILD, "run", pid + "-replay")
    shutil.rmtree(rundir, ignore_errors=True)
    os.makedirs(rundir)
    env = goenv()
    env["VERIF_TIER"] = "quick"
    env["VERIF_ROOT"] = VERIF
    env["VERIF_SCRATCH"] = rundir
    env["VERIF_REPLAY_CASE"] = path
    env["VERIF_EXCLUDE"] = ",".join(k["exclude"] for k in known if k["kind"] == "open" and k.get("property") == pid and k.get("exclude"))
    for k, v in bins.items():
        if k.startswith("bin:"):
            env["VERIF_BIN_" + k[4:].upper()] = v
    pkg = meta.get("pkg") or cfg["pkg"]
    binp = bins[pkg]
    kind = meta.get("kind", "rapid" if path.endswith(".fail") else "plain")
    if kind == "rapid":
        cmd = [binp, "-test.v", "-test.run", meta.get("test", "."), "-rapid.failfile=" + path, "-test.timeout", "300s"]
    elif kind == "fuzz":
        tgt = meta["test"]
        d = os.path.join(rundir, "testdata", "fuzz", tgt)
        os.makedirs(d)
        shutil.copy(path, os.path.join(d, "replay"))
        cmd = [binp, "-test.v", "-test.run", "^%s$/replay" % tgt, "-test.timeout", "300s"]
    else:
        cmd = [binp, "-test.v", "-test.run", meta.get("test", "."), "-test.timeout", "600s"]
    lf = os.path.join(rundir, "output.log")
    rc, to = run_proc(cmd, rundir, env, 700, lf)
    sys.stdout.write(open(lf, errors="replace").read()[-20000:])
    if to:
        log("INCONCLUSIVE property=%s replay timed out" % pid)
        return 2
    if rc != 0:
        log("VIOLATION property=%s replay=%s" % (pid, path))
        return 1
    log("replay passed: property=%s %s" % (pid, path))
    return 0


def main(argv):
    ap = argparse.ArgumentParser()
    ap.add_argument("prop")
    ap.add_argument("--tier", default=os.environ.get("VERIF_TIER") or "quick", choices=["quick", "thorough"])
    ap.add_argument("--replay")
    ap.add_argument("--jobs", help="comma separated job names (development)")
    a = ap.parse_args(argv)
    pid = a.prop.upper()
    if pid not in props.PROPS:
        log("unknown property " + pid)
        return 2
    cfg = props.PROPS[pid]
    try:
        seed = int(os.environ.get("VERIF_SEED", "1") or "1")
    except ValueError:
        seed = 1
    t0 = time.time()
    known = load_known()
    bins = build(pid, cfg, a.tier)
    if bins is None:
        return 2
    if a.replay:
        return do_replay(pid, cfg, bins, a.replay, known)

    rundir = os.path.join(BUILD, "run", "%s-%s-%d" % (pid, a.tier, os.getpid()))
    shutil.rmtree(rundir, ignore_errors=True)
    os.makedirs(rundir)
    if a.jobs:
        cfg = dict(cfg)
        cfg["jobs"] = [j for j in cfg["jobs"] if j["name"] in a.jobs.split(",")]

    known_lines = run_witnesses(pid, cfg, bins, rundir, known)
    tasks = plan(pid, cfg, a.tier, seed, bins, rundir, known)
    # fuzz jobs use all cores themselves: run them after the sharded jobs, one at a time
    par = [t for t in tasks if t.kind != "fuzz"]
    seq = [t for t in tasks if t.kind == "fuzz"]
    workers = int(os.environ.get("VERIF_WORKERS", str(NCPU)))
    with cf.ThreadPoolExecutor(max_workers=workers) as ex:
        list(ex.map(lambda t: t.run(), par))
    stop_fuzz = False
    for t in seq:
        if not stop_fuzz:
            t.run()

    violations = []
    inconclusive = []
    shortfalls = []
    passed_total = 0
    fuzz_execs = 0
    for t in tasks:
        if t.rc is None:
            continue
        verdict, fails, text = classify(t)
        if t.kind == "rapid":
            oks = [int(x) for x in RAPID_OK_RE.findall(text)]
            passed_total += sum(oks)
            for n in oks:
                if n < t.requested:
                    shortfalls.append("%s shard %d: %d of %d cases" % (t.job["name"], t.shard, n, t.requested))
        if t.kind == "fuzz":
            ex = FUZZ_EXEC_RE.findall(text)
            if ex:
                fuzz_execs += int(ex[-1])
        if verdict == "violation":
            for test, rp in save_replay(pid, t, text, fails):
                violations.append((t, test, rp, text))
        elif verdict == "inconclusive":
            inconclusive.append(t)

    agg = merge_stats(tasks)
    if fuzz_execs:
        agg["classes"]["native_fuzz_execs"] = fuzz_execs
        agg["evaluations"] += fuzz_execs
    extra = {
        "shards": len([t for t in tasks if t.kind == "rapid"]),
        "rapid_cases_passed": passed_total,
        "rapid_shortfalls": shortfalls,
        "jobs": sorted({t.job["name"] for t in tasks}),
        "known_findings_reported": known_lines,
        "inconclusive_tasks": ["%s-%d" % (t.job["name"], t.shard) for t in inconclusive],
    }
    wall = time.time() - t0
    write_evidence(pid, cfg, a.tier, seed, agg, wall, len(violations), extra)

    for ln in known_lines:
        log(ln)
    log(
        "property=%s tier=%s seed=%d evaluations=%d distinct_nontrivial=%d tasks=%d wall=%.1fs"
        % (pid, a.tier, seed, agg["evaluations"], agg["distinct"], len(tasks), wall)
    )
    for w in agg["warnings"]:
        log("generator-warning: " + w)
    if violations:
        shown = set()
        for t, test, rp, text in violations:
            key = (t.job["name"], test)
            if key in shown:
                continue
            shown.add(key)
            if len(shown) <= 4:
                body = text
                i = body.find("--- FAIL")
                j = body.find("[rapid] failed")
                k = min([x for x in (i, j) if x >= 0] or [max(0, len(body) - 3000)])
                sys.stdout.write("---- job %s shard %d test %s\n%s\n" % (t.job["name"], t.shard, test or "(process died)", body[max(0, k - 1500):k + 2500]))
        seen = set()
        for t, test, rp, text in violations:
            key = (t.job["name"], test)
            if key in seen:
                continue
            seen.add(key)
            log("VIOLATION property=%s replay=%s" % (pid, os.path.relpath(rp, VERIF)))
        return 1
    if inconclusive:
        for t in inconclusive:
            log("INCONCLUSIVE property=%s task=%s-%d (timeout or worker death; see %s)" % (pid, t.job["name"], t.shard, t.log))
        return 2
    if os.environ.get("VERIF_KEEP_RUN") != "1":
        shutil.rmtree(rundir, ignore_errors=True)
    return 0
