#!/usr/bin/env python3
"""Development helper: confirm a seeded change and run the property's check against it.
usage: tools_seed.py <ID> <n> [--demo-pkg ./formats/varint] [--tier quick]
Reads /tmp/seed/<ID>-out/<n>.patch and <n>_demo_test.go (or a demo given in <n>.md), verifies in the scratch clone
/dev/shm/repo-m (reset to /repo HEAD): demo passes without the patch, fails with it; then runs ./check <ID> with
VERIF_REPO pointing at the patched clone; stores everything under /verif/seeded/<ID>-<n>/ and prints a summary."""
import json, os, re, shutil, subprocess, sys, time

pid, n = sys.argv[1], sys.argv[2]
args = sys.argv[3:]
tier = "quick"
demo_pkg = None
run_re = None
store_as = n
demo_tags = ""
out = "/tmp/seed/%s-out" % pid
for i, a in enumerate(args):
    if a == "--src": out = args[i+1]
    if a == "--store-as": store_as = args[i+1]
    if a == "--tier": tier = args[i+1]
    if a == "--demo-tags": demo_tags = args[i+1]
    if a == "--demo-pkg": demo_pkg = args[i+1]
    if a == "--run": run_re = args[i+1]
clone = os.environ.get("SEED_CLONE", "/dev/shm/repo-m")
env = dict(os.environ, GOFLAGS="-mod=mod", GOPROXY="off", GOSUMDB="off", GOTOOLCHAIN="local")

def sh(cmd, cwd=None, timeout=1800, e=env):
    r = subprocess.run(cmd, cwd=cwd, env=e, shell=isinstance(cmd, str), stdout=subprocess.PIPE, stderr=subprocess.STDOUT, text=True, timeout=timeout)
    return r.returncode, r.stdout

head = subprocess.run(["git","-C","/repo","rev-parse","HEAD"],stdout=subprocess.PIPE,text=True).stdout.strip()
sh("git fetch -q /repo main && git reset -q --hard FETCH_HEAD && git clean -fdq", cwd=clone)
patch = os.path.join(out, n + ".patch")
demo = os.path.join(out, n + "_demo_test.go")
res = {"property": pid, "seed": n, "repo_head": head}
# where does the demo go: package of the first patched file unless given
files = re.findall(r"^\+\+\+ b/(\S+)", open(patch).read(), re.M)
if demo_pkg is None:
    demo_pkg = "./" + os.path.dirname(files[0])
res["files"] = files
dst = None
if os.path.exists(demo):
    dst = os.path.join(clone, demo_pkg, "zz_seed_%s_test.go" % n)
    os.makedirs(os.path.dirname(dst), exist_ok=True)
    shutil.copy(demo, dst)
    src = open(demo).read()
    m = re.findall(r"^func (Test\w+)\(", src, re.M)
    run = run_re or ("^(" + "|".join(m) + ")$")
    demo_cmd = "go test %s -vet=off -count=1 -run '%s' %s" % (("-tags " + demo_tags) if demo_tags else "", run, demo_pkg)
else:
    demo_cmd = None
def run_demo():
    if not demo_cmd: return None, ""
    return sh(demo_cmd + " 2>&1 | tail -15", cwd=clone, timeout=900)
rc0, o0 = sh("bash -c \"set -o pipefail; %s | tail -15\"" % demo_cmd, cwd=clone) if demo_cmd else (None, "")
res["demo_clean_rc"] = rc0
rc, o = sh(["git", "apply", patch], cwd=clone)
if rc != 0:
    print("PATCH DOES NOT APPLY", o); sys.exit(3)
rcb, ob = sh("go build ./... 2>&1 | tail -5", cwd=clone)
rc1, o1 = sh("bash -c \"set -o pipefail; %s | tail -25\"" % demo_cmd, cwd=clone) if demo_cmd else (None, "")
res["demo_patched_rc"] = rc1
# existing tests of the touched packages
pkgs = sorted({"./" + os.path.dirname(f) + "/..." for f in files})
if dst: os.remove(dst)
rct, ot = sh("go test -vet=off -count=1 %s 2>&1 | grep -v 'no test files' | tail -12" % " ".join(pkgs), cwd=clone, timeout=1500)
res["existing_tests"] = ot.strip().splitlines()[-6:]
# the check
t0 = time.time()
e2 = dict(env, VERIF_REPO=clone, VERIF_SEED=os.environ.get("VERIF_SEED", "1"))
rcc, oc = sh(["./check", pid, "--tier", tier], cwd="/verif", e=e2, timeout=7200)
lines = [l for l in oc.splitlines() if l.startswith(("VIOLATION", "property=", "KNOWN", "INCONCL", "BUILD")) or "failed after" in l or re.match(r"\s+\S+_test.go:\d+: [A-Z]\d\d", l)]
res["check_exit"] = rcc
res["check_wall_s"] = round(time.time() - t0, 1)
res["check_lines"] = [l[:400] for l in lines[:8]]
sh("git checkout -- . && git clean -fdq", cwd=clone)
sd = "/verif/seeded/%s-%s" % (pid, store_as)
os.makedirs(sd, exist_ok=True)
shutil.copy(patch, os.path.join(sd, "patch.diff"))
if os.path.exists(demo): shutil.copy(demo, os.path.join(sd, "demo_test.go"))
md = os.path.join(out, n + ".md")
if os.path.exists(md): shutil.copy(md, os.path.join(sd, "notes.md"))
meta = {
    "property": pid, "patch": "patch.diff", "demo": "demo_test.go (copy into %s as zz_seed_test.go; %s)" % (demo_pkg, demo_cmd),
    "needs_to_manifest": "see notes.md", "repo_head_when_made": head,
    "confirmed": {"demo_passes_without_patch": rc0 == 0, "demo_fails_with_patch": rc1 not in (0, None), "existing_tests_tail": res["existing_tests"]},
    "check_result": {"cmd": "VERIF_REPO=<patched clone> ./check %s --tier %s" % (pid, tier), "exit": rcc, "wall_s": res["check_wall_s"], "lines": res["check_lines"]},
}
json.dump(meta, open(os.path.join(sd, "meta.json"), "w"), indent=1)
print(json.dumps(res, indent=1))
if rc1 == 0: print("WARNING demo did not fail with patch:\n", o1)
if rc0 != 0 and rc0 is not None: print("WARNING demo fails on clean tree:\n", o0)
