/*
 * sysstep - ptrace system-call stepper used by the C17 check (crash points).
 *
 *   sysstep <dir> <K> <logfile> -- <writer> [args...]
 *
 * Runs <writer> under ptrace, follows all of its threads and children, and at
 * every system-call ENTRY classifies the call.  A call is *counted* when it
 * mutates the file system (create/open-for-writing, write, fsync, truncate,
 * chmod/chown, rename, unlink, mkdir, symlink, link, copy_file_range, sendfile,
 * splice, fallocate, utimensat, mknod, xattr changes) AND one of the paths it
 * refers to (path arguments resolved against their dirfd, descriptor arguments
 * resolved through /proc/<tid>/fd/<n>) is <dir> itself or lies below it.
 *
 * Every counted call appends one line to <logfile> when it is entered
 *
 *     C <index> <tid> <syscall> <detail> <path1> [<path2>]      (tab separated)
 *
 * and one line when it returns
 *
 *     R <index> <return value>
 *
 * When the K-th counted call is entered (K >= 1) the whole process group of the
 * writer receives SIGKILL while the calling thread still sits in its
 * syscall-entry stop: the kernel never executes that call.  The last log line is
 * then "K <index>".  With K = 0 nothing is killed and the log holds the whole
 * sequence.  The log always ends with a line "E <n> <how>" (n = number of counted
 * calls entered).
 *
 * Exit status:
 *    0   writer ran to completion and exited with status 0, fewer than K calls
 *        were counted (always the case for K = 0)
 *   10   writer was killed before its K-th counted call
 *   12   writer ended on its own with a non-zero status or by a signal
 *    2   usage / ptrace / internal error (message on stderr)
 *
 * x86-64 Linux only (uses PTRACE_GET_SYSCALL_INFO, Linux >= 5.3).
 */
#define _GNU_SOURCE
#include <errno.h>
#include <fcntl.h>
#include <limits.h>
#include <signal.h>
#include <stdarg.h>
#include <stdint.h>
#include <stdio.h>
#include <stdlib.h>
#include <string.h>
#include <sys/ptrace.h>
#include <sys/syscall.h>
#include <sys/types.h>
#include <sys/uio.h>
#include <sys/wait.h>
#include <unistd.h>

#ifndef __x86_64__
#error "sysstep supports x86-64 only"
#endif

/* ---- ptrace syscall info (own definition: independent of header versions) */

#ifndef PTRACE_GET_SYSCALL_INFO
#define PTRACE_GET_SYSCALL_INFO 0x420e
#endif
#define SI_OP_NONE 0
#define SI_OP_ENTRY 1
#define SI_OP_EXIT 2
#define SI_OP_SECCOMP 3

struct sc_info {
	uint8_t op;
	uint8_t pad[3];
	uint32_t arch;
	uint64_t instruction_pointer;
	uint64_t stack_pointer;
	union {
		struct {
			uint64_t nr;
			uint64_t args[6];
		} entry;
		struct {
			int64_t rval;
			uint8_t is_error;
		} exit;
		struct {
			uint64_t nr;
			uint64_t args[6];
			uint32_t ret_data;
		} seccomp;
	};
};

/* ---- syscall numbers that may be missing from old headers */
#ifndef SYS_renameat2
#define SYS_renameat2 316
#endif
#ifndef SYS_copy_file_range
#define SYS_copy_file_range 326
#endif
#ifndef SYS_pwritev2
#define SYS_pwritev2 328
#endif
#ifndef SYS_openat2
#define SYS_openat2 437
#endif
#ifndef SYS_fchmodat2
#define SYS_fchmodat2 452
#endif
#ifndef O_TMPFILE
#define O_TMPFILE 020200000
#endif

static void die(const char *fmt, ...)
{
	va_list ap;
	va_start(ap, fmt);
	fprintf(stderr, "sysstep: ");
	vfprintf(stderr, fmt, ap);
	fprintf(stderr, "\n");
	va_end(ap);
	exit(2);
}

/* ---- per-thread table */

struct thr {
	pid_t tid;
	int used;
	int seen_first_stop; /* the initial SIGSTOP of an auto-attached task was consumed */
	long pending;        /* index of the counted call this thread is inside, 0 if none */
};

#define MAXTHR 4096
static struct thr thrs[MAXTHR];
static int nthr;
static int hiwater; /* slots >= hiwater were never used */

static struct thr *thr_get(pid_t tid, int create)
{
	int i, free_slot = -1;
	for (i = 0; i < hiwater; i++) {
		if (thrs[i].used && thrs[i].tid == tid)
			return &thrs[i];
		if (!thrs[i].used && free_slot < 0)
			free_slot = i;
	}
	if (!create)
		return NULL;
	if (free_slot < 0 && hiwater < MAXTHR)
		free_slot = hiwater++;
	if (free_slot < 0)
		die("too many threads");
	memset(&thrs[free_slot], 0, sizeof(thrs[free_slot]));
	thrs[free_slot].used = 1;
	thrs[free_slot].tid = tid;
	nthr++;
	return &thrs[free_slot];
}

static void thr_del(pid_t tid)
{
	struct thr *t = thr_get(tid, 0);
	if (t) {
		t->used = 0;
		nthr--;
	}
}

/* ---- reading tracee memory */

static int read_mem(pid_t tid, uint64_t addr, void *buf, size_t len)
{
	struct iovec l = {buf, len}, r = {(void *)addr, len};
	ssize_t n = process_vm_readv(tid, &l, 1, &r, 1, 0);
	size_t off;
	if (n == (ssize_t)len)
		return 0;
	/* fall back to PTRACE_PEEKDATA, word by word */
	for (off = 0; off < len; off += sizeof(long)) {
		long w;
		size_t c = len - off < sizeof(long) ? len - off : sizeof(long);
		errno = 0;
		w = ptrace(PTRACE_PEEKDATA, tid, (void *)(addr + off), NULL);
		if (errno)
			return -1;
		memcpy((char *)buf + off, &w, c);
	}
	return 0;
}

/* read a NUL terminated string; never crosses a page boundary in one read */
static int read_str(pid_t tid, uint64_t addr, char *out, size_t cap)
{
	size_t got = 0;
	if (addr == 0) {
		out[0] = 0;
		return -1;
	}
	while (got + 1 < cap) {
		size_t page_left = 4096 - ((addr + got) & 4095);
		size_t want = cap - 1 - got;
		size_t i;
		if (want > page_left)
			want = page_left;
		if (read_mem(tid, addr + got, out + got, want) != 0) {
			/* try byte-wise up to the failure */
			want = 1;
			if (read_mem(tid, addr + got, out + got, 1) != 0) {
				out[got] = 0;
				return got ? 0 : -1;
			}
		}
		for (i = 0; i < want; i++) {
			if (out[got + i] == 0)
				return 0;
		}
		got += want;
	}
	out[got] = 0;
	return 0;
}

/* ---- path handling */

static char root[PATH_MAX];
static size_t rootlen;

/* lexical clean-up of an absolute path: removes "//", "/./", "/../" */
static void lex_clean(char *p)
{
	char tmp[PATH_MAX * 2];
	size_t n = 0;
	const char *s = p;
	if (*s != '/')
		return;
	while (*s) {
		const char *e;
		size_t l;
		while (*s == '/')
			s++;
		if (!*s)
			break;
		e = strchr(s, '/');
		l = e ? (size_t)(e - s) : strlen(s);
		if (l == 1 && s[0] == '.') {
			/* skip */
		} else if (l == 2 && s[0] == '.' && s[1] == '.') {
			while (n > 0 && tmp[n - 1] != '/')
				n--;
			if (n > 0)
				n--;
		} else {
			if (n + l + 2 >= sizeof(tmp))
				break;
			tmp[n++] = '/';
			memcpy(tmp + n, s, l);
			n += l;
		}
		s += l;
	}
	if (n == 0)
		tmp[n++] = '/';
	tmp[n] = 0;
	strncpy(p, tmp, PATH_MAX - 1);
	p[PATH_MAX - 1] = 0;
}

static int fd_path(pid_t tid, long fd, char *out, size_t cap)
{
	char link[64];
	ssize_t n;
	if ((int)fd == AT_FDCWD)
		snprintf(link, sizeof(link), "/proc/%d/cwd", tid);
	else
		snprintf(link, sizeof(link), "/proc/%d/fd/%ld", tid, fd);
	n = readlink(link, out, cap - 1);
	if (n < 0) {
		out[0] = 0;
		return -1;
	}
	out[n] = 0;
	return 0;
}

/*
 * Resolve the path argument `addr` of thread `tid` relative to `dirfd` into an
 * absolute path.  The directory part is resolved through the file system (so a
 * sandbox reached over a symlink is still recognised); the last component is
 * kept as written (rename/unlink/symlink act on the link itself).
 */
static int resolve_path(pid_t tid, long dirfd, uint64_t addr, char *out)
{
	char raw[PATH_MAX], full[PATH_MAX * 2], dirpart[PATH_MAX * 2], real[PATH_MAX];
	char *slash;
	if (read_str(tid, addr, raw, sizeof(raw)) != 0) {
		out[0] = 0;
		return -1;
	}
	if (raw[0] == '/') {
		snprintf(full, sizeof(full), "%s", raw);
	} else {
		char base[PATH_MAX];
		if (fd_path(tid, dirfd, base, sizeof(base)) != 0) {
			snprintf(out, PATH_MAX, "?/%s", raw);
			return -1;
		}
		if (raw[0] == 0)
			snprintf(full, sizeof(full), "%s", base); /* AT_EMPTY_PATH */
		else
			snprintf(full, sizeof(full), "%s/%s", base, raw);
	}
	if (strlen(full) >= PATH_MAX)
		full[PATH_MAX - 1] = 0;
	lex_clean(full);
	/* resolve the directory part */
	snprintf(dirpart, sizeof(dirpart), "%s", full);
	slash = strrchr(dirpart, '/');
	if (slash && slash != dirpart) {
		*slash = 0;
		if (realpath(dirpart, real) != NULL) {
			snprintf(out, PATH_MAX, "%s/%s", strcmp(real, "/") == 0 ? "" : real, slash + 1);
			return 0;
		}
	}
	snprintf(out, PATH_MAX, "%s", full);
	return 0;
}

static int under_root(const char *p)
{
	if (strncmp(p, root, rootlen) != 0)
		return 0;
	return p[rootlen] == 0 || p[rootlen] == '/' || p[rootlen] == ' ' /* "dir (deleted)" */;
}

/* ---- classification */

struct call {
	const char *name;
	char detail[96];
	char p1[PATH_MAX];
	char p2[PATH_MAX];
	int np;
};

static int open_mutates(uint64_t flags)
{
	if ((flags & O_ACCMODE) == O_WRONLY || (flags & O_ACCMODE) == O_RDWR)
		return 1;
	if (flags & (O_CREAT | O_TRUNC))
		return 1;
	if ((flags & O_TMPFILE) == O_TMPFILE)
		return 1;
	return 0;
}

/* returns 1 when the call is a mutating one (paths filled in), 0 otherwise */
static int classify(pid_t tid, uint64_t nr, const uint64_t *a, struct call *c)
{
	c->np = 0;
	c->detail[0] = 0;
	c->p1[0] = c->p2[0] = 0;

#define PATH1(dirfd, addr)                          \
	do {                                        \
		resolve_path(tid, dirfd, addr, c->p1); \
		c->np = 1;                          \
	} while (0)
#define PATH2(dirfd, addr)                          \
	do {                                        \
		resolve_path(tid, dirfd, addr, c->p2); \
		c->np = 2;                          \
	} while (0)
#define FD1(fd)                                        \
	do {                                           \
		fd_path(tid, (long)(int)(fd), c->p1, sizeof(c->p1)); \
		c->np = 1;                             \
	} while (0)

	switch (nr) {
	case SYS_open:
		if (!open_mutates(a[1]))
			return 0;
		c->name = "open";
		snprintf(c->detail, sizeof(c->detail), "flags=0%llo mode=0%llo", (unsigned long long)a[1], (unsigned long long)a[2]);
		PATH1(AT_FDCWD, a[0]);
		return 1;
	case SYS_creat:
		c->name = "creat";
		snprintf(c->detail, sizeof(c->detail), "mode=0%llo", (unsigned long long)a[1]);
		PATH1(AT_FDCWD, a[0]);
		return 1;
	case SYS_openat:
		if (!open_mutates(a[2]))
			return 0;
		c->name = "openat";
		snprintf(c->detail, sizeof(c->detail), "flags=0%llo mode=0%llo", (unsigned long long)a[2], (unsigned long long)a[3]);
		PATH1((long)(int)a[0], a[1]);
		return 1;
	case SYS_openat2: {
		uint64_t how[3] = {0, 0, 0};
		size_t sz = a[3] < sizeof(how) ? a[3] : sizeof(how);
		if (read_mem(tid, a[2], how, sz) != 0)
			return 0;
		if (!open_mutates(how[0]))
			return 0;
		c->name = "openat2";
		snprintf(c->detail, sizeof(c->detail), "flags=0%llo mode=0%llo", (unsigned long long)how[0], (unsigned long long)how[1]);
		PATH1((long)(int)a[0], a[1]);
		return 1;
	}
	case SYS_write:
		c->name = "write";
		goto fdlen;
	case SYS_pwrite64:
		c->name = "pwrite64";
	fdlen:
		snprintf(c->detail, sizeof(c->detail), "len=%llu", (unsigned long long)a[2]);
		FD1(a[0]);
		return 1;
	case SYS_writev:
		c->name = "writev";
		goto fdvec;
	case SYS_pwritev:
		c->name = "pwritev";
		goto fdvec;
	case SYS_pwritev2:
		c->name = "pwritev2";
	fdvec:
		snprintf(c->detail, sizeof(c->detail), "iovcnt=%llu", (unsigned long long)a[2]);
		FD1(a[0]);
		return 1;
	case SYS_fsync:
		c->name = "fsync";
		FD1(a[0]);
		return 1;
	case SYS_fdatasync:
		c->name = "fdatasync";
		FD1(a[0]);
		return 1;
	case SYS_sync_file_range:
		c->name = "sync_file_range";
		FD1(a[0]);
		return 1;
	case SYS_syncfs:
		c->name = "syncfs";
		FD1(a[0]);
		return 1;
	case SYS_ftruncate:
		c->name = "ftruncate";
		snprintf(c->detail, sizeof(c->detail), "len=%llu", (unsigned long long)a[1]);
		FD1(a[0]);
		return 1;
	case SYS_truncate:
		c->name = "truncate";
		snprintf(c->detail, sizeof(c->detail), "len=%llu", (unsigned long long)a[1]);
		PATH1(AT_FDCWD, a[0]);
		return 1;
	case SYS_fallocate:
		c->name = "fallocate";
		snprintf(c->detail, sizeof(c->detail), "mode=%llu off=%llu len=%llu", (unsigned long long)a[1], (unsigned long long)a[2], (unsigned long long)a[3]);
		FD1(a[0]);
		return 1;
	case SYS_fchmod:
		c->name = "fchmod";
		snprintf(c->detail, sizeof(c->detail), "mode=0%llo", (unsigned long long)a[1]);
		FD1(a[0]);
		return 1;
	case SYS_chmod:
		c->name = "chmod";
		snprintf(c->detail, sizeof(c->detail), "mode=0%llo", (unsigned long long)a[1]);
		PATH1(AT_FDCWD, a[0]);
		return 1;
	case SYS_fchmodat:
		c->name = "fchmodat";
		goto chmodat;
	case SYS_fchmodat2:
		c->name = "fchmodat2";
	chmodat:
		snprintf(c->detail, sizeof(c->detail), "mode=0%llo", (unsigned long long)a[2]);
		PATH1((long)(int)a[0], a[1]);
		return 1;
	case SYS_fchown:
		c->name = "fchown";
		FD1(a[0]);
		return 1;
	case SYS_chown:
		c->name = "chown";
		PATH1(AT_FDCWD, a[0]);
		return 1;
	case SYS_lchown:
		c->name = "lchown";
		PATH1(AT_FDCWD, a[0]);
		return 1;
	case SYS_fchownat:
		c->name = "fchownat";
		PATH1((long)(int)a[0], a[1]);
		return 1;
	case SYS_rename:
		c->name = "rename";
		PATH1(AT_FDCWD, a[0]);
		PATH2(AT_FDCWD, a[1]);
		return 1;
	case SYS_renameat:
		c->name = "renameat";
		PATH1((long)(int)a[0], a[1]);
		PATH2((long)(int)a[2], a[3]);
		return 1;
	case SYS_renameat2:
		c->name = "renameat2";
		snprintf(c->detail, sizeof(c->detail), "flags=%llu", (unsigned long long)a[4]);
		PATH1((long)(int)a[0], a[1]);
		PATH2((long)(int)a[2], a[3]);
		return 1;
	case SYS_unlink:
		c->name = "unlink";
		PATH1(AT_FDCWD, a[0]);
		return 1;
	case SYS_rmdir:
		c->name = "rmdir";
		PATH1(AT_FDCWD, a[0]);
		return 1;
	case SYS_unlinkat:
		c->name = "unlinkat";
		snprintf(c->detail, sizeof(c->detail), "flags=0x%llx", (unsigned long long)a[2]);
		PATH1((long)(int)a[0], a[1]);
		return 1;
	case SYS_mkdir:
		c->name = "mkdir";
		snprintf(c->detail, sizeof(c->detail), "mode=0%llo", (unsigned long long)a[1]);
		PATH1(AT_FDCWD, a[0]);
		return 1;
	case SYS_mkdirat:
		c->name = "mkdirat";
		snprintf(c->detail, sizeof(c->detail), "mode=0%llo", (unsigned long long)a[2]);
		PATH1((long)(int)a[0], a[1]);
		return 1;
	case SYS_mknod:
		c->name = "mknod";
		PATH1(AT_FDCWD, a[0]);
		return 1;
	case SYS_mknodat:
		c->name = "mknodat";
		PATH1((long)(int)a[0], a[1]);
		return 1;
	case SYS_symlink: /* symlink(target, linkpath): only linkpath is a location */
		c->name = "symlink";
		PATH1(AT_FDCWD, a[1]);
		read_str(tid, a[0], c->detail, sizeof(c->detail));
		return 1;
	case SYS_symlinkat: /* symlinkat(target, newdirfd, linkpath) */
		c->name = "symlinkat";
		PATH1((long)(int)a[1], a[2]);
		read_str(tid, a[0], c->detail, sizeof(c->detail));
		return 1;
	case SYS_link:
		c->name = "link";
		PATH1(AT_FDCWD, a[0]);
		PATH2(AT_FDCWD, a[1]);
		return 1;
	case SYS_linkat:
		c->name = "linkat";
		PATH1((long)(int)a[0], a[1]);
		PATH2((long)(int)a[2], a[3]);
		return 1;
	case SYS_copy_file_range: /* (fd_in, off_in, fd_out, off_out, len, flags) */
		c->name = "copy_file_range";
		snprintf(c->detail, sizeof(c->detail), "len=%llu", (unsigned long long)a[4]);
		FD1(a[2]);
		return 1;
	case SYS_sendfile: /* (out_fd, in_fd, offset, count) */
		c->name = "sendfile";
		snprintf(c->detail, sizeof(c->detail), "len=%llu", (unsigned long long)a[3]);
		FD1(a[0]);
		return 1;
	case SYS_splice: /* (fd_in, off_in, fd_out, off_out, len, flags) */
		c->name = "splice";
		snprintf(c->detail, sizeof(c->detail), "len=%llu", (unsigned long long)a[4]);
		FD1(a[2]);
		return 1;
	case SYS_utimensat:
		c->name = "utimensat";
		if (a[1] == 0)
			FD1(a[0]);
		else
			PATH1((long)(int)a[0], a[1]);
		return 1;
	case SYS_utime:
		c->name = "utime";
		PATH1(AT_FDCWD, a[0]);
		return 1;
	case SYS_utimes:
		c->name = "utimes";
		PATH1(AT_FDCWD, a[0]);
		return 1;
	case SYS_futimesat:
		c->name = "futimesat";
		PATH1((long)(int)a[0], a[1]);
		return 1;
	case SYS_setxattr:
		c->name = "setxattr";
		PATH1(AT_FDCWD, a[0]);
		return 1;
	case SYS_lsetxattr:
		c->name = "lsetxattr";
		PATH1(AT_FDCWD, a[0]);
		return 1;
	case SYS_fsetxattr:
		c->name = "fsetxattr";
		FD1(a[0]);
		return 1;
	case SYS_removexattr:
		c->name = "removexattr";
		PATH1(AT_FDCWD, a[0]);
		return 1;
	case SYS_lremovexattr:
		c->name = "lremovexattr";
		PATH1(AT_FDCWD, a[0]);
		return 1;
	case SYS_fremovexattr:
		c->name = "fremovexattr";
		FD1(a[0]);
		return 1;
	default:
		return 0;
	}
}

/* ---- log */

static int logfd = -1;

static void logf_(const char *fmt, ...)
{
	char buf[3 * PATH_MAX];
	va_list ap;
	int n;
	va_start(ap, fmt);
	n = vsnprintf(buf, sizeof(buf), fmt, ap);
	va_end(ap);
	if (n < 0)
		return;
	if ((size_t)n >= sizeof(buf))
		n = sizeof(buf) - 1;
	if (write(logfd, buf, (size_t)n) != n)
		die("cannot write log: %s", strerror(errno));
}

static void sanitize(char *s)
{
	for (; *s; s++)
		if (*s == '\t' || *s == '\n' || *s == '\r')
			*s = '?';
}

/* ---- main loop */

static void reap_all(void)
{
	int st;
	while (waitpid(-1, &st, __WALL) > 0 || errno == EINTR)
		;
}

int main(int argc, char **argv)
{
	long K, count = 0;
	char *end;
	pid_t child;
	int st, i;
	int main_status = -1; /* wait status of the writer's main thread group */
	unsigned long opts = PTRACE_O_TRACESYSGOOD | PTRACE_O_TRACECLONE | PTRACE_O_TRACEFORK | PTRACE_O_TRACEVFORK |
			     PTRACE_O_TRACEEXEC | PTRACE_O_EXITKILL;

	if (argc < 6 || strcmp(argv[4], "--") != 0) {
		fprintf(stderr, "usage: sysstep <dir> <K> <logfile> -- <writer> [args...]\n");
		return 2;
	}
	if (realpath(argv[1], root) == NULL)
		die("cannot resolve %s: %s", argv[1], strerror(errno));
	rootlen = strlen(root);
	if (rootlen <= 1)
		die("refusing to use / as sandbox");
	K = strtol(argv[2], &end, 10);
	if (*end || K < 0)
		die("bad K %s", argv[2]);
	logfd = open(argv[3], O_WRONLY | O_CREAT | O_TRUNC | O_APPEND | O_CLOEXEC, 0644);
	if (logfd < 0)
		die("cannot open log %s: %s", argv[3], strerror(errno));

	child = fork();
	if (child < 0)
		die("fork: %s", strerror(errno));
	if (child == 0) {
		setpgid(0, 0);
		if (ptrace(PTRACE_TRACEME, 0, NULL, NULL) != 0) {
			perror("sysstep: PTRACE_TRACEME");
			_exit(127);
		}
		raise(SIGSTOP);
		execvp(argv[5], argv + 5);
		perror("sysstep: exec");
		_exit(127);
	}
	setpgid(child, child); /* also from the parent: no race with the kill below */

	if (waitpid(child, &st, __WALL) != child || !WIFSTOPPED(st))
		die("writer did not stop after PTRACE_TRACEME");
	if (ptrace(PTRACE_SETOPTIONS, child, NULL, (void *)opts) != 0) {
		int e = errno;
		kill(child, SIGKILL);
		die("PTRACE_SETOPTIONS: %s", strerror(e));
	}
	{
		struct thr *t = thr_get(child, 1);
		t->seen_first_stop = 1;
	}
	if (ptrace(PTRACE_SYSCALL, child, NULL, NULL) != 0)
		die("PTRACE_SYSCALL: %s", strerror(errno));

	for (;;) {
		pid_t tid = waitpid(-1, &st, __WALL);
		struct thr *t;
		int sig, event;
		long deliver = 0;

		if (tid < 0) {
			if (errno == EINTR)
				continue;
			if (errno == ECHILD)
				break;
			die("waitpid: %s", strerror(errno));
		}
		if (WIFEXITED(st) || WIFSIGNALED(st)) {
			thr_del(tid);
			if (tid == child)
				main_status = st;
			continue;
		}
		if (!WIFSTOPPED(st))
			continue;

		t = thr_get(tid, 1);
		sig = WSTOPSIG(st);
		event = (unsigned)st >> 16;

		if (sig == (SIGTRAP | 0x80)) {
			struct sc_info si;
			long r;
			memset(&si, 0, sizeof(si));
			r = ptrace(PTRACE_GET_SYSCALL_INFO, tid, (void *)sizeof(si), &si);
			if (r < 0) {
				if (errno == ESRCH)
					continue; /* killed under us */
				kill(-child, SIGKILL);
				die("PTRACE_GET_SYSCALL_INFO: %s", strerror(errno));
			}
			if (si.op == SI_OP_ENTRY) {
				struct call c;
				t->pending = 0;
				if (classify(tid, si.entry.nr, si.entry.args, &c)) {
					int touches = (c.np >= 1 && under_root(c.p1)) || (c.np >= 2 && under_root(c.p2));
					if (touches) {
						count++;
						t->pending = count;
						sanitize(c.detail);
						sanitize(c.p1);
						sanitize(c.p2);
						if (c.np >= 2)
							logf_("C\t%ld\t%d\t%s\t%s\t%s\t%s\n", count, tid, c.name, c.detail, c.p1, c.p2);
						else
							logf_("C\t%ld\t%d\t%s\t%s\t%s\n", count, tid, c.name, c.detail, c.p1);
						if (K > 0 && count == K) {
							/* the thread sits in its syscall-entry stop: SIGKILL now
							 * ends the process before the call is executed */
							kill(-child, SIGKILL);
							kill(child, SIGKILL);
							logf_("K\t%ld\n", count);
							reap_all();
							logf_("E\t%ld\tkilled\n", count);
							return 10;
						}
					}
				}
			} else if (si.op == SI_OP_EXIT) {
				if (t->pending) {
					logf_("R\t%ld\t%lld\n", t->pending, (long long)si.exit.rval);
					t->pending = 0;
				}
			}
			deliver = 0;
		} else if (event != 0) {
			/* PTRACE_EVENT_CLONE/FORK/VFORK/EXEC stop: nothing to do, the new task
			 * is attached automatically and reports its own first stop */
			if (event == PTRACE_EVENT_EXEC)
				t->pending = 0;
			deliver = 0;
		} else if (sig == SIGSTOP && !t->seen_first_stop) {
			/* first stop of an automatically attached thread / child */
			t->seen_first_stop = 1;
			deliver = 0;
		} else {
			/* signal-delivery stop (Go uses SIGURG for preemption) or group stop: pass it on */
			t->seen_first_stop = 1;
			deliver = sig;
		}
		if (ptrace(PTRACE_SYSCALL, tid, NULL, (void *)deliver) != 0) {
			if (errno == ESRCH)
				continue;
			kill(-child, SIGKILL);
			die("PTRACE_SYSCALL(%d): %s", tid, strerror(errno));
		}
	}

	for (i = 0; i < MAXTHR; i++)
		thrs[i].used = 0;

	if (main_status == -1) {
		logf_("E\t%ld\tlost\n", count);
		die("writer vanished without a wait status");
	}
	if (WIFEXITED(main_status) && WEXITSTATUS(main_status) == 0) {
		logf_("E\t%ld\texit=0\n", count);
		return 0;
	}
	if (WIFEXITED(main_status))
		logf_("E\t%ld\texit=%d\n", count, WEXITSTATUS(main_status));
	else
		logf_("E\t%ld\tsignal=%d\n", count, WTERMSIG(main_status));
	return 12;
}
