#!/bin/bash
# Development helper: re-apply the fix:/verif: commits of a builder's scratch clone onto /repo.
clone=$1
cd "$clone" || exit 1
[ -z "$(git status --short)" ] || { echo "DIRTY $clone"; git status --short | head; }
base=$(git merge-base HEAD "$(git -C /repo rev-parse HEAD)" 2>/dev/null)
[ -n "$base" ] || base=d020d03
out=$(mktemp -d /tmp/pint.XXXX)
git format-patch -q "$base"..HEAD -o "$out"
echo "$(ls "$out" | wc -l) patches from $clone (base $base)"
cd /repo && git am -q "$out"/*.patch && echo "applied" || { git am --abort; echo "AM FAILED $clone"; }
rm -r "$out"
