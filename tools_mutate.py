#!/usr/bin/env python3
"""Development helper: apply a textual mutation to a scratch clone, run a check against it, restore.
usage: tools_mutate.py <clone> <ID> <file> <old> <new> [count]"""
import subprocess, sys, os
clone, pid, f, old, new = sys.argv[1:6]
path = os.path.join(clone, f)
s = open(path).read()
n = s.count(old)
if n != 1:
    print("MUTATION-NOT-APPLICABLE: %d occurrences" % n); sys.exit(3)
open(path, "w").write(s.replace(old, new))
try:
    env = dict(os.environ, VERIF_REPO=clone)
    r = subprocess.run(["./check", pid], cwd="/verif", env=env, stdout=subprocess.PIPE, stderr=subprocess.STDOUT, text=True)
    lines = [l for l in r.stdout.splitlines() if l.startswith(("VIOLATION", "property=", "BUILD-FAILED", "INCONCLUSIVE")) or "failed after" in l]
    print("exit=%d" % r.returncode); print("\n".join(lines[:6]))
finally:
    subprocess.run(["git", "-C", clone, "checkout", "--", "."])
