package c09

import (
	"bytes"
	"fmt"
	"testing"

	"github.com/safing/portbase/formats/dsd"
	"pgregory.net/rapid"

	"verifharness/internal/stats"
)

// TestPropHeldBlobs: the round trip must also hold for blobs that are kept while further values are dumped (a caller
// collects several dumps before sending or storing them): every blob must stay byte-identical after the later dumps
// and still load to its own value.
func TestPropHeldBlobs(t *testing.T) {
	rapid.Check(t, func(t *rapid.T) {
		n := rapid.IntRange(2, 5).Draw(t, "dumps")
		type held struct {
			v      any
			f      uint8
			comp   int
			blob   []byte
			copyOf []byte
		}
		var hs []held
		for i := 0; i < n; i++ {
			f := rapid.SampledFrom([]uint8{dsd.JSON, dsd.CBOR, dsd.MsgPack, dsd.YAML, dsd.GenCode, dsd.AUTO}).Draw(t, "format")
			comp := rapid.SampledFrom([]int{compNone, dsd.GZIP, dsd.GZIP, dsd.AUTO}).Draw(t, "compression")
			v, _ := genValueFor(t, f)
			var blob []byte
			var err error
			if comp == compNone {
				blob, err = dsd.Dump(v, f)
			} else {
				blob, err = dsd.DumpAndCompress(v, f, uint8(comp))
			}
			if err != nil {
				t.Fatalf("dump %d (%s, %s) failed: %v", i, fmtName(f), compName(comp), err)
			}
			hs = append(hs, held{v: v, f: f, comp: comp, blob: blob, copyOf: append([]byte(nil), blob...)})
		}
		for i, h := range hs {
			if !bytes.Equal(h.blob, h.copyOf) {
				t.Fatalf("blob %d of %d (%s, %s) changed after later dumps: was %s, is %s", i, n, fmtName(h.f), compName(h.comp), clip(h.copyOf), clip(h.blob))
			}
			target := fresh(h.v)
			var got uint8
			var err error
			safely(t, "Load of a held blob", h.blob, func() { got, err = dsd.Load(h.blob, target) })
			if err != nil {
				t.Fatalf("held blob %d of %d (%s, %s) does not load after later dumps: %v", i, n, fmtName(h.f), compName(h.comp), err)
			}
			if got != resolveSer(h.f) {
				t.Fatalf("held blob %d: Load reports format %s, dumped as %s", i, fmtName(got), fmtName(resolveSer(h.f)))
			}
			if d := diffValues(h.v, target); d != "" {
				t.Fatalf("held blob %d of %d (%s, %s) loads to another value: %s", i, n, fmtName(h.f), compName(h.comp), d)
			}
		}
		stats.Case(fmt.Sprintf("held/%d/%s", n, render(hs[0].v)), true, fmt.Sprintf("held_blobs_%d", n))
	})
}
