package c09

import (
	"bytes"
	"encoding/hex"
	"fmt"
	"reflect"
	"strings"
	"testing"

	"github.com/safing/portbase/formats/dsd"
	"pgregory.net/rapid"

	"verifharness/internal/stats"
)

// ---------------------------------------------------------------- generated: round trip

// genValueFor draws a value representable in format f (AUTO = the default format).
func genValueFor(t *rapid.T, f uint8) (v any, kind string) {
	switch resolveSer(f) {
	case dsd.RAW:
		// RAW payloads are non-empty: a blob that consists of the identifier only is
		// rejected by Load for every format (see NOTES.md, observation O1).
		b := genBytes(t, "raw")
		if len(b) == 0 {
			b = []byte{rapid.Byte().Draw(t, "raw1")}
		}
		return b, "raw"
	case dsd.GenCode:
		if rapid.Bool().Draw(t, "meta") {
			return genMeta(t), "meta"
		}
		return genGenSubject(t), "gensubject"
	default:
		return genSubject(t, domainOf(resolveSer(f))), "subject"
	}
}

func TestPropRoundTrip(t *testing.T) {
	rapid.Check(t, func(t *rapid.T) {
		f := rapid.SampledFrom([]uint8{dsd.JSON, dsd.CBOR, dsd.MsgPack, dsd.YAML, dsd.GenCode, dsd.RAW, dsd.AUTO, dsd.AUTO}).Draw(t, "format")
		comp := rapid.SampledFrom([]int{compNone, compNone, dsd.GZIP, dsd.AUTO}).Draw(t, "compression")
		v, kind := genValueFor(t, f)
		indent := ""
		if comp == compNone && rapid.IntRange(0, 3).Draw(t, "indented") == 0 {
			indent = rapid.SampledFrom([]string{" ", "\t", "    "}).Draw(t, "indent")
		}
		checkRoundTrip(t, v, f, comp, indent)

		r := render(v)
		cl := []string{"rt_" + fmtName(f) + "_comp_" + compName(comp), "rt_value_" + kind}
		if indent != "" {
			cl = append(cl, "rt_indented")
		}
		if s, ok := v.(*Subject); ok {
			cl = append(cl, subjectClasses(s)...)
		}
		stats.Case(fmt.Sprintf("rt/%d/%d/%s/%s", f, comp, indent, r), !isZeroValue(v), cl...)
		if !isZeroValue(v) && len(r) < 600 && sampleBudget("roundtrip", 2) {
			stats.Sample("roundtrip", map[string]any{"format": fmtName(f), "compression": compName(comp), "indent": indent, "value": r})
		}
	})
}

// sampleBudget limits the samples of one kind per process so that every kind
// of case shows up in the evidence (the collector keeps 6 per process).
var sampleCount = map[string]int{}

func sampleBudget(kind string, n int) bool {
	if sampleCount[kind] >= n || !stats.WantSample(kind) {
		return false
	}
	sampleCount[kind]++
	return true
}

func formatNames(fs []uint8) []string {
	out := make([]string, len(fs))
	for i, f := range fs {
		out[i] = fmtName(f)
	}
	return out
}

func subjectClasses(s *Subject) []string {
	var cl []string
	if s.Inp != nil && s.Inp.Next != nil || s.In.Next != nil {
		cl = append(cl, "subject_nested_depth_ge_2")
	}
	if s.Sp != nil || s.Ip != nil || s.Bp != nil || s.Bap != nil || s.Sap != nil || s.Mp != nil {
		cl = append(cl, "subject_with_pointer")
	}
	if len(s.M) > 0 || len(s.Mi) > 0 || len(s.Min) > 0 {
		cl = append(cl, "subject_with_map")
	}
	if (s.Sa != nil && len(s.Sa) == 0) || (s.Ba != nil && len(s.Ba) == 0) || (s.M != nil && len(s.M) == 0) {
		cl = append(cl, "subject_with_empty_non_nil")
	}
	if s.I64 > 1<<31 || s.I64 < -(1<<31) || s.U64 > 1<<32 {
		cl = append(cl, "subject_int_beyond_32bit")
	}
	if s.I64 > lim53 || s.I64 < -lim53 || s.U64 > uint64(lim53) {
		cl = append(cl, "subject_int_beyond_2^53")
	}
	nonASCII := func(x string) bool {
		for _, r := range x {
			if r > 0x7e || r < 0x20 {
				return true
			}
		}
		return false
	}
	if nonASCII(s.S) || (s.Sp != nil && nonASCII(*s.Sp)) || nonASCII(s.In.Name) {
		cl = append(cl, "subject_string_non_ascii_or_control")
	}
	return cl
}

// ---------------------------------------------------------------- generated: HTTP

func crossCheckAccept(t *rapid.T, h string, info acceptInfo) {
	strict, ok := parseAcceptStrict(h)
	if !ok {
		stats.Class("accept_lenient_or_malformed")
		return
	}
	stats.Class("accept_strictly_well_formed")
	if !reflect.DeepEqual(append([]uint8{}, strict.named...), append([]uint8{}, info.named...)) || strict.wildcard != info.wildcard {
		t.Fatalf("harness self-check: generator says header %q names %v wildcard=%v, strict parser says %v wildcard=%v", h, info.named, info.wildcard, strict.named, strict.wildcard)
	}
}

func TestPropHTTPResponse(t *testing.T) {
	rapid.Check(t, func(t *rapid.T) {
		accept, info := genAccept(t)
		var v any = genSubject(t, domHTTP)
		if rapid.IntRange(0, 3).Draw(t, "tailvalue") == 0 {
			v = genTail(t, domHTTP)
			stats.Class("http_value_tail")
		}
		if accept != "" {
			crossCheckAccept(t, accept, info)
		}
		chosen, dumped := checkResponse(t, accept, info, v)
		checkMime(t, accept, info, v)

		cl := acceptClasses(info)
		if dumped {
			cl = append(cl, "response_in_"+fmtName(chosen))
		} else {
			cl = append(cl, "response_refused")
		}
		stats.Case("resp/"+accept+"/"+render(v), info.elements >= 2 || info.params, cl...)
		if info.elements >= 2 && info.params && sampleBudget("accept", 1) {
			stats.Sample("accept", map[string]any{"accept": accept, "names": formatNames(info.named), "wildcard": info.wildcard, "answered_in": fmtName(chosen), "refused": !dumped})
		}
	})
}

// genContentType draws a Content-Type value naming format f
// (media-type = type "/" subtype *( OWS ";" OWS parameter )).
func genContentType(t *rapid.T, f uint8) (string, bool) {
	sub := map[uint8]string{dsd.JSON: "json", dsd.CBOR: "cbor", dsd.MsgPack: "msgpack", dsd.YAML: "yaml"}[f]
	ct := rapid.SampledFrom([]string{"application", "Application", "text"}).Draw(t, "cttype") + "/" + mixCase(t, sub)
	decorated := false
	for j := rapid.IntRange(0, 2).Draw(t, "ctparams"); j > 0; j-- {
		before := rapid.SampledFrom(owsForms).Draw(t, "owsBefore")
		if before != "" && stats.Excl("accept.ows_before_semicolon") {
			stats.Excluded("accept.ows_before_semicolon")
			before = ""
		}
		ct += before + ";" + rapid.SampledFrom(owsForms).Draw(t, "owsAfter") + rapid.SampledFrom([]string{"charset=utf-8", "charset=UTF-8", `charset="utf-8"`, "version=1", "boundary=x"}).Draw(t, "ctparam")
		decorated = true
	}
	return ct, decorated
}

func TestPropHTTPRequest(t *testing.T) {
	rapid.Check(t, func(t *rapid.T) {
		var f uint8
		switch k := rapid.IntRange(0, 9).Draw(t, "fkind"); {
		case k <= 6:
			f = rapid.SampledFrom(mimeFormats).Draw(t, "format")
		case k <= 8:
			f = rapid.SampledFrom([]uint8{dsd.AUTO, dsd.RAW, dsd.GenCode, dsd.GZIP, dsd.LIST}).Draw(t, "format")
		default:
			f = rapid.Byte().Draw(t, "format")
		}
		var v any
		var kind string
		if isMime(f) && rapid.IntRange(0, 3).Draw(t, "tailvalue") == 0 {
			v, kind = genTail(t, domHTTP), "tail"
		} else if isSerial(f) || f == dsd.AUTO {
			v, kind = genValueFor(t, f)
		} else {
			v, kind = genSubject(t, domHTTP), "subject"
		}
		dumped := checkRequest(t, f, v)
		fclass := fmtName(f)
		if !isSerial(f) && f != dsd.AUTO && f != dsd.GZIP && f != dsd.LIST {
			fclass = "unassigned_id"
		}
		cl := []string{"request_" + fclass, "request_value_" + kind}
		if !dumped {
			cl = append(cl, "request_refused")
		}
		decorated := false
		if isMime(f) {
			// the same payload announced by any Content-Type of the grammar that names f
			blob, err := dsd.Dump(v, f)
			if err != nil {
				t.Fatalf("Dump(%s, %s) failed: %v", render(v), fmtName(f), err)
			}
			var ct string
			ct, decorated = genContentType(t, f)
			got := fresh(v)
			lf, err := dsd.MimeLoad(blob[1:], ct, got)
			if err != nil || lf != f {
				t.Fatalf("MimeLoad(payload of Dump(%s, %s), Content-Type %q) = (%s, %v), want (%s, nil)", render(v), fmtName(f), ct, fmtName(lf), err, fmtName(f))
			}
			if d := diffValues(v, got); d != "" {
				t.Fatalf("MimeLoad(payload of Dump(%s, %s), Content-Type %q) differs: %s", render(v), fmtName(f), ct, d)
			}
			if decorated {
				cl = append(cl, "content_type_with_params")
			}
		}
		stats.Case(fmt.Sprintf("req/%d/%s", f, render(v)), dumped && !isZeroValue(v), cl...)
		if dumped && decorated && !isZeroValue(v) && len(render(v)) < 600 && sampleBudget("request", 1) {
			stats.Sample("request", map[string]any{"format": fmtName(f), "value": render(v), "note": "request and response round trip; payload also loaded under a decorated Content-Type"})
		}
	})
}

// ---------------------------------------------------------------- generated: totality

func mutate(t *rapid.T, b []byte) ([]byte, string) {
	b = append([]byte{}, b...)
	switch rapid.IntRange(0, 6).Draw(t, "mutation") {
	case 0:
		return b, "intact"
	case 1:
		if len(b) > 0 {
			b = b[:rapid.IntRange(0, len(b)-1).Draw(t, "cut")]
		}
		return b, "truncated"
	case 2:
		if len(b) > 0 {
			b[rapid.IntRange(0, len(b)-1).Draw(t, "pos")] ^= 1 << uint(rapid.IntRange(0, 7).Draw(t, "bit"))
		}
		return b, "bitflip"
	case 3:
		if len(b) > 0 {
			b[rapid.IntRange(0, len(b)-1).Draw(t, "pos")] = rapid.SampledFrom([]byte{0, 0xff, 0x7f, 0x80, '{', '"', 0xc1, 0x9f, 0xbf, 0xdd}).Draw(t, "byte")
		}
		return b, "byte_replaced"
	case 4:
		p := rapid.IntRange(0, len(b)).Draw(t, "pos")
		ins := rapid.SliceOfN(rapid.Byte(), 1, 4).Draw(t, "ins")
		return append(b[:p:p], append(ins, b[p:]...)...), "inserted"
	case 5:
		// another identifier in front / identifier swapped
		if len(b) > 0 {
			b[0] = rapid.SampledFrom([]byte{dsd.JSON, dsd.CBOR, dsd.MsgPack, dsd.YAML, dsd.GenCode, dsd.RAW, dsd.GZIP, dsd.AUTO, dsd.LIST}).Draw(t, "newid")
		}
		return b, "identifier_swapped"
	default:
		if len(b) > 1 {
			p := rapid.IntRange(1, len(b)-1).Draw(t, "pos")
			b = append(b[:p:p], b[p+1:]...)
		}
		return b, "byte_deleted"
	}
}

// genBlob draws a byte string for the totality clause together with its class.
func genBlob(t *rapid.T) ([]byte, string) {
	ids := []byte{dsd.JSON, dsd.CBOR, dsd.MsgPack, dsd.YAML, dsd.GenCode, dsd.RAW, dsd.GZIP, dsd.AUTO, dsd.LIST}
	switch rapid.IntRange(0, 7).Draw(t, "blobkind") {
	case 0:
		return rapid.SliceOfN(rapid.Byte(), 0, 24).Draw(t, "random"), "random_bytes"
	case 1:
		id := rapid.SampledFrom(ids).Draw(t, "id")
		return append([]byte{id}, rapid.SliceOfN(rapid.Byte(), 0, 24).Draw(t, "payload")...), "identifier_plus_random"
	case 2, 3, 4:
		f := rapid.SampledFrom([]uint8{dsd.JSON, dsd.CBOR, dsd.MsgPack, dsd.YAML, dsd.GenCode}).Draw(t, "format")
		v, _ := genValueFor(t, f)
		blob, err := dsd.Dump(v, f)
		if err != nil {
			t.Fatalf("Dump(%s, %s) failed: %v", render(v), fmtName(f), err)
		}
		b, m := mutate(t, blob)
		return b, "dump_" + m
	case 5:
		// a well-formed gzip stream around an (un)damaged dump or around junk
		var plain []byte
		cls := "gzip_of_junk"
		if rapid.Bool().Draw(t, "validInner") {
			f := rapid.SampledFrom(mimeFormats).Draw(t, "format")
			v, _ := genValueFor(t, f)
			blob, err := dsd.Dump(v, f)
			if err != nil {
				t.Fatalf("Dump failed: %v", err)
			}
			var m string
			plain, m = mutate(t, blob)
			cls = "gzip_of_dump_" + m
		} else {
			plain = rapid.SliceOfN(rapid.Byte(), 0, 12).Draw(t, "junk")
			if rapid.Bool().Draw(t, "nested") {
				plain = append([]byte{dsd.GZIP}, refGzip(append([]byte{dsd.JSON}, "{}"...))...)
				cls = "gzip_nested"
			}
		}
		return append([]byte{dsd.GZIP}, refGzip(plain)...), cls
	case 6:
		// damaged gzip stream
		f := rapid.SampledFrom(mimeFormats).Draw(t, "format")
		v, _ := genValueFor(t, f)
		blob, err := dsd.DumpAndCompress(v, f, dsd.GZIP)
		if err != nil {
			t.Fatalf("DumpAndCompress failed: %v", err)
		}
		b, m := mutate(t, blob)
		return b, "compressed_dump_" + m
	default:
		// two-byte identifier forms and gzip header fragments
		return rapid.SampledFrom([][]byte{
			{0x80 | dsd.JSON, 0x01, '{', '}'}, {0xca, 0x01, '{', '}'}, {0xff, 0x02, 0}, {0x80}, {0x80, 0x01}, {0xda, 0x01, 0x1f, 0x8b},
			{dsd.GZIP, 0x1f, 0x8b}, {dsd.GZIP, 0x1f, 0x8b, 0x08, 0, 0, 0, 0, 0, 0, 0xff}, {dsd.GZIP, 0x1f, 0x8b, 0x08, 0x1c, 0, 0, 0, 0, 0, 0xff, 0xff, 0xff},
			{dsd.GZIP}, {dsd.JSON}, {dsd.YAML}, {dsd.RAW}, {}, {dsd.YAML, '&', 'a', ' ', '[', '*', 'a', ']'}, {dsd.CBOR, 0x9f}, {dsd.CBOR, 0xbb, 0xff, 0xff, 0xff, 0xff, 0xff, 0xff, 0xff, 0xff},
			{dsd.MsgPack, 0xdd, 0xff, 0xff, 0xff, 0xff}, {dsd.MsgPack, 0xdf, 0xff, 0xff, 0xff, 0xff}, {dsd.MsgPack, 0xc6, 0xff, 0xff, 0xff, 0xff}, {dsd.CBOR, 0x5b, 0x7f, 0xff, 0xff, 0xff, 0xff, 0xff, 0xff, 0xff},
			{dsd.GenCode, 0xff, 0xff, 0xff, 0xff, 0xff, 0xff, 0xff, 0xff, 0xff, 0x01},
		}).Draw(t, "literal"), "literal_edge"
	}
}

func TestPropLoadTotal(t *testing.T) {
	rapid.Check(t, func(t *rapid.T) {
		data, cls := genBlob(t)
		target := rapid.IntRange(0, numTargets-1).Draw(t, "target")
		_, tname := newTarget(target)
		loaded, pastID := checkLoadTotal(t, data, target)
		// an intact dump of a Subject must load into a Subject
		cl := []string{"total_" + cls, "total_target_" + tname}
		if pastID {
			cl = append(cl, "total_past_identifier")
		}
		if loaded {
			cl = append(cl, "total_loaded_a_value")
		} else {
			cl = append(cl, "total_returned_error")
		}
		stats.Case("total/"+tname+"/"+string(data), pastID, cl...)
		if pastID && len(data) > 4 && len(data) < 80 && sampleBudget("totality", 2) {
			stats.Sample("totality", map[string]any{"class": cls, "blob_hex": hex.EncodeToString(data), "target": tname, "loaded_a_value": loaded})
		}
	})
}

// ---------------------------------------------------------------- fuzz targets

func fuzzSeeds() [][]byte {
	var seeds [][]byte
	add := func(b []byte, err error) {
		if err == nil {
			seeds = append(seeds, b)
		}
	}
	for _, f := range mimeFormats {
		add(dsd.Dump(sampleSubject(), f))
		add(dsd.Dump(&Subject{}, f))
		add(dsd.DumpAndCompress(sampleSubject(), f, dsd.GZIP))
		add(dsd.Dump(&Inner{Name: "x", Next: &Inner{}}, f))
	}
	add(dsd.DumpIndent(sampleSubject(), dsd.JSON, "\t"))
	add(dsd.Dump(sampleGen(), dsd.GenCode))
	add(dsd.Dump(sampleMeta(), dsd.GenCode))
	add(dsd.DumpAndCompress(sampleMeta(), dsd.GenCode, dsd.GZIP))
	add(dsd.Dump([]byte("raw bytes"), dsd.RAW))
	add(dsd.DumpAndCompress([]byte("raw bytes"), dsd.RAW, dsd.GZIP))
	seeds = append(seeds,
		[]byte{}, []byte{dsd.AUTO, '{', '}'}, []byte{dsd.JSON}, []byte{dsd.GZIP}, []byte{dsd.GZIP, 0x1f, 0x8b}, []byte{dsd.GZIP, 0x1f, 0x8b, 0x08, 0, 0, 0, 0, 0, 0, 0xff},
		[]byte{dsd.GZIP, 0x1f, 0x8b, 0x08, 0x1c, 0, 0, 0, 0, 0, 0xff, 2, 0, 'a', 'b', 'n', 0, 'c', 0},
		append([]byte{dsd.GZIP}, refGzip(nil)...), append([]byte{dsd.GZIP}, refGzip([]byte{dsd.JSON})...),
		append([]byte{dsd.GZIP}, refGzip(append([]byte{dsd.GZIP}, refGzip([]byte("J{}"))...))...),
		[]byte{0x80 | dsd.JSON, 0x01, '{', '}'}, []byte{0xff, 0x02}, []byte{dsd.LIST, 1, 2},
		[]byte("Ya: &x [1, 2]\nb: *x\n"), []byte("Y? [a, b]\n: c\n"), []byte{dsd.CBOR, 0xbf, 0x61, 'S', 0x61, 'x', 0xff}, []byte{dsd.MsgPack, 0x81, 0xa1, 'S', 0xa1, 'x'},
	)
	return seeds
}

func FuzzLoad(f *testing.F) {
	for _, s := range fuzzSeeds() {
		for k := 0; k < numTargets; k++ {
			f.Add(s, uint8(k))
		}
	}
	f.Fuzz(func(t *testing.T, data []byte, target uint8) {
		if len(data) > 1<<16 {
			t.Skip("oversized input (gzip expansion)")
		}
		checkLoadTotal(t, data, int(target)%numTargets)
	})
}

func FuzzAccept(f *testing.F) {
	for _, h := range []string{
		"", "*/*", "*", "application/json", "application/cbor", "application/msgpack", "application/yaml", "text/yml", "yaml",
		"application/json, image/webp", "image/webp, application/json", "application/json;q=0.9, image/webp", "text/yAMl", " * , yaml ",
		"yaml;charset ,*", "xml,*", "text/xml, text/other", "text/*", "yaml ;charset", "x", "text/html;q=0.5 , application/cbor; q=1.0",
		`text/html;x="a,b", application/msgpack`, "application/json ;q=1", "*/* ;q=0.1", ",,application/cbor", "application/vnd.api+json",
	} {
		f.Add(h, uint8(0))
	}
	f.Fuzz(func(t *testing.T, accept string, sel uint8) {
		if len(accept) > 4096 {
			t.Skip()
		}
		info, ok := parseAcceptStrict(accept)
		if !ok || (info.owsSemi && stats.Excl("accept.ows_before_semicolon")) {
			// not a well-formed header (or the excluded class): nothing is demanded, but
			// whatever is answered must still be consistent
			info = acceptInfo{quoted: true}
		}
		if accept == "" {
			info = acceptInfo{wildcard: true}
		}
		var v *Subject
		if sel%2 == 0 {
			v = sampleSubject()
		} else {
			v = &Subject{S: accept}
			if !inDomain(reflect.ValueOf(v), domHTTP, false) {
				v.S = ""
			}
		}
		safely(t, "DumpToHTTPResponse/MimeDump with Accept "+strings.ToValidUTF8(accept, "?"), []byte(accept), func() {
			checkResponse(t, accept, info, v)
			checkMime(t, accept, info, v)
		})
	})
}

// TestLargeCompressibleRoundTrip: values that compress by several orders of magnitude (a zeroed buffer, a string of one
// repeated character, thousands of equal list entries), dumped with compression: the loaded value is equal, however
// large the inflated data is compared with the compressed blob.
func TestLargeCompressibleRoundTrip(t *testing.T) {
	rapid.Check(t, func(t *rapid.T) {
		f := rapid.SampledFrom([]uint8{dsd.JSON, dsd.CBOR, dsd.MsgPack, dsd.YAML, dsd.AUTO}).Draw(t, "format")
		comp := rapid.SampledFrom([]int{dsd.GZIP, dsd.AUTO, compNone}).Draw(t, "compression")
		s := &Subject{}
		kind := rapid.SampledFrom([]string{"zero_bytes", "repeated_rune", "equal_entries", "all"}).Draw(t, "kind")
		if kind == "zero_bytes" || kind == "all" {
			s.Ba = bytes.Repeat([]byte{rapid.SampledFrom([]byte{0, 'x', 0xff}).Draw(t, "fill")}, rapid.SampledFrom([]int{3000, 20000, 300000}).Draw(t, "nbytes"))
		}
		if kind == "repeated_rune" || kind == "all" {
			s.S = strings.Repeat(rapid.SampledFrom([]string{"a", "ab", " ", "0"}).Draw(t, "unit"), rapid.SampledFrom([]int{3000, 40000}).Draw(t, "times"))
		}
		if kind == "equal_entries" || kind == "all" {
			s.Sa = make([]string, rapid.SampledFrom([]int{500, 5000}).Draw(t, "entries"))
			for i := range s.Sa {
				s.Sa[i] = "same entry"
			}
		}
		checkRoundTrip(t, s, f, comp, "")
		stats.Case(fmt.Sprintf("compressible/%d/%d/%s/%d/%d/%d", f, comp, kind, len(s.Ba), len(s.S), len(s.Sa)), true, "rt_highly_compressible_value", "rt_compressible_"+kind)
	})
}
