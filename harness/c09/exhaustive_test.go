package c09

import (
	"bytes"
	"fmt"
	"io"
	"net/http"
	"net/http/httptest"
	"runtime"
	"strings"
	"testing"

	"github.com/safing/portbase/formats/dsd"

	"verifharness/internal/stats"
)

// valuesFor: fixed values representable in the (resolved) format.
func valuesFor(f uint8) []any {
	switch f {
	case dsd.RAW:
		return []any{[]byte("raw bytes"), []byte{0}, []byte{dsd.JSON, '{', '}'}}
	case dsd.GenCode:
		return []any{sampleGen(), &GenSubject{}, sampleMeta()}
	default:
		return []any{sampleSubject(), &Subject{}}
	}
}

// TestExhaustiveFormatCompressionTable enumerates every format identifier
// 0..255 x {no compression, every compression identifier 0..255}: supported
// combinations must round-trip; all others must refuse to dump (or, if they do
// dump, produce something that loads back).
func TestExhaustiveFormatCompressionTable(t *testing.T) {
	var n, supportedCases int64
	for fi := 0; fi < 256; fi++ {
		f := uint8(fi)
		fOK := f == dsd.AUTO || isSerial(f)
		for comp := compNone; comp < 256; comp++ {
			cOK := comp == compNone || comp == dsd.AUTO || comp == dsd.GZIP
			for vi, v := range valuesFor(resolveSer(f)) {
				if !(fOK && cOK) && vi > 0 {
					break // one value is enough to see an unsupported combination refused
				}
				n++
				if fOK && cOK {
					checkRoundTrip(t, v, f, comp, "")
					supportedCases++
					continue
				}
				var err error
				if comp == compNone {
					_, err = dsd.Dump(v, f)
				} else {
					_, err = dsd.DumpAndCompress(v, f, uint8(comp))
				}
				if err == nil {
					// nothing invented: whatever is dumped must load
					checkRoundTrip(t, v, f, comp, "")
				}
			}
		}
	}
	stats.CaseN(n, supportedCases, "exhaustive_format_x_compression")
	stats.Exhaustive("all 256 format identifiers x (no compression + all 256 compression identifiers) on fixed values")
	stats.Sample("exhaustive_table", map[string]any{"formats": "0..255", "compression": "none, 0..255", "supported_cases": supportedCases, "value": render(sampleSubject())})
}

// TestExhaustiveIndent: DumpIndent for every format x a few indents.
func TestExhaustiveIndent(t *testing.T) {
	var n int64
	for _, f := range []uint8{dsd.AUTO, dsd.JSON, dsd.CBOR, dsd.MsgPack, dsd.YAML, dsd.GenCode, dsd.RAW} {
		for _, indent := range []string{" ", "  ", "\t", "\t\t", " \t"} {
			for _, v := range valuesFor(resolveSer(f)) {
				checkRoundTrip(t, v, f, compNone, indent)
				n++
			}
		}
	}
	stats.CaseN(n, n, "exhaustive_indent")
}

// TestExhaustiveDefaultFormat: AUTO and wildcards follow DefaultSerializationFormat.
func TestExhaustiveDefaultFormat(t *testing.T) {
	old := dsd.DefaultSerializationFormat
	defer func() { dsd.DefaultSerializationFormat = old }()
	var n int64
	for _, def := range mimeFormats {
		dsd.DefaultSerializationFormat = def
		for _, comp := range []int{compNone, dsd.GZIP, dsd.AUTO} {
			for _, v := range valuesFor(def) {
				checkRoundTrip(t, v, dsd.AUTO, comp, "")
				n++
			}
		}
		// a request dumped in every format incl. AUTO (refused, or else labelled as what the body really is)
		for _, f := range append([]uint8{dsd.AUTO}, mimeFormats...) {
			for _, v := range valuesFor(def) {
				checkRequest(t, f, v)
				n++
			}
		}
		for _, h := range []string{"", "*", "*/*", "text/*", "text/html, */*;q=0.1", "xml,*"} {
			for _, v := range valuesFor(def) {
				chosen, dumped := checkResponse(t, h, acceptInfo{wildcard: true}, v)
				if !dumped || chosen != def {
					t.Fatalf("default format %s, Accept %q: answered in %s (dumped=%v)", fmtName(def), h, fmtName(chosen), dumped)
				}
				checkMime(t, h, acceptInfo{wildcard: true}, v)
				n++
			}
		}
	}
	stats.CaseN(n, n, "exhaustive_default_format")
	stats.Exhaustive("AUTO / wildcard resolution under each of the four possible default formats")
}

// ---------------------------------------------------------------- HTTP tables

type acceptTemplate struct {
	tmpl    string
	owsSemi bool
	quoted  bool
}

var namedTemplates = []acceptTemplate{
	{tmpl: "application/%s"}, {tmpl: "text/%s"}, {tmpl: "%s"}, {tmpl: "APPLICATION/%S"}, {tmpl: "application/%s;q=0.5"},
	{tmpl: "application/%s; charset=utf-8"}, {tmpl: "application/%s;q=0.9, image/webp"}, {tmpl: "image/webp, application/%s"},
	{tmpl: "text/html;q=0.5 , application/%s; q=1.0"}, {tmpl: "xml, application/%s"}, {tmpl: ",application/%s"}, {tmpl: "application/%s,*/*"},
	{tmpl: "application/x-%s-nope, application/%s"}, {tmpl: "text/html,application/xhtml+xml,application/%s;q=0.9,image/webp;q=0.8"},
	{tmpl: `text/html;x="a,b", application/%s`, quoted: true}, {tmpl: `application/%s;x="a;b"`, quoted: true},
	{tmpl: "application/%s ;q=1", owsSemi: true}, {tmpl: "text/html, application/%s\t; q=0.2", owsSemi: true},
}

var wildcardTemplates = []acceptTemplate{
	{tmpl: ""}, {tmpl: "*/*"}, {tmpl: "*"}, {tmpl: "text/*"}, {tmpl: "*/*;q=0.1"}, {tmpl: "text/html, */*;q=0.1"}, {tmpl: "xml,*"},
	{tmpl: "text/html,application/xhtml+xml,application/xml;q=0.9,*/*;q=0.8"}, {tmpl: "*/* ;q=0.1", owsSemi: true},
}

var unusableHeaders = []string{"text/html", "x", "application/xml, text/plain", "application/x-yaml", "application/jsonx", "json/application", "yaml ;charset", "text/xml, text/other"}

var subtypeOf = map[uint8]string{dsd.JSON: "json", dsd.CBOR: "cbor", dsd.MsgPack: "msgpack", dsd.YAML: "yaml"}

func (a acceptTemplate) expand(f uint8) string {
	h := strings.ReplaceAll(a.tmpl, "%s", subtypeOf[f])
	return strings.ReplaceAll(h, "%S", strings.ToUpper(subtypeOf[f]))
}

func (a acceptTemplate) skip() bool {
	if a.owsSemi && stats.Excl("accept.ows_before_semicolon") {
		stats.Excluded("accept.ows_before_semicolon")
		return true
	}
	return false
}

// realServer answers GET /get?v=i by dumping table value i for the request's
// Accept header, and POST /echo by loading the request body and dumping what
// it loaded back.
func realServer(values []*Subject) *httptest.Server {
	return httptest.NewServer(http.HandlerFunc(func(w http.ResponseWriter, r *http.Request) {
		switch r.URL.Path {
		case "/get":
			var i int
			_, _ = fmt.Sscanf(r.URL.Query().Get("v"), "%d", &i)
			if err := dsd.DumpToHTTPResponse(w, r, values[i%len(values)]); err != nil {
				http.Error(w, "dump refused: "+err.Error(), http.StatusNotAcceptable)
			}
		case "/echo":
			got := &Subject{}
			f, err := dsd.LoadFromHTTPRequest(r, got)
			if err != nil {
				http.Error(w, "server could not load the request: "+err.Error(), http.StatusBadRequest)
				return
			}
			w.Header().Set("X-Loaded-Format", fmtName(f))
			if err := dsd.DumpToHTTPResponse(w, r, got); err != nil {
				http.Error(w, "dump refused: "+err.Error(), http.StatusNotAcceptable)
			}
		default:
			http.NotFound(w, r)
		}
	}))
}

// TestExhaustiveHTTPTable: format x direction x transport (recorder, real
// loopback server) x header template x value.
func TestExhaustiveHTTPTable(t *testing.T) {
	values := []*Subject{sampleSubject(), {}, {S: "only a string é", Sa: []string{}}}
	srv := realServer(values)
	defer srv.Close()
	client := srv.Client()
	var n, nontrivial int64

	get := func(h string, info acceptInfo, vi int) {
		v := values[vi]
		// recorder
		checkResponse(t, h, info, v)
		checkMime(t, h, info, v)
		// real transport
		req, err := http.NewRequest(http.MethodGet, fmt.Sprintf("%s/get?v=%d", srv.URL, vi), nil)
		if err != nil {
			t.Fatalf("harness: %v", err)
		}
		if h != "" {
			req.Header.Set("Accept", h)
		}
		resp, err := client.Do(req)
		if err != nil {
			t.Fatalf("harness: GET with Accept %q: %v", h, err)
		}
		body, err := io.ReadAll(resp.Body)
		_ = resp.Body.Close()
		if err != nil {
			t.Fatalf("harness: reading response: %v", err)
		}
		if resp.StatusCode != http.StatusOK {
			if info.mustSucceed() {
				t.Fatalf("GET over loopback with Accept %q: status %d: %s", h, resp.StatusCode, body)
			}
			return
		}
		checkLoadSide(t, fmt.Sprintf("DumpToHTTPResponse over loopback (Accept %q, value %d)", h, vi), info, v, resp.Header.Get("Content-Type"), body,
			func(target any) (uint8, error) {
				resp.Body = io.NopCloser(bytes.NewReader(body))
				return dsd.LoadFromHTTPResponse(resp, target)
			})
	}

	for _, f := range mimeFormats {
		for vi := range values {
			for _, tm := range namedTemplates {
				if tm.skip() {
					continue
				}
				info := acceptInfo{named: []uint8{f}, quoted: tm.quoted, wildcard: strings.Contains(tm.tmpl, "*")}
				get(tm.expand(f), info, vi)
				n++
				nontrivial++
			}
			// request direction: recorder-less (in memory) and over the wire
			v := values[vi]
			checkRequest(t, f, v)
			req, err := http.NewRequest(http.MethodPost, srv.URL+"/echo", nil)
			if err != nil {
				t.Fatalf("harness: %v", err)
			}
			if err := dsd.DumpToHTTPRequest(req, v, f); err != nil {
				t.Fatalf("DumpToHTTPRequest(%s) failed: %v", fmtName(f), err)
			}
			resp, err := client.Do(req)
			if err != nil {
				t.Fatalf("harness: POST: %v", err)
			}
			body, err := io.ReadAll(resp.Body)
			_ = resp.Body.Close()
			if err != nil {
				t.Fatalf("harness: reading response: %v", err)
			}
			if resp.StatusCode != http.StatusOK {
				t.Fatalf("POST of a %s request over loopback: status %d: %s", fmtName(f), resp.StatusCode, body)
			}
			if lf := resp.Header.Get("X-Loaded-Format"); lf != fmtName(f) {
				t.Fatalf("POST of a %s request over loopback: the server loaded it as %s", fmtName(f), lf)
			}
			// the echo is the value the server loaded, answered in the format the request asked for
			checkLoadSide(t, fmt.Sprintf("echo of a %s request over loopback (value %d)", fmtName(f), vi), acceptInfo{named: []uint8{f}}, v, resp.Header.Get("Content-Type"), body,
				func(target any) (uint8, error) {
					resp.Body = io.NopCloser(bytes.NewReader(body))
					return dsd.LoadFromHTTPResponse(resp, target)
				})
			n++
			nontrivial++
		}
	}
	for vi := range values {
		for _, tm := range wildcardTemplates {
			if tm.skip() {
				continue
			}
			get(tm.tmpl, acceptInfo{wildcard: true}, vi)
			n++
		}
		for _, h := range unusableHeaders {
			get(h, acceptInfo{}, vi)
			n++
		}
	}
	// formats without a media type: an error, or a consistent request
	for f := 0; f < 256; f++ {
		if isMime(uint8(f)) {
			continue
		}
		for _, v := range valuesFor(resolveSer(uint8(f))) {
			checkRequest(t, uint8(f), v)
			n++
		}
	}
	stats.CaseN(n, nontrivial, "exhaustive_http_table")
	stats.Exhaustive("media-type formats x {request, response} x {in-memory, loopback server} x header templates x 3 values; DumpToHTTPRequest for all 256 format identifiers")
	stats.Sample("exhaustive_http", map[string]any{"accept": namedTemplates[8].expand(dsd.CBOR), "transport": "httptest.NewServer + recorder", "value": render(values[0])})
}

// TestExhaustiveAcceptPairs: every header of one or two elements over a small
// alphabet of media ranges (with and without parameters), two separators.
func TestExhaustiveAcceptPairs(t *testing.T) {
	type el struct {
		text    string
		names   uint8
		wild    bool
		owsSemi bool
	}
	var alphabet []el
	for _, f := range mimeFormats {
		alphabet = append(alphabet,
			el{text: "application/" + subtypeOf[f], names: f},
			el{text: "text/" + strings.ToUpper(subtypeOf[f]) + ";q=0.5", names: f},
			el{text: "application/" + subtypeOf[f] + "; charset=utf-8;q=0", names: f},
			el{text: "application/" + subtypeOf[f] + " ; q=0.7", names: f, owsSemi: true},
			el{text: subtypeOf[f], names: f},
		)
	}
	alphabet = append(alphabet,
		el{text: "text/yml", names: dsd.YAML}, el{text: "*/*", wild: true}, el{text: "*", wild: true}, el{text: "image/*;q=0.2", wild: true}, el{text: "*/* ;q=0.1", wild: true, owsSemi: true},
		el{text: "text/html"}, el{text: "application/xml;q=0.9"}, el{text: "application/x-yaml"}, el{text: "application/vnd.api+json"}, el{text: "x"}, el{text: ""}, el{text: "application/json5; q=1"},
	)
	v := &Subject{S: "x", I: 1}
	var n, nontrivial int64
	run := func(els []el, sep string) {
		var info acceptInfo
		parts := make([]string, len(els))
		for i, e := range els {
			if e.owsSemi && stats.Excl("accept.ows_before_semicolon") {
				stats.Excluded("accept.ows_before_semicolon")
				return
			}
			parts[i] = e.text
			if e.names != 0 {
				info.named = append(info.named, e.names)
			}
			info.wildcard = info.wildcard || e.wild
		}
		h := strings.Join(parts, sep)
		if h == "" {
			info.wildcard = true // no header: anything goes
		}
		checkResponse(t, h, info, v)
		checkMime(t, h, info, v)
		n++
		if len(els) > 1 {
			nontrivial++
		}
	}
	for _, a := range alphabet {
		run([]el{a}, ",")
		for _, b := range alphabet {
			for _, sep := range []string{",", " , "} {
				run([]el{a, b}, sep)
			}
		}
	}
	stats.CaseN(n, nontrivial, "exhaustive_accept_pairs")
	stats.Exhaustive(fmt.Sprintf("all Accept headers of 1 or 2 elements over an alphabet of %d media ranges", len(alphabet)))
}

// ---------------------------------------------------------------- observation (no verdict): empty RAW

// TestExhaustiveRawEdge pins what is demanded of RAW payloads of length 0 and 1:
// the bytes after the identifier are the input and Load never yields a value.
func TestExhaustiveRawEdge(t *testing.T) {
	for _, raw := range [][]byte{{}, nil} {
		blob, err := dsd.Dump(raw, dsd.RAW)
		if err != nil {
			t.Fatalf("Dump(empty, RAW) failed: %v", err)
		}
		if len(blob) != 1 || blob[0] != dsd.RAW {
			t.Fatalf("Dump(empty, RAW) = %x, want the identifier only", blob)
		}
		var sink []byte
		safely(t, "Load", blob, func() {
			if _, err := dsd.Load(blob, &sink); err == nil {
				t.Fatalf("Load(%x) returned a value for a RAW blob", blob)
			}
		})
	}
	for b := 0; b < 256; b++ {
		checkRoundTrip(t, []byte{byte(b)}, dsd.RAW, compNone, "")
		checkRoundTrip(t, []byte{byte(b)}, dsd.RAW, dsd.GZIP, "")
	}
	stats.CaseN(514, 512, "exhaustive_raw_edge")
}

// ---------------------------------------------------------------- regressions (fixed findings)

// AUTO was written as identifier 0, which Load rejects.
func TestRegDumpAutoWritesResolvedIdentifier(t *testing.T) {
	for _, v := range valuesFor(dsd.JSON) {
		checkRoundTrip(t, v, dsd.AUTO, compNone, "")
		checkRoundTrip(t, v, dsd.AUTO, compNone, "\t")
		checkRoundTrip(t, v, dsd.AUTO, dsd.GZIP, "")
		checkRoundTrip(t, v, dsd.AUTO, dsd.AUTO, "")
	}
}

// MimeDump returned an empty media type: responses carried Content-Type "" and
// were loaded as JSON on the other side whatever their encoding.
func TestRegMimeDumpReturnsMediaType(t *testing.T) {
	for _, f := range mimeFormats {
		h := "application/" + subtypeOf[f]
		info := acceptInfo{named: []uint8{f}}
		for _, v := range valuesFor(f) {
			checkMime(t, h, info, v)
			if chosen, dumped := checkResponse(t, h, info, v); !dumped || chosen != f {
				t.Fatalf("Accept %q answered in %s (dumped=%v)", h, fmtName(chosen), dumped)
			}
			checkRequest(t, f, v)
		}
	}
}

// DecompressAndLoad accepted compression AUTO in its validation and then
// refused it with ErrIncompatibleFormat.
func TestRegDecompressAndLoadAuto(t *testing.T) {
	for _, f := range []uint8{dsd.JSON, dsd.CBOR, dsd.MsgPack, dsd.YAML, dsd.GenCode} {
		for _, v := range valuesFor(f) {
			checkRoundTrip(t, v, f, dsd.AUTO, "")
		}
	}
}

// Loading a 6-byte MsgPack blob allocated memory in proportion to the
// array32/map32 length the blob announces (here 2^20 elements; with
// dfffffffff / ddffffffff the runtime aborts the process with "out of memory",
// which no caller of Load can recover from). Untyped targets and typed slices.
func TestRegMsgpackAnnouncedLengthAllocation(t *testing.T) {
	for _, c := range []struct {
		blob []byte
		kind int
	}{
		{[]byte{dsd.MsgPack, 0xdf, 0x00, 0x10, 0x00, 0x00}, 1},
		{[]byte{dsd.MsgPack, 0xdf, 0x00, 0x10, 0x00, 0x00}, 2},
		{[]byte{dsd.MsgPack, 0xdd, 0x00, 0x10, 0x00, 0x00}, 1},
		{[]byte{dsd.MsgPack, 0x81, 0xa3, 'I', 'n', 's', 0xdd, 0x00, 0x10, 0x00, 0x00}, 0},
		{append([]byte{dsd.GZIP}, refGzip([]byte{dsd.MsgPack, 0xdd, 0x00, 0x10, 0x00, 0x00})...), 1},
	} {
		blob := c.blob
		target, name := newTarget(c.kind)
		var before, after runtime.MemStats
		runtime.ReadMemStats(&before)
		_, err := dsd.Load(blob, target)
		runtime.ReadMemStats(&after)
		if err == nil {
			t.Fatalf("Load(%x) into %s succeeded", blob, name)
		}
		if grown := after.TotalAlloc - before.TotalAlloc; grown > 1<<20 {
			t.Fatalf("Load(%x) into %s allocated %d bytes for a %d-byte blob before returning %q (with the announced length ffffffff the Go runtime aborts the process: allocation failure)", blob, name, grown, len(blob), err)
		}
	}
}

// ---------------------------------------------------------------- witnesses (open findings)

// TestWitnessAcceptOWSBeforeSemicolon: RFC 7231 allows optional whitespace
// before the ';' of a parameter (media-range *( OWS ";" OWS parameter )); such
// a range is not recognised, so a header that names a supported format (or a
// wildcard) only in this form is refused.
func TestWitnessAcceptOWSBeforeSemicolon(t *testing.T) {
	v := sampleSubject()
	for _, c := range []struct {
		h    string
		info acceptInfo
	}{
		{"application/cbor ;q=1", acceptInfo{named: []uint8{dsd.CBOR}}},
		{"text/html, application/yaml\t; q=0.2", acceptInfo{named: []uint8{dsd.YAML}}},
		{"*/* ;q=0.1", acceptInfo{wildcard: true}},
	} {
		if strict, ok := parseAcceptStrict(c.h); !ok || !strict.mustSucceed() {
			t.Fatalf("harness: %q is not a well-formed header naming a format", c.h)
		}
		checkResponse(t, c.h, c.info, v)
		checkMime(t, c.h, c.info, v)
	}
	// the same for a Content-Type value
	blob, err := dsd.Dump(v, dsd.MsgPack)
	if err != nil {
		t.Fatal(err)
	}
	got := &Subject{}
	if f, err := dsd.MimeLoad(blob[1:], "application/msgpack ; charset=binary", got); err != nil || f != dsd.MsgPack {
		t.Fatalf("MimeLoad with Content-Type %q = (%s, %v)", "application/msgpack ; charset=binary", fmtName(f), err)
	}
}
