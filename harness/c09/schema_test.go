package c09

// Value schema of the C09 check, its generators and the equality relation
// ("equal value": floats compared with ==; nil and empty slices/maps are told apart except for the GenCode schema).

import (
	"fmt"
	"math"
	"reflect"
	"sort"
	"unicode/utf8"

	"github.com/safing/portbase/database/record"
	"github.com/safing/portbase/formats/dsd"
	"pgregory.net/rapid"
)

// Inner is the nested struct of the schema (recursive through Next).
type Inner struct {
	Name string
	N    int64
	F    float64
	Tags []string
	Blob []byte
	Attr map[string]string
	Next *Inner
}

// Subject is the harness schema: all integer widths, floats, bool, strings,
// byte slices, string slices, maps, pointers, nested structs.
type Subject struct {
	I    int
	I8   int8
	I16  int16
	I32  int32
	I64  int64
	U    uint
	U8   uint8
	U16  uint16
	U32  uint32
	U64  uint64
	F64  float64
	F32  float32
	B    bool
	S    string
	Sp   *string
	Ip   *int64
	Bp   *bool
	Ba   []byte
	Bap  *[]byte
	Sa   []string
	Sap  *[]string
	M    map[string]string
	Mp   *map[string]string
	Mi   map[string]int64
	In   Inner
	Inp  *Inner
	Ins  []Inner
	Inps []*Inner
	Min  map[string]Inner
}

// Tail is a second, small value type of the schema whose LAST encoded element is a string or a small integer, so
// that the encodings of the binary formats can end (and, for HeadStr, begin after the header) in arbitrary bytes,
// including the ASCII white-space bytes. (A Subject always ends in a nil pointer or an empty map.)
type Tail struct {
	Name string
	Blob []byte
	N    int64
}

func genTail(t *rapid.T, d domain) *Tail {
	v := &Tail{Name: genString(t, "tailname", d, false)}
	if rapid.Bool().Draw(t, "tailblob") {
		v.Blob = genBytes(t, "tailblob")
	}
	switch rapid.IntRange(0, 3).Draw(t, "tailkind") {
	case 0:
		v.N = int64(rapid.SampledFrom([]int{9, 10, 11, 12, 13, 32, 0x0920, 0x200a}).Draw(t, "wsint"))
	case 1:
		v.N = genI64(t, "tailn", d)
	default:
		v.N = int64(rapid.IntRange(0, 40).Draw(t, "tailsmall"))
	}
	return v
}

// domain describes what a serialization format (library) can represent; the
// generators stay inside it.
type domain struct {
	name string
	// int64/uint64/int/uint beyond +-2^53 ("interoperable range") allowed
	fullInt64 bool
	// yaml: gopkg.in/yaml.v2 rejects DEL, C1 controls, U+FFFE/U+FFFF, treats
	// U+0085 as a line break, and reads the map key "<<" as a merge key.
	yamlSafe bool
}

var (
	domJSON    = domain{name: "json"}
	domCBOR    = domain{name: "cbor", fullInt64: true}
	domMsgPack = domain{name: "msgpack", fullInt64: true}
	domYAML    = domain{name: "yaml", yamlSafe: true}
	domGenCode = domain{name: "gencode", fullInt64: true}
	// domHTTP is the intersection (the Accept header decides the format)
	domHTTP = domain{name: "http", yamlSafe: true}
)

func domainOf(format uint8) domain {
	switch format {
	case dsd.JSON:
		return domJSON
	case dsd.CBOR:
		return domCBOR
	case dsd.MsgPack:
		return domMsgPack
	case dsd.YAML:
		return domYAML
	case dsd.GenCode:
		return domGenCode
	}
	return domHTTP
}

// ---------------------------------------------------------------- strings

var runeAlphabet = []rune{
	'a', 'b', 'Z', '0', '1', '9', ' ', ' ', '\t', '\n', '\r', '"', '\'', '\\', '/', '<', '>', '&',
	':', '-', '#', ',', '[', ']', '{', '}', '?', '!', '*', '%', '@', '`', '|', '=', '~', '.', '_', '+',
	0x00, 0x01, 0x08, 0x0c, 0x1b, 0x1f,
	0xa0, 0xe9, 0xdf, 0x3b1, 0x65e5, 0x672c, 0x2028, 0x2029, 0xfeff, 0xfffd, 0xd7ff, 0xe000,
	0x1f702, 0x1f600, 0x10ffff,
	// not representable through gopkg.in/yaml.v2 (removed for yamlSafe domains)
	0x7f, 0x80, 0x85, 0x9f, 0xfffe, 0xffff,
}

func yamlUnsafeRune(r rune) bool {
	return (r >= 0x7f && r <= 0x9f) || r == 0xfffe || r == 0xffff
}

// words that text formats may confuse with non-strings
var specialWords = []string{
	"", " ", "null", "~", "true", "false", "yes", "no", "on", "off", "y", "N", "NULL", "True",
	"1", "-1", "0", "-0", "+1", "1.5", "1e3", "0x1F", "0o7", "010", "0b11", "1_000", ".5", "1.", ".inf", "-.inf", ".nan", "1:20", "190:20:30",
	"2001-01-01", "2001-12-14t21:59:43.10-05:00", "12:30:45",
	"- a", "a: b", "a: ", "#x", " #x", "a #b", "|", ">", "!!str", "!a", "&a", "*a", "---", "...", "--- a", "? ", ": ", "- ", "?x", ":x", "-x",
	"a\nb", "a\n", "\na", "\n", "\n\n", " \n", "a \nb", "a\n b", "  a\n b", "\ta\nb", "a\r\nb", " a", "a ", "key: [", "{", "}", "[", "]", ",", "=",
	"<>&", "</script>", "日本語", "été", "\U0001f702", "<<",
}

func genString(t *rapid.T, label string, d domain, key bool) string {
	switch rapid.IntRange(0, 9).Draw(t, label+"_kind") {
	case 0, 1:
		s := rapid.SampledFrom(specialWords).Draw(t, label+"_word")
		if d.yamlSafe && key && s == "<<" {
			return "<"
		}
		return s
	case 2:
		return ""
	default:
		n := rapid.IntRange(0, 8).Draw(t, label+"_len")
		rs := make([]rune, 0, n)
		for i := 0; i < n; i++ {
			r := rapid.SampledFrom(runeAlphabet).Draw(t, label+"_r")
			if d.yamlSafe && yamlUnsafeRune(r) {
				r = 'y'
			}
			rs = append(rs, r)
		}
		s := string(rs)
		if d.yamlSafe && key && s == "<<" {
			return "<"
		}
		return s
	}
}

func genBytes(t *rapid.T, label string) []byte {
	switch rapid.IntRange(0, 5).Draw(t, label+"_kind") {
	case 0:
		return nil
	case 1:
		return []byte{}
	case 2:
		// bytes that look like text / identifiers / gzip headers
		return []byte(rapid.SampledFrom([]string{"J{}", "\x1f\x8b\x08", "\x00", "\xff\xfe", "null", "Z", "\x01"}).Draw(t, label+"_lit"))
	default:
		return rapid.SliceOfN(rapid.Byte(), 0, 12).Draw(t, label)
	}
}

func genStrings(t *rapid.T, label string, d domain) []string {
	switch rapid.IntRange(0, 4).Draw(t, label+"_kind") {
	case 0:
		return nil
	case 1:
		return []string{}
	default:
		n := rapid.IntRange(1, 4).Draw(t, label+"_n")
		out := make([]string, n)
		for i := range out {
			out[i] = genString(t, label+"_e", d, false)
		}
		return out
	}
}

func genStringMap(t *rapid.T, label string, d domain) map[string]string {
	switch rapid.IntRange(0, 4).Draw(t, label+"_kind") {
	case 0:
		return nil
	case 1:
		return map[string]string{}
	default:
		n := rapid.IntRange(1, 4).Draw(t, label+"_n")
		out := make(map[string]string, n)
		for i := 0; i < n; i++ {
			out[genString(t, label+"_k", d, true)] = genString(t, label+"_v", d, false)
		}
		return out
	}
}

// ---------------------------------------------------------------- numbers

const lim53 = int64(1) << 53

func genI64(t *rapid.T, label string, d domain) int64 {
	if d.fullInt64 {
		if rapid.IntRange(0, 3).Draw(t, label+"_edge") == 0 {
			return rapid.SampledFrom([]int64{math.MinInt64, math.MaxInt64, math.MinInt64 + 1, lim53 + 1, -lim53 - 1, 1 << 62, -(1 << 62), math.MaxInt32 + 1}).Draw(t, label+"_e")
		}
		return rapid.Int64().Draw(t, label)
	}
	if rapid.IntRange(0, 7).Draw(t, label+"_edge") == 0 {
		return rapid.SampledFrom([]int64{lim53, -lim53, lim53 - 1, -lim53 + 1, math.MaxInt32 + 1, math.MinInt32 - 1}).Draw(t, label+"_e")
	}
	return rapid.Int64Range(-lim53, lim53).Draw(t, label)
}

func genU64(t *rapid.T, label string, d domain) uint64 {
	if d.fullInt64 {
		if rapid.IntRange(0, 3).Draw(t, label+"_edge") == 0 {
			return rapid.SampledFrom([]uint64{math.MaxUint64, math.MaxUint64 - 1, 1 << 63, 1<<63 - 1, uint64(lim53) + 1, math.MaxUint32 + 1}).Draw(t, label+"_e")
		}
		return rapid.Uint64().Draw(t, label)
	}
	if rapid.IntRange(0, 7).Draw(t, label+"_edge") == 0 {
		return rapid.SampledFrom([]uint64{uint64(lim53), uint64(lim53) - 1, math.MaxUint32 + 1}).Draw(t, label+"_e")
	}
	return rapid.Uint64Range(0, uint64(lim53)).Draw(t, label)
}

var specialFloats = []float64{
	0, math.Copysign(0, -1), 1, -1, 0.1, -0.5, 1e20, 1e21, 1e-7, 123456789012345680000, 100000, 1e6,
	math.MaxFloat64, -math.MaxFloat64, math.SmallestNonzeroFloat64, 9007199254740993, 9007199254740992, 4294967296,
	math.MaxFloat32, math.Pi, 1.5e300, -2.5e-300, 3, 255, 256, -129,
}

// finite floats only: NaN never compares equal and JSON/YAML cannot carry NaN/Inf.
func genF64(t *rapid.T, label string) float64 {
	if rapid.IntRange(0, 2).Draw(t, label+"_kind") == 0 {
		return rapid.SampledFrom(specialFloats).Draw(t, label+"_s")
	}
	return rapid.Float64().Draw(t, label)
}

func genF32(t *rapid.T, label string) float32 {
	if rapid.IntRange(0, 2).Draw(t, label+"_kind") == 0 {
		return rapid.SampledFrom([]float32{0, 1, -1, 0.1, math.MaxFloat32, math.SmallestNonzeroFloat32, 16777217, 1e10, -2.5e-30}).Draw(t, label+"_s")
	}
	return rapid.Float32().Draw(t, label)
}

// ---------------------------------------------------------------- structs

func genInner(t *rapid.T, label string, d domain, depth int) Inner {
	in := Inner{
		Name: genString(t, label+".Name", d, false),
		N:    genI64(t, label+".N", d),
		F:    genF64(t, label+".F"),
		Tags: genStrings(t, label+".Tags", d),
		Blob: genBytes(t, label+".Blob"),
		Attr: genStringMap(t, label+".Attr", d),
	}
	if depth > 0 && rapid.IntRange(0, 2).Draw(t, label+".hasNext") == 0 {
		n := genInner(t, label+".Next", d, depth-1)
		in.Next = &n
	}
	return in
}

// genSubject draws a Subject. sparse subjects leave most fields zero (cheap,
// and they exercise nil/empty handling), dense ones fill everything.
func genSubject(t *rapid.T, d domain) *Subject {
	s := &Subject{}
	fill := rapid.IntRange(0, 3).Draw(t, "fill") // 0: zero value, 1: sparse, 2,3: dense
	if fill == 0 {
		return s
	}
	p := func(label string) bool {
		if fill >= 2 {
			return rapid.IntRange(0, 4).Draw(t, "has_"+label) != 0
		}
		return rapid.IntRange(0, 4).Draw(t, "has_"+label) == 0
	}
	if p("ints") {
		s.I = int(genI64(t, "I", d))
		s.I8 = rapid.Int8().Draw(t, "I8")
		s.I16 = rapid.Int16().Draw(t, "I16")
		s.I32 = rapid.Int32().Draw(t, "I32")
		s.I64 = genI64(t, "I64", d)
		s.U = uint(genU64(t, "U", d))
		s.U8 = rapid.Uint8().Draw(t, "U8")
		s.U16 = rapid.Uint16().Draw(t, "U16")
		s.U32 = rapid.Uint32().Draw(t, "U32")
		s.U64 = genU64(t, "U64", d)
	}
	if p("floats") {
		s.F64 = genF64(t, "F64")
		s.F32 = genF32(t, "F32")
		s.B = rapid.Bool().Draw(t, "B")
	}
	if p("S") {
		s.S = genString(t, "S", d, false)
	}
	if p("Sp") {
		v := genString(t, "Sp", d, false)
		s.Sp = &v
	}
	if p("Ip") {
		v := genI64(t, "Ip", d)
		s.Ip = &v
	}
	if p("Bp") {
		v := rapid.Bool().Draw(t, "Bp")
		s.Bp = &v
	}
	if p("Ba") {
		s.Ba = genBytes(t, "Ba")
	}
	if p("Bap") {
		// a pointer to a nil slice is written as null and comes back as a nil
		// pointer in every format: pointers point to non-nil slices/maps only.
		v := genBytes(t, "Bap")
		if v == nil {
			v = []byte{}
		}
		s.Bap = &v
	}
	if p("Sa") {
		s.Sa = genStrings(t, "Sa", d)
	}
	if p("Sap") {
		v := genStrings(t, "Sap", d)
		if v == nil {
			v = []string{}
		}
		s.Sap = &v
	}
	if p("M") {
		s.M = genStringMap(t, "M", d)
	}
	if p("Mp") {
		v := genStringMap(t, "Mp", d)
		if v == nil {
			v = map[string]string{}
		}
		s.Mp = &v
	}
	if p("Mi") {
		n := rapid.IntRange(0, 3).Draw(t, "Mi_n")
		s.Mi = make(map[string]int64, n)
		for i := 0; i < n; i++ {
			s.Mi[genString(t, "Mi_k", d, true)] = genI64(t, "Mi_v", d)
		}
	}
	if p("In") {
		s.In = genInner(t, "In", d, 2)
	}
	if p("Inp") {
		v := genInner(t, "Inp", d, 2)
		s.Inp = &v
	}
	if p("Ins") {
		n := rapid.IntRange(0, 3).Draw(t, "Ins_n")
		s.Ins = make([]Inner, n)
		for i := range s.Ins {
			s.Ins[i] = genInner(t, "Ins", d, 1)
		}
	}
	if p("Inps") {
		n := rapid.IntRange(0, 3).Draw(t, "Inps_n")
		s.Inps = make([]*Inner, n)
		for i := range s.Inps {
			if rapid.IntRange(0, 3).Draw(t, "Inps_nil") != 0 {
				v := genInner(t, "Inps", d, 1)
				s.Inps[i] = &v
			}
		}
	}
	if p("Min") {
		n := rapid.IntRange(0, 3).Draw(t, "Min_n")
		s.Min = make(map[string]Inner, n)
		for i := 0; i < n; i++ {
			s.Min[genString(t, "Min_k", d, true)] = genInner(t, "Min_v", d, 1)
		}
	}
	return s
}

func genGenSubject(t *rapid.T) *GenSubject {
	d := domGenCode
	g := &GenSubject{}
	if rapid.IntRange(0, 5).Draw(t, "gfill") == 0 {
		return g
	}
	g.I8 = rapid.Int8().Draw(t, "I8")
	g.I16 = rapid.Int16().Draw(t, "I16")
	g.I32 = rapid.Int32().Draw(t, "I32")
	g.I64 = rapid.Int64().Draw(t, "I64")
	g.UI8 = rapid.Uint8().Draw(t, "UI8")
	g.UI16 = rapid.Uint16().Draw(t, "UI16")
	g.UI32 = rapid.Uint32().Draw(t, "UI32")
	g.UI64 = rapid.Uint64().Draw(t, "UI64")
	g.S = genString(t, "S", d, false)
	if rapid.Bool().Draw(t, "hasSp") {
		v := genString(t, "Sp", d, false)
		g.Sp = &v
	}
	g.Sa = genStrings(t, "Sa", d)
	if rapid.Bool().Draw(t, "hasSap") {
		v := genStrings(t, "Sap", d)
		if v == nil {
			v = []string{}
		}
		g.Sap = &v
	}
	g.B = rapid.Byte().Draw(t, "B")
	if rapid.Bool().Draw(t, "hasBp") {
		v := rapid.Byte().Draw(t, "Bp")
		g.Bp = &v
	}
	g.Ba = genBytes(t, "Ba")
	if rapid.Bool().Draw(t, "hasBap") {
		v := genBytes(t, "Bap")
		if v == nil {
			v = []byte{}
		}
		g.Bap = &v
	}
	return g
}

func genMeta(t *rapid.T) *record.Meta {
	m := &record.Meta{
		Created:  rapid.Int64().Draw(t, "Created"),
		Modified: rapid.Int64().Draw(t, "Modified"),
		Expires:  rapid.Int64().Draw(t, "Expires"),
		Deleted:  rapid.Int64().Draw(t, "Deleted"),
	}
	if rapid.Bool().Draw(t, "secret") {
		m.MakeSecret()
	}
	if rapid.Bool().Draw(t, "crownjewel") {
		m.MakeCrownJewel()
	}
	return m
}

// ---------------------------------------------------------------- equality

// diff returns "" when a and b are equal values, otherwise the path and kind
// of the first difference (deterministic: map keys are visited in sorted order).
// nil and empty slices/maps are equal for the GenCode schema only (see strictNil); floats compare with ==.
// strictNil: nil and empty slices/maps are told apart. JSON, CBOR, MsgPack and YAML keep the difference (null vs
// [] / {}); GenCode does not encode it, so values of the GenCode schema are compared with the tolerance.
var strictNil bool

func diff(path string, a, b reflect.Value) string {
	if a.Type() != b.Type() {
		return fmt.Sprintf("%s: type %s vs %s", path, a.Type(), b.Type())
	}
	switch a.Kind() {
	case reflect.Ptr:
		if a.IsNil() || b.IsNil() {
			if a.IsNil() != b.IsNil() {
				return fmt.Sprintf("%s: nil pointer vs non-nil pointer (dumped nil=%v, loaded nil=%v)", path, a.IsNil(), b.IsNil())
			}
			return ""
		}
		return diff(path+"*", a.Elem(), b.Elem())
	case reflect.Struct:
		for i := 0; i < a.NumField(); i++ {
			if a.Type().Field(i).PkgPath != "" {
				continue // unexported (record.Meta flags are compared through their accessors)
			}
			if d := diff(path+"."+a.Type().Field(i).Name, a.Field(i), b.Field(i)); d != "" {
				return d
			}
		}
		return ""
	case reflect.Slice:
		if strictNil && a.IsNil() != b.IsNil() {
			return fmt.Sprintf("%s: nil slice vs empty slice (dumped nil=%v, loaded nil=%v)", path, a.IsNil(), b.IsNil())
		}
		if a.Len() != b.Len() {
			return fmt.Sprintf("%s: length %d vs %d", path, a.Len(), b.Len())
		}
		for i := 0; i < a.Len(); i++ {
			if d := diff(fmt.Sprintf("%s[%d]", path, i), a.Index(i), b.Index(i)); d != "" {
				return d
			}
		}
		return ""
	case reflect.Map:
		if strictNil && a.IsNil() != b.IsNil() {
			return fmt.Sprintf("%s: nil map vs empty map (dumped nil=%v, loaded nil=%v)", path, a.IsNil(), b.IsNil())
		}
		if a.Len() != b.Len() {
			return fmt.Sprintf("%s: map size %d vs %d", path, a.Len(), b.Len())
		}
		keys := a.MapKeys()
		sort.Slice(keys, func(i, j int) bool { return keys[i].String() < keys[j].String() })
		for _, k := range keys {
			bv := b.MapIndex(k)
			if !bv.IsValid() {
				return fmt.Sprintf("%s: key %q lost", path, k.String())
			}
			if d := diff(fmt.Sprintf("%s[%q]", path, k.String()), a.MapIndex(k), bv); d != "" {
				return d
			}
		}
		return ""
	case reflect.Float32, reflect.Float64:
		if a.Float() != b.Float() {
			return fmt.Sprintf("%s: %v vs %v", path, a.Float(), b.Float())
		}
		return ""
	case reflect.String:
		if a.String() != b.String() {
			return fmt.Sprintf("%s: %q vs %q", path, a.String(), b.String())
		}
		return ""
	default:
		if a.Interface() != b.Interface() {
			return fmt.Sprintf("%s: %v vs %v", path, a.Interface(), b.Interface())
		}
		return ""
	}
}

// diffValues compares two values of the schema (pointers to Subject, GenSubject, record.Meta).
func diffValues(want, got any) string {
	switch want.(type) {
	case *Subject, *Tail:
		strictNil = true
	default:
		strictNil = false
	}
	defer func() { strictNil = false }()
	if d := diff("v", reflect.ValueOf(want), reflect.ValueOf(got)); d != "" {
		return d
	}
	if wm, ok := want.(*record.Meta); ok {
		gm := got.(*record.Meta)
		if metaSecret(wm) != metaSecret(gm) || metaCrown(wm) != metaCrown(gm) {
			return fmt.Sprintf("v: meta flags secret/crownjewel %v/%v vs %v/%v", metaSecret(wm), metaCrown(wm), metaSecret(gm), metaCrown(gm))
		}
	}
	return ""
}

// isTrivial: the zero value of the schema (no field set) is the trivial case.
func isZeroValue(v any) bool {
	rv := reflect.ValueOf(v)
	if rv.Kind() == reflect.Ptr {
		rv = rv.Elem()
	}
	return diff("v", rv, reflect.Zero(rv.Type())) == "" && !metaFlags(v)
}

func metaFlags(v any) bool {
	if m, ok := v.(*record.Meta); ok {
		return metaSecret(m) || metaCrown(m)
	}
	return false
}

// the two unexported flags of record.Meta, observed through CheckPermission
func metaSecret(m *record.Meta) bool { return !m.CheckPermission(true, false) }
func metaCrown(m *record.Meta) bool  { return !m.CheckPermission(false, true) }

// inDomain reports whether a value loaded from arbitrary bytes lies inside the
// schema domain of the format (valid UTF-8 strings, finite floats, ...), i.e.
// whether the round-trip clause applies to it.
func inDomain(v reflect.Value, d domain, key bool) bool {
	switch v.Kind() {
	case reflect.Ptr:
		if v.IsNil() {
			return true
		}
		if k := v.Elem().Kind(); (k == reflect.Slice || k == reflect.Map) && v.Elem().IsNil() {
			return false // pointer to nil slice/map: written as null
		}
		return inDomain(v.Elem(), d, false)
	case reflect.Struct:
		for i := 0; i < v.NumField(); i++ {
			if v.Type().Field(i).PkgPath != "" {
				continue
			}
			if !inDomain(v.Field(i), d, false) {
				return false
			}
		}
		return true
	case reflect.Slice:
		if v.Type().Elem().Kind() == reflect.Uint8 {
			return true
		}
		for i := 0; i < v.Len(); i++ {
			if !inDomain(v.Index(i), d, false) {
				return false
			}
		}
		return true
	case reflect.Map:
		for _, k := range v.MapKeys() {
			if !inDomain(k, d, true) || !inDomain(v.MapIndex(k), d, false) {
				return false
			}
		}
		return true
	case reflect.String:
		s := v.String()
		if !utf8.ValidString(s) {
			return false
		}
		if d.yamlSafe {
			for _, r := range s {
				if yamlUnsafeRune(r) {
					return false
				}
			}
			if key && s == "<<" {
				return false
			}
		}
		return true
	case reflect.Float32, reflect.Float64:
		return !math.IsNaN(v.Float()) && !math.IsInf(v.Float(), 0)
	case reflect.Int, reflect.Int64:
		return d.fullInt64 || (v.Int() >= -lim53 && v.Int() <= lim53)
	case reflect.Uint, reflect.Uint64:
		return d.fullInt64 || v.Uint() <= uint64(lim53)
	}
	return true
}
