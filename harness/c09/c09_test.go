// Package c09 decides C09: DSD dump/load round-trips in every format,
// compressed or over HTTP; Load is total.
package c09

import (
	"bytes"
	"compress/gzip"
	"encoding/hex"
	"encoding/json"
	"errors"
	"fmt"
	"hash/fnv"
	"io"
	"mime"
	"net/http"
	"net/http/httptest"
	"reflect"
	"runtime"
	"strings"
	"testing"

	"github.com/fxamacker/cbor/v2"
	"github.com/ghodss/yaml"
	"github.com/safing/portbase/database/record"
	"github.com/safing/portbase/formats/dsd"
	"github.com/vmihailenco/msgpack/v5"
	"pgregory.net/rapid"

	"verifharness/internal/stats"
)

func TestMain(m *testing.M) { stats.Main(m) }

type fataler interface {
	Fatalf(format string, args ...any)
}

// ---------------------------------------------------------------- reference side

// the four formats that have a media type, and all serialization formats
var (
	mimeFormats   = []uint8{dsd.JSON, dsd.CBOR, dsd.MsgPack, dsd.YAML}
	serialFormats = []uint8{dsd.JSON, dsd.CBOR, dsd.MsgPack, dsd.YAML, dsd.GenCode, dsd.RAW}
)

// compression parameter of a case: compNone = plain Dump
const compNone = -1

func fmtName(f uint8) string {
	switch f {
	case dsd.AUTO:
		return "AUTO"
	case dsd.RAW:
		return "RAW"
	case dsd.CBOR:
		return "CBOR"
	case dsd.GenCode:
		return "GenCode"
	case dsd.JSON:
		return "JSON"
	case dsd.MsgPack:
		return "MsgPack"
	case dsd.YAML:
		return "YAML"
	case dsd.GZIP:
		return "GZIP"
	case dsd.LIST:
		return "LIST"
	}
	return fmt.Sprintf("id%d", f)
}

func compName(c int) string {
	if c == compNone {
		return "none"
	}
	return fmtName(uint8(c))
}

func isSerial(f uint8) bool {
	for _, x := range serialFormats {
		if x == f {
			return true
		}
	}
	return false
}

func isMime(f uint8) bool {
	for _, x := range mimeFormats {
		if x == f {
			return true
		}
	}
	return false
}

// resolveSer is the documented meaning of AUTO for serialization.
func resolveSer(f uint8) uint8 {
	if f == dsd.AUTO {
		return dsd.DefaultSerializationFormat
	}
	return f
}

// refIdentifier decodes the identifier varint (uint8 range) at the start of a blob.
func refIdentifier(b []byte) (id uint8, n int, ok bool) {
	if len(b) == 0 {
		return 0, 0, false
	}
	if b[0] < 0x80 {
		return b[0], 1, true
	}
	if len(b) < 2 || b[1] != 0x01 {
		return 0, 0, false
	}
	return b[0], 2, true
}

// refDecode decodes a payload with the codec of the named format directly
// (without portbase's dispatch): the reference for "the blob / body really is
// in the format it claims".
func refDecode(format uint8, payload []byte, target any) error {
	switch format {
	case dsd.JSON:
		return json.Unmarshal(payload, target)
	case dsd.CBOR:
		return cbor.Unmarshal(payload, target)
	case dsd.MsgPack:
		return msgpack.Unmarshal(payload, target)
	case dsd.YAML:
		return yaml.Unmarshal(payload, target)
	case dsd.GenCode:
		g, ok := target.(dsd.GenCodeCompatible)
		if !ok {
			return errors.New("target is not gencode compatible")
		}
		_, err := g.GenCodeUnmarshal(payload)
		return err
	}
	return fmt.Errorf("no reference decoder for format %d", format)
}

func refGunzip(b []byte) ([]byte, error) {
	r, err := gzip.NewReader(bytes.NewReader(b))
	if err != nil {
		return nil, err
	}
	out, err := io.ReadAll(r)
	if err != nil {
		return nil, err
	}
	return out, r.Close()
}

func refGzip(b []byte) []byte {
	var buf bytes.Buffer
	w := gzip.NewWriter(&buf)
	_, _ = w.Write(b)
	_ = w.Close()
	return buf.Bytes()
}

// formatOfMediaType: which encoding does a Content-Type value name? Independent
// of portbase's parser: mime.ParseMediaType of the standard library, then the
// subtype (an "x-" prefix is tolerated).
func formatOfMediaType(ct string) (uint8, bool) {
	mt, _, err := mime.ParseMediaType(ct)
	if err != nil && mt == "" {
		return 0, false
	}
	_, sub, found := strings.Cut(mt, "/")
	if !found {
		return 0, false
	}
	switch strings.TrimPrefix(sub, "x-") {
	case "json":
		return dsd.JSON, true
	case "cbor":
		return dsd.CBOR, true
	case "msgpack":
		return dsd.MsgPack, true
	case "yaml", "yml":
		return dsd.YAML, true
	}
	return 0, false
}

func fresh(v any) any {
	return reflect.New(reflect.TypeOf(v).Elem()).Interface()
}

func render(v any) string {
	switch x := v.(type) {
	case []byte:
		return "raw:" + hex.EncodeToString(x)
	case *record.Meta:
		return fmt.Sprintf("meta:%+v", *x)
	}
	b, err := json.Marshal(v)
	if err != nil {
		return fmt.Sprintf("%+v", v)
	}
	return string(b)
}

// brief is render for failure messages (the rapid fail file holds the full case).
func brief(v any) string {
	r := render(v)
	if len(r) > 700 {
		return r[:700] + "…"
	}
	return r
}

func clip(b []byte) string {
	if len(b) > 160 {
		return fmt.Sprintf("%q…(%d bytes)", b[:160], len(b))
	}
	return fmt.Sprintf("%q", b)
}

// safely runs f and turns a panic into a failure of the totality clause.
func safely(t fataler, what string, in []byte, f func()) {
	defer func() {
		if r := recover(); r != nil {
			t.Fatalf("%s panicked on input %x: %v", what, in, r)
		}
	}()
	f()
}

// ---------------------------------------------------------------- round trip oracle

// checkRoundTrip: dump v in format f (compNone / GZIP / AUTO compression),
// load it back, compare. v is *Subject, *GenSubject, *record.Meta or []byte (RAW).
func checkRoundTrip(t fataler, v any, f uint8, comp int, indent string) {
	want := resolveSer(f)
	var blob []byte
	var err error
	what := fmt.Sprintf("Dump(%s, %s)", brief(v), fmtName(f))
	switch {
	case comp == compNone && indent != "":
		what = fmt.Sprintf("DumpIndent(%s, %s, %q)", brief(v), fmtName(f), indent)
		blob, err = dsd.DumpIndent(v, f, indent)
	case comp == compNone:
		blob, err = dsd.Dump(v, f)
	default:
		what = fmt.Sprintf("DumpAndCompress(%s, %s, %s)", brief(v), fmtName(f), compName(comp))
		blob, err = dsd.DumpAndCompress(v, f, uint8(comp))
	}
	if err != nil {
		t.Fatalf("%s failed: %v", what, err)
	}

	// framing: identifier (+ gzip stream holding another identified blob)
	id, n, ok := refIdentifier(blob)
	if !ok {
		t.Fatalf("%s = %s: no identifier", what, clip(blob))
	}
	inner := blob
	n0 := n
	if comp != compNone {
		if id != dsd.GZIP {
			t.Fatalf("%s = %s: compression identifier is %d, want %d (GZIP)", what, clip(blob), id, dsd.GZIP)
		}
		inner, err = refGunzip(blob[n:])
		if err != nil {
			t.Fatalf("%s: payload after the identifier is not a gzip stream: %v", what, err)
		}
		id, n, ok = refIdentifier(inner)
		if !ok {
			t.Fatalf("%s: decompressed blob %s has no identifier", what, clip(inner))
		}
	}
	if id != want {
		t.Fatalf("%s = %s: written format identifier is %d (%s), want %d (%s); Load result: %s", what, clip(inner), id, fmtName(id), want, fmtName(want), loadOutcome(blob, v))
	}
	payload := inner[n:]

	if want == dsd.RAW {
		raw := v.([]byte)
		if !bytes.Equal(payload, raw) {
			t.Fatalf("%s = %s: bytes after the identifier differ from the input", what, clip(inner))
		}
		var sink []byte
		lf, lerr := dsd.Load(blob, &sink)
		if !errors.Is(lerr, dsd.ErrIsRaw) || lf != dsd.RAW {
			t.Fatalf("Load(%s) = (%d, %v), want (%d, ErrIsRaw)", what, lf, lerr, dsd.RAW)
		}
		return
	}

	// the payload really is in the named format
	ref := fresh(v)
	if err := refDecode(want, payload, ref); err != nil {
		t.Fatalf("%s: payload %s does not decode as %s: %v", what, clip(payload), fmtName(want), err)
	}
	if d := diffValues(v, ref); d != "" {
		t.Fatalf("%s: payload decoded directly as %s differs: %s", what, fmtName(want), d)
	}

	// Load
	got := fresh(v)
	lf, err := dsd.Load(blob, got)
	if err != nil {
		t.Fatalf("Load(%s = %s) failed: %v", what, clip(blob), err)
	}
	if lf != want {
		t.Fatalf("Load(%s) reports format %d (%s), want %d (%s)", what, lf, fmtName(lf), want, fmtName(want))
	}
	if d := diffValues(v, got); d != "" {
		t.Fatalf("Load(%s = %s) differs: %s", what, clip(blob), d)
	}

	// the explicit loaders
	if comp == compNone {
		got = fresh(v)
		if err := dsd.LoadAsFormat(payload, want, got); err != nil {
			t.Fatalf("LoadAsFormat(payload of %s, %s) failed: %v", what, fmtName(want), err)
		}
		if d := diffValues(v, got); d != "" {
			t.Fatalf("LoadAsFormat(payload of %s, %s) differs: %s", what, fmtName(want), d)
		}
	} else {
		got = fresh(v)
		lf, err := dsd.DecompressAndLoad(blob[n0:], uint8(comp), got)
		if err != nil {
			t.Fatalf("DecompressAndLoad(payload of %s, %s) failed: %v", what, compName(comp), err)
		}
		if lf != want {
			t.Fatalf("DecompressAndLoad(payload of %s, %s) reports format %d, want %d", what, compName(comp), lf, want)
		}
		if d := diffValues(v, got); d != "" {
			t.Fatalf("DecompressAndLoad(payload of %s, %s) differs: %s", what, compName(comp), d)
		}
	}
}

func loadOutcome(blob []byte, v any) string {
	var out string
	func() {
		defer func() {
			if r := recover(); r != nil {
				out = fmt.Sprintf("panic %v", r)
			}
		}()
		var target any
		if _, ok := v.([]byte); ok {
			target = &[]byte{}
		} else {
			target = fresh(v)
		}
		f, err := dsd.Load(blob, target)
		out = fmt.Sprintf("(%d, %v)", f, err)
	}()
	return out
}

// ---------------------------------------------------------------- HTTP oracles

// acceptInfo is what the generator (or the strict parser) knows about a header.
type acceptInfo struct {
	named     []uint8 // supported formats named by a media range, in order
	wildcard  bool    // contains "*/*", "type/*" or "*"
	quoted    bool    // contains a quoted-string parameter
	owsSemi   bool    // optional whitespace before a ';'
	params    bool
	qvalue    bool
	elements  int
	firstKind string
}

func (a acceptInfo) mustSucceed() bool { return len(a.named) > 0 || a.wildcard }

func (a acceptInfo) names(f uint8) bool {
	for _, x := range a.named {
		if x == f {
			return true
		}
	}
	return false
}

var presetContentTypes = [][]string{
	nil, nil, nil,
	{"application/json"}, {"text/plain; charset=utf-8"}, {"application/cbor"}, {"application/msgpack"}, {"application/octet-stream"},
	{"application/json", "application/cbor"},
}

// checkResponse: the server side dumps v for a request carrying the Accept
// header, the client side loads the response.
func checkResponse(t fataler, accept string, info acceptInfo, v any) (chosen uint8, dumped bool) {
	req := httptest.NewRequest(http.MethodGet, "/thing", nil)
	req.Header.Set("Accept", accept)
	rec := httptest.NewRecorder()
	// something upstream (a middleware, a default) may have put a Content-Type on the writer already: the response
	// must name the encoding actually used all the same. Chosen by the input, so that a case replays.
	h := fnv.New32a()
	_, _ = h.Write([]byte(accept))
	if preset := presetContentTypes[int(h.Sum32()>>3)%len(presetContentTypes)]; len(preset) > 0 {
		for _, p := range preset {
			rec.Header().Add("Content-Type", p)
		}
		stats.Class("http_response_writer_with_preset_content_type")
	}
	err := dsd.DumpToHTTPResponse(rec, req, v)
	if err != nil {
		if info.mustSucceed() {
			t.Fatalf("DumpToHTTPResponse with Accept %q failed: %v (the header names %v, wildcard=%v)", accept, err, info.named, info.wildcard)
		}
		return 0, false
	}
	resp := rec.Result()
	return checkLoadSide(t, fmt.Sprintf("DumpToHTTPResponse(Accept %q, %s)", accept, brief(v)), info, v,
		resp.Header.Get("Content-Type"), rec.Body.Bytes(), func(target any) (uint8, error) {
			resp.Body = io.NopCloser(bytes.NewReader(rec.Body.Bytes()))
			return dsd.LoadFromHTTPResponse(resp, target)
		}), true
}

// checkLoadSide: the Content-Type written names the encoding actually used and
// the load function recovers an equal value.
func checkLoadSide(t fataler, what string, info acceptInfo, v any, ct string, body []byte, load func(any) (uint8, error)) uint8 {
	cf, ok := formatOfMediaType(ct)
	if !ok {
		t.Fatalf("%s: Content-Type is %q, which names none of the encodings (body %s)", what, ct, clip(body))
	}
	ref := fresh(v)
	if err := refDecode(cf, body, ref); err != nil {
		t.Fatalf("%s: Content-Type %q names %s but the body %s does not decode as such: %v", what, ct, fmtName(cf), clip(body), err)
	}
	if d := diffValues(v, ref); d != "" {
		t.Fatalf("%s: body decoded as %s (Content-Type %q) differs: %s", what, fmtName(cf), ct, d)
	}
	// the format used is one the header asked for (FormatFromAccept's documented contract);
	// not asserted when a quoted parameter may hide a comma.
	if !info.quoted {
		if len(info.named) > 0 && !info.names(cf) {
			t.Fatalf("%s: answered in %s, the header names %v", what, fmtName(cf), info.named)
		}
		if len(info.named) == 0 && info.wildcard && cf != dsd.DefaultSerializationFormat {
			t.Fatalf("%s: answered in %s, a wildcard-only header asks for the default format %s", what, fmtName(cf), fmtName(dsd.DefaultSerializationFormat))
		}
	}
	got := fresh(v)
	lf, err := load(got)
	if err != nil {
		t.Fatalf("%s: load on the other side failed (Content-Type %q, body %s): %v", what, ct, clip(body), err)
	}
	if lf != cf {
		t.Fatalf("%s: load reports format %s, Content-Type %q names %s", what, fmtName(lf), ct, fmtName(cf))
	}
	if d := diffValues(v, got); d != "" {
		t.Fatalf("%s: value loaded on the other side differs: %s", what, d)
	}
	return cf
}

// checkRequest: the client side dumps v into a request in format f, the server
// side loads it; then the response to that request's Accept header.
func checkRequest(t fataler, f uint8, v any) (dumped bool) {
	// the request may be a reused one, or one created with a place-holder body: it then carries a body length and
	// headers that have nothing to do with what is dumped into it. Chosen by the input, so that a case replays.
	var placeholder io.Reader
	h := fnv.New32a()
	_, _ = h.Write([]byte(brief(v)))
	_, _ = h.Write([]byte{f})
	switch (h.Sum32() >> 5) % 4 {
	case 1:
		placeholder = strings.NewReader("{}")
		stats.Class("http_request_created_with_another_body")
	case 2:
		placeholder = strings.NewReader(strings.Repeat("placeholder ", 400))
		stats.Class("http_request_created_with_another_body")
	}
	req := httptest.NewRequest(http.MethodPost, "/thing", placeholder)
	if placeholder != nil {
		req.Header.Set("Content-Type", "text/plain")
		req.Header.Set("Accept", "text/html")
	}
	err := dsd.DumpToHTTPRequest(req, v, f)
	if err != nil {
		if isMime(f) {
			t.Fatalf("DumpToHTTPRequest(%s, %s) failed: %v", brief(v), fmtName(f), err)
		}
		return false // formats without a media type (AUTO, RAW, GenCode, unknown): an error is fine
	}
	what := fmt.Sprintf("DumpToHTTPRequest(%s, %s)", brief(v), fmtName(f))
	body, err := io.ReadAll(req.Body)
	if err != nil {
		t.Fatalf("%s: reading the body: %v", what, err)
	}
	info := acceptInfo{}
	if isMime(f) {
		info.named = []uint8{f}
	}
	cf := checkLoadSide(t, what, info, v, req.Header.Get("Content-Type"), body, func(target any) (uint8, error) {
		req.Body = io.NopCloser(bytes.NewReader(body))
		return dsd.LoadFromHTTPRequest(req, target)
	})
	// "It also sets the Accept header to the same format."
	af, ok := formatOfMediaType(req.Header.Get("Accept"))
	if !ok || af != cf {
		t.Fatalf("%s: Accept header is %q, Content-Type is %q", what, req.Header.Get("Accept"), req.Header.Get("Content-Type"))
	}
	// and the answer to that request
	checkResponse(t, req.Header.Get("Accept"), acceptInfo{named: []uint8{cf}}, v)
	return true
}

// checkMime: MimeDump / MimeLoad directly (what api.Endpoint uses); the media
// type handed back must name the encoding of the data.
func checkMime(t fataler, accept string, info acceptInfo, v any) {
	data, mimeType, format, err := dsd.MimeDump(v, accept)
	if err != nil {
		if info.mustSucceed() {
			t.Fatalf("MimeDump(Accept %q) failed: %v", accept, err)
		}
		return
	}
	what := fmt.Sprintf("MimeDump(%s, Accept %q)", brief(v), accept)
	cf := checkLoadSide(t, what, info, v, mimeType, data, func(target any) (uint8, error) {
		return dsd.MimeLoad(data, mimeType, target)
	})
	if format != cf {
		t.Fatalf("%s reports format %s but media type %q", what, fmtName(format), mimeType)
	}
	if ff := dsd.FormatFromAccept(accept); ff != format {
		t.Fatalf("FormatFromAccept(%q) = %s but MimeDump used %s", accept, fmtName(ff), fmtName(format))
	}
}

// ---------------------------------------------------------------- Accept header grammar

var (
	supportedSubtypes = map[string]uint8{"json": dsd.JSON, "cbor": dsd.CBOR, "msgpack": dsd.MsgPack, "yaml": dsd.YAML, "yml": dsd.YAML}
	subtypeNames      = []string{"json", "cbor", "msgpack", "yaml", "yml"}
	typeNames         = []string{"application", "text", "Application", "APPLICATION", "x-custom", "image"}
	unsupportedRanges = []string{
		"text/html", "image/webp", "application/xml", "application/xhtml+xml", "application/x-yaml", "application/jsonx",
		"application/vnd.api+json", "text/plain", "x", "application/json5", "json/application", "application/octet-stream",
		"application/x-msgpack", "application/jso", "text/x-json", "yaml2", "application/cbor-seq",
	}
	paramForms = []string{
		"q=0.5", "q=0", "q=1.0", "q=0.001", "Q=0.9", "charset=utf-8", "charset=UTF-8", "level=1", "version=2", "boundary=abc",
		`x="a;b=c, d"`, `title="a b"`, "profile=\"1,2\"", "indent=4",
	}
	owsForms = []string{"", "", "", " ", "  ", "\t"}
)

func mixCase(t *rapid.T, s string) string {
	switch rapid.IntRange(0, 3).Draw(t, "case") {
	case 0:
		return strings.ToUpper(s)
	case 1:
		b := []byte(s)
		for i := range b {
			if rapid.Bool().Draw(t, "up") {
				b[i] = strings.ToUpper(string(b[i]))[0]
			}
		}
		return string(b)
	}
	return s
}

// genAccept draws an Accept header from the media-range grammar
// (RFC 7231 5.3.2: #( media-range [ accept-params ] ), OWS around "," and ";")
// plus the lenient forms portbase documents ("*", bare subtype).
func genAccept(t *rapid.T) (string, acceptInfo) {
	var info acceptInfo
	noOWSSemi := stats.Excl("accept.ows_before_semicolon")
	// mostly short headers; one in eight is as long as what browsers send (a dozen ranges, the usable one far behind)
	n := rapid.IntRange(1, 4).Draw(t, "elements")
	if rapid.IntRange(0, 7).Draw(t, "long_header") == 0 {
		n = rapid.IntRange(8, 14).Draw(t, "many_elements")
	}
	long := n >= 8
	if rapid.IntRange(0, 19).Draw(t, "emptyHeader") == 0 {
		return "", acceptInfo{wildcard: true, firstKind: "empty_header"} // no Accept header = anything is acceptable
	}
	var parts []string
	for i := 0; i < n; i++ {
		var el, kind string
		k := rapid.IntRange(0, 9).Draw(t, "elkind")
		if long && i < n-2 && k <= 5 && rapid.IntRange(0, 3).Draw(t, "unsupported_first") != 0 {
			k = 7 // in a long header most of the front entries name nothing this side can produce
		}
		switch {
		case k <= 3:
			sub := rapid.SampledFrom(subtypeNames).Draw(t, "subtype")
			if rapid.IntRange(0, 7).Draw(t, "bare") == 0 {
				el = mixCase(t, sub)
			} else {
				el = rapid.SampledFrom(typeNames).Draw(t, "type") + "/" + mixCase(t, sub)
			}
			info.named = append(info.named, supportedSubtypes[sub])
			kind = "supported"
		case k <= 5:
			switch rapid.IntRange(0, 3).Draw(t, "wild") {
			case 0:
				el = "*"
			case 1:
				el = rapid.SampledFrom(typeNames).Draw(t, "type") + "/*"
			default:
				el = "*/*"
			}
			info.wildcard = true
			kind = "wildcard"
		case k <= 8:
			el = rapid.SampledFrom(unsupportedRanges).Draw(t, "unsupported")
			kind = "unsupported"
		default:
			el = ""
			kind = "empty_element"
		}
		np := rapid.SampledFrom([]int{0, 0, 1, 1, 2}).Draw(t, "nparams")
		if kind == "empty_element" {
			np = 0
		}
		for j := 0; j < np; j++ {
			before := rapid.SampledFrom(owsForms).Draw(t, "owsBefore")
			if before != "" && noOWSSemi {
				stats.Excluded("accept.ows_before_semicolon")
				before = ""
			}
			if before != "" {
				info.owsSemi = true
			}
			p := rapid.SampledFrom(paramForms).Draw(t, "param")
			if strings.Contains(p, `"`) {
				info.quoted = true
			}
			if strings.HasPrefix(strings.ToLower(p), "q=") {
				info.qvalue = true
			}
			el += before + ";" + rapid.SampledFrom(owsForms).Draw(t, "owsAfter") + p
			info.params = true
		}
		if i == 0 {
			info.firstKind = kind
		}
		parts = append(parts, el)
	}
	info.elements = n
	sep := rapid.SampledFrom([]string{",", ", ", " , ", ",\t", ",  "}).Draw(t, "sep")
	h := strings.Join(parts, sep)
	if rapid.IntRange(0, 5).Draw(t, "pad") == 0 {
		h = " " + h + " "
	}
	return h, info
}

func acceptClasses(info acceptInfo) []string {
	cl := []string{"accept_first_" + info.firstKind}
	switch {
	case len(info.named) > 0 && info.firstKind != "supported":
		cl = append(cl, "accept_supported_not_first")
	case len(info.named) == 0 && info.wildcard:
		cl = append(cl, "accept_wildcard_only")
	case !info.mustSucceed():
		cl = append(cl, "accept_nothing_usable")
	}
	if info.params {
		cl = append(cl, "accept_with_params")
	}
	if info.qvalue {
		cl = append(cl, "accept_with_qvalue")
	}
	if info.quoted {
		cl = append(cl, "accept_with_quoted_param")
	}
	if info.owsSemi {
		cl = append(cl, "accept_ows_before_semicolon")
	}
	return cl
}

// parseAcceptStrict parses a header by the RFC 7231 grammar (quoted strings
// respected). ok=false: not a well-formed Accept header, nothing is demanded.
func parseAcceptStrict(h string) (info acceptInfo, ok bool) {
	isT := func(c byte) bool {
		return c > 0x20 && c < 0x7f && !strings.ContainsRune(`()<>@,;:\"/[]?={}`, rune(c))
	}
	i := 0
	ows := func() bool {
		s := i
		for i < len(h) && (h[i] == ' ' || h[i] == '\t') {
			i++
		}
		return i > s
	}
	token := func() string {
		s := i
		for i < len(h) && isT(h[i]) {
			i++
		}
		return h[s:i]
	}
	for {
		ows()
		if i < len(h) && h[i] == ',' { // empty list element
			i++
			continue
		}
		if i >= len(h) {
			break
		}
		typ := token()
		if typ == "" || i >= len(h) || h[i] != '/' {
			return info, false
		}
		i++
		sub := token()
		if sub == "" {
			return info, false
		}
		info.elements++
		switch {
		case sub == "*":
			info.wildcard = true
		case typ == "*":
			return info, false
		default:
			if f, found := supportedSubtypes[strings.ToLower(sub)]; found {
				info.named = append(info.named, f)
			}
		}
		for {
			sp := ows()
			if i >= len(h) || h[i] != ';' {
				break
			}
			if sp {
				info.owsSemi = true
			}
			i++
			ows()
			info.params = true
			if token() == "" || i >= len(h) || h[i] != '=' {
				return info, false
			}
			i++
			if i < len(h) && h[i] == '"' {
				info.quoted = true
				i++
				for i < len(h) && h[i] != '"' {
					if h[i] == '\\' {
						i++
					}
					i++
				}
				if i >= len(h) {
					return info, false
				}
				i++
			} else if token() == "" {
				return info, false
			}
		}
		if i < len(h) && h[i] != ',' {
			return info, false
		}
	}
	return info, true
}

// ---------------------------------------------------------------- totality oracle

func newTarget(kind int) (any, string) {
	switch kind {
	case 0:
		return &Subject{}, "Subject"
	case 1:
		var x any
		return &x, "interface"
	case 2:
		return &map[string]any{}, "map"
	case 3:
		return &record.Meta{}, "Meta"
	default:
		return &Inner{}, "Inner"
	}
}

const numTargets = 5

// checkLoadTotal: every loader returns a value or an error on arbitrary bytes;
// a returned value is consistent with the blob's identifier, and (Subject
// targets inside the schema domain) survives a further dump/load.
func checkLoadTotal(t fataler, data []byte, targetKind int) (loaded bool, pastID bool) {
	target, _ := newTarget(targetKind)
	var lf uint8
	var err error
	var before, after runtime.MemStats
	runtime.ReadMemStats(&before)
	safely(t, "Load", data, func() { lf, err = dsd.Load(data, target) })
	runtime.ReadMemStats(&after)
	// "returns a value or an error": memory must stay in proportion to the blob
	// (gzip expands at most ~1030x). An allocation sized by a length field the blob
	// merely announces is how a short blob aborts the process with "out of memory".
	if grown := after.TotalAlloc - before.TotalAlloc; grown > 16<<20+4096*uint64(len(data)) {
		t.Fatalf("Load(%x) allocated %d bytes for a %d-byte blob (result: %d, %v)", data, grown, len(data), lf, err)
	}
	id, n, idOK := refIdentifier(data)
	pastID = idOK && len(data) > n && (isSerial(id) || id == dsd.GZIP)
	if err == nil {
		loaded = true
		if !idOK || len(data) <= n {
			t.Fatalf("Load(%x) succeeded on a blob without identifier/payload", data)
		}
		inner := id
		if id == dsd.GZIP {
			plain, gerr := refGunzip(data[n:])
			if gerr != nil {
				t.Fatalf("Load(%x) succeeded but the payload is not a complete gzip stream: %v", data, gerr)
			}
			var ok bool
			inner, _, ok = refIdentifier(plain)
			if !ok {
				t.Fatalf("Load(%x) succeeded but the decompressed blob %x has no identifier", data, plain)
			}
		}
		if !isSerial(inner) || inner == dsd.RAW {
			t.Fatalf("Load(%x) returned a value for identifier %d, which is no structured format", data, inner)
		}
		if lf != inner {
			t.Fatalf("Load(%x) reports format %d, the blob is identified as %d", data, lf, inner)
		}
		// what was loaded is a value of the schema: dumping and loading it again yields an equal value
		if s, ok := target.(*Subject); ok && isMime(lf) && inDomain(reflect.ValueOf(s), domainOf(lf), false) {
			checkRoundTrip(t, s, lf, compNone, "")
		}
	}
	// the other loaders must be total as well
	if idOK {
		tg, _ := newTarget(targetKind)
		safely(t, "LoadAsFormat", data, func() { _ = dsd.LoadAsFormat(data[n:], id, tg) })
		tg, _ = newTarget(targetKind)
		safely(t, "DecompressAndLoad", data, func() { _, _ = dsd.DecompressAndLoad(data[n:], id, tg) })
	}
	for _, f := range mimeFormats {
		tg, _ := newTarget(targetKind)
		safely(t, "MimeLoad "+dsd.FormatToMimeType[f], data, func() { _, _ = dsd.MimeLoad(data, dsd.FormatToMimeType[f], tg) })
	}
	return loaded, pastID
}

// sampleValues: one fixed non-trivial value per kind (tables, seeds).
func sampleSubject() *Subject {
	sp, ip, bp := "pointer é", int64(-lim53), true
	bap, sap, mp := []byte{0, 0x1f, 0x8b}, []string{"x", ""}, map[string]string{"k": "v", "": "empty key"}
	return &Subject{
		I: -5, I8: -128, I16: 32767, I32: -2147483648, I64: lim53, U: 7, U8: 255, U16: 65535, U32: 4294967295, U64: uint64(lim53),
		F64: -2.5e-300, F32: 16777217, B: true, S: "null", Sp: &sp, Ip: &ip, Bp: &bp, Ba: []byte("J{}"), Bap: &bap,
		Sa: []string{"a: b", "日本", "\U0001f702"}, Sap: &sap, M: map[string]string{"true": "yes", "a\nb": "<>&"}, Mp: &mp,
		Mi:   map[string]int64{"1": 1, "-": -1},
		In:   Inner{Name: "in", N: 1, F: 0.1, Tags: []string{"t"}, Blob: []byte{1}, Attr: map[string]string{"a": "b"}, Next: &Inner{Name: "next"}},
		Inp:  &Inner{Name: "inp", Next: &Inner{Next: &Inner{Name: "deep"}}},
		Ins:  []Inner{{Name: "0"}, {Name: "1", Tags: []string{}}},
		Inps: []*Inner{nil, {Name: "p"}},
		Min:  map[string]Inner{"x": {N: 9}},
	}
}

func sampleGen() *GenSubject {
	s, b := "gp", byte(9)
	sa, ba := []string{"f", "g"}, []byte{5, 6}
	return &GenSubject{I8: -2, I16: -3, I32: -4, I64: -1 << 63, UI8: 2, UI16: 3, UI32: 4, UI64: 1<<64 - 1, S: "aé", Sp: &s, Sa: []string{"c", ""}, Sap: &sa, B: 1, Bp: &b, Ba: []byte{3, 4}, Bap: &ba}
}

func sampleMeta() *record.Meta {
	m := &record.Meta{Created: 1, Modified: -2, Expires: 1 << 62, Deleted: -1 << 63}
	m.MakeSecret()
	return m
}
