module verifharness

go 1.23

toolchain go1.23.5

require (
	github.com/fxamacker/cbor/v2 v2.5.0
	github.com/ghodss/yaml v1.0.0
	github.com/gorilla/websocket v1.5.1
	github.com/safing/jess v0.3.3
	github.com/safing/portbase v0.18.6
	github.com/tidwall/sjson v1.2.5
	github.com/vmihailenco/msgpack/v5 v5.4.1
	pgregory.net/rapid v1.3.0
)

require (
	github.com/AndreasBriese/bbloom v0.0.0-20190825152654-46b345b51c96 // indirect
	github.com/aead/ecdh v0.2.0 // indirect
	github.com/aead/serpent v0.0.0-20160714141033-fba169763ea6 // indirect
	github.com/armon/go-radix v1.0.0 // indirect
	github.com/bluele/gcache v0.0.2 // indirect
	github.com/cespare/xxhash/v2 v2.2.0 // indirect
	github.com/dgraph-io/badger v1.6.2 // indirect
	github.com/dgraph-io/ristretto v0.1.1 // indirect
	github.com/dustin/go-humanize v1.0.1 // indirect
	github.com/gofrs/uuid v4.4.0+incompatible // indirect
	github.com/golang/glog v1.2.0 // indirect
	github.com/golang/protobuf v1.5.3 // indirect
	github.com/gorilla/mux v1.8.1 // indirect
	github.com/hashicorp/errwrap v1.1.0 // indirect
	github.com/hashicorp/go-multierror v1.1.1 // indirect
	github.com/hashicorp/go-version v1.6.0 // indirect
	github.com/klauspost/cpuid/v2 v2.2.6 // indirect
	github.com/mitchellh/copystructure v1.2.0 // indirect
	github.com/mitchellh/reflectwalk v1.0.2 // indirect
	github.com/mr-tron/base58 v1.2.0 // indirect
	github.com/pkg/errors v0.9.1 // indirect
	github.com/satori/go.uuid v1.2.0 // indirect
	github.com/seehuhn/fortuna v1.0.1 // indirect
	github.com/seehuhn/sha256d v1.0.0 // indirect
	github.com/shirou/gopsutil v3.21.11+incompatible // indirect
	github.com/tevino/abool v1.2.0 // indirect
	github.com/tidwall/gjson v1.17.0 // indirect
	github.com/tidwall/match v1.1.1 // indirect
	github.com/tidwall/pretty v1.2.1 // indirect
	github.com/vmihailenco/tagparser/v2 v2.0.0 // indirect
	github.com/x448/float16 v0.8.4 // indirect
	github.com/zeebo/blake3 v0.2.3 // indirect
	go.etcd.io/bbolt v1.3.8 // indirect
	golang.org/x/crypto v0.17.0 // indirect
	golang.org/x/exp v0.0.0-20231219180239-dc181d75b848 // indirect
	golang.org/x/net v0.19.0 // indirect
	golang.org/x/sync v0.5.0 // indirect
	golang.org/x/sys v0.15.0 // indirect
	google.golang.org/protobuf v1.32.0 // indirect
	gopkg.in/yaml.v2 v2.4.0 // indirect
)

replace github.com/safing/portbase => /repo
