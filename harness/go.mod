module verifharness

go 1.23

toolchain go1.23.5

require (
	github.com/safing/portbase v0.0.0
	pgregory.net/rapid v1.3.0
)

replace github.com/safing/portbase => /repo
