package c20

import (
	"bytes"
	"context"
	"encoding/json"
	"fmt"
	"os"
	"os/exec"
	"path/filepath"
	"strings"
	"testing"
	"time"

	"pgregory.net/rapid"

	"verifharness/c20/scn"
	"verifharness/internal/stats"
)

// One context tracer shared by several goroutines: "context-tracer submissions
// carry all their collected lines" for "every number of concurrently logging
// goroutines". A request handler hands its tracer to k helpers, each logs n
// lines through it at the same time; then the handler logs its main line and
// submits. Oracle: the adapter receives exactly one message, the main line,
// and the lines printed with it are exactly the k*n collected ones - each
// once, those of one helper in the order it logged them.

func TestPropSharedTracer(t *testing.T) {
	rapid.Check(t, func(t *rapid.T) {
		k := rapid.IntRange(2, 8).Draw(t, "helpers")
		n := rapid.SampledFrom([]int{1, 3, 20, 150, 600, 2000}).Draw(t, "lines_per_helper")
		dir, err := os.MkdirTemp(scratch, "fanout")
		if err != nil {
			t.Fatalf("harness: %v", err)
		}
		defer os.RemoveAll(dir)
		resPath := filepath.Join(dir, "result.json")
		ctx, cancel := context.WithTimeout(context.Background(), childTimeout)
		defer cancel()
		cmd := exec.CommandContext(ctx, childBin, "--fanout", fmt.Sprint(k), fmt.Sprint(n), resPath)
		var out bytes.Buffer
		cmd.Stderr = &out
		cmd.WaitDelay = 2 * time.Second
		err = cmd.Run()
		if ctx.Err() != nil {
			t.Fatalf("harness: the fan-out child did not terminate within %s: %s", childTimeout, tail(out.String()))
		}
		code := cmd.ProcessState.ExitCode()
		if code == 2 && (strings.Contains(out.String(), "panic:") || strings.Contains(out.String(), "fatal error:")) {
			t.Fatalf("C20 violated: %d goroutines logging %d lines each through one context tracer crashed the process:\n%s", k, n, tail(out.String()))
		}
		b, rerr := os.ReadFile(resPath)
		if rerr != nil {
			t.Fatalf("harness: fan-out child exited %d (%v) without result: %s", code, err, tail(out.String()))
		}
		var res scn.Result
		if jerr := json.Unmarshal(b, &res); jerr != nil {
			t.Fatalf("harness: unreadable result: %v", jerr)
		}
		if res.Hung {
			t.Fatalf("C20 violated: the logger did not finish within 45 s (%d helpers x %d lines through one tracer); stacks:\n%s", k, n, res.Stacks)
		}
		var main []scn.Write
		for _, w := range res.Writes {
			if w.Text == "fanout main line" {
				main = append(main, w)
			} else {
				t.Fatalf("C20 violated: the adapter received %q as a message of its own; collected lines belong to the tracer's submission", w.Text)
			}
		}
		if len(main) != 1 {
			t.Fatalf("C20 violated: the tracer's submission reached the adapter %d times (want once); %d helpers x %d lines", len(main), k, n)
		}
		next := make([]int, k)
		for _, l := range main[0].Trace {
			i := strings.Index(l, "g")
			var g, j int
			found := false
			for i >= 0 {
				if _, err := fmt.Sscanf(l[i:], "g%d-%d;", &g, &j); err == nil {
					found = true
					break
				}
				nx := strings.Index(l[i+1:], "g")
				if nx < 0 {
					break
				}
				i += 1 + nx
			}
			if !found {
				continue // not a collected line of a helper
			}
			if g < 0 || g >= k {
				t.Fatalf("C20 violated: the submission carries the line %q of a helper that does not exist", l)
			}
			if j != next[g] {
				t.Fatalf("C20 violated: %d helpers x %d lines through one tracer: the submission carries line %d of helper %d where its line %d is due (a line was lost, repeated or reordered): %q", k, n, j, g, next[g], l)
			}
			next[g]++
		}
		for g := range next {
			if next[g] != n {
				t.Fatalf("C20 violated: %d helpers x %d lines through one tracer: the submission carries only %d of the %d lines of helper %d (%d collected lines in all, want %d)", k, n, next[g], n, g, len(main[0].Trace), k*n)
			}
		}
		stats.Case(fmt.Sprintf("fanout|%d|%d", k, n), true, "shared_tracer", fmt.Sprintf("shared_tracer_helpers_%d", k))
		if stats.WantSample("shared_tracer") {
			stats.Sample("shared_tracer", map[string]any{"helpers": k, "lines_per_helper": n, "collected_lines_received": len(main[0].Trace)})
		}
	})
}
