// Command logscenario runs ONE C20 scenario against portbase/log in a fresh
// process (the log package can be started and shut down once per process):
//
//	logscenario <scenario.json> <result.json>
//
// It installs a recording adapter, starts the logger, runs the phases
// (producer goroutines separated by barriers), calls Shutdown and writes what
// the adapter received. It passes no verdict; the oracle lives in the parent.
package main

import (
	"encoding/json"
	"fmt"
	"os"
	"os/exec"
	"runtime"
	"strings"
	"sync"
	"sync/atomic"
	"syscall"
	"time"

	"github.com/safing/portbase/log"

	"verifharness/c20/cmd/logscenario/pkga"
	"verifharness/c20/cmd/logscenario/pkgb"
	"verifharness/c20/scn"
)

type recorder struct {
	mu     sync.Mutex
	writes []scn.Write
	pace   int
	paceUs int
	times  [][2]int64
	n      int
}

// Write implements log.Adapter. It runs on the logger's writer goroutine, as
// log.StdoutAdapter would; the exported formatter is the only way to see the
// lines a context tracer collected.
func (r *recorder) Write(msg log.Message, duplicates uint64) {
	var t0 int64
	if r.pace == 4 {
		t0 = sinceStart()
	}
	w := scn.Write{Text: msg.Text(), Sev: int(msg.Severity()), File: msg.File(), Line: msg.LineNumber(), Dups: duplicates}
	formatted := log.StdoutAdapter.Format(msg, duplicates)
	if i := strings.IndexByte(formatted, '\n'); i >= 0 {
		w.Trace = strings.Split(formatted[i+1:], "\n")
		formatted = formatted[:i]
	}
	if strings.Contains(formatted, " Σ=") {
		w.Sigma = true
	}
	r.mu.Lock()
	r.writes = append(r.writes, w)
	r.n++
	n := r.n
	r.mu.Unlock()
	switch r.pace {
	case 4:
		time.Sleep(time.Duration(r.paceUs) * time.Microsecond)
		t1 := sinceStart()
		r.mu.Lock()
		r.times = append(r.times, [2]int64{t0, t1})
		r.mu.Unlock()
	case 1:
		runtime.Gosched()
	case 2:
		if n%64 == 0 {
			time.Sleep(50 * time.Microsecond)
		}
	case 3:
		if n%512 == 0 {
			time.Sleep(time.Millisecond)
		}
	}
}

func (r *recorder) len() int {
	r.mu.Lock()
	defer r.mu.Unlock()
	return len(r.writes)
}

func (r *recorder) snapshot() []scn.Write {
	r.mu.Lock()
	defer r.mu.Unlock()
	return append([]scn.Write(nil), r.writes...)
}

var stage atomic.Value

var (
	processStart = time.Now()
	lastLogUs    atomic.Int64
	trackLastLog bool
)

func sinceStart() int64 { return int64(time.Since(processStart) / time.Microsecond) }

func noteLog() {
	if trackLastLog {
		now := sinceStart()
		for {
			old := lastLogUs.Load()
			if now <= old || lastLogUs.CompareAndSwap(old, now) {
				return
			}
		}
	}
}

func fail(format string, a ...any) {
	fmt.Fprintf(os.Stderr, "logscenario: "+format+"\n", a...)
	os.Exit(4)
}

func applyChange(op scn.Op) {
	switch op.K {
	case scn.OpLevel:
		log.SetLogLevel(log.Severity(op.Sev))
	case scn.OpPkg:
		m := make(map[string]log.Severity, len(op.Pkgs))
		for k, v := range op.Pkgs {
			m[k] = log.Severity(v)
		}
		log.SetPkgLevels(m)
	case scn.OpUnset:
		log.UnSetPkgLevels()
	}
}

type step struct {
	ev    scn.Event
	sevs  []int
	fs    []bool
	texts []string
}

func prepare(evs []scn.Event) []step {
	out := make([]step, len(evs))
	for i, ev := range evs {
		out[i].ev = ev
		if ev.Kind == scn.OpTracer {
			for _, l := range ev.Trace {
				out[i].sevs = append(out[i].sevs, l.Sev)
				out[i].fs = append(out[i].fs, l.F)
				out[i].texts = append(out[i].texts, l.Text)
			}
		}
	}
	return out
}

func run(steps []step) {
	for i := range steps {
		st := &steps[i]
		switch st.ev.Kind {
		case scn.OpLines:
			l := st.ev.Line
			for k := 0; k < st.ev.Times; k++ {
				switch {
				case l.Pkg == "pkgb" && l.Via:
					pkgb.LogVia(l.Sev, l.Text)
				case l.Pkg == "pkgb":
					pkgb.Log(l.Sev, l.F, l.Text)
				case l.Via:
					pkga.LogVia(l.Sev, l.Text)
				default:
					pkga.Log(l.Sev, l.F, l.Text)
				}
				noteLog()
			}
		case scn.OpTracer:
			n := len(st.sevs)
			traced, untraced := pkga.Tracer, pkga.Untraced
			if st.ev.Pkg == "pkgb" {
				traced, untraced = pkgb.Tracer, pkgb.Untraced
			}
			for k := 0; k < st.ev.EchoBefore; k++ {
				untraced(st.sevs[n-1:], st.fs[n-1:], st.texts[n-1:])
			}
			traced(st.sevs, st.fs, st.texts)
			for k := 0; k < st.ev.EchoAfter; k++ {
				untraced(st.sevs[n-1:], st.fs[n-1:], st.texts[n-1:])
			}
			noteLog()
		case scn.OpLevel, scn.OpPkg, scn.OpUnset:
			applyChange(st.ev.Op)
		case scn.OpTrigger:
			log.TriggerWriter()
		case scn.OpYield:
			runtime.Gosched()
		case scn.OpSleep:
			time.Sleep(time.Duration(st.ev.Op.Us) * time.Microsecond)
		}
	}
}

func writeResult(path string, res *scn.Result) {
	b, err := json.Marshal(res)
	if err != nil {
		fail("marshal: %v", err)
	}
	tmp := path + ".tmp"
	if err := os.WriteFile(tmp, b, 0o644); err != nil {
		fail("write: %v", err)
	}
	if err := os.Rename(tmp, path); err != nil {
		fail("rename: %v", err)
	}
}

// stutterMain stops and resumes process pid n times: after delayUs, repeat
// { SIGSTOP; sleep stopMs; SIGCONT; spin runUs }. A final SIGCONT is always sent.
func stutterMain(args []string) {
	var pid, delayUs, runUs, stopMs, n int
	if len(args) != 5 {
		fail("usage: logscenario --stutter pid delay_us run_us stop_ms n")
	}
	for i, p := range []*int{&pid, &delayUs, &runUs, &stopMs, &n} {
		if _, err := fmt.Sscan(args[i], p); err != nil {
			fail("stutter: %v", err)
		}
	}
	runtime.LockOSThread()
	spin := func(us int) {
		t0 := time.Now()
		for time.Since(t0) < time.Duration(us)*time.Microsecond {
		}
	}
	_, _ = os.Stdout.Write([]byte{1})
	spin(delayUs)
	for i := 0; i < n; i++ {
		if syscall.Kill(pid, syscall.SIGSTOP) != nil {
			break
		}
		time.Sleep(time.Duration(stopMs) * time.Millisecond)
		_ = syscall.Kill(pid, syscall.SIGCONT)
		spin(runUs)
	}
	_ = syscall.Kill(pid, syscall.SIGCONT)
}

// fanoutMain: one request handler hands its context tracer to k helper goroutines, each of which logs n lines through
// it at the same time; the handler waits for them, logs its main line and submits. What the adapter received is written
// to the result file.
func fanoutMain(args []string) {
	var k, n int
	if len(args) != 3 {
		fail("usage: logscenario --fanout goroutines lines result.json")
	}
	for i, p := range []*int{&k, &n} {
		if _, err := fmt.Sscan(args[i], p); err != nil {
			fail("fanout: %v", err)
		}
	}
	rec := &recorder{}
	go func() {
		time.Sleep(45 * time.Second)
		buf := make([]byte, 1<<20)
		buf = buf[:runtime.Stack(buf, true)]
		writeResult(args[2], &scn.Result{Writes: rec.snapshot(), Stage: "fanout", Hung: true, Stacks: string(buf)})
		os.Exit(3)
	}()
	log.SetAdapter(rec)
	if err := log.Start(); err != nil {
		fail("log.Start: %v", err)
	}
	log.SetLogLevel(log.TraceLevel)
	pkga.Fanout(k, n)
	log.Shutdown()
	writeResult(args[2], &scn.Result{Writes: rec.snapshot(), Stage: "done"})
}

func main() {
	if len(os.Args) > 1 && os.Args[1] == "--stutter" {
		stutterMain(os.Args[2:])
		return
	}
	if len(os.Args) > 1 && os.Args[1] == "--fanout" {
		fanoutMain(os.Args[2:])
		return
	}
	if len(os.Args) != 3 {
		fail("usage: logscenario <scenario.json> <result.json>")
	}
	raw, err := os.ReadFile(os.Args[1])
	if err != nil {
		fail("%v", err)
	}
	var sc scn.Scenario
	if err := json.Unmarshal(raw, &sc); err != nil {
		fail("scenario: %v", err)
	}
	if err := sc.Validate(); err != nil {
		fail("scenario: %v", err)
	}
	resultPath := os.Args[2]

	// expand everything up front so that producers run tight loops
	plan := make([][][]step, len(sc.Phases)) // [phase][goroutine]
	exp := make([]*scn.Expander, sc.Goroutines)
	for g := range exp {
		exp[g] = &scn.Expander{G: g}
	}
	for pi, ph := range sc.Phases {
		plan[pi] = make([][]step, sc.Goroutines)
		for g, seq := range ph.G {
			var evs []scn.Event
			for _, op := range seq {
				evs = append(evs, exp[g].Expand(op)...)
			}
			plan[pi][g] = prepare(evs)
		}
	}

	rec := &recorder{pace: sc.AdapterPace, paceUs: sc.PaceUs}
	trackLastLog = sc.AdapterPace == 4
	stage.Store("start")

	// watchdog: a child that is stuck reports where, with all goroutine stacks
	go func() {
		time.Sleep(45 * time.Second)
		buf := make([]byte, 1<<20)
		buf = buf[:runtime.Stack(buf, true)]
		res := &scn.Result{Writes: rec.snapshot(), Stage: stage.Load().(string), Hung: true, Stacks: string(buf)}
		writeResult(resultPath, res)
		os.Exit(3)
	}()

	log.SetAdapter(rec)
	if sc.Sched != "free" {
		log.EnableScheduling()
	}
	if err := log.Start(); err != nil {
		fail("log.Start: %v", err)
	}
	for _, op := range sc.Init {
		applyChange(op)
	}

	// producers
	release := make([]chan int, sc.Goroutines)
	var wg sync.WaitGroup
	for g := 0; g < sc.Goroutines; g++ {
		release[g] = make(chan int)
		go func(g int) {
			for pi := range release[g] {
				run(plan[pi][g])
				wg.Done()
			}
		}(g)
	}
	for pi, ph := range sc.Phases {
		stage.Store(fmt.Sprintf("phase %d", pi))
		for _, op := range ph.Pre {
			applyChange(op)
		}
		wg.Add(sc.Goroutines)
		for g := 0; g < sc.Goroutines; g++ {
			release[g] <- pi
		}
		wg.Wait()
	}
	for g := range release {
		close(release[g])
	}

	if sc.PreShutdownSleepUs >= scn.SilenceUs {
		// the long silence is measured in 10ms timer wake-ups of THIS process (the same
		// kind of pause the writer takes), not in one wall-clock sleep: a process that is
		// stopped or starved does not accumulate ticks, and whenever this goroutine got
		// its 200 wake-ups the writer goroutine had the same opportunities
		for i := 0; i < sc.PreShutdownSleepUs/10000; i++ {
			time.Sleep(10 * time.Millisecond)
		}
	} else if sc.PreShutdownSleepUs > 0 {
		time.Sleep(time.Duration(sc.PreShutdownSleepUs) * time.Microsecond)
	}

	var stutter *exec.Cmd
	if st := sc.Stutter; st != nil {
		// model the OS descheduling the whole process again and again while
		// Shutdown runs: a copy of this binary stops and resumes us
		stutter = exec.Command(os.Args[0], "--stutter", fmt.Sprint(os.Getpid()), fmt.Sprint(st.DelayUs), fmt.Sprint(st.RunUs), fmt.Sprint(st.StopMs), fmt.Sprint(st.N))
		stutter.Stderr = os.Stderr
		ready, err := stutter.StdoutPipe()
		if err != nil {
			fail("stutter: %v", err)
		}
		if err := stutter.Start(); err != nil {
			fail("stutter: %v", err)
		}
		// the helper writes one byte when it starts its delay
		one := make([]byte, 1)
		_, _ = ready.Read(one)
	}

	stage.Store("shutdown")
	res := &scn.Result{}
	res.AtShutdownCall = rec.len()
	extra := make([]int, sc.ExtraShutdownCallers)
	var extraWg sync.WaitGroup
	for i := range extra {
		extraWg.Add(1)
		go func(i int) {
			defer extraWg.Done()
			time.Sleep(time.Duration(i*150) * time.Microsecond)
			log.Shutdown()
			extra[i] = rec.len()
		}(i)
	}
	log.Shutdown()
	res.AtShutdownReturn = rec.len()
	extraWg.Wait()
	res.ExtraShutdownReturns = extra
	stage.Store("after shutdown")
	time.Sleep(200 * time.Millisecond)
	res.After200ms = rec.len()
	res.Writes = rec.snapshot()
	res.Stage = "done"
	if rec.pace == 4 {
		rec.mu.Lock()
		res.WriteTimes = append([][2]int64(nil), rec.times...)
		rec.mu.Unlock()
		res.LastLogUs = lastLogUs.Load()
	}
	if stutter != nil {
		_ = stutter.Wait()
	}
	writeResult(resultPath, res)
}
