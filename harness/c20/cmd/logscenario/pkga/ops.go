// Package pkga is one of the two origins of log calls in the C20 scenarios:
// the log package applies per-package levels to the package (directory name) of
// the DIRECT caller of log.Info etc. (runtime.Caller(2) inside log.log, and
// runtime.Caller(1) inside log.AddTracer), so these functions call the log
// package themselves. pkgb is an identical copy in another directory.
package pkga

import (
	"context"
	"fmt"
	"sync"

	"github.com/safing/portbase/log"
)

// Log emits one plain line. Every (severity, f) pair is one call site, so
// repeated calls with the same arguments are identical lines for the logger.
func Log(sev int, f bool, msg string) {
	if f {
		switch sev {
		case 1:
			log.Tracef("%s", msg)
		case 2:
			log.Debugf("%s", msg)
		case 3:
			log.Infof("%s", msg)
		case 4:
			log.Warningf("%s", msg)
		case 5:
			log.Errorf("%s", msg)
		case 6:
			log.Criticalf("%s", msg)
		}
		return
	}
	switch sev {
	case 1:
		log.Trace(msg)
	case 2:
		log.Debug(msg)
	case 3:
		log.Info(msg)
	case 4:
		log.Warning(msg)
	case 5:
		log.Error(msg)
	case 6:
		log.Critical(msg)
	}
}

var table = [...]func(string){nil, log.Trace, log.Debug, log.Info, log.Warning, log.Error, log.Critical}

// LogVia emits one plain line through a function value: all severities share
// this one call site (same file and line), only the level differs.
func LogVia(sev int, msg string) {
	table[sev](msg)
}

// Tracer adds a context tracer, logs the given lines through it and submits it.
// fs[i] selects the Printf-style method for line i.
func Tracer(sevs []int, fs []bool, texts []string) {
	_, tr := log.AddTracer(context.Background())
	handle(tr, sevs, fs, texts)
}

// Untraced runs the same handler for a context that has no tracer:
// log.Tracer returns nil and the nil-safe ContextTracer methods log plainly —
// from the SAME call sites as the collected lines of Tracer.
func Untraced(sevs []int, fs []bool, texts []string) {
	handle(log.Tracer(context.Background()), sevs, fs, texts)
}

// handle is the "request handler": it logs through the tracer of its context
// if there is one and plainly otherwise. One call site per (severity, style).
func handle(tr *log.ContextTracer, sevs []int, fs []bool, texts []string) {
	for i, s := range sevs {
		if fs[i] {
			switch s {
			case 1:
				tr.Tracef("%s", texts[i])
			case 2:
				tr.Debugf("%s", texts[i])
			case 3:
				tr.Infof("%s", texts[i])
			case 4:
				tr.Warningf("%s", texts[i])
			case 5:
				tr.Errorf("%s", texts[i])
			case 6:
				tr.Criticalf("%s", texts[i])
			}
			continue
		}
		switch s {
		case 1:
			tr.Trace(texts[i])
		case 2:
			tr.Debug(texts[i])
		case 3:
			tr.Info(texts[i])
		case 4:
			tr.Warning(texts[i])
		case 5:
			tr.Error(texts[i])
		case 6:
			tr.Critical(texts[i])
		}
	}
	tr.Submit()
}

// Fanout: a handler shares its tracer with k helper goroutines that log n lines each through it at the same time
// (texts "g<helper>-<line>;"), then logs the main line and submits.
func Fanout(k, n int) {
	_, tr := log.AddTracer(context.Background())
	var wg sync.WaitGroup
	for g := 0; g < k; g++ {
		wg.Add(1)
		go func(g int) {
			defer wg.Done()
			for j := 0; j < n; j++ {
				text := fmt.Sprintf("g%d-%d;", g, j)
				switch (g + j) % 4 {
				case 0:
					tr.Trace(text)
				case 1:
					tr.Debugf("%s", text)
				case 2:
					tr.Info(text)
				default:
					tr.Warningf("%s", text)
				}
			}
		}(g)
	}
	wg.Wait()
	tr.Info("fanout main line")
	tr.Submit()
}
