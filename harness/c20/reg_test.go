package c20

import (
	"encoding/json"
	"fmt"
	"os"
	"path/filepath"
	"strings"
	"testing"

	"verifharness/c20/scn"
)

// ---------------------------------------------------------------- synthetic results (oracle unit tests)

// refEnabled is written independently of scn/oracle.go.
type refCfg struct {
	global int
	active bool
	pkgs   map[string]int
}

func (c refCfg) on(sev int, pkg string) bool {
	if c.active {
		if l, ok := c.pkgs[pkg]; ok {
			return sev >= l
		}
	}
	return sev >= c.global
}

func (c *refCfg) apply(op scn.Op) {
	switch op.K {
	case scn.OpLevel:
		c.global = op.Sev
	case scn.OpPkg:
		c.pkgs, c.active = op.Pkgs, true
	case scn.OpUnset:
		c.active = false
	}
}

var refSevNames = []string{"", "TRAC", "DEBU", "INFO", "WARN", "ERRO", "CRIT"}

// ideal produces the adapter stream of a sequential execution (phase by phase,
// goroutine by goroutine) of the scenario. merge: identical consecutive lines
// arrive as one call with a duplicate count.
func ideal(sc *scn.Scenario, merge bool) *scn.Result {
	cfg := refCfg{global: 3, pkgs: map[string]int{}}
	for _, op := range sc.Init {
		cfg.apply(op)
	}
	exp := make([]*scn.Expander, sc.Goroutines)
	for g := range exp {
		exp[g] = &scn.Expander{G: g}
	}
	res := &scn.Result{Stage: "done"}
	file := func(pkg string) string { return "/verif/harness/c20/cmd/logscenario/" + pkg + "/ops" }
	emit := func(l scn.Line, times int) {
		if !cfg.on(l.Sev, l.Pkg) {
			return
		}
		w := scn.Write{Text: l.Text, Sev: l.Sev, File: file(l.Pkg), Line: 30 + 2*l.Sev}
		if strings.Contains(l.Text, ".") { // logged by the tracer handler (traced or not): its call sites
			w.Line = 80 + 2*l.Sev
		}
		if merge {
			w.Dups = uint64(times - 1)
			res.Writes = append(res.Writes, w)
			return
		}
		for k := 0; k < times; k++ {
			res.Writes = append(res.Writes, w)
		}
	}
	for _, ph := range sc.Phases {
		for _, op := range ph.Pre {
			cfg.apply(op)
		}
		for g, seq := range ph.G {
			for _, op := range seq {
				for _, ev := range exp[g].Expand(op) {
					switch ev.Kind {
					case scn.OpLines:
						emit(ev.Line, ev.Times)
					case scn.OpTracer:
						n := len(ev.Trace)
						main := ev.Trace[n-1]
						if ev.EchoBefore > 0 {
							emit(main, ev.EchoBefore)
						}
						if !cfg.on(1, ev.Pkg) {
							for _, l := range ev.Trace {
								emit(l, 1)
							}
							if ev.EchoAfter > 0 {
								emit(main, ev.EchoAfter)
							}
							continue
						}
						w := scn.Write{Text: main.Text, Sev: main.Sev, File: file(ev.Pkg), Line: 80 + 2*main.Sev}
						for _, l := range ev.Trace[:n-1] {
							w.Trace = append(w.Trace, fmt.Sprintf("\x1b[34m            1.1µs o/%s/ops:056 ▶ %s\x1b[0m     %s", ev.Pkg, refSevNames[l.Sev], l.Text))
						}
						w.Sigma = n > 1
						res.Writes = append(res.Writes, w)
						if ev.EchoAfter > 0 {
							emit(main, ev.EchoAfter)
						}
					case scn.OpLevel, scn.OpPkg, scn.OpUnset:
						cfg.apply(ev.Op)
					}
				}
			}
		}
	}
	res.AtShutdownReturn = len(res.Writes)
	res.After200ms = len(res.Writes)
	return res
}

func clone(r *scn.Result) *scn.Result {
	b, _ := json.Marshal(r)
	var c scn.Result
	_ = json.Unmarshal(b, &c)
	return &c
}

func fix(r *scn.Result) *scn.Result {
	r.AtShutdownReturn = len(r.Writes)
	r.After200ms = len(r.Writes)
	return r
}

func mustPass(t *testing.T, name string, sc *scn.Scenario, r *scn.Result) *scn.Report {
	t.Helper()
	rep := scn.Check(sc, r)
	if rep.Harness != "" || len(rep.Violations) > 0 {
		t.Fatalf("%s: legal outcome rejected: %s %v", name, rep.Harness, rep.Violations)
	}
	return rep
}

func mustFail(t *testing.T, name string, sc *scn.Scenario, r *scn.Result, want string) {
	t.Helper()
	rep := scn.Check(sc, r)
	if rep.Harness != "" {
		t.Fatalf("%s: harness error instead of a violation: %s", name, rep.Harness)
	}
	if len(rep.Violations) == 0 {
		t.Fatalf("%s: illegal outcome accepted", name)
	}
	if want != "" && !strings.Contains(strings.Join(rep.Violations, "\n"), want) {
		t.Fatalf("%s: violation reported but not as %q: %v", name, want, rep.Violations)
	}
}

// baseScenario: two goroutines, two phases, level change at the barrier, dups, twins, tracers, both packages.
func baseScenario() *scn.Scenario {
	return &scn.Scenario{
		Sched: "free", Goroutines: 2,
		Init: []scn.Op{{K: scn.OpLevel, Sev: 1}},
		Phases: []scn.Phase{
			{G: [][]scn.Op{
				{{K: scn.OpLines, N: 6, Sev: 1, Step: 1, Pkg: "a", DupEvery: 2, Rep: 2}, {K: scn.OpTracer, Pkg: "a", Sevs: []int{1, 3, 5}}, {K: scn.OpLines, N: 2, Sev: 3, Pkg: "b", Twin: 1}},
				{{K: scn.OpLines, N: 4, Sev: 2, Pkg: "b", Alt: true}, {K: scn.OpTracer, Pkg: "b", Sevs: []int{4}}},
			}},
			{Pre: []scn.Op{{K: scn.OpLevel, Sev: 4}, {K: scn.OpPkg, Pkgs: map[string]int{"pkgb": 2}}},
				G: [][]scn.Op{
					{{K: scn.OpLines, N: 6, Sev: 1, Step: 1, Pkg: "a"}, {K: scn.OpTracer, Pkg: "a", Sevs: []int{1, 5, 2}}},
					{{K: scn.OpLines, N: 6, Sev: 1, Step: 1, Pkg: "b", DupEvery: 3, Rep: 1}, {K: scn.OpTracer, Pkg: "b", Sevs: []int{1, 2, 3}}},
				}},
		},
	}
}

func indexOf(r *scn.Result, text string) int {
	for i, w := range r.Writes {
		if w.Text == text {
			return i
		}
	}
	return -1
}

func TestRegOracleAcceptsLegalOutcomes(t *testing.T) {
	defer noSites()() // synthetic adapter streams carry no real line numbers
	sc := baseScenario()
	for _, merge := range []bool{false, true} {
		r := ideal(sc, merge)
		rep := mustPass(t, fmt.Sprintf("ideal merge=%v", merge), sc, r)
		if rep.Must == 0 || rep.Never == 0 || rep.TracerReal != 2 || rep.TracerNil != 2 {
			t.Fatalf("unexpected accounting: %+v", rep)
		}
		if merge && rep.MergedWrites == 0 {
			t.Fatalf("merged duplicates not counted")
		}
	}
	// partial merge: three identical lines as (x, dups=1) followed by (x, dups=0)
	r := ideal(sc, true)
	i := indexOf(r, "L0:1")
	if i < 0 || r.Writes[i].Dups != 2 {
		t.Fatalf("test set-up: L0:1 should be logged three times, got %+v", r.Writes[i])
	}
	r.Writes[i].Dups = 1
	extra := r.Writes[i]
	extra.Dups = 0
	r.Writes = append(r.Writes[:i+1], append([]scn.Write{extra}, r.Writes[i+1:]...)...)
	mustPass(t, "partial merge", sc, fix(r))

	// other interleaving of the two goroutines inside a phase: goroutine 1 first
	r = ideal(sc, false)
	var g0, g1, rest []scn.Write
	for _, w := range r.Writes {
		switch {
		case strings.HasPrefix(w.Text, "L0:"):
			g0 = append(g0, w)
		case strings.HasPrefix(w.Text, "L1:"):
			g1 = append(g1, w)
		default:
			rest = append(rest, w)
		}
	}
	var mixed []scn.Write
	for len(g0) > 0 || len(g1) > 0 {
		if len(g1) > 0 {
			mixed = append(mixed, g1[0])
			g1 = g1[1:]
		}
		if len(g0) > 0 {
			mixed = append(mixed, g0[0])
			g0 = g0[1:]
		}
	}
	r.Writes = append(mixed, rest...)
	mustPass(t, "interleaved", sc, fix(r))

	// a line of the logger itself is not the scenario's business
	r = ideal(sc, false)
	r.Writes = append([]scn.Write{{Text: "log: writer failed: boom", Sev: 5, File: "/x/log/output", Line: 115}}, r.Writes...)
	rep := mustPass(t, "internal line", sc, fix(r))
	if len(rep.Internal) != 1 {
		t.Fatalf("internal line not counted")
	}
}

func TestRegOracleRejectsIllegalOutcomes(t *testing.T) {
	defer noSites()() // synthetic adapter streams carry no real line numbers
	sc := baseScenario()
	base := ideal(sc, false)
	merged := ideal(sc, true)

	// lost: every single adapter call removed in turn
	for i := range base.Writes {
		r := clone(base)
		r.Writes = append(r.Writes[:i], r.Writes[i+1:]...)
		mustFail(t, fmt.Sprintf("drop #%d", i), sc, fix(r), "")
	}
	// duplicated: every single adapter call doubled in turn
	for i := range base.Writes {
		r := clone(base)
		r.Writes = append(r.Writes[:i+1], r.Writes[i:]...)
		mustFail(t, fmt.Sprintf("double #%d", i), sc, fix(r), "")
	}
	// reordered: adjacent calls of one goroutine with different content swapped
	swaps := 0
	for i := 0; i+1 < len(base.Writes); i++ {
		a, b := base.Writes[i], base.Writes[i+1]
		if a.Text[:3] != b.Text[:3] || (a.Text == b.Text && a.Sev == b.Sev) {
			continue
		}
		r := clone(base)
		r.Writes[i], r.Writes[i+1] = r.Writes[i+1], r.Writes[i]
		mustFail(t, fmt.Sprintf("swap #%d", i), sc, r, "")
		swaps++
	}
	if swaps < 10 {
		t.Fatalf("only %d swaps tried", swaps)
	}
	// duplicate count off by one in both directions, on every merged call
	for i := range merged.Writes {
		r := clone(merged)
		r.Writes[i].Dups++
		mustFail(t, fmt.Sprintf("dups+1 #%d", i), sc, r, "")
		if merged.Writes[i].Dups > 0 {
			r = clone(merged)
			r.Writes[i].Dups--
			mustFail(t, fmt.Sprintf("dups-1 #%d", i), sc, r, "")
		}
	}
	// below the level in force: phase 1 has global=WARN, pkgb=DEBU; L0:10 is the DEBU line of pkga, L1:5 the TRAC line of pkgb
	for _, bad := range []scn.Write{
		{Text: "L0:10", Sev: 2, File: "/h/pkga/ops", Line: 38},
		{Text: "L1:5", Sev: 1, File: "/h/pkgb/ops", Line: 36},
	} {
		r := clone(base)
		at := indexOf(r, "L0:12") // first emitted line of goroutine 0 in phase 1 (WARN)
		if strings.HasPrefix(bad.Text, "L1") {
			at = indexOf(r, "L1:6")
		}
		if at < 0 {
			t.Fatalf("set-up: anchor line not in the ideal stream")
		}
		r.Writes = append(r.Writes[:at], append([]scn.Write{bad}, r.Writes[at:]...)...)
		mustFail(t, "disabled line "+bad.Text, sc, fix(r), "must not be emitted")
	}
	// severity or package altered
	r := clone(base)
	r.Writes[indexOf(r, "L0:0")].Sev = 2
	mustFail(t, "severity altered", sc, r, "")
	r = clone(base)
	r.Writes[indexOf(r, "L0:0")].File = "/h/pkgb/ops"
	mustFail(t, "package altered", sc, r, "")
	// same text with different severity merged into one call
	r = clone(base)
	i := indexOf(r, "L0:7") // twin pair: INFO then WARN
	if r.Writes[i+1].Text != "L0:7" || r.Writes[i+1].Sev == r.Writes[i].Sev {
		t.Fatalf("set-up: twin pair expected at L0:7")
	}
	r.Writes[i].Dups = 1
	r.Writes = append(r.Writes[:i+1], r.Writes[i+2:]...)
	mustFail(t, "twins merged", sc, fix(r), "")
	// invented
	r = clone(base)
	r.Writes = append(r.Writes, scn.Write{Text: "L0:4711", Sev: 6, File: "/h/pkga/ops", Line: 46})
	mustFail(t, "invented", sc, fix(r), "never logged")
	r = clone(base)
	r.Writes = append(r.Writes, scn.Write{Text: "L7:0", Sev: 6, File: "/h/pkga/ops", Line: 46})
	mustFail(t, "invented goroutine", sc, fix(r), "invented")
	// tracer submissions: a collected line missing (first, last), severity changed, merged
	ti := indexOf(base, "L0:6.2")
	if ti < 0 || len(base.Writes[ti].Trace) != 2 {
		t.Fatalf("set-up: tracer L0:6 expected with two collected lines")
	}
	r = clone(base)
	r.Writes[ti].Trace = r.Writes[ti].Trace[:1]
	mustFail(t, "tracer lost its last collected line", sc, r, "")
	r = clone(base)
	r.Writes[ti].Trace = r.Writes[ti].Trace[1:]
	mustFail(t, "tracer lost its first collected line", sc, r, "")
	r = clone(base)
	r.Writes[ti].Trace[0] = strings.Replace(r.Writes[ti].Trace[0], "TRAC", "INFO", 1)
	mustFail(t, "tracer line severity changed", sc, r, "")
	r = clone(base)
	r.Writes[ti].Trace[0], r.Writes[ti].Trace[1] = r.Writes[ti].Trace[1], r.Writes[ti].Trace[0]
	mustFail(t, "tracer lines swapped", sc, r, "")
	r = clone(base)
	r.Writes[ti].Dups = 1
	mustFail(t, "tracer merged", sc, r, "tracer submission")
	// Shutdown clause
	r = clone(base)
	r.AtShutdownReturn = len(r.Writes) - 1
	mustFail(t, "late line", sc, r, "after Shutdown returned")
	r = clone(base)
	r.Writes = r.Writes[:len(r.Writes)-3]
	mustFail(t, "tail lost at shutdown", sc, fix(r), "never reached the adapter")
	mustFail(t, "shutdown hangs", sc, &scn.Result{Hung: true, Stage: "shutdown", Stacks: "goroutine 1 ..."}, "Shutdown did not return")
	mustFail(t, "producers hang", sc, &scn.Result{Hung: true, Stage: "phase 1"}, "did not return")
	// harness trouble is not a verdict
	if rep := scn.Check(sc, &scn.Result{Stage: "start"}); rep.Harness == "" || len(rep.Violations) != 0 {
		t.Fatalf("incomplete result must be a harness error, got %+v", rep)
	}
}

// Lines logged while ANOTHER goroutine changes levels may observe either
// level; the changing goroutine's own lines are decided exactly.
func TestRegOracleConcurrentLevelChange(t *testing.T) {
	defer noSites()() // synthetic adapter streams carry no real line numbers
	sc := &scn.Scenario{
		Sched: "free", Goroutines: 2,
		Init: []scn.Op{{K: scn.OpLevel, Sev: 1}},
		Phases: []scn.Phase{{G: [][]scn.Op{
			{{K: scn.OpLines, N: 3, Sev: 3, Pkg: "a"}, {K: scn.OpLevel, Sev: 5}, {K: scn.OpLines, N: 3, Sev: 3, Pkg: "a"}, {K: scn.OpLines, N: 1, Sev: 6, Pkg: "a"}},
			{{K: scn.OpLines, N: 4, Sev: 3, Pkg: "b"}, {K: scn.OpTracer, Pkg: "b", Sevs: []int{2, 6}}, {K: scn.OpLines, N: 1, Sev: 5, Pkg: "b"}},
		}}},
	}
	w := func(text string, sev int, pkg string) scn.Write {
		return scn.Write{Text: text, Sev: sev, File: "/h/" + pkg + "/ops", Line: 1}
	}
	g0 := []scn.Write{w("L0:0", 3, "pkga"), w("L0:1", 3, "pkga"), w("L0:2", 3, "pkga"), w("L0:6", 6, "pkga")}
	tracer := w("L1:4.1", 6, "pkgb")
	tracer.Trace = []string{"   1µs o/pkgb/ops:056 ▶ DEBU\x1b[0m     L1:4.0"}
	legal := [][]scn.Write{
		// goroutine 1 ran completely before the change
		{w("L1:0", 3, "pkgb"), w("L1:1", 3, "pkgb"), w("L1:2", 3, "pkgb"), w("L1:3", 3, "pkgb"), tracer, w("L1:5", 5, "pkgb")},
		// completely after: INFO suppressed, no tracer (Trace disabled): its lines go one by one, DEBU suppressed
		{w("L1:4.1", 6, "pkgb"), w("L1:5", 5, "pkgb")},
		// change in the middle
		{w("L1:0", 3, "pkgb"), w("L1:1", 3, "pkgb"), w("L1:4.1", 6, "pkgb"), w("L1:5", 5, "pkgb")},
		// tracer created just before the change
		{w("L1:0", 3, "pkgb"), tracer, w("L1:5", 5, "pkgb")},
	}
	for i, g1 := range legal {
		r := fix(&scn.Result{Stage: "done", Writes: append(append([]scn.Write{}, g0...), g1...)})
		rep := mustPass(t, fmt.Sprintf("legal %d", i), sc, r)
		if rep.May == 0 || rep.TracerEither != 1 {
			t.Fatalf("accounting: %+v", rep)
		}
	}
	illegal := map[string][]scn.Write{
		"required ERRO line missing":          {w("L1:0", 3, "pkgb"), tracer},
		"CRIT line of the nil tracer missing": {w("L1:0", 3, "pkgb"), w("L1:5", 5, "pkgb")},
		"tracer AND its lines one by one":     {tracer, w("L1:4.1", 6, "pkgb"), w("L1:5", 5, "pkgb")},
		"optional line twice":                 {w("L1:0", 3, "pkgb"), w("L1:0", 3, "pkgb"), w("L1:4.1", 6, "pkgb"), w("L1:5", 5, "pkgb")},
		"optional lines out of order":         {w("L1:1", 3, "pkgb"), w("L1:0", 3, "pkgb"), w("L1:4.1", 6, "pkgb"), w("L1:5", 5, "pkgb")},
	}
	for name, g1 := range illegal {
		r := fix(&scn.Result{Stage: "done", Writes: append(append([]scn.Write{}, g0...), g1...)})
		mustFail(t, name, sc, r, "")
	}
	// the changer's own INFO lines after its SetLogLevel(ERRO) must not appear
	bad := append(append([]scn.Write{}, g0[:3]...), w("L0:3", 3, "pkga"), g0[3])
	r := fix(&scn.Result{Stage: "done", Writes: append(bad, legal[1]...)})
	mustFail(t, "changer's own line after its change", sc, r, "must not be emitted")
	// and its lines before the change are required
	r = fix(&scn.Result{Stage: "done", Writes: append(append([]scn.Write{}, g0[1:]...), legal[1]...)})
	mustFail(t, "changer's own line before its change", sc, r, "")
}

// Package levels: only the named package is affected, only while active.
func TestRegOraclePkgLevels(t *testing.T) {
	defer noSites()() // synthetic adapter streams carry no real line numbers
	sc := &scn.Scenario{
		Sched: "never", Goroutines: 1,
		Init: []scn.Op{{K: scn.OpLevel, Sev: 4}, {K: scn.OpPkg, Pkgs: map[string]int{"pkga": 2, "elsewhere": 1}}},
		Phases: []scn.Phase{
			{G: [][]scn.Op{{{K: scn.OpLines, N: 4, Sev: 1, Step: 1, Pkg: "a"}, {K: scn.OpLines, N: 4, Sev: 1, Step: 1, Pkg: "b"}}}},
			{Pre: []scn.Op{{K: scn.OpUnset}}, G: [][]scn.Op{{{K: scn.OpLines, N: 4, Sev: 1, Step: 1, Pkg: "a"}}}},
			{Pre: []scn.Op{{K: scn.OpPkg, Pkgs: map[string]int{"pkgb": 6}}}, G: [][]scn.Op{{{K: scn.OpLines, N: 6, Sev: 1, Step: 1, Pkg: "b"}, {K: scn.OpLines, N: 1, Sev: 4, Pkg: "a"}}}},
		},
	}
	r := ideal(sc, false)
	var got []string
	for _, w := range r.Writes {
		got = append(got, w.Text)
	}
	want := "L0:1 L0:2 L0:3 L0:7 L0:11 L0:17 L0:18"
	if strings.Join(got, " ") != want {
		t.Fatalf("reference simulation: got %v, want %s", got, want)
	}
	mustPass(t, "pkg levels", sc, r)
	for i := range r.Writes {
		c := clone(r)
		c.Writes = append(c.Writes[:i], c.Writes[i+1:]...)
		mustFail(t, "pkg levels drop", sc, fix(c), "")
	}
}

// ---------------------------------------------------------------- real children (fast)

func loadScenario(t *testing.T, name string) *scn.Scenario {
	t.Helper()
	b, err := os.ReadFile(filepath.Join("testdata", name))
	if err != nil {
		// the test binary runs in the run directory: fall back to the source tree
		root := os.Getenv("VERIF_ROOT")
		if root == "" {
			root = "/verif"
		}
		b, err = os.ReadFile(filepath.Join(root, "harness", "c20", "testdata", name))
	}
	if err != nil {
		t.Fatalf("saved scenario %s: %v", name, err)
	}
	var sc scn.Scenario
	if err := json.Unmarshal(b, &sc); err != nil {
		t.Fatalf("saved scenario %s: %v", name, err)
	}
	return &sc
}

func TestRegSavedScenarios(t *testing.T) {
	names := []string{"small-mixed.json", "silence-pairs.json", "printf-tracer-pkglevels.json", "via-twins.json", "echo-tracer.json", "overflow-never.json", "manual-triggers.json", "levels-and-tracers.json"}
	parallelTrials(t, len(names), 4, func(i int) *scn.Scenario { return loadScenario(t, names[i]) })
}

// TestRegShutdownDrainUnderStutter is the witness of the fixed finding
// C20-shutdown-timeout: 1000 lines sit in the buffer (writer never triggered),
// Shutdown is called, and the process is stopped and resumed repeatedly while
// the shutdown drain runs. Before the fix a stop of >10ms between creating the
// idle timer and polling the select let the timer win although lines were
// buffered: Shutdown returned with part of the lines never written (about two
// trials in three lost lines when run alone, fewer on a busy machine; 32 trials are run).
func TestRegShutdownDrainUnderStutter(t *testing.T) {
	sc := loadScenario(t, "shutdown-stutter.json")
	parallelTrials(t, 32, 16, func(i int) *scn.Scenario {
		c := *sc
		st := *sc.Stutter
		st.DelayUs = 10 * i
		st.RunUs = 20 + 3*i
		c.Stutter = &st
		return &c
	})
}

// The two helper packages must be line-for-line identical after the package
// clause: the scenarios rely on "same text from pkga and from pkgb" differing
// only in the file name (see cmd/logscenario/pkgb/ops.go).
func TestRegHelperPackagesLineIdentical(t *testing.T) {
	root := os.Getenv("VERIF_ROOT")
	if root == "" {
		root = "/verif"
	}
	read := func(pkg string) []string {
		b, err := os.ReadFile(filepath.Join(root, "harness", "c20", "cmd", "logscenario", pkg, "ops.go"))
		if err != nil {
			t.Skipf("sources not available: %v", err)
		}
		return strings.Split(string(b), "\n")
	}
	a, b := read("pkga"), read("pkgb")
	if len(a) != len(b) {
		t.Fatalf("pkga/ops.go has %d lines, pkgb/ops.go %d", len(a), len(b))
	}
	body := false
	for i := range a {
		if strings.HasPrefix(a[i], "package ") {
			if !strings.HasPrefix(b[i], "package ") {
				t.Fatalf("package clauses on different lines")
			}
			body = true
			continue
		}
		if body && a[i] != b[i] {
			t.Fatalf("line %d differs: %q vs %q", i+1, a[i], b[i])
		}
	}
}

// A plain line and a trace submission with the same text, severity, file and
// line (the same handler once without and once with a tracer) are not
// identical lines: the plain line arrives with exactly its own repetitions,
// the trace once with all collected lines — in both orders. (Seeded change
// C20-2: Equal treated such a pair as duplicates.)
func TestRegOraclePlainEchoOfTraceMainLine(t *testing.T) {
	defer noSites()() // synthetic adapter streams carry no real line numbers
	sc := &scn.Scenario{
		Sched: "never", Goroutines: 1,
		Init: []scn.Op{{K: scn.OpLevel, Sev: 1}},
		Phases: []scn.Phase{{G: [][]scn.Op{{
			{K: scn.OpLines, N: 2, Sev: 3, Pkg: "a"},
			{K: scn.OpTracer, Pkg: "a", Sevs: []int{2, 4}, Echo: 1},                // id 2: plain L0:2.1 then trace
			{K: scn.OpTracer, Pkg: "a", Sevs: []int{1, 3, 5}, Echo: 2, EchoRep: 2}, // id 3: trace then plain L0:3.2 twice
			{K: scn.OpLines, N: 1, Sev: 6, Pkg: "a"},
		}}}},
	}
	for _, merge := range []bool{false, true} {
		r := ideal(sc, merge)
		rep := mustPass(t, fmt.Sprintf("ideal merge=%v", merge), sc, r)
		if rep.EchoAdjacent != 2 {
			t.Fatalf("adjacent plain/trace pairs counted: %d, want 2", rep.EchoAdjacent)
		}
	}
	base := ideal(sc, true)
	// stream: L0:0, L0:1, plain L0:2.1, trace L0:2.1, trace L0:3.2, plain L0:3.2 (dups=1), L0:4
	if len(base.Writes) != 7 || len(base.Writes[2].Trace) != 0 || len(base.Writes[3].Trace) != 1 || len(base.Writes[4].Trace) != 2 || base.Writes[5].Dups != 1 {
		t.Fatalf("set-up: unexpected ideal stream %+v", base.Writes)
	}
	// plain line swallows the following trace: (plain, duplicates=1), trace never arrives
	r := clone(base)
	r.Writes[2].Dups = 1
	r.Writes = append(r.Writes[:3], r.Writes[4:]...)
	mustFail(t, "trace merged into the plain line before it", sc, fix(r), "")
	// trace swallows the following plain lines: (trace, duplicates=2)
	r = clone(base)
	r.Writes[4].Dups = 2
	r.Writes = append(r.Writes[:5], r.Writes[6:]...)
	mustFail(t, "plain lines merged into the trace before them", sc, fix(r), "tracer submission")
	// trace swallows one of the two plain lines
	r = clone(base)
	r.Writes[4].Dups = 1
	r.Writes[5].Dups = 0
	mustFail(t, "one plain line merged into the trace", sc, r, "tracer submission")
	// the trace arrives, but as a plain line (collected lines gone)
	r = clone(base)
	r.Writes[3].Trace = nil
	mustFail(t, "trace lost its collected lines", sc, r, "")
	// plain echo missing / one repetition too many
	r = clone(base)
	r.Writes = append(r.Writes[:2], r.Writes[3:]...)
	mustFail(t, "plain echo missing", sc, fix(r), "")
	r = clone(base)
	r.Writes[5].Dups = 2
	mustFail(t, "plain echo once too often", sc, r, "")
	// with Trace disabled there is no tracer: the handler logs everything plainly; the echo is one more identical line
	sc.Init = []scn.Op{{K: scn.OpLevel, Sev: 2}}
	for _, merge := range []bool{false, true} {
		mustPass(t, "no tracer", sc, ideal(sc, merge))
	}
}

// Printf-style methods of a (nil or real) tracer: the origin of the line is the
// caller of Warningf, not the log package. With package levels the nil-tracer
// fallback must be filtered with the calling package's level, in both
// directions, and the message must carry the caller's file. (Seeded change
// C20-4: Warningf delegated to Warning; the extra frame made log/trace.go the origin.)
func TestRegOraclePrintfStyleTracerOrigin(t *testing.T) {
	defer noSites()() // synthetic adapter streams carry no real line numbers
	sc := &scn.Scenario{
		Sched: "never", Goroutines: 1,
		Init: []scn.Op{{K: scn.OpLevel, Sev: 3}, {K: scn.OpPkg, Pkgs: map[string]int{"pkga": 5}}},
		Phases: []scn.Phase{
			// global INFO, pkga ERRO: Warningf from pkga (nil tracer) is below the level in force; Errorf is not
			{G: [][]scn.Op{{{K: scn.OpTracer, Pkg: "a", Sevs: []int{4, 5}, Fm: 3}}}},
			// global ERRO, pkga DEBU: Warningf from pkga is enabled only by the package level
			{Pre: []scn.Op{{K: scn.OpLevel, Sev: 5}, {K: scn.OpPkg, Pkgs: map[string]int{"pkga": 2}}},
				G: [][]scn.Op{{{K: scn.OpTracer, Pkg: "a", Sevs: []int{4}, Fm: 1}, {K: scn.OpTracer, Pkg: "b", Sevs: []int{4}, Fm: 1}}}},
			// Trace everywhere: a real tracer collecting Printf-style lines
			{Pre: []scn.Op{{K: scn.OpUnset}, {K: scn.OpLevel, Sev: 1}},
				G: [][]scn.Op{{{K: scn.OpTracer, Pkg: "a", Sevs: []int{4, 4, 3}, Fm: 2}}}},
		},
	}
	base := ideal(sc, false)
	var got []string
	for _, w := range base.Writes {
		got = append(got, w.Text)
	}
	if strings.Join(got, " ") != "L0:0.1 L0:1.0 L0:3.2" {
		t.Fatalf("reference simulation: %v", got)
	}
	rep := mustPass(t, "ideal", sc, base)
	if rep.NilFLines != 4 || rep.NilFQuieter != 1 || rep.NilFLouder != 1 || rep.RealFLines != 1 {
		t.Fatalf("accounting: %+v", rep)
	}
	wrong := "/repo/log/trace"
	// below-level warning emitted (filtered with the global level), with either origin
	for _, file := range []string{wrong, base.Writes[0].File} {
		r := clone(base)
		r.Writes = append([]scn.Write{{Text: "L0:0.0", Sev: 4, File: file, Line: 226}}, r.Writes...)
		mustFail(t, "suppressed Warningf emitted ("+file+")", sc, fix(r), "")
	}
	// enabled warning lost
	r := clone(base)
	r.Writes = append(r.Writes[:1], r.Writes[2:]...)
	mustFail(t, "enabled Warningf lost", sc, fix(r), "lines before it are missing")
	// emitted, but attributed to the log package
	r = clone(base)
	r.Writes[1].File = wrong
	mustFail(t, "wrong origin of a plain fallback line", sc, r, "")
	// real tracer: the collected Warningf line attributed to the log package
	r = clone(base)
	if len(r.Writes[2].Trace) != 2 || !strings.Contains(r.Writes[2].Trace[1], "o/pkga/ops") {
		t.Fatalf("set-up: %+v", r.Writes[2])
	}
	r.Writes[2].Trace[1] = strings.Replace(r.Writes[2].Trace[1], "o/pkga/ops", "/log/trace", 1)
	mustFail(t, "wrong origin of a collected line", sc, r, "")
	// pkgb has no entry: its Warningf is governed by the global level (ERRO) and must stay away
	r = clone(base)
	r.Writes = append(r.Writes[:2], append([]scn.Write{{Text: "L0:2.0", Sev: 4, File: strings.Replace(base.Writes[0].File, "pkga", "pkgb", 1), Line: 88}}, r.Writes[2:]...)...)
	mustFail(t, "pkgb warning below the global level", sc, fix(r), "must not be emitted")
}

// Bounded liveness clause: after the long silence a free-running writer must have handed
// everything to the adapter before Shutdown is called; scheduled writers and stop/resume runs may
// legally keep lines until Shutdown; a slow adapter is only allowed a bounded total time.
// (Seeded change C20-5: lost wake-up of the writer.)
func TestRegOracleSilenceClause(t *testing.T) {
	defer noSites()() // synthetic adapter streams carry no real line numbers
	mk := func(sched string, silence int) *scn.Scenario {
		return &scn.Scenario{
			Sched: sched, Goroutines: 1, AdapterPace: 4, PaceUs: 1000,
			Init: []scn.Op{{K: scn.OpLevel, Sev: 1}},
			Phases: []scn.Phase{{G: [][]scn.Op{{
				{K: scn.OpLines, N: 1, Sev: 3, Pkg: "a"}, {K: scn.OpSleep, Us: 400}, {K: scn.OpLines, N: 1, Sev: 4, Pkg: "a"},
			}}}},
			PreShutdownSleepUs: silence,
		}
	}
	sc := mk("free", scn.SilenceUs)
	good := ideal(sc, false)
	good.AtShutdownCall = 2
	good.WriteTimes = [][2]int64{{1000, 2000}, {12500, 13500}}
	good.LastLogUs = 1450
	rep := mustPass(t, "everything written during the silence", sc, good)
	if !rep.LastInFinal {
		t.Fatalf("last line fell into the final adapter call of its batch: not recognised")
	}
	stuck := clone(good)
	stuck.AtShutdownCall = 1 // the second line came out only through the shutdown drain
	mustFail(t, "line stuck until Shutdown", sc, stuck, "stayed in the buffer until the shutdown drain")
	// same observation where the clause does not apply
	mustPass(t, "short pause before Shutdown", mk("free", 25000), stuck)
	mustPass(t, "scheduled writer", mk("never", scn.SilenceUs), stuck)
	st := mk("free", scn.SilenceUs)
	st.Stutter = &scn.Stutter{RunUs: 50, StopMs: 11, N: 3}
	mustPass(t, "stop/resume run", st, stuck)
	// statistics: B taken in the same drain loop is not "final call of a batch"
	same := clone(good)
	same.WriteTimes = [][2]int64{{1000, 2000}, {2010, 3010}}
	if scn.Check(sc, same).LastInFinal {
		t.Fatalf("line written in the same batch counted as logged during the final adapter call")
	}
	// a slow adapter with too many calls is rejected as a scenario (the clause would be unsound)
	big := mk("free", scn.SilenceUs)
	big.PaceUs = 5000
	big.Phases[0].G[0] = []scn.Op{{K: scn.OpLines, N: 200, Sev: 3, Pkg: "a"}}
	if r := scn.Check(big, good); r.Harness == "" {
		t.Fatalf("pace 4 with 200 calls x 5 ms accepted")
	}
}

// noSites switches the call-site distinction of the oracle off (and back on).
func noSites() func() {
	old := scn.SiteOfLine
	scn.SiteOfLine = nil
	return func() { scn.SiteOfLine = old }
}
