#!/usr/bin/env python3
"""Sensitivity runs for C20 (see NOTES.md): applies each deliberate breakage to the scratch copy of
portbase (/dev/shm/repo-b9, must be clean), runs `./check C20` (quick tier) against it, prints rc and the
first finding, reverts with `git checkout -- .`.  usage: python3 mutants.py [MUTANT ...]
Logs go to /dev/shm/c20-dev/.  M20/M21 take ~4-5 minutes each (45 s watchdog per hung child)."""
import subprocess,sys,os,time,re
os.makedirs("/dev/shm/c20-dev",exist_ok=True)
REPO='/dev/shm/repo-b9'
M={
 'M1_dupcounter_not_reset':('log/output.go','''				// reset duplicate counter
				duplicates = 0
''','''				// reset duplicate counter
'''),
 'M2_final_line_of_drain_dropped':('log/output.go','''		if currentLine != nil {
			adapter.Write(currentLine, duplicates)
			// add to unexpected logs
			addUnexpectedLogs(currentLine)
		}
''','''		if currentLine != nil && false {
			adapter.Write(currentLine, duplicates)
		}
'''),
 'M3_shutdown_not_draining':('log/output.go','''func finalizeWriting() {
	for {''','''func finalizeWriting() {
	for len(logBuffer) < 0 {'''),
 'M4_pkg_level_wrong_way':('log/input.go','''			if level < severity {
				return
			}''','''			if level > severity {
				return
			}'''),
 'M5_tracer_drops_last_collected':('log/trace.go','''	tracer.logs = tracer.logs[:len(tracer.logs)-1]
''','''	tracer.logs = tracer.logs[:len(tracer.logs)-1]
	if len(tracer.logs) > 0 {
		tracer.logs = tracer.logs[:len(tracer.logs)-1]
	}
'''),
 'M6_forced_write_drops_line':('log/input.go','''		for {
			select {
			case forceEmptyingOfBuffer <- struct{}{}:
			case logBuffer <- log:
				break forceEmptyingLoop
			}
		}''','''		for {
			select {
			case forceEmptyingOfBuffer <- struct{}{}:
				break forceEmptyingLoop
			case logBuffer <- log:
				break forceEmptyingLoop
			}
		}'''),
 'M8_equal_ignores_level':('log/logging.go','''	case ll.level != ol.level:
		return false
''',''''''),
 'M18_equal_ignores_file':('log/logging.go','''	case ll.file != ol.file:
		return false
''',''''''),
 'M20_full_buffer_never_forces':('log/input.go','''			select {
			case forceEmptyingOfBuffer <- struct{}{}:
			case logBuffer <- log:
				break forceEmptyingLoop
			}''','''			select {
			case logBuffer <- log:
				break forceEmptyingLoop
			}'''),
 'M21_shutdown_hangs':('log/output.go','''		case <-time.After(10 * time.Millisecond):
			// The timeout''','''		case <-time.After(10 * time.Hour):
			// The timeout'''),
 'M9_fastcheck_strict':('log/input.go','''	if uint32(level) >= atomic.LoadUint32(logLevel) {
		return true
	}''','''	if uint32(level) > atomic.LoadUint32(logLevel) {
		return true
	}'''),
 'M10_shutdown_does_not_wait':('log/logging.go','''	shutdownWaitGroup.Wait()
''',''''''),
 'M11_global_level_off_by_one':('log/input.go','''	} else if uint32(level) < atomic.LoadUint32(logLevel) {
		// no package levels set, check against global level
		return
	}

	// create log object''','''	} else if uint32(level) <= atomic.LoadUint32(logLevel) && level < CriticalLevel {
		// no package levels set, check against global level
		return
	}

	// create log object'''),
 'M12_addtracer_ignores_pkg_level':('log/trace.go','''				if TraceLevel < severity {
					return ctx, nil
				}''','''				if TraceLevel > severity {
					return ctx, nil
				}'''),
 'M13_dup_first_write_after_merge_lost':('log/output.go','''				if nextLine.Equal(currentLine) {
					duplicates++
					continue writeLoop
				}''','''				if nextLine.Equal(currentLine) {
					if duplicates < 2 {
						duplicates++
					}
					continue writeLoop
				}'''),
 'M14_tracer_submit_twice_when_full':('log/trace.go','''			case forceEmptyingOfBuffer <- struct{}{}:
			case logBuffer <- log:
				break forceEmptyingLoop''','''			case forceEmptyingOfBuffer <- struct{}{}:
			case logBuffer <- log:
				logBuffer <- log
				break forceEmptyingLoop'''),
 'M15_tracer_fallback_wrong_level':('log/trace.go','''	case fastcheck(InfoLevel):
		log(InfoLevel, msg, nil)
	}
}

// Infof''','''	case fastcheck(InfoLevel):
		log(WarningLevel, msg, nil)
	}
}

// Infof'''),
 'M16_unset_pkg_levels_ignored':('log/logging.go','''	pkgLevelsActive.UnSet()
''',''''''),
 'M17_drain_reorders_pair':('log/output.go','''				// if currentLine and line are _not_ equal, output currentLine
				adapter.Write(currentLine, duplicates)''','''				// if currentLine and line are _not_ equal, output currentLine
				if len(logBuffer) == 700 {
					adapter.Write(nextLine, 0)
					nextLine = currentLine
					duplicates = 0
					currentLine = nextLine
					continue writeLoop
				}
				adapter.Write(currentLine, duplicates)'''),
}
names=sys.argv[1:] or list(M)
env=dict(os.environ,GOFLAGS='-mod=mod',GOPROXY='off',GOSUMDB='off',GOTOOLCHAIN='local',VERIF_REPO=REPO)
for n in names:
    f,old,new=M[n]
    p=os.path.join(REPO,f)
    s=open(p).read()
    assert s.count(old)==1,(n,s.count(old))
    open(p,'w').write(s.replace(old,new))
    b=subprocess.run(['go','build','./log/'],cwd=REPO,env=env,capture_output=True,text=True)
    if b.returncode!=0:
        print(n,'BUILD FAILED',b.stderr); subprocess.run(['git','checkout','--','.'],cwd=REPO); continue
    t0=time.time()
    r=subprocess.run(['./check','C20'],cwd='/verif',env=env,capture_output=True,text=True)
    out=r.stdout+r.stderr
    viol=re.findall(r'^VIOLATION.*$',out,re.M)
    first=re.findall(r'^\s+- (.*)$',out,re.M)
    print(n,'rc=%d'%r.returncode,'wall=%.0fs'%(time.time()-t0),'violations=%d'%len(viol),flush=True)
    for v in viol[:3]: print('    ',v)
    if first: print('    first finding:',first[0][:400])
    open('/dev/shm/c20-dev/mut-%s.log'%n,'w').write(out)
    subprocess.run(['git','checkout','--','.'],cwd=REPO)
print(subprocess.run(['git','status','--short'],cwd=REPO,capture_output=True,text=True).stdout or 'clean')
