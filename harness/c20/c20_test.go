// Package c20 decides C20: no enabled log line is lost, duplicated or
// reordered; levels are respected; Shutdown drains.
//
// Every generated scenario runs in its own child process
// ($VERIF_BIN_LOGSCENARIO, source in cmd/logscenario) because portbase/log can
// be started and shut down once per process. The oracle (scn.Check) is a pure
// function of (scenario, result).
package c20

import (
	"bytes"
	"context"
	"encoding/json"
	"errors"
	"fmt"
	"os"
	"os/exec"
	"path/filepath"
	"strings"
	"sync"
	"sync/atomic"
	"testing"
	"time"

	"pgregory.net/rapid"

	"verifharness/c20/scn"
	"verifharness/internal/stats"
)

var (
	childBin string
	scratch  string
	caseSeq  atomic.Int64
)

func TestMain(m *testing.M) {
	scratch = os.Getenv("VERIF_SCRATCH")
	cleanup := func() {}
	if scratch == "" {
		d, err := os.MkdirTemp("/dev/shm", "c20-")
		if err != nil {
			fmt.Fprintln(os.Stderr, "c20: no scratch dir:", err)
			os.Exit(2)
		}
		scratch = d
		cleanup = func() { _ = os.RemoveAll(d) }
	}
	loadCallSites()
	childBin = os.Getenv("VERIF_BIN_LOGSCENARIO")
	if childBin == "" {
		// direct `go test` run (development): build the child next to the scratch files
		childBin = filepath.Join(scratch, "logscenario")
		args := []string{"build", "-tags", "verif"}
		if mf := os.Getenv("VERIF_MODFILE"); mf != "" { // same alternative go.mod as the test binary
			args = append(args, "-modfile="+mf)
		}
		cmd := exec.Command("go", append(args, "-o", childBin, "verifharness/c20/cmd/logscenario")...)
		if out, err := cmd.CombinedOutput(); err != nil {
			fmt.Fprintf(os.Stderr, "c20: cannot build the scenario runner: %v\n%s", err, out)
			os.Exit(2)
		}
	}
	code := m.Run()
	stats.Flush(code)
	cleanup()
	os.Exit(code)
}

// ---------------------------------------------------------------- child runner

type childOutcome struct {
	res     *scn.Result
	crash   string // the child died by itself (panic / fatal error): output
	harness string // unusable for reasons that are not the logger's
}

const childTimeout = 60 * time.Second

func runChildOnce(sc *scn.Scenario, dir string) childOutcome {
	scPath := filepath.Join(dir, "scenario.json")
	resPath := filepath.Join(dir, "result.json")
	_ = os.Remove(resPath)
	raw, err := json.Marshal(sc)
	if err != nil {
		return childOutcome{harness: "marshal scenario: " + err.Error()}
	}
	if err := os.WriteFile(scPath, raw, 0o644); err != nil {
		return childOutcome{harness: err.Error()}
	}
	ctx, cancel := context.WithTimeout(context.Background(), childTimeout)
	defer cancel()
	cmd := exec.CommandContext(ctx, childBin, scPath, resPath)
	var out bytes.Buffer
	cmd.Stderr = &out
	cmd.Stdout = nil // BOF/EOF banner of the logger
	cmd.WaitDelay = 2 * time.Second
	err = cmd.Run()
	if ctx.Err() != nil {
		// the child has its own 45 s watchdog which reports a stuck logger with
		// stacks; not even that ran
		return childOutcome{harness: "child did not terminate within " + childTimeout.String() + " and its watchdog did not report: " + tail(out.String())}
	}
	var ee *exec.ExitError
	if err != nil && !errors.As(err, &ee) {
		return childOutcome{harness: "cannot run child: " + err.Error()}
	}
	code := cmd.ProcessState.ExitCode()
	switch code {
	case 0, 3: // 3: watchdog wrote a result with Hung=true
		b, rerr := os.ReadFile(resPath)
		if rerr != nil {
			return childOutcome{harness: "child exited " + fmt.Sprint(code) + " without result: " + tail(out.String())}
		}
		var res scn.Result
		if jerr := json.Unmarshal(b, &res); jerr != nil {
			return childOutcome{harness: "unreadable result: " + jerr.Error()}
		}
		return childOutcome{res: &res}
	case 2:
		if strings.Contains(out.String(), "panic:") || strings.Contains(out.String(), "fatal error:") {
			return childOutcome{crash: tail(out.String())}
		}
		return childOutcome{harness: "child exit 2: " + tail(out.String())}
	default:
		return childOutcome{harness: fmt.Sprintf("child exit %d (%v): %s", code, err, tail(out.String()))}
	}
}

func tail(s string) string {
	if len(s) > 6000 {
		return "…" + s[len(s)-6000:]
	}
	return s
}

// runChild runs the scenario; infrastructure hiccups (fork failure under load) are retried once.
func runChild(sc *scn.Scenario, dir string) childOutcome {
	o := runChildOnce(sc, dir)
	if o.harness != "" {
		o = runChildOnce(sc, dir)
	}
	return o
}

type fataler interface {
	Fatalf(format string, args ...any)
}

// judge runs one scenario and applies the oracle.
func judge(t fataler, sc *scn.Scenario, dir string) *scn.Report {
	if err := sc.Validate(); err != nil {
		t.Fatalf("HARNESS: generator produced an invalid scenario: %v", err)
	}
	o := runChild(sc, dir)
	raw, _ := json.Marshal(sc)
	if o.harness != "" {
		t.Fatalf("HARNESS (not a verdict about portbase/log): %s\nscenario: %s", o.harness, raw)
	}
	if o.crash != "" {
		keep := keepFailure(dir)
		t.Fatalf("the process crashed while logging (messages lost with it); files kept in %s\n%s\nscenario: %s", keep, o.crash, raw)
	}
	rep := scn.Check(sc, o.res)
	if rep.Harness != "" {
		t.Fatalf("HARNESS (not a verdict about portbase/log): %s\nscenario: %s", rep.Harness, raw)
	}
	if len(rep.Violations) > 0 {
		keep := keepFailure(dir)
		t.Fatalf("C20 violated (%d finding(s); scenario and adapter stream kept in %s):\n - %s\nadapter calls: %d before Shutdown was called, %d when it returned, %d 200ms later\nscenario: %s",
			len(rep.Violations), keep, strings.Join(rep.Violations, "\n - "), o.res.AtShutdownCall, o.res.AtShutdownReturn, o.res.After200ms, raw)
	}
	return rep
}

func keepFailure(dir string) string {
	n := caseSeq.Add(1)
	keep := filepath.Join(scratch, fmt.Sprintf("fail-%d-%d", os.Getpid(), n))
	_ = os.MkdirAll(keep, 0o755)
	for _, f := range []string{"scenario.json", "result.json"} {
		if b, err := os.ReadFile(filepath.Join(dir, f)); err == nil {
			_ = os.WriteFile(filepath.Join(keep, f), b, 0o644)
		}
	}
	return keep
}

func caseDir(tb testing.TB, name string) string {
	d := filepath.Join(scratch, name)
	if err := os.MkdirAll(d, 0o755); err != nil {
		tb.Fatalf("scratch: %v", err)
	}
	return d
}

// ---------------------------------------------------------------- generator

func genSev(t *rapid.T, label string) int {
	// biased to the low levels so that much is enabled and tracers exist
	return rapid.SampledFrom([]int{1, 1, 1, 1, 2, 2, 3, 3, 4, 5, 6}).Draw(t, label)
}

func genChange(t *rapid.T) scn.Op {
	switch rapid.IntRange(0, 9).Draw(t, "change_kind") {
	case 0, 1, 2, 3, 4:
		return scn.Op{K: scn.OpLevel, Sev: genSev(t, "level")}
	case 5, 6, 7, 8:
		m := map[string]int{}
		for _, name := range []string{"pkga", "pkgb", "elsewhere"} {
			if rapid.Bool().Draw(t, "has_"+name) {
				m[name] = rapid.IntRange(1, 6).Draw(t, "lvl_"+name) // uniform: package levels above AND below the global level
			}
		}
		return scn.Op{K: scn.OpPkg, Pkgs: m}
	default:
		return scn.Op{K: scn.OpUnset}
	}
}

func genLinesOp(t *rapid.T, budget int) scn.Op {
	maxN := budget
	if maxN > 400 {
		maxN = 400
	}
	if maxN < 1 {
		maxN = 1
	}
	op := scn.Op{K: scn.OpLines}
	op.N = rapid.IntRange(1, maxN).Draw(t, "n")
	op.Sev = rapid.IntRange(1, 6).Draw(t, "sev")
	op.Step = rapid.SampledFrom([]int{0, 0, 1, 1, 5, 2}).Draw(t, "step")
	op.Pkg = rapid.SampledFrom([]string{"a", "b"}).Draw(t, "pkg")
	op.Alt = rapid.IntRange(0, 3).Draw(t, "alt") == 0
	if rapid.IntRange(0, 2).Draw(t, "dups") == 0 {
		op.DupEvery = rapid.IntRange(1, 6).Draw(t, "dup_every")
		op.Rep = rapid.IntRange(1, 3).Draw(t, "rep")
	}
	op.Twin = rapid.SampledFrom([]int{0, 0, 0, 0, 0, 0, 1, 2, 3}).Draw(t, "twin")
	switch rapid.IntRange(0, 5).Draw(t, "call_style") {
	case 0:
		op.F = true
	case 1, 2:
		op.Via = true
	}
	return op
}

func opLines(g int, op scn.Op) int {
	e := scn.Expander{G: g}
	n := 0
	for _, ev := range e.Expand(op) {
		switch ev.Kind {
		case scn.OpLines:
			n += ev.Times
		case scn.OpTracer:
			n += len(ev.Trace) + ev.EchoBefore + ev.EchoAfter
		}
	}
	return n
}

// genSeq draws one goroutine's sequence for one phase with about budget log calls.
func genSeq(t *rapid.T, g, budget int, changer bool, sched string) []scn.Op {
	var seq []scn.Op
	for budget > 0 && len(seq) < 60 {
		k := rapid.IntRange(0, 19).Draw(t, "op_kind")
		switch {
		case k < 3:
			n := rapid.IntRange(1, 5).Draw(t, "tracer_lines")
			op := scn.Op{K: scn.OpTracer, Pkg: rapid.SampledFrom([]string{"a", "b"}).Draw(t, "tpkg")}
			for i := 0; i < n; i++ {
				op.Sevs = append(op.Sevs, rapid.IntRange(1, 6).Draw(t, "tsev"))
			}
			// which of the lines use the Printf-style methods (Warningf …)
			op.Fm = rapid.IntRange(0, 1<<uint(n)-1).Draw(t, "tracer_f_mask")
			if n >= 2 {
				// the same handler also runs without a tracer: main line once plain, once traced, adjacent
				op.Echo = rapid.SampledFrom([]int{0, 0, 0, 1, 2}).Draw(t, "echo")
				if op.Echo != 0 {
					op.EchoRep = rapid.SampledFrom([]int{1, 1, 2, 3}).Draw(t, "echo_rep")
					budget -= op.EchoRep
				}
			}
			seq = append(seq, op)
			budget -= n
		case k < 6 && changer:
			seq = append(seq, genChange(t))
		case k == 6 && sched == "manual":
			seq = append(seq, scn.Op{K: scn.OpTrigger})
		case k == 7:
			seq = append(seq, scn.Op{K: scn.OpYield})
		default:
			op := genLinesOp(t, budget)
			seq = append(seq, op)
			budget -= opLines(g, op)
		}
	}
	return seq
}

type genOpts struct {
	minLines, maxLines int
	stutter            bool
}

func genScenario(t *rapid.T, o genOpts) *scn.Scenario {
	sc := &scn.Scenario{}
	sc.Sched = rapid.SampledFrom([]string{"free", "free", "manual", "manual", "never", "never", "never"}).Draw(t, "sched")
	sc.AdapterPace = rapid.SampledFrom([]int{0, 0, 1, 2, 3}).Draw(t, "pace")
	sc.Goroutines = rapid.IntRange(1, 8).Draw(t, "goroutines")
	var total int
	switch rapid.IntRange(0, 3).Draw(t, "size_class") {
	case 0:
		total = rapid.IntRange(o.minLines, min(o.maxLines, 300)).Draw(t, "total_small")
	case 1:
		total = rapid.IntRange(min(o.maxLines, 300), min(o.maxLines, 1100)).Draw(t, "total_medium")
	default:
		total = rapid.IntRange(min(o.maxLines, 1100), o.maxLines).Draw(t, "total_large")
	}
	sc.Init = append(sc.Init, scn.Op{K: scn.OpLevel, Sev: genSev(t, "init_level")})
	if rapid.IntRange(0, 3).Draw(t, "init_pkg") == 0 {
		op := genChange(t)
		if op.K == scn.OpPkg {
			sc.Init = append(sc.Init, op)
		}
	}
	phases := rapid.IntRange(1, 4).Draw(t, "phases")
	for p := 0; p < phases; p++ {
		ph := scn.Phase{G: make([][]scn.Op, sc.Goroutines)}
		if p > 0 || rapid.Bool().Draw(t, "pre_first") {
			for i := rapid.IntRange(0, 2).Draw(t, "pre_changes"); i > 0; i-- {
				ph.Pre = append(ph.Pre, genChange(t))
			}
		}
		changer := -1
		if rapid.IntRange(0, 2).Draw(t, "has_changer") == 0 {
			changer = rapid.IntRange(0, sc.Goroutines-1).Draw(t, "changer")
		}
		// split this phase's share over the goroutines (uneven on purpose)
		share := total / phases
		weights := make([]int, sc.Goroutines)
		sum := 0
		for g := range weights {
			weights[g] = rapid.IntRange(0, 4).Draw(t, "weight")
			sum += weights[g]
		}
		if sum == 0 {
			weights[0], sum = 1, 1
		}
		for g := range ph.G {
			ph.G[g] = genSeq(t, g, share*weights[g]/sum, g == changer, sc.Sched)
		}
		sc.Phases = append(sc.Phases, ph)
	}
	sc.PreShutdownSleepUs = rapid.SampledFrom([]int{0, 0, 0, 0, 200, 3000, 12000, 25000}).Draw(t, "pre_shutdown_sleep_us")
	sc.ExtraShutdownCallers = rapid.SampledFrom([]int{0, 0, 0, 1, 2}).Draw(t, "extra_shutdown_callers")
	// (rapid draws the bounds of a range far more often than 1/n: an interior value keeps the share near 1/60 of
	// the free scenarios, about 0.5 % of all; the silence job covers the targeted shape, this one the ordinary traffic)
	if sc.Sched == "free" && rapid.IntRange(0, 59).Draw(t, "long_silence") == 17 {
		// two seconds of silence before Shutdown: a free-running writer must have handed everything over by then
		// (bounded liveness, see scn.Judge; normal latency is one 10 ms writer pause)
		sc.PreShutdownSleepUs = scn.SilenceUs
	}
	if o.stutter {
		sc.PreShutdownSleepUs = 0
		sc.Stutter = &scn.Stutter{
			DelayUs: rapid.IntRange(0, 300).Draw(t, "stutter_delay_us"),
			RunUs:   rapid.IntRange(20, 120).Draw(t, "stutter_run_us"),
			StopMs:  rapid.IntRange(11, 14).Draw(t, "stutter_stop_ms"),
			N:       rapid.IntRange(15, 40).Draw(t, "stutter_n"),
		}
	}
	return sc
}

// genSilenceScenario draws the shape that puts the LAST log call of a scenario into the writer's
// final adapter call of a batch and then stays silent: a slow adapter (pace 4: PaceUs on every write),
// optionally a little ordinary traffic first, then one goroutine logging pairs "A, short pause, B, long
// pause" (every pair is its own writer batch: the long pause exceeds the writer's 10 ms back-off plus
// the adapter time), the two seconds of silence, Shutdown.
func genSilenceScenario(t *rapid.T) *scn.Scenario {
	sc := &scn.Scenario{Sched: "free", AdapterPace: 4}
	sc.PaceUs = rapid.IntRange(500, 2000).Draw(t, "pace_us")
	sc.Goroutines = rapid.IntRange(1, 3).Draw(t, "goroutines")
	level := rapid.SampledFrom([]int{1, 1, 2, 3}).Draw(t, "init_level")
	sc.Init = []scn.Op{{K: scn.OpLevel, Sev: level}}
	sevAbove := func(label string) int { return rapid.IntRange(level, 6).Draw(t, label) }
	if rapid.Bool().Draw(t, "warm_up") {
		ph := scn.Phase{G: make([][]scn.Op, sc.Goroutines)}
		for g := range ph.G {
			ph.G[g] = genSeq(t, g, rapid.IntRange(0, 20).Draw(t, "warm_up_calls"), false, "free")
		}
		sc.Phases = append(sc.Phases, ph)
	}
	ph := scn.Phase{G: make([][]scn.Op, sc.Goroutines)}
	active := rapid.IntRange(0, sc.Goroutines-1).Draw(t, "active")
	pairs := rapid.IntRange(1, 6).Draw(t, "pairs")
	var seq []scn.Op
	if len(sc.Phases) > 0 && rapid.IntRange(0, 3).Draw(t, "wait_for_warm_up") > 0 {
		// let the slow adapter finish the warm-up lines first, so that the first pair is a batch of its own
		seq = append(seq, scn.Op{K: scn.OpSleep, Us: rapid.IntRange(40000, 90000).Draw(t, "warm_up_gap_us")})
	}
	for i := 0; i < pairs; i++ {
		pkg := rapid.SampledFrom([]string{"a", "b"}).Draw(t, "pkg")
		seq = append(seq, scn.Op{K: scn.OpLines, N: 1, Sev: sevAbove("sev_a"), Pkg: pkg})
		seq = append(seq, scn.Op{K: scn.OpSleep, Us: rapid.IntRange(50, 2500).Draw(t, "gap_us")})
		switch rapid.IntRange(0, 3).Draw(t, "b_kind") {
		case 0: // a tracer submission wakes the writer through its own copy of the code (log/trace.go)
			seq = append(seq, scn.Op{K: scn.OpTracer, Pkg: pkg, Sevs: []int{sevAbove("sev_t0"), sevAbove("sev_t1")}})
		default:
			seq = append(seq, scn.Op{K: scn.OpLines, N: rapid.IntRange(1, 2).Draw(t, "n_b"), Sev: sevAbove("sev_b"), Pkg: pkg, F: rapid.Bool().Draw(t, "f")})
		}
		if i < pairs-1 {
			seq = append(seq, scn.Op{K: scn.OpSleep, Us: rapid.IntRange(25000, 45000).Draw(t, "batch_gap_us")})
		}
	}
	ph.G[active] = seq
	sc.Phases = append(sc.Phases, ph)
	sc.PreShutdownSleepUs = scn.SilenceUs
	if len(sc.Phases) == 2 && sc.LogCalls()*sc.PaceUs > scn.MaxSlowAdapterUs {
		// the warm-up came out too long for this adapter pace (the silence clause bounds the adapter's total time)
		sc.Phases = sc.Phases[1:]
	}
	return sc
}

// ---------------------------------------------------------------- statistics

func scenarioLines(sc *scn.Scenario) (lines int, barrierChange, innerChange, pkgLevels, tracers, dups, twins, triggers bool) {
	for _, op := range sc.Init {
		if op.K == scn.OpPkg {
			pkgLevels = true
		}
	}
	for _, ph := range sc.Phases {
		for _, op := range ph.Pre {
			barrierChange = true
			if op.K == scn.OpPkg {
				pkgLevels = true
			}
		}
		for g, seq := range ph.G {
			for _, op := range seq {
				switch op.K {
				case scn.OpLines:
					lines += opLines(g, op)
					if op.DupEvery > 0 && op.Rep > 0 && op.N >= op.DupEvery {
						dups = true
					}
					if op.Twin != 0 {
						twins = true
					}
				case scn.OpTracer:
					lines += opLines(g, op)
					tracers = true
				case scn.OpLevel, scn.OpUnset:
					innerChange = true
				case scn.OpPkg:
					innerChange = true
					pkgLevels = true
				case scn.OpTrigger:
					triggers = true
				}
			}
		}
	}
	return
}

func hasEcho(sc *scn.Scenario) bool {
	for _, ph := range sc.Phases {
		for _, seq := range ph.G {
			for _, op := range seq {
				if op.K == scn.OpTracer && op.Echo != 0 {
					return true
				}
			}
		}
	}
	return false
}

func record(sc *scn.Scenario, rep *scn.Report, prefix string) {
	raw, _ := json.Marshal(sc)
	lines, barrierChange, innerChange, pkgLevels, tracers, dups, twins, triggers := scenarioLines(sc)
	nontrivial := rep.Expanded > 0 && (sc.Goroutines >= 2 || lines > scn.BufferSize || barrierChange || innerChange || tracers)
	cl := []string{
		prefix + "cases",
		fmt.Sprintf("%sgoroutines_%d", prefix, sc.Goroutines),
		prefix + "sched_" + sc.Sched,
		fmt.Sprintf("%sadapter_pace_%d", prefix, sc.AdapterPace),
		fmt.Sprintf("%sphases_%d", prefix, len(sc.Phases)),
	}
	add := func(c bool, name string) {
		if c {
			cl = append(cl, prefix+name)
		}
	}
	add(lines <= 300, "log_calls_le_300")
	add(lines > 300 && lines <= scn.BufferSize, "log_calls_301_1024")
	add(lines > scn.BufferSize, "log_calls_gt_buffer")
	add(rep.Must > scn.BufferSize, "enabled_lines_gt_buffer")
	add(rep.Must > scn.BufferSize && sc.Sched != "free", "enabled_lines_gt_buffer_scheduled_writer")
	add(sc.Sched == "never" && rep.BeforeShutdwn > 0, "forced_write_observed_without_trigger")
	add(sc.Sched == "manual" && triggers, "writer_triggered")
	add(rep.BeforeShutdwn == 0 && rep.Expanded > 0, "everything_written_by_shutdown_drain")
	add(rep.BeforeShutdwn > 0 && rep.BeforeShutdwn < rep.Expanded-rep.MergedLines, "shutdown_drain_had_work")
	add(barrierChange, "level_change_at_barrier")
	add(innerChange, "level_change_inside_goroutine")
	add(pkgLevels, "pkg_levels_set")
	add(rep.May > 0, "lines_concurrent_with_level_change")
	add(rep.Never > 0, "lines_below_level")
	add(rep.Must > 0, "lines_enabled")
	add(tracers, "tracer_ops")
	add(rep.TracerReal > 0, "tracer_submitted")
	add(rep.TracerNil > 0, "tracer_nil_fallback")
	add(rep.TracerEither > 0, "tracer_concurrent_with_level_change")
	add(rep.TracerWrites > 0, "tracer_with_collected_lines_received")
	add(rep.RealFLines > 0, "tracer_collected_printf_style_lines")
	add(rep.NilFLines > 0, "nil_tracer_printf_style_lines")
	add(rep.NilFQuieter > 0, "nil_tracer_printf_line_suppressed_only_by_pkg_level")
	add(rep.NilFLouder > 0, "nil_tracer_printf_line_enabled_only_by_pkg_level")
	add(hasEcho(sc), "plain_echo_of_tracer_main_line_drawn")
	add(rep.EchoAdjacent > 0, "plain_line_and_same_text_trace_adjacent_in_stream")
	if rep.EchoAdjacent > 0 {
		stats.ClassN(prefix+"adjacent_plain_trace_pairs_total", int64(rep.EchoAdjacent))
	}
	add(dups, "identical_consecutive_lines_drawn")
	add(rep.MergedWrites > 0, "duplicates_merged_observed")
	add(twins, "same_text_not_identical_drawn")
	add(len(rep.Internal) > 0, "logger_internal_lines_seen")
	add(sc.PreShutdownSleepUs > 0, "shutdown_delayed")
	add(sc.ExtraShutdownCallers > 0, "concurrent_shutdown_callers")
	add(sc.SilenceClauseApplies(), "free_writer_two_seconds_of_silence_before_shutdown")
	add(sc.SilenceClauseApplies() && sc.AdapterPace == 4, "silence_with_slow_adapter")
	add(sc.SilenceClauseApplies() && rep.LastInFinal, "last_line_logged_during_final_adapter_call_of_a_batch_then_silence")
	stats.Case(string(raw), nontrivial, cl...)
	kind := prefix + "scenario"
	if stats.WantSample(kind) && len(raw) < 1500 {
		stats.Sample(kind, map[string]any{"scenario": json.RawMessage(raw), "adapter_calls": rep.Expanded - rep.MergedLines, "lines_after_expansion": rep.Expanded, "required": rep.Must, "optional": rep.May, "suppressed": rep.Never})
	}
}

// ---------------------------------------------------------------- properties

// batch: each rapid case draws this many independent scenarios and runs their
// children concurrently (a child spends most of its wall time in the 200ms
// wait after Shutdown); every scenario is judged and counted on its own.
const batch = 4

func judgeBatch(t *rapid.T, dirs []string, prefix string, o genOpts) {
	judgeBatchOf(t, dirs, prefix, func(t *rapid.T) *scn.Scenario { return genScenario(t, o) })
}

func judgeBatchOf(t *rapid.T, dirs []string, prefix string, gen func(*rapid.T) *scn.Scenario) {
	scs := make([]*scn.Scenario, len(dirs))
	for i := range scs {
		scs[i] = gen(t)
	}
	if j := os.Getenv("VERIF_JOURNAL"); j != "" {
		// what is about to run (the replay file should this process die)
		if raw, err := json.Marshal(scs); err == nil {
			_ = os.WriteFile(j, raw, 0o644)
		}
	}
	reps := make([]*scn.Report, len(scs))
	msgs := make([]string, len(scs))
	var wg sync.WaitGroup
	for i := range scs {
		wg.Add(1)
		go func(i int) {
			defer wg.Done()
			c := &collect{}
			defer func() {
				if r := recover(); r != nil && r != errStop {
					panic(r)
				}
				msgs[i] = c.msg
			}()
			reps[i] = judge(c, scs[i], dirs[i])
		}(i)
	}
	wg.Wait()
	for i := range scs {
		if msgs[i] != "" {
			t.Fatalf("scenario %d of the batch: %s", i, msgs[i])
		}
	}
	for i := range scs {
		record(scs[i], reps[i], prefix)
	}
}

func batchDirs(t *testing.T, name string) []string {
	dirs := make([]string, batch)
	for i := range dirs {
		dirs[i] = caseDir(t, fmt.Sprintf("%s-%d", name, i))
	}
	return dirs
}

func TestPropLogStream(t *testing.T) {
	dirs := batchDirs(t, "prop")
	rapid.Check(t, func(t *rapid.T) {
		judgeBatch(t, dirs, "", genOpts{minLines: 50, maxLines: 4000})
	})
}

// TestPropSilence: bounded liveness of the free-running writer. Scenarios whose last log call falls
// into the writer's final adapter call of a batch, followed by two seconds of silence: everything
// must have been handed to the adapter before Shutdown is called (a lost wake-up leaves the line in
// the buffer until the shutdown drain). The children only sleep, so a case runs twelve of them.
func TestPropSilence(t *testing.T) {
	const silenceBatch = 12
	dirs := make([]string, silenceBatch)
	for i := range dirs {
		dirs[i] = caseDir(t, fmt.Sprintf("silence-%d", i))
	}
	rapid.Check(t, func(t *rapid.T) {
		judgeBatchOf(t, dirs, "silence_", genSilenceScenario)
	})
}

// TestPropShutdownUnderStutter: the same property while the process is stopped
// and resumed repeatedly during Shutdown (a legal, if unfriendly, schedule of
// the writer: it models the OS not running the process for a while).
func TestPropShutdownUnderStutter(t *testing.T) {
	dirs := batchDirs(t, "stutter")
	rapid.Check(t, func(t *rapid.T) {
		judgeBatch(t, dirs, "stutter_", genOpts{minLines: 50, maxLines: 1500, stutter: true})
	})
}

// ---------------------------------------------------------------- helpers for regressions

func parallelTrials(t *testing.T, n, workers int, mk func(i int) *scn.Scenario) {
	t.Helper()
	var wg sync.WaitGroup
	var mu sync.Mutex
	var failures []string
	sem := make(chan struct{}, workers)
	for i := 0; i < n; i++ {
		wg.Add(1)
		go func(i int) {
			defer wg.Done()
			sem <- struct{}{}
			defer func() { <-sem }()
			c := &collect{}
			func() {
				defer func() {
					if r := recover(); r != nil && r != errStop {
						panic(r)
					}
				}()
				judge(c, mk(i), caseDir(t, fmt.Sprintf("%s-%d", t.Name(), i)))
			}()
			if c.msg != "" {
				mu.Lock()
				failures = append(failures, fmt.Sprintf("trial %d: %s", i, c.msg))
				mu.Unlock()
			}
		}(i)
	}
	wg.Wait()
	if len(failures) > 0 {
		t.Fatalf("%d of %d trials failed; first:\n%s", len(failures), n, failures[0])
	}
}

var errStop = errors.New("stop")

type collect struct{ msg string }

func (c *collect) Fatalf(format string, args ...any) {
	c.msg = fmt.Sprintf(format, args...)
	panic(errStop)
}

// loadCallSites reads the helper package's source and notes which kind of call site sits on which line, so that the
// oracle can tell two lines of one file apart (same text, same severity, same file - not identical lines).
func loadCallSites() {
	root := os.Getenv("VERIF_ROOT")
	if root == "" {
		root = "/verif"
	}
	b, err := os.ReadFile(filepath.Join(root, "harness", "c20", "cmd", "logscenario", "pkga", "ops.go"))
	if err != nil {
		return
	}
	sites := map[int]string{}
	inHandle := false
	for i, l := range strings.Split(string(b), "\n") {
		switch {
		case strings.HasPrefix(l, "func handle("):
			inHandle = true
		case strings.HasPrefix(l, "func "):
			inHandle = false
		}
		t := strings.TrimSpace(l)
		switch {
		case strings.HasPrefix(t, "table[sev](msg)"):
			sites[i+1] = "v"
		case strings.HasPrefix(t, "log.") && strings.Contains(t, "f(\"%s\", msg)"):
			sites[i+1] = "f"
		case strings.HasPrefix(t, "log.") && strings.HasSuffix(t, "(msg)"):
			sites[i+1] = "p"
		case inHandle && strings.HasPrefix(t, "tr.") && strings.Contains(t, "f(\"%s\", texts[i])"):
			sites[i+1] = "hf"
		case inHandle && strings.HasPrefix(t, "tr.") && strings.HasSuffix(t, "(texts[i])"):
			sites[i+1] = "hp"
		}
	}
	if len(sites) == 25 { // 6 + 6 + 1 + 6 + 6
		scn.SiteOfLine = sites
	}
}
