// Package scn holds what the C20 property test (parent process) and the
// scenario runner (child process) share: the scenario and result formats and
// the expansion of a compact scenario into the individual log calls. The oracle
// (oracle.go) is a pure function of (Scenario, Result).
package scn

import (
	"fmt"
)

// Severities as in portbase/log (Trace=1 ... Critical=6).
const (
	SevTrace    = 1
	SevDebug    = 2
	SevInfo     = 3
	SevWarning  = 4
	SevError    = 5
	SevCritical = 6
)

// BufferSize is the capacity of the channel between producers and the writer (log/logging.go:192).
const BufferSize = 1024

// Op kinds.
const (
	OpLines   = "L" // N plain log calls
	OpTracer  = "T" // AddTracer, len(Sevs) collected lines, Submit
	OpLevel   = "G" // SetLogLevel(Sev)
	OpPkg     = "P" // SetPkgLevels(Pkgs)
	OpUnset   = "U" // UnSetPkgLevels()
	OpTrigger = "W" // TriggerWriter()
	OpYield   = "Y" // runtime.Gosched() (perturbation only)
	OpSleep   = "S" // time.Sleep(Us microseconds) (places a log call relative to the writer's cycle; never a verdict)
)

// Op is one step of a goroutine's sequence (or of a barrier's change list).
type Op struct {
	K string `json:"k"`
	// OpLines: N distinct texts; line j has severity 1+((Sev-1+j*Step) mod 6) and is
	// logged from package Pkg ("a"/"b"; with Alt the packages alternate per line).
	// Every DupEvery-th line (DupEvery>0) is logged 1+Rep times in a row from the
	// same call site (identical consecutive lines). With Twin every text is
	// logged a second time directly afterwards, 1: with the next severity, 2: from
	// the other package, 3: from another line of the same file (same text, not identical:
	// must not be merged). F selects
	// the Printf-style functions; Via calls through a function table, so that all
	// severities share ONE call site (file and line) and only the level differs.
	N        int    `json:"n,omitempty"`
	Sev      int    `json:"s,omitempty"`
	Step     int    `json:"st,omitempty"`
	Pkg      string `json:"p,omitempty"`
	Alt      bool   `json:"alt,omitempty"`
	DupEvery int    `json:"de,omitempty"`
	Rep      int    `json:"r,omitempty"`
	Twin     int    `json:"tw,omitempty"`
	F        bool   `json:"f,omitempty"`
	Via      bool   `json:"v,omitempty"`
	// OpTracer: severities of the collected lines (1..5 of them), package Pkg.
	// Echo: the tracer's main line (its last collected line: same text, same
	// severity, same call site) is additionally logged PLAINLY EchoRep times
	// (default 1) by the same handler running without a tracer, 1: directly before
	// the traced run, 2: directly after it. A plain line and a trace are never
	// identical lines, whatever their text.
	// Fm: bit k set = collected line k uses the Printf-style method (Warningf …).
	Sevs    []int `json:"sv,omitempty"`
	Fm      int   `json:"fm,omitempty"`
	Echo    int   `json:"e,omitempty"`
	EchoRep int   `json:"er,omitempty"`
	// OpSleep: microseconds.
	Us int `json:"us,omitempty"`
	// OpPkg: package name -> level ("pkga", "pkgb", or an unrelated name).
	Pkgs map[string]int `json:"pk,omitempty"`
}

// Phase: the main goroutine applies Pre while all producers are parked, then
// releases them; every producer runs its sequence G[i]; the phase ends when
// all have returned (barrier).
type Phase struct {
	Pre []Op   `json:"pre,omitempty"`
	G   [][]Op `json:"g"`
}

// Scenario is one child run: Start, phases, Shutdown.
type Scenario struct {
	// Sched: "free" (writer free-running), "manual" (EnableScheduling, writer
	// paced by the OpTrigger ops), "never" (EnableScheduling, never triggered:
	// only full-buffer forced writes and the shutdown drain write anything).
	Sched string `json:"sched"`
	// Adapter pace: 0 none, 1 Gosched per write, 2 sleep 50us every 64th write,
	// 3 sleep 1ms every 512th write.
	// 4 sleep PaceUs microseconds on EVERY write (a slow sink: file on a busy
	// disk, network). Only for small scenarios: Validate bounds calls*PaceUs.
	AdapterPace int `json:"pace,omitempty"`
	PaceUs      int `json:"pace_us,omitempty"`
	// Init is applied right after Start (before the first phase).
	Init []Op `json:"init,omitempty"`
	// Goroutines is the number of producers (length of every Phase.G).
	Goroutines int     `json:"goroutines"`
	Phases     []Phase `json:"phases"`
	// PreShutdownSleepUs: pause between the last barrier and Shutdown (moves the
	// moment of Shutdown relative to the writer's state; never a verdict).
	PreShutdownSleepUs int `json:"pre_shutdown_sleep_us,omitempty"`
	// ExtraShutdownCallers: that many further goroutines call Shutdown at about the same time as the main one (a
	// signal handler and a module shutting down): none of the calls may return before everything is written.
	ExtraShutdownCallers int `json:"extra_shutdown_callers,omitempty"`
	// Stutter: while Shutdown runs, a helper process SIGSTOPs and SIGCONTs the
	// child repeatedly (models the OS descheduling the process; a legal
	// schedule). Used by the stutter job and by witnesses/regressions.
	Stutter *Stutter `json:"stutter,omitempty"`
}

// SilenceUs is the pause before Shutdown after which a free-running writer must have written everything.
const SilenceUs = 2_000_000

// MaxSlowAdapterUs bounds the total time a pace-4 adapter may spend sleeping
// (a quarter of SilenceUs: the silence clause stays sound whatever the schedule).
const MaxSlowAdapterUs = SilenceUs / 4

// LogCalls is the number of log calls of the scenario (collected tracer lines and echoes included).
func (s *Scenario) LogCalls() int {
	n := 0
	for _, ph := range s.Phases {
		for g, seq := range ph.G {
			e := Expander{G: g}
			for _, op := range seq {
				for _, ev := range e.Expand(op) {
					switch ev.Kind {
					case OpLines:
						n += ev.Times
					case OpTracer:
						n += len(ev.Trace) + ev.EchoBefore + ev.EchoAfter
					}
				}
			}
		}
	}
	return n
}

// Stutter parameters: after DelayUs, N times { stop for StopMs; run for RunUs }.
type Stutter struct {
	DelayUs int `json:"delay_us"`
	RunUs   int `json:"run_us"`
	StopMs  int `json:"stop_ms"`
	N       int `json:"n"`
}

// Write is one call of the adapter.
type Write struct {
	Text  string   `json:"t"`
	Sev   int      `json:"s"`
	File  string   `json:"f"`
	Line  int      `json:"n"`
	Dups  uint64   `json:"d,omitempty"`
	Trace []string `json:"tr,omitempty"` // formatted lines after the first one (tracer actions), raw
	Sigma bool     `json:"sg,omitempty"` // first formatted line carries the tracer's Σ= suffix
}

// Result is what the child observed.
type Result struct {
	Writes []Write `json:"writes"`
	// number of adapter calls seen when Shutdown was called / had returned / 200ms later
	AtShutdownCall   int `json:"at_shutdown_call"`
	AtShutdownReturn int `json:"at_shutdown_return"`
	// ExtraShutdownReturns: adapter calls seen when each further Shutdown call returned
	ExtraShutdownReturns []int `json:"extra_shutdown_returns,omitempty"`
	After200ms           int   `json:"after_200ms"`
	// pace 4 only (statistics, never a verdict): start/end of every adapter call and the
	// moment the last log call of the scenario returned, microseconds since process start
	WriteTimes [][2]int64 `json:"wt,omitempty"`
	LastLogUs  int64      `json:"last_log_us,omitempty"`
	Stage      string     `json:"stage"` // "done", or where the child's watchdog found it stuck
	Hung       bool       `json:"hung,omitempty"`
	Stacks     string     `json:"stacks,omitempty"`
}

// Line is one expanded log call.
type Line struct {
	Text string
	Sev  int
	Pkg  string // "pkga" / "pkgb"
	F    bool
	Via  bool
	H    bool // logged by the request handler of the helper package (tracer lines and their plain echoes), not by Log/LogVia
}

// SiteOfLine maps a line number of the helper packages' ops.go (the two files are line-identical) to the kind of call
// site on it: "p" plain call in Log, "f" Printf-style call in Log, "v" the one call in LogVia, "hp"/"hf" the calls of
// the request handler. Set by the test's TestMain from the sources; nil = call sites are not told apart.
var SiteOfLine map[int]string

// Site is the kind of call site the line is logged from ("" when call sites are not told apart).
func (l Line) Site() string {
	switch {
	case SiteOfLine == nil:
		return ""
	case l.H:
		return "" // the handler's lines are not told apart by call site
	case l.Via:
		return "v"
	case l.F:
		return "f"
	}
	return "p"
}

// Event is one expanded step of a goroutine.
type Event struct {
	Kind  string // OpLines (a single call, possibly repeated), OpTracer, OpLevel, OpPkg, OpUnset, OpTrigger, OpYield
	Line  Line   // OpLines
	Times int    // OpLines: number of identical consecutive calls (>=1)
	Pkg   string // OpTracer
	Trace []Line // OpTracer: collected lines in order (the last one becomes the main line)
	// OpTracer: number of plain (untraced) calls of the main line before / after the traced run
	EchoBefore, EchoAfter int
	Op                    Op // level changes: the original op
}

func pkgName(p string) string {
	if p == "b" {
		return "pkgb"
	}
	return "pkga"
}

func wrapSev(s int) int {
	s = (s - 1) % 6
	if s < 0 {
		s += 6
	}
	return s + 1
}

// Text of the i-th text id of goroutine g.
func Text(g, i int) string { return fmt.Sprintf("L%d:%d", g, i) }

// TraceText is the k-th collected line of tracer text id i of goroutine g.
func TraceText(g, i, k int) string { return fmt.Sprintf("L%d:%d.%d", g, i, k) }

// Expander turns the ops of ONE goroutine into events; text ids run through all phases.
type Expander struct {
	G    int
	next int
}

// Expand expands one op.
func (e *Expander) Expand(op Op) []Event {
	switch op.K {
	case OpLines:
		var out []Event
		for j := 0; j < op.N; j++ {
			p := op.Pkg
			if op.Alt && j%2 == 1 {
				if p == "b" {
					p = "a"
				} else {
					p = "b"
				}
			}
			ln := Line{Text: Text(e.G, e.next), Sev: wrapSev(op.Sev + j*op.Step), Pkg: pkgName(p), F: op.F && !op.Via, Via: op.Via}
			e.next++
			times := 1
			if op.DupEvery > 0 && j%op.DupEvery == op.DupEvery-1 {
				times = 1 + op.Rep
			}
			out = append(out, Event{Kind: OpLines, Line: ln, Times: times})
			if op.Twin != 0 {
				tw := ln
				switch op.Twin {
				case 2:
					if tw.Pkg == "pkga" {
						tw.Pkg = "pkgb"
					} else {
						tw.Pkg = "pkga"
					}
				case 3:
					// same text, severity and file - another line of that file
					tw.F, tw.Via = !ln.F && !ln.Via, false
				default:
					tw.Sev = wrapSev(ln.Sev + 1)
				}
				out = append(out, Event{Kind: OpLines, Line: tw, Times: 1})
			}
		}
		return out
	case OpTracer:
		ev := Event{Kind: OpTracer, Pkg: pkgName(op.Pkg)}
		for k, s := range op.Sevs {
			ev.Trace = append(ev.Trace, Line{Text: TraceText(e.G, e.next, k), Sev: wrapSev(s), Pkg: ev.Pkg, F: op.Fm>>uint(k)&1 == 1, H: true})
		}
		e.next++
		rep := op.EchoRep
		if rep < 1 {
			rep = 1
		}
		switch op.Echo {
		case 1:
			ev.EchoBefore = rep
		case 2:
			ev.EchoAfter = rep
		}
		return []Event{ev}
	case OpLevel, OpPkg, OpUnset, OpTrigger, OpYield, OpSleep:
		return []Event{{Kind: op.K, Op: op}}
	}
	return nil
}

// IsChange reports whether the op changes the level configuration.
func IsChange(k string) bool { return k == OpLevel || k == OpPkg || k == OpUnset }

// Validate checks the structural rules the oracle relies on.
func (s *Scenario) Validate() error {
	switch s.Sched {
	case "free", "manual", "never":
	default:
		return fmt.Errorf("bad sched %q", s.Sched)
	}
	if s.Goroutines < 1 {
		return fmt.Errorf("no goroutines")
	}
	if s.AdapterPace == 4 {
		if s.PaceUs < 1 || s.PaceUs > 5000 {
			return fmt.Errorf("pace 4 needs pace_us in 1..5000")
		}
		if calls := s.LogCalls(); calls*s.PaceUs > MaxSlowAdapterUs {
			return fmt.Errorf("pace 4: %d log calls x %d us exceed %d us of adapter time", calls, s.PaceUs, MaxSlowAdapterUs)
		}
	}
	for _, op := range s.Init {
		if !IsChange(op.K) {
			return fmt.Errorf("init may only contain level changes")
		}
	}
	for pi, ph := range s.Phases {
		if len(ph.G) != s.Goroutines {
			return fmt.Errorf("phase %d has %d sequences, want %d", pi, len(ph.G), s.Goroutines)
		}
		for _, op := range ph.Pre {
			if !IsChange(op.K) {
				return fmt.Errorf("phase %d: pre may only contain level changes", pi)
			}
		}
		changers := 0
		for _, seq := range ph.G {
			has := false
			for _, op := range seq {
				switch op.K {
				case OpLines:
					if op.N < 0 || op.Rep < 0 || op.DupEvery < 0 {
						return fmt.Errorf("phase %d: negative counts", pi)
					}
				case OpTracer:
					if len(op.Sevs) < 1 {
						return fmt.Errorf("phase %d: tracer without lines", pi)
					}
					if op.Echo < 0 || op.Echo > 2 || op.EchoRep < 0 {
						return fmt.Errorf("phase %d: bad echo", pi)
					}
				case OpLevel, OpPkg, OpUnset:
					has = true
				case OpTrigger, OpYield:
				case OpSleep:
					if op.Us < 0 || op.Us > 1_000_000 {
						return fmt.Errorf("phase %d: sleep of %d us", pi, op.Us)
					}
				default:
					return fmt.Errorf("phase %d: unknown op %q", pi, op.K)
				}
			}
			if has {
				changers++
			}
		}
		if changers > 1 {
			return fmt.Errorf("phase %d: %d goroutines change levels (at most one allowed)", pi, changers)
		}
	}
	return nil
}
