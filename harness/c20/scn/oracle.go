package scn

import (
	"fmt"
	"regexp"
	"sort"
	"strconv"
	"strings"
)

// ---------------------------------------------------------------- level model

// Config is the level configuration of the log package: the global level, and
// the per-package map which only counts while it is active (SetPkgLevels
// activates, UnSetPkgLevels deactivates and keeps the map).
type Config struct {
	Global int
	Active bool
	Pkgs   map[string]int
}

// InitialConfig is the state of a fresh process (log/logging.go:105-110).
func InitialConfig() Config { return Config{Global: SevInfo, Pkgs: map[string]int{}} }

func enabled(global int, active bool, pkgs map[string]int, sev int, pkg string) bool {
	if active {
		if l, ok := pkgs[pkg]; ok {
			return sev >= l
		}
	}
	return sev >= global
}

// Apply applies one change op.
func (c *Config) Apply(op Op) {
	switch op.K {
	case OpLevel:
		c.Global = op.Sev
	case OpPkg:
		c.Pkgs = op.Pkgs
		if c.Pkgs == nil {
			c.Pkgs = map[string]int{}
		}
		c.Active = true
	case OpUnset:
		c.Active = false
	}
}

// window is the set of configurations a log call may observe: for a call that
// is ordered with respect to all changes it holds one value per component; for
// a call concurrent with changes of another goroutine every component may have
// any value it had during the phase (the log package reads the three
// components at separate moments, so all combinations are allowed).
type window struct {
	globals []int
	actives []bool
	pkgs    []map[string]int
}

func exact(c Config) window {
	return window{globals: []int{c.Global}, actives: []bool{c.Active}, pkgs: []map[string]int{c.Pkgs}}
}

func (w *window) add(c Config) {
	w.globals = append(w.globals, c.Global)
	w.actives = append(w.actives, c.Active)
	w.pkgs = append(w.pkgs, c.Pkgs)
}

// outcomes: can a call with (sev, pkg) be enabled / be disabled under the window?
func (w window) outcomes(sev int, pkg string) (canOn, canOff bool) {
	for _, g := range w.globals {
		for _, a := range w.actives {
			for _, m := range w.pkgs {
				if enabled(g, a, m, sev, pkg) {
					canOn = true
				} else {
					canOff = true
				}
			}
		}
	}
	return
}

func (w window) String() string {
	var parts []string
	for i := range w.globals {
		parts = append(parts, fmt.Sprintf("{global=%s pkg-levels-active=%v pkg-levels=%v}", sevName(w.globals[i]), w.actives[i], w.pkgs[i]))
	}
	return strings.Join(parts, " | ")
}

func sevName(s int) string {
	switch s {
	case 1:
		return "TRAC"
	case 2:
		return "DEBU"
	case 3:
		return "INFO"
	case 4:
		return "WARN"
	case 5:
		return "ERRO"
	case 6:
		return "CRIT"
	}
	return "sev" + strconv.Itoa(s)
}

func sevFromName(n string) int {
	for s := 1; s <= 6; s++ {
		if sevName(s) == n {
			return s
		}
	}
	return 0
}

// ---------------------------------------------------------------- expectation

// Tuple is what identifies one line handed to the adapter.
type Tuple struct {
	Text string
	Sev  int
	Pkg  string
	Sub  string // tracer submissions: the collected lines before the main line, "SEV text@origin-package|…"
	Site string // kind of call site (see SiteOfLine), "" when not told apart
}

func (t Tuple) String() string {
	s := fmt.Sprintf("%s %s from %s", t.Text, sevName(t.Sev), t.Pkg)
	if t.Site != "" {
		s += " (call site " + t.Site + ")"
	}
	if t.Sub != "" {
		s += " carrying [" + t.Sub + "]"
	}
	return s
}

type item struct {
	tup   Tuple
	may   bool // the statement allows this line to be absent (logged concurrently with a level change)
	next  int  // position after this item was received
	skip  int  // position after this item was skipped (may only)
	phase int
	win   *window
}

type expectation struct {
	items []item
	// texts -> what the scenario did with it, for diagnostics only
	never map[string]string
	// counters
	must, mayN, neverN             int
	tracerReal, tracerNil, tracerE int
	// nil-tracer lines logged with a Printf-style method whose fate is decided by the
	// calling package's level against the global level (exact windows only)
	nilFPkgQuieter, nilFPkgLouder, nilF, realF int
}

func subOf(lines []Line) string {
	var p []string
	for _, l := range lines {
		p = append(p, sevName(l.Sev)+" "+l.Text+"@"+l.Pkg)
	}
	return strings.Join(p, "|")
}

// appendLine adds times copies of a plain line under window w.
func (e *expectation) appendLine(l Line, times int, w *window, phase int) {
	on, off := w.outcomes(l.Sev, l.Pkg)
	switch {
	case on && !off:
		e.must += times
	case on && off:
		e.mayN += times
	default:
		e.neverN += times
		e.never[l.Text] = fmt.Sprintf("%s %s from %s, logged in phase %d below the level in force %s", l.Text, sevName(l.Sev), l.Pkg, phase, w)
		return
	}
	for k := 0; k < times; k++ {
		p := len(e.items)
		e.items = append(e.items, item{tup: Tuple{Text: l.Text, Sev: l.Sev, Pkg: l.Pkg, Site: l.Site()}, may: off, next: p + 1, skip: p + 1, phase: phase, win: w})
	}
}

func (e *expectation) appendTracer(ev Event, w *window, phase int) {
	// AddTracer hands out a tracer when Trace is enabled for the calling package;
	// otherwise the lines go through the ordinary functions one by one.
	on, off := w.outcomes(SevTrace, ev.Pkg)
	n := len(ev.Trace)
	main := ev.Trace[n-1]
	sub := Tuple{Text: main.Text, Sev: main.Sev, Pkg: ev.Pkg, Sub: subOf(ev.Trace[:n-1])}
	// the plain echo of the main line (same handler, context without tracer) is an
	// ordinary line of its own, before or after whatever the traced run produces
	if ev.EchoBefore > 0 {
		e.appendLine(main, ev.EchoBefore, w, phase)
	}
	if ev.EchoAfter > 0 {
		defer e.appendLine(main, ev.EchoAfter, w, phase)
	}
	switch {
	case on && !off:
		e.tracerReal++
		for _, l := range ev.Trace {
			if l.F {
				e.realF++
			}
		}
		e.must++
		p := len(e.items)
		e.items = append(e.items, item{tup: sub, next: p + 1, skip: p + 1, phase: phase, win: w})
	case !on:
		e.tracerNil++
		for _, l := range ev.Trace {
			e.appendLine(l, 1, w, phase)
			if l.F {
				e.nilF++
				if len(w.globals) == 1 {
					pkgSays := enabled(w.globals[0], w.actives[0], w.pkgs[0], l.Sev, l.Pkg)
					globalSays := l.Sev >= w.globals[0]
					if globalSays && !pkgSays {
						e.nilFPkgQuieter++
					}
					if !globalSays && pkgSays {
						e.nilFPkgLouder++
					}
				}
			}
		}
	default:
		e.tracerE++
		p := len(e.items)
		e.items = append(e.items, item{tup: sub, may: true, skip: p + 1, phase: phase, win: w})
		for _, l := range ev.Trace {
			e.appendLine(l, 1, w, phase)
		}
		e.items[p].next = len(e.items)
	}
}

// Expect computes, per goroutine, the lines the statement requires / allows.
func expect(s *Scenario) []*expectation {
	exps := make([]*expectation, s.Goroutines)
	expanders := make([]*Expander, s.Goroutines)
	for g := range exps {
		exps[g] = &expectation{never: map[string]string{}}
		expanders[g] = &Expander{G: g}
	}
	cfg := InitialConfig()
	for _, op := range s.Init {
		cfg.Apply(op)
	}
	for pi, ph := range s.Phases {
		for _, op := range ph.Pre {
			cfg.Apply(op)
		}
		// the (at most one) goroutine that changes levels inside this phase
		changer := -1
		for g, seq := range ph.G {
			for _, op := range seq {
				if IsChange(op.K) {
					changer = g
				}
			}
		}
		conc := exact(cfg)
		end := cfg
		if changer >= 0 {
			for _, op := range ph.G[changer] {
				if IsChange(op.K) {
					end.Apply(op)
					conc.add(end)
				}
			}
		}
		for g, seq := range ph.G {
			own := cfg
			w := &conc
			if g == changer || changer < 0 {
				ww := exact(own)
				w = &ww
			}
			for _, op := range seq {
				for _, ev := range expanders[g].Expand(op) {
					switch ev.Kind {
					case OpLines:
						exps[g].appendLine(ev.Line, ev.Times, w, pi)
					case OpTracer:
						exps[g].appendTracer(ev, w, pi)
					case OpLevel, OpPkg, OpUnset:
						own.Apply(ev.Op)
						ww := exact(own)
						w = &ww
					}
				}
			}
		}
		cfg = end
	}
	return exps
}

// ---------------------------------------------------------------- received stream

var (
	textRE  = regexp.MustCompile(`^L(\d+):(\d+)(?:\.(\d+))?$`)
	traceRE = regexp.MustCompile(`(\S+):\d+ ▶ (TRAC|DEBU|INFO|WARN|ERRO|CRIT)(?:\x1b\[0m)?     (.*)$`)
)

type recvLine struct {
	tup   Tuple
	write int // index of the adapter call
}

func pkgOfFile(f string) string {
	seg := strings.Split(f, "/")
	if len(seg) < 2 {
		return "?"
	}
	return seg[len(seg)-2]
}

// Report is the verdict plus what was observed (for generator statistics).
type Report struct {
	Violations []string
	Harness    string // non-empty: the run is unusable for a reason that is not the logger's (infrastructure)

	Internal      []string // lines that are not the scenario's (the logger's own)
	MergedWrites  int      // adapter calls with duplicates > 0
	MergedLines   int      // sum of duplicates
	Expanded      int      // scenario lines received after expansion
	Must          int
	May           int
	Never         int
	TracerReal    int
	TracerNil     int
	TracerEither  int
	TracerWrites  int  // adapter calls carrying collected lines
	NilFLines     int  // nil-tracer lines logged with a Printf-style method
	NilFQuieter   int  // … that only the calling package's (higher) level suppresses
	NilFLouder    int  // … that only the calling package's (lower) level enables
	RealFLines    int  // lines collected by a real tracer with a Printf-style method
	LastInFinal   bool // pace 4: the last log call fell into the final adapter call of a writer batch (statistics)
	EchoAdjacent  int  // adjacent adapter calls (plain, trace) or (trace, plain) with the same text, severity, file and line
	BeforeShutdwn int  // adapter calls before Shutdown was called
}

func (r *Report) violate(format string, a ...any) {
	if len(r.Violations) < 12 {
		r.Violations = append(r.Violations, fmt.Sprintf(format, a...))
	}
}

// SilenceClauseApplies: free-running writer, no stop/resume, the long silence before Shutdown.
func (s *Scenario) SilenceClauseApplies() bool {
	return s.Sched == "free" && s.Stutter == nil && s.PreShutdownSleepUs >= SilenceUs
}

// lastLineInFinalWrite (statistics only): the last log call of the scenario returned while the adapter
// was busy with a call that turned out to be the last one of its writer batch (the next adapter call, if
// any, started at least 5 ms — a writer pause — later).
func lastLineInFinalWrite(res *Result) bool {
	if res.LastLogUs == 0 || len(res.WriteTimes) == 0 {
		return false
	}
	for i, w := range res.WriteTimes {
		if res.LastLogUs >= w[0] && res.LastLogUs <= w[1] {
			return i+1 == len(res.WriteTimes) || res.WriteTimes[i+1][0]-w[1] >= 5000
		}
	}
	return false
}

// Check is the oracle: a pure function of the scenario and of what the child observed.
func Check(s *Scenario, res *Result) *Report {
	rep := &Report{}
	if err := s.Validate(); err != nil {
		rep.Harness = "invalid scenario: " + err.Error()
		return rep
	}
	if res.Hung {
		switch {
		case strings.HasPrefix(res.Stage, "phase"):
			rep.violate("log calls did not return (stuck in %s): the messages of the blocked producers never reach the adapter\n%s", res.Stage, res.Stacks)
		case res.Stage == "shutdown":
			rep.violate("Shutdown did not return\n%s", res.Stacks)
		default:
			rep.Harness = "child stuck in stage " + res.Stage
		}
		return rep
	}
	if res.Stage != "done" {
		rep.Harness = "child result incomplete (stage " + res.Stage + ")"
		return rep
	}
	if res.AtShutdownReturn < 0 || res.AtShutdownReturn > len(res.Writes) || res.AtShutdownCall > res.AtShutdownReturn {
		rep.Harness = "inconsistent counters in child result"
		return rep
	}
	rep.BeforeShutdwn = res.AtShutdownCall

	// ... nor after any further, concurrent Shutdown call returned
	for i, n := range res.ExtraShutdownReturns {
		if n != len(res.Writes) {
			rep.violate("a further Shutdown call (no. %d, made while the first was at work) returned when the adapter had received %d of the %d calls: it did not wait for the lines logged before it", i+1, n, len(res.Writes))
			return rep
		}
	}
	// Shutdown clause: nothing may arrive after Shutdown returned.
	if res.After200ms != res.AtShutdownReturn || len(res.Writes) != res.AtShutdownReturn {
		rep.violate("the adapter had received %d calls when Shutdown returned and %d calls 200ms later: %d line(s) were written after Shutdown returned (first: %q)",
			res.AtShutdownReturn, len(res.Writes), len(res.Writes)-res.AtShutdownReturn, res.Writes[res.AtShutdownReturn].Text)
	}

	// Bounded liveness of the free-running writer: after SilenceUs without any log call everything that was logged
	// has been handed to the adapter; a line that only comes out because Shutdown drains the buffer was stuck (a lost
	// wake-up of the writer). The bound is two hundred times the writer's own 10 ms pause.
	// Soundness: on a correct writer every log call either finds logsWaitingFlag clear (and sends the wake-up) or finds
	// it set, which means a wake-up is pending or the writer is between taking it and its drain loop; all log calls have
	// returned before the silence starts, so the buffer is empty after at most two writer cycles plus the adapter's own
	// time. The adapter's time is bounded by construction (paces 0-3: < 10 ms in total; pace 4: Validate bounds
	// calls*PaceUs by SilenceUs/4), the child counts the silence in 200 timer wake-ups of its own process, and
	// scheduled writers (which legally keep lines until triggered/overflow/Shutdown) and stutter runs are excluded.
	if s.SilenceClauseApplies() && res.AtShutdownCall != len(res.Writes) {
		rep.violate("free-running writer: %d of %d adapter calls happened only during Shutdown although nothing had been logged for %d ms before it (first such line: %q): the line stayed in the buffer until the shutdown drain",
			len(res.Writes)-res.AtShutdownCall, len(res.Writes), s.PreShutdownSleepUs/1000, res.Writes[res.AtShutdownCall].Text)
	}

	rep.LastInFinal = lastLineInFinalWrite(res)

	exps := expect(s)
	for _, e := range exps {
		rep.Must += e.must
		rep.May += e.mayN
		rep.Never += e.neverN
		rep.TracerReal += e.tracerReal
		rep.TracerNil += e.tracerNil
		rep.TracerEither += e.tracerE
		rep.NilFLines += e.nilF
		rep.NilFQuieter += e.nilFPkgQuieter
		rep.NilFLouder += e.nilFPkgLouder
		rep.RealFLines += e.realF
	}

	// expand the stream per goroutine
	recv := make([][]recvLine, s.Goroutines)
	for wi, w := range res.Writes[:res.AtShutdownReturn] {
		m := textRE.FindStringSubmatch(w.Text)
		if m == nil {
			rep.Internal = append(rep.Internal, w.Text)
			continue
		}
		g, _ := strconv.Atoi(m[1])
		if g < 0 || g >= s.Goroutines {
			rep.violate("adapter call #%d %q (%s): no goroutine %d in the scenario — line invented", wi, w.Text, sevName(w.Sev), g)
			continue
		}
		tup := Tuple{Text: w.Text, Sev: w.Sev, Pkg: pkgOfFile(w.File)}
		if len(w.Trace) == 0 && SiteOfLine != nil {
			if st := SiteOfLine[w.Line]; st == "p" || st == "f" || st == "v" {
				tup.Site = st
			}
		}
		if len(w.Trace) > 0 {
			rep.TracerWrites++
			var sub []string
			for _, raw := range w.Trace {
				tm := traceRE.FindStringSubmatch(raw)
				if tm == nil {
					sub = append(sub, "?? "+raw)
					continue
				}
				// tm[1] is the tail of the origin file of the collected line ("o/pkga/ops")
				sub = append(sub, tm[2]+" "+tm[3]+"@"+pkgOfFile(tm[1]))
			}
			tup.Sub = strings.Join(sub, "|")
			if w.Dups > 0 {
				rep.violate("adapter call #%d: tracer submission %s reported with %d duplicates (tracer submissions are never identical lines)", wi, tup, w.Dups)
			}
		}
		if w.Dups > 0 {
			rep.MergedWrites++
			rep.MergedLines += int(w.Dups)
		}
		if w.Dups > 1<<20 {
			rep.violate("adapter call #%d %s: absurd duplicate count %d", wi, tup, w.Dups)
			continue
		}
		// (message, duplicates) stands for duplicates+1 identical consecutive lines
		for k := uint64(0); k <= w.Dups; k++ {
			recv[g] = append(recv[g], recvLine{tup: tup, write: wi})
		}
	}
	ws := res.Writes[:res.AtShutdownReturn]
	for i := 0; i+1 < len(ws); i++ {
		a, b := ws[i], ws[i+1]
		if a.Text == b.Text && a.Sev == b.Sev && a.File == b.File && a.Line == b.Line && (len(a.Trace) > 0) != (len(b.Trace) > 0) {
			rep.EchoAdjacent++
		}
	}
	for g := range recv {
		rep.Expanded += len(recv[g])
		matchGoroutine(rep, g, exps[g], recv[g])
	}
	return rep
}

// matchGoroutine decides whether recv is a legal outcome of the expectation:
// all items in order, "may" items optionally absent, nothing else.
func matchGoroutine(rep *Report, g int, e *expectation, recv []recvLine) {
	items := e.items
	n := len(items)
	stamp := make([]int, n+1)
	gen := 0
	closure := func(set []int) []int {
		gen++
		var out []int
		var work []int
		for _, j := range set {
			if stamp[j] != gen {
				stamp[j] = gen
				out = append(out, j)
				work = append(work, j)
			}
		}
		for len(work) > 0 {
			j := work[len(work)-1]
			work = work[:len(work)-1]
			if j < n && items[j].may {
				k := items[j].skip
				if stamp[k] != gen {
					stamp[k] = gen
					out = append(out, k)
					work = append(work, k)
				}
			}
		}
		return out
	}
	describe := func(cur []int) string {
		c := append([]int(nil), cur...)
		sort.Ints(c)
		var p []string
		for _, j := range c {
			if len(p) == 4 {
				p = append(p, "…")
				break
			}
			if j == n {
				p = append(p, "(end of this goroutine's lines)")
			} else if items[j].may {
				p = append(p, items[j].tup.String()+" (optional)")
			} else {
				p = append(p, items[j].tup.String())
			}
		}
		return strings.Join(p, "  or  ")
	}
	seenText := map[string]int{}
	cur := closure([]int{0})
	for ri, r := range recv {
		var next []int
		for _, j := range cur {
			if j < n && items[j].tup == r.tup {
				next = append(next, items[j].next)
			}
		}
		next = closure(next)
		if len(next) == 0 {
			why := "was never logged by the scenario in this form (invented, or severity/package/collected lines altered)"
			if d, ok := e.never[r.tup.Text]; ok {
				why = "must not be emitted: " + d
			} else if c, ok := seenText[r.tup.Text]; ok {
				why = fmt.Sprintf("was already received %d time(s) before: duplicated or out of order", c)
			} else {
				for j := range items {
					if items[j].tup == r.tup {
						why = "is expected elsewhere in the sequence: lines before it are missing or it is out of order"
						break
					}
				}
			}
			rep.violate("goroutine %d: adapter call #%d delivered %s (position %d of the goroutine's expanded stream), which %s; next expected: %s",
				g, r.write, r.tup, ri, why, describe(cur))
			return
		}
		seenText[r.tup.Text]++
		cur = next
	}
	for _, j := range cur {
		if j == n {
			return
		}
	}
	// something required is missing: the furthest position is a required item
	far := 0
	for _, j := range cur {
		if j > far {
			far = j
		}
	}
	missing := 0
	for j := far; j < n; j++ {
		if !items[j].may {
			missing++
		}
	}
	rep.violate("goroutine %d: %s (logged in phase %d at a level in force %s) never reached the adapter before Shutdown returned; %d required line(s) of this goroutine missing from there on, %d received",
		g, items[far].tup, items[far].phase, items[far].win, missing, len(recv))
}
