//go:build verif

// Package c12 decides C12: an HTTP API handler runs only for requests holding
// the permission it requires; what a credential grants; the origin gate.
//
// The portbase module system (database, config, api) is started once per test
// process in TestMain. All harness handlers, endpoints and the authenticator
// are registered before the start. Requests are driven through
// api.VerifMainHandler() with httptest, no sockets are used.
//
// Process-wide mode (env VERIF_C12_MODE): "auth" (default) registers the
// harness authenticator, "noauth" leaves the API without an authenticator.
// Development mode and the API keys are changed at run time through config.
package c12

import (
	"errors"
	"fmt"
	"net"
	"net/http"
	"os"
	"strconv"
	"strings"
	"sync"
	"sync/atomic"
	"testing"
	"time"

	"github.com/safing/portbase/api"
	"github.com/safing/portbase/config"
	_ "github.com/safing/portbase/database/dbmodule"
	"github.com/safing/portbase/database/record"
	"github.com/safing/portbase/dataroot"
	"github.com/safing/portbase/log"
	"github.com/safing/portbase/modules"

	"verifharness/internal/stats"
)

// ---------------------------------------------------------------- process set-up

var (
	mainHandler http.Handler
	authMode    bool // harness authenticator registered

	cfgKeys config.StringArrayOption
	cfgDev  config.BoolOption

	panicReports = make(chan *modules.ModuleError, 1024)

	bridgeAddr string
	cookieName string
)

func TestMain(m *testing.M) {
	os.Exit(run(m))
}

func run(m *testing.M) int {
	authMode = os.Getenv("VERIF_C12_MODE") != "noauth"
	if j, ok := readJournal(os.Getenv("VERIF_REPLAY_CASE")); ok {
		authMode = j.Mode != "noauth" // replay in the process mode the journal was written in
	}

	removeStaleRoots("verif-c12-")
	root, err := os.MkdirTemp("/dev/shm", "verif-c12-")
	if err != nil {
		fmt.Fprintf(os.Stderr, "c12: no scratch dir: %s\n", err)
		return 2
	}
	defer os.RemoveAll(root)

	if err := dataroot.Initialize(root, 0o755); err != nil {
		fmt.Fprintf(os.Stderr, "c12: dataroot: %s\n", err)
		return 2
	}
	api.SetDefaultAPIListenAddress(freeLoopbackAddr())
	if lvl := os.Getenv("VERIF_C12_LOG"); lvl != "" {
		log.SetLogLevel(log.ParseLevel(lvl))
	} else {
		log.SetLogLevel(log.CriticalLevel)
	}
	modules.SetErrorReportingChannel(panicReports)
	modules.SetStdErrReporting(os.Getenv("VERIF_C12_LOG") != "")

	registerHarnessHandlers()
	registerHarnessEndpoints()
	if authMode {
		if err := api.SetAuthenticator(harnessAuthenticator); err != nil {
			fmt.Fprintf(os.Stderr, "c12: SetAuthenticator: %s\n", err)
			return 2
		}
	}

	if err := modules.Start(); err != nil {
		fmt.Fprintf(os.Stderr, "c12: modules.Start: %s\n", err)
		return 2
	}

	mainHandler = api.VerifMainHandler()
	cfgKeys = config.Concurrent.GetAsStringArray(api.CfgAPIKeys, []string{})
	cfgDev = config.Concurrent.GetAsBool(config.CfgDevModeKey, false)
	bridgeAddr = api.VerifBridgeRemoteAddress()
	cookieName = api.VerifSessionCookieName()

	code := m.Run()
	stats.Flush(code)
	// modules.Shutdown is deliberately not called (see harness README / DESIGN 2).
	return code
}

// removeStaleRoots deletes data roots of earlier test processes that were
// killed (fuzz workers are) and could not remove theirs: older than an hour.
func removeStaleRoots(prefix string) {
	entries, err := os.ReadDir("/dev/shm")
	if err != nil {
		return
	}
	for _, e := range entries {
		if !e.IsDir() || !strings.HasPrefix(e.Name(), prefix) {
			continue
		}
		if info, err := e.Info(); err == nil && time.Since(info.ModTime()) > time.Hour {
			_ = os.RemoveAll("/dev/shm/" + e.Name())
		}
	}
}

func freeLoopbackAddr() string {
	l, err := net.Listen("tcp", "127.0.0.1:0")
	if err != nil {
		return "127.0.0.1:18817"
	}
	defer l.Close()
	return l.Addr().String()
}

// ---------------------------------------------------------------- observation

// tok is a permission pair as plain ints (so that out-of-range values print).
type tok struct{ R, W int }

func (t tok) String() string { return fmt.Sprintf("{R:%d W:%d}", t.R, t.W) }

// obs collects what happened during one request, keyed by the X-Verif-Id header.
type obs struct {
	mu        sync.Mutex
	runs      int
	tokens    []*tok // token seen by each handler run (nil: no API request / no token)
	authCalls int
}

var (
	obsMap sync.Map // string -> *obs
	nextID atomic.Int64

	bridgeObs = &obs{} // collects handler runs of requests without X-Verif-Id
)

const (
	hdrID        = "X-Verif-Id"
	hdrAuth      = "X-Verif-Auth"       // steers the harness authenticator
	hdrNeedRead  = "X-Verif-Need-Read"  // required permissions of the "dyn" handler
	hdrNeedWrite = "X-Verif-Need-Write" //
)

func obsOf(r *http.Request) *obs {
	id := r.Header.Get(hdrID)
	if v, ok := obsMap.Load(id); ok {
		return v.(*obs)
	}
	// a request that did not come from the harness' request builder: the
	// database bridge builds its own requests
	return bridgeObs
}

// recordRun notes that a handler body runs, with the token found through
// api.GetAPIRequest(r).
func recordRun(r *http.Request) {
	recordRunAR(r, api.GetAPIRequest(r))
}

// recordRunAR is for endpoint functions, which are handed the *api.Request
// (its embedded http.Request is the one from before the context was attached).
func recordRunAR(r *http.Request, ar *api.Request) {
	o := obsOf(r)
	var seen *tok
	if ar != nil && ar.AuthToken != nil {
		seen = &tok{int(ar.AuthToken.Read), int(ar.AuthToken.Write)}
	}
	o.mu.Lock()
	o.runs++
	o.tokens = append(o.tokens, seen)
	o.mu.Unlock()
}

// harnessAuthenticator is the registered api.AuthenticatorFunc of the "auth"
// process mode. What it answers is chosen per request by the X-Verif-Auth header:
//
//	""          -> (nil, nil)            no opinion
//	"err"       -> internal error
//	"denied"    -> error wrapping api.ErrAPIAccessDeniedMessage
//	"tok:R:W"   -> &AuthToken{Read: R, Write: W}
func harnessAuthenticator(r *http.Request, _ *http.Server) (*api.AuthToken, error) {
	o := obsOf(r)
	o.mu.Lock()
	o.authCalls++
	o.mu.Unlock()

	spec := r.Header.Get(hdrAuth)
	switch {
	case spec == "":
		return nil, nil
	case spec == "err":
		return nil, errors.New("verif: authenticator failed internally")
	case spec == "denied":
		return nil, fmt.Errorf("%wverif: access denied", api.ErrAPIAccessDeniedMessage)
	case strings.HasPrefix(spec, "tok:"):
		p := strings.Split(spec, ":")
		if len(p) == 3 {
			rd, e1 := strconv.Atoi(p[1])
			wr, e2 := strconv.Atoi(p[2])
			if e1 == nil && e2 == nil {
				return &api.AuthToken{Read: api.Permission(rd), Write: api.Permission(wr)}, nil
			}
		}
	}
	return nil, nil
}

// ---------------------------------------------------------------- handlers

// declared permissions used for the statically registered handlers
var declPerms = []int{-100, -2, -1, 0, 1, 2, 3, 4, 100}

// valid endpoint permissions (Endpoint.check refuses anything else)
var epPerms = []int{-1, 0, 1, 2, 3, 4}

var epTypes = []string{"action", "data", "struct", "record", "handler"}

// rawHandler is a plain implementation of api.AuthenticatedHandler.
type rawHandler struct{ read, write int }

func (h *rawHandler) ReadPermission(*http.Request) api.Permission  { return api.Permission(h.read) }
func (h *rawHandler) WritePermission(*http.Request) api.Permission { return api.Permission(h.write) }
func (h *rawHandler) ServeHTTP(w http.ResponseWriter, r *http.Request) {
	recordRun(r)
	w.WriteHeader(http.StatusOK)
	_, _ = w.Write([]byte("ran"))
}

// dynHandler takes its required permissions from the request (any int8).
type dynHandler struct{}

func needFromHeader(r *http.Request, name string) api.Permission {
	v, err := strconv.Atoi(r.Header.Get(name))
	if err != nil {
		return api.PermitSelf
	}
	return api.Permission(v)
}
func (h *dynHandler) ReadPermission(r *http.Request) api.Permission {
	return needFromHeader(r, hdrNeedRead)
}
func (h *dynHandler) WritePermission(r *http.Request) api.Permission {
	return needFromHeader(r, hdrNeedWrite)
}
func (h *dynHandler) ServeHTTP(w http.ResponseWriter, r *http.Request) {
	recordRun(r)
	w.WriteHeader(http.StatusOK)
	_, _ = w.Write([]byte("ran"))
}

func rawPath(kind string, rd, wr int) string {
	return fmt.Sprintf("/verif/%s/%d/%d", kind, rd, wr)
}

func epPath(typ string, rd, wr int) string {
	return fmt.Sprintf("/api/v1/verif/ep/%s/%d_%d", typ, rd, wr)
}

func registerHarnessHandlers() {
	for _, rd := range declPerms {
		for _, wr := range declPerms {
			api.RegisterHandler(rawPath("raw", rd, wr), &rawHandler{rd, wr})
			api.RegisterHandler(rawPath("wrap", rd, wr), api.WrapInAuthHandler(func(w http.ResponseWriter, r *http.Request) {
				recordRun(r)
				w.WriteHeader(http.StatusOK)
				_, _ = w.Write([]byte("ran"))
			}, api.Permission(rd), api.Permission(wr)))
		}
	}
	api.RegisterHandler("/verif/dyn", &dynHandler{})
	// a handler that does not declare permissions at all
	api.RegisterHandleFunc("/verif/plain", func(w http.ResponseWriter, r *http.Request) {
		recordRun(r)
		w.WriteHeader(http.StatusOK)
		_, _ = w.Write([]byte("ran"))
	})
}

type epRecord struct {
	record.Base
	sync.Mutex
	Msg string
}

func registerHarnessEndpoints() {
	for _, typ := range epTypes {
		for _, rd := range epPerms {
			for _, wr := range epPerms {
				e := api.Endpoint{
					Path:  strings.TrimPrefix(epPath(typ, rd, wr), "/api/v1/"),
					Read:  api.Permission(rd),
					Write: api.Permission(wr),
				}
				// vary the write method, a mismatch "will only warn" (Endpoint doc)
				switch (rd + wr + 2) % 3 {
				case 1:
					e.WriteMethod = http.MethodPut
				case 2:
					e.WriteMethod = http.MethodDelete
				}
				if wr == 0 {
					e.WriteMethod = ""
				}
				switch typ {
				case "action":
					e.ActionFunc = func(ar *api.Request) (string, error) {
						recordRunAR(ar.Request, ar)
						return "ran", nil
					}
				case "data":
					e.DataFunc = func(ar *api.Request) ([]byte, error) {
						recordRunAR(ar.Request, ar)
						return []byte("ran"), nil
					}
				case "struct":
					e.StructFunc = func(ar *api.Request) (interface{}, error) {
						recordRunAR(ar.Request, ar)
						return map[string]string{"msg": "ran"}, nil
					}
				case "record":
					e.RecordFunc = func(ar *api.Request) (record.Record, error) {
						recordRunAR(ar.Request, ar)
						r := &epRecord{Msg: "ran"}
						r.SetKey("verif:c12/record")
						r.UpdateMeta()
						return r, nil
					}
				case "handler":
					e.HandlerFunc = func(w http.ResponseWriter, r *http.Request) {
						recordRun(r)
						w.WriteHeader(http.StatusOK)
						_, _ = w.Write([]byte("ran"))
					}
				}
				if err := api.RegisterEndpoint(e); err != nil {
					panic(fmt.Sprintf("c12: RegisterEndpoint(%s): %s", e.Path, err))
				}
			}
		}
	}
}
