//go:build verif

package c12

import (
	"net/http"
	"strings"
	"testing"
	"time"

	"github.com/safing/portbase/api"
	"github.com/safing/portbase/config"
)

// The API removes expired keys from the configuration on its own: every import that meets an expired key starts a
// micro task that writes the list the import has read, minus the expired entries, back into the option - whenever it
// gets to run, and whatever the option holds by then. A change of the key list that the operator makes between the
// import and that write is overwritten: a key the operator has just revoked is configured again and accepted.
//
// The history: configure an admin key K and a key E that expires in 60 ms; wait until E has expired; change any
// option (here: import the keys, exactly what the config change hook does); revoke every key. Once everything has come
// to rest the configuration must not hold K, and a request that presents K must not reach an admin handler.
func revokedKeyComesBack(t *testing.T, attempt int) bool {
	const k = "k-revoked-3f9a6c0d2b"
	w := newWorld()
	quiesceKeyMachinery()
	exp := time.Now().Add(60 * time.Millisecond).UTC().Format("2006-01-02T15:04:05.000Z07:00")
	if err := config.SetConfigOption(api.CfgAPIKeys, []string{k + "?read=admin&write=admin", "k-expiring-77aa01?read=user&write=user&expires=" + exp}); err != nil {
		t.Fatalf("harness: %v", err)
	}
	cleanupMayBePending = true
	quiesceKeyMachinery()
	time.Sleep(75 * time.Millisecond)
	w.importKeys() // meets the expired key
	if err := config.SetConfigOption(api.CfgAPIKeys, []string{}); err != nil {
		t.Fatalf("harness: %v", err)
	}
	quiesceKeyMachinery()
	w.importKeys()
	quiesceKeyMachinery()
	back := strings.Contains(trueKeys(), k)
	q := reqSpec{H: handlerSpec{"raw", pAdmin, pAdmin}, Method: http.MethodGet, Host: "portmaster.test", Authz: "Bearer " + k}
	res := execute(q)
	if back || res.runs > 0 {
		t.Logf("attempt %d: the operator's last change configured no key at all; at rest the option holds %q and a request presenting the revoked key got status %d, admin handler runs %d",
			attempt, trueKeys(), res.status, res.runs)
		return true
	}
	return false
}

// TestWitnessRevokedKeyComesBack is the witness of the open finding C12-cleanup-lost-update.
func TestWitnessRevokedKeyComesBack(t *testing.T) {
	if replayed(t) {
		return
	}
	defer func() {
		_ = config.SetConfigOption(api.CfgAPIKeys, []string{})
		quiesceKeyMachinery()
	}()
	w := newWorld()
	w.setDev(t, false)
	for i := 0; i < 40; i++ {
		if revokedKeyComesBack(t, i) {
			t.Fatalf("C12: a key revoked by the operator is configured again by the API's removal of expired keys and grants admin access")
		}
	}
}
