//go:build verif

package c12

import (
	"encoding/base64"
	"fmt"
	"net/http"
	"sort"
	"strings"
	"sync"
	"testing"
	"time"

	"pgregory.net/rapid"

	"verifharness/internal/stats"
)

// ---------------------------------------------------------------- generators

var keyPool = []string{
	"k1-3f9a6c0d2b", "k2-77aa10c2ee", "k3-5be1d9", "k4.with~unreserved_chars-", "ab", "x", "abc", "abcd",
	"a-very-long-api-key-0123456789-0123456789-0123456789-0123456789-0123456789",
	// keys with white space are keys like any other: nothing is trimmed on either side (a blank key must not become
	// the empty key, which is what every malformed credential is reduced to)
	" ", "%20", " k1-3f9a6c0d2b", "k2-77aa10c2ee%20",
	// an entry that is not a URL (invalid escape): it is skipped, the entries around it are imported as always
	"%zz-broken",
}

type keyEntry struct {
	Key    string
	Read   int    // 0: parameter omitted
	Write  int    // 0: parameter omitted
	Exp    string // "" | future | past | garbage
	BadPrm bool   // read=root
}

func (e keyEntry) render() string {
	var p []string
	if e.Read != 0 {
		p = append(p, "read="+permWord[e.Read])
	}
	if e.BadPrm {
		p = append(p, "read=root")
	}
	if e.Write != 0 {
		p = append(p, "write="+permWord[e.Write])
	}
	switch e.Exp {
	case "future":
		p = append(p, "expires=2099-12-31T23:59:59Z")
	case "past":
		p = append(p, "expires=1999-01-01T00:00:00Z")
	case "garbage":
		p = append(p, "expires=next-week")
	}
	s := e.Key
	if len(p) > 0 {
		s += "?" + strings.Join(p, "&")
	}
	return s
}

func genKeyEntry() *rapid.Generator[keyEntry] {
	return rapid.Custom(func(t *rapid.T) keyEntry {
		e := keyEntry{
			Key:   rapid.SampledFrom(keyPool).Draw(t, "key"),
			Read:  rapid.IntRange(0, 3).Draw(t, "read"),
			Write: rapid.IntRange(0, 3).Draw(t, "write"),
		}
		switch rapid.IntRange(0, 9).Draw(t, "kind") {
		case 0:
			e.Exp = "past"
		case 1:
			e.Exp = "future"
		case 2:
			e.Exp = "garbage"
		case 3:
			e.BadPrm = true
			e.Read = 0
		case 4:
			e.Key = "" // entry without a key
		}
		return e
	})
}

func renderKeys(l []keyEntry) (entries []string, hasPast bool) {
	for _, e := range l {
		entries = append(entries, e.render())
		if e.Exp == "past" {
			hasPast = true
		}
	}
	return
}

var extraMethods = []methodVariant{
	{"TRACE", ""}, {"CONNECT", ""}, {"get", ""}, {"PROPFIND", ""},
	{http.MethodOptions, http.MethodHead}, {http.MethodOptions, http.MethodPut}, {http.MethodOptions, http.MethodDelete},
	{http.MethodOptions, "get"}, {http.MethodOptions, http.MethodOptions},
	{http.MethodGet, http.MethodPost}, // the preflight header on a non-OPTIONS request means nothing
}

func genMethod() *rapid.Generator[methodVariant] {
	all := append(append([]methodVariant{}, methodVariants...), extraMethods...)
	return rapid.Custom(func(t *rapid.T) methodVariant {
		if rapid.IntRange(0, 9).Draw(t, "mkind") < 7 {
			return methodVariants[rapid.IntRange(0, 4).Draw(t, "m")] // GET HEAD POST PUT DELETE
		}
		return rapid.SampledFrom(all).Draw(t, "mv")
	})
}

func genHandler() *rapid.Generator[handlerSpec] {
	return rapid.Custom(func(t *rapid.T) handlerSpec {
		switch rapid.IntRange(0, 9).Draw(t, "hkind") {
		case 0, 1:
			return handlerSpec{"raw", rapid.SampledFrom(declPerms).Draw(t, "r"), rapid.SampledFrom(declPerms).Draw(t, "w")}
		case 2:
			return handlerSpec{"wrap", rapid.SampledFrom(declPerms).Draw(t, "r"), rapid.SampledFrom(declPerms).Draw(t, "w")}
		case 3, 4:
			// any int8 as declared permission, biased to the neighbourhood of the valid range
			g := rapid.OneOf(rapid.IntRange(-3, 5), rapid.IntRange(-128, 127))
			return handlerSpec{"dyn", g.Draw(t, "r"), g.Draw(t, "w")}
		case 5:
			return handlerSpec{Kind: "plain"}
		case 6:
			return handlerSpec{Kind: "ep-unknown"}
		case 7:
			return handlerSpec{Kind: "meta-permissions"}
		default:
			return handlerSpec{"ep:" + rapid.SampledFrom(epTypes).Draw(t, "eptype"), rapid.SampledFrom(epPerms).Draw(t, "r"), rapid.SampledFrom(epPerms).Draw(t, "w")}
		}
	})
}

var propHosts = []string{"portmaster.test", "127.0.0.1:817", "localhost:817", "[::1]:817", "LOCALHOST", "portmaster.test:443", "xn--bcher-kva.example"}

// genOrigin builds Origin headers around a Host.
func genOrigin(host string) *rapid.Generator[string] {
	bare := hostOnly(host)
	return rapid.Custom(func(t *rapid.T) string {
		switch rapid.IntRange(-8, 13).Draw(t, "okind") {
		case -8, -7, -6, -5, -4, -3, 0, 1, 2:
			return ""
		case -2, -1:
			return "http://" + host
		case 3:
			return rapid.SampledFrom([]string{"http://", "https://", "//", "HTTP://", "ws://"}).Draw(t, "scheme") + host
		case 4:
			return "http://" + bare + rapid.SampledFrom([]string{"", ":80", ":817", ":0", ":99999", ":"}).Draw(t, "port")
		case 5:
			return "https://" + rapid.SampledFrom([]string{"evil.example", "evil.example:817", host + ".evil.example", "evil-" + bare, bare + "@evil.example", "evil.example#@" + host, "evil.example/" + host, "evil.example?" + host}).Draw(t, "foreign")
		case 6:
			return rapid.SampledFrom([]string{"chrome-extension://abcdefghijklmnop", "chrome-extension://", "CHROME-EXTENSION://x", "moz-extension://3f1e", "chrome-extension-evil://x", "xchrome-extension://x"}).Draw(t, "ext")
		case 7:
			return rapid.SampledFrom([]string{"http://localhost", "http://localhost:4200", "https://127.0.0.1:4200", "http://127.0.0.1", "http://LocalHost:1", "http://127.0.0.2", "http://localhost.evil.example", "http://[::1]:4200", "http://0x7f.1"}).Draw(t, "local")
		case 8:
			return rapid.SampledFrom([]string{"http://[::1", ":", "%zz", "http://a b", "http://%41.example", "http://exa mple", "http://[fe80::1%25en0]", "\x80\xff", "http://" + bare + "%00"}).Draw(t, "odd")
		case 9:
			return rapid.SampledFrom([]string{"null", "about:blank", "file://", "data:text/html,x", "http://", "https:"}).Draw(t, "special")
		case 10:
			return "http://" + strings.ToUpper(host)
		case 11:
			return "http://" + host + rapid.SampledFrom([]string{"/", "/path?x=1", ".", "..", "#frag"}).Draw(t, "suffix")
		default:
			return sanitizeHeader(rapid.StringN(0, 30, 60).Draw(t, "random"))
		}
	})
}

// sanitizeHeader turns an arbitrary string into a value that can arrive in an
// HTTP/1.1 header: no control bytes except TAB, no DEL, outer white space trimmed.
func sanitizeHeader(s string) string {
	var b strings.Builder
	for i := 0; i < len(s); i++ {
		c := s[i]
		if (c < 0x20 && c != '\t') || c == 0x7f {
			continue
		}
		b.WriteByte(c)
	}
	return strings.Trim(b.String(), " \t")
}

func validHeaderValue(s string) bool { return s == sanitizeHeader(s) }

// genAuthz: Authorization headers around the key pool; half of the time the key
// is one that is configured right now.
func genAuthz(w *world) *rapid.Generator[string] {
	return rapid.Custom(func(t *rapid.T) string {
		key := rapid.SampledFrom(append([]string{"not-configured-at-all", "zz", ""}, keyPool...)).Draw(t, "akey")
		if len(w.keys) > 0 && rapid.Bool().Draw(t, "configured") {
			var ks []string
			for k := range w.keys {
				ks = append(ks, k)
			}
			sort.Strings(ks)
			key = rapid.SampledFrom(ks).Draw(t, "ckey")
			if rapid.IntRange(0, 3).Draw(t, "exact") > 0 {
				if rapid.Bool().Draw(t, "bearer") && validHeaderValue("Bearer "+key) {
					return "Bearer " + key
				}
				cut := rapid.IntRange(0, len(key)).Draw(t, "cut")
				return basic(key[:cut], key[cut:])
			}
		}
		switch rapid.IntRange(0, 11).Draw(t, "akind") {
		case 0, 1:
			return ""
		case 2, 3:
			return sanitizeHeader("Bearer " + key)
		case 4, 5:
			cut := rapid.IntRange(0, len(key)).Draw(t, "cut")
			return basic(key[:cut], key[cut:])
		case 6:
			return sanitizeHeader(rapid.SampledFrom([]string{"bearer ", "BEARER ", "Bearer  ", "Bearer\t", "Token ", "Basic ", "basic ", "", "Bearer: ", "Negotiate "}).Draw(t, "scheme") + key)
		case 7:
			// Basic with a damaged payload
			raw := base64.StdEncoding.EncodeToString([]byte(key))
			return "Basic " + rapid.SampledFrom([]string{raw, strings.TrimRight(raw, "="), raw + "=", "*" + raw, base64.URLEncoding.EncodeToString([]byte(":" + key)), base64.StdEncoding.EncodeToString([]byte(key + ":")), base64.StdEncoding.EncodeToString([]byte(":"))}).Draw(t, "b64")
		case 8:
			return sanitizeHeader("Bearer " + key + rapid.SampledFrom([]string{" ", ",", ", Bearer x", "\x00", "?read=admin", "%20"}).Draw(t, "tail") + "x")
		case 9:
			return sanitizeHeader(rapid.StringN(0, 20, 40).Draw(t, "random"))
		default:
			return sanitizeHeader("Bearer " + rapid.StringN(0, 6, 12).Draw(t, "rkey"))
		}
	})
}

// genCookie: Cookie headers around known session values.
func genCookie(sessions []string) *rapid.Generator[string] {
	return rapid.Custom(func(t *rapid.T) string {
		val := "bm90LWEtc2Vzc2lvbg"
		if len(sessions) > 0 && rapid.IntRange(0, 3).Draw(t, "known") > 0 {
			val = rapid.SampledFrom(sessions).Draw(t, "session")
		}
		switch rapid.IntRange(0, 9).Draw(t, "ckind") {
		case 0, 1:
			return ""
		case 2, 3:
			return cookieHdr(val)
		case 4:
			return "a=b; " + cookieHdr(val) + "; c=d"
		case 5:
			return cookieName + `="` + val + `"`
		case 6:
			return sanitizeHeader(rapid.SampledFrom([]string{
				strings.ToLower(cookieName) + "=" + val,
				cookieName + "=; " + cookieHdr(val),
				cookieHdr("first-wins") + "; " + cookieHdr(val),
				cookieName + " = " + val,
				cookieName + "=" + val + "x",
				cookieName + "=" + val[:len(val)/2],
				" " + cookieHdr(val) + " ;",
				cookieName + "=" + val + ",",
				cookieName,
				"=" + val,
			}).Draw(t, "variant"))
		case 7:
			return sanitizeHeader(cookieName + "=" + rapid.StringN(0, 10, 20).Draw(t, "rval"))
		default:
			return sanitizeHeader(rapid.StringN(0, 30, 60).Draw(t, "random"))
		}
	})
}

func genAuthSpec() *rapid.Generator[string] {
	return rapid.Custom(func(t *rapid.T) string {
		k := rapid.IntRange(0, 7).Draw(t, "auth")
		if !authMode {
			return ""
		}
		switch k {
		case 0, 1, 2:
			return ""
		case 3:
			return "err"
		case 4:
			return "denied"
		default:
			g := rapid.OneOf(rapid.IntRange(1, 4), rapid.IntRange(-3, 6), rapid.IntRange(-128, 127))
			return fmt.Sprintf("tok:%d:%d", g.Draw(t, "ar"), g.Draw(t, "aw"))
		}
	})
}

// ---------------------------------------------------------------- case bookkeeping

type caseStats struct {
	fp      strings.Builder
	classes map[string]bool
	nontriv bool
}

func newCaseStats() *caseStats { return &caseStats{classes: map[string]bool{}} }

func (c *caseStats) request(w *world, q reqSpec, o outcome) {
	fmt.Fprintf(&c.fp, "|%v %s", w.dev, q.String())
	switch o.run {
	case mustRun:
		stats.Class("request:handler_must_run")
	case mayRun:
		stats.Class("request:handler_may_run(options)")
	default:
		stats.Class("request:handler_must_not_run")
	}
	stats.Class("request:origin_" + originClassName(classifyOrigin(q.Origin, q.Host, w.dev)))
	src := o.g.src
	if src == "" {
		src = "not_evaluated"
	}
	stats.Class("request:grant_via_" + src)
	if o.g.src != "" && o.g.src != "none" || q.Origin != "" {
		c.nontriv = true
	}
	if q.Authz != "" {
		if _, ok := presentedKey(q.Authz); ok {
			stats.Class("request:authorization_wellformed")
		} else {
			stats.Class("request:authorization_other")
		}
	}
	if q.Cookie != "" {
		if _, ok := presentedSession(q.Cookie); ok {
			stats.Class("request:cookie_with_session_name")
		} else {
			stats.Class("request:cookie_other")
		}
	}
}

func (c *caseStats) done(kind string) {
	var cl []string
	for k := range c.classes {
		cl = append(cl, k)
	}
	stats.Case(kind+c.fp.String(), c.nontriv, cl...)
}

func applyWorld(t fataler, w *world, keys []keyEntry, dev bool) {
	entries, hasPast := renderKeys(keys)
	if entries == nil {
		entries = []string{}
	}
	w.setKeys(t, entries, hasPast)
	w.setDev(t, dev)
}

// ---------------------------------------------------------------- properties

// TestPropTableSample samples the decision table with random key configurations,
// arbitrary int8 declarations (dyn handler) and more method variants than the
// enumerated table has.
func TestPropTableSample(t *testing.T) {
	if replayed(t) {
		return
	}
	rapid.Check(t, func(t *rapid.T) {
		w := newWorld()
		keys := rapid.SliceOfN(genKeyEntry(), 0, 6).Draw(t, "keys")
		dev := rapid.IntRange(0, 4).Draw(t, "dev") == 0
		applyWorld(t, w, keys, false)
		cs := newCaseStats()

		// a session to present (created with dev mode off)
		var sessions []string
		if authMode && rapid.Bool().Draw(t, "withSession") {
			tk := tok{rapid.IntRange(1, 4).Draw(t, "sr"), rapid.IntRange(1, 4).Draw(t, "sw")}
			sessions = append(sessions, w.newSession(t, tk))
		}
		w.setDev(t, dev)
		defer w.setDev(t, false)

		n := rapid.IntRange(1, 8).Draw(t, "n")
		for i := 0; i < n; i++ {
			host := rapid.SampledFrom(propHosts).Draw(t, "host")
			mv := genMethod().Draw(t, "method")
			q := reqSpec{
				H: genHandler().Draw(t, "handler"), Method: mv.method, ACRM: mv.acrm, Host: host,
				Origin:   genOrigin(host).Draw(t, "origin"),
				Authz:    genAuthz(w).Draw(t, "authz"),
				Cookie:   genCookie(sessions).Draw(t, "cookie"),
				AuthSpec: genAuthSpec().Draw(t, "authspec"),
			}
			if rapid.IntRange(0, 19).Draw(t, "bridge") == 0 {
				q.RemoteAddr = bridgeAddr
			}
			if q.H.Kind == "meta-permissions" && q.Method == http.MethodHead {
				q.Method = http.MethodGet
			}
			if rapid.IntRange(0, 5).Draw(t, "unclean") == 0 {
				// a request path that is not clean; without session cookie and authenticator, whose use the session
				// model would have to guess
				q.Unclean = rapid.SampledFrom([]string{"dot", "dotdot", "dupslash"}).Draw(t, "uncleankind")
				q.Cookie, q.AuthSpec = "", ""
				stats.Class("request_path_not_clean")
			}
			res, o, ok := w.stepStable(t, q)
			if !ok {
				stats.Warn("key configuration never settled, request skipped")
				continue
			}
			if res.newCookie != "" {
				sessions = append(sessions, res.newCookie)
			}
			cs.request(w, q, o)
			if stats.WantSample("table_sample") && q.Origin != "" && q.Authz != "" {
				stats.Sample("table_sample", map[string]any{"request": q.String(), "dev": w.dev, "keys": w.keys, "decision": describe([]outcome{o})})
			}
		}
		cs.done("table")
	})
}

// TestPropHistories: sequences of key changes, session creation / use / ageing /
// reset / cleaning and dev mode switches, with requests in between.
func TestPropHistories(t *testing.T) {
	if replayed(t) {
		return
	}
	rapid.Check(t, func(t *rapid.T) {
		w := newWorld()
		applyWorld(t, w, rapid.SliceOfN(genKeyEntry(), 0, 4).Draw(t, "keys0"), false)
		defer w.setDev(t, false)
		cs := newCaseStats()
		var sessions []string
		usedAfterAge, usedAfterReset, keyChanges := false, false, 0

		steps := rapid.IntRange(3, 25).Draw(t, "steps")
		for i := 0; i < steps; i++ {
			switch rapid.IntRange(0, 11).Draw(t, "step") {
			case 0:
				keys := rapid.SliceOfN(genKeyEntry(), 0, 6).Draw(t, "keys")
				entries, hasPast := renderKeys(keys)
				if entries == nil {
					entries = []string{}
				}
				w.setKeys(t, entries, hasPast)
				keyChanges++
				fmt.Fprintf(&cs.fp, "|keys%v", entries)
			case 1:
				if rapid.IntRange(0, 2).Draw(t, "devon") == 0 {
					w.setDev(t, !w.dev)
					fmt.Fprintf(&cs.fp, "|dev%v", w.dev)
				}
			case 2:
				d := rapid.SampledFrom([]time.Duration{10 * time.Second, time.Minute, 2 * time.Minute, 4 * time.Minute, 6 * time.Minute, 10 * time.Minute}).Draw(t, "age")
				w.age(d)
				usedAfterAge = len(sessions) > 0
				fmt.Fprintf(&cs.fp, "|age%s", d)
			case 3:
				if len(sessions) > 0 {
					s := rapid.SampledFrom(sessions).Draw(t, "reset")
					w.resetSession(t, s)
					usedAfterReset = true
					fmt.Fprintf(&cs.fp, "|reset")
				}
			case 4:
				w.cleanSessions()
				fmt.Fprintf(&cs.fp, "|clean")
			default:
				host := "portmaster.test"
				mv := genMethod().Draw(t, "method")
				q := reqSpec{H: genHandler().Draw(t, "handler"), Method: mv.method, ACRM: mv.acrm, Host: host}
				switch rapid.IntRange(0, 5).Draw(t, "cred") {
				case 0:
					q.AuthSpec = genAuthSpec().Draw(t, "authspec")
				case 1, 2:
					if len(sessions) > 0 {
						q.Cookie = cookieHdr(rapid.SampledFrom(sessions).Draw(t, "sess"))
						// sometimes let the authenticator step in when the session is gone
						if rapid.IntRange(0, 3).Draw(t, "fallback") == 0 {
							q.AuthSpec = genAuthSpec().Draw(t, "authspec")
						}
					} else {
						q.AuthSpec = genAuthSpec().Draw(t, "authspec")
					}
				case 3, 4:
					q.Authz = genAuthz(w).Draw(t, "authz")
				default:
					q.Origin = genOrigin(host).Draw(t, "origin")
					q.AuthSpec = genAuthSpec().Draw(t, "authspec")
				}
				if q.H.Kind == "meta-permissions" && q.Method == http.MethodHead {
					q.Method = http.MethodGet
				}
				res, o, ok := w.stepStable(t, q)
				if !ok {
					stats.Warn("key configuration never settled, request skipped")
					continue
				}
				if res.newCookie != "" {
					sessions = append(sessions, res.newCookie)
					stats.Class("history:session_created")
				}
				if o.g.src == "session" {
					stats.Class("history:request_granted_by_session")
					if usedAfterAge {
						stats.Class("history:session_used_after_ageing")
					}
				}
				if q.Cookie != "" && o.g.src != "session" && !w.dev {
					if usedAfterReset || usedAfterAge {
						stats.Class("history:dead_session_presented")
					}
				}
				if o.g.src == "key" && keyChanges > 0 {
					stats.Class("history:key_used_after_reconfiguration")
				}
				cs.request(w, q, o)
			}
		}
		if keyChanges > 0 {
			stats.Class("history:with_key_reconfiguration")
		}
		cs.nontriv = true
		cs.done("history")
	})
}

// TestPropExpiryHistories: keys that expire *while they are loaded*. portbase
// drops expired keys only when it imports the configuration; in between,
// checkAPIKey has to refuse them at request time. A case configures 1-3
// permanent keys and 1-2 keys that live for a few hundred milliseconds, sends
// requests before the expiry, waits (no import happens), and then sends 3-9
// requests in which the expired keys, valid keys, unknown / short / malformed
// credentials and no credentials alternate, optionally followed by a
// re-configuration. Every request must be decided as the reference says and
// must return; so must every key import.
func TestPropExpiryHistories(t *testing.T) {
	if replayed(t) {
		return
	}
	rapid.Check(t, func(t *rapid.T) {
		w := newWorld()
		w.setDev(t, false)
		defer w.setKeys(t, []string{}, false) // leave no expired key behind for the next case

		perm := rapid.SliceOfNDistinct(rapid.SampledFrom(keyPool[:4]), 1, 3, rapid.ID[string]).Draw(t, "permanent")
		var entries []string
		for _, k := range perm {
			entries = append(entries, keyEntry{Key: k, Read: rapid.IntRange(1, 3).Draw(t, "pr"), Write: rapid.IntRange(1, 3).Draw(t, "pw")}.render())
		}
		life := rapid.SampledFrom([]int{350, 500}).Draw(t, "life_ms")
		expKeys := rapid.SliceOfNDistinct(rapid.SampledFrom([]string{"kx-expiring-1a2b", "ky-expiring-3c4d", "abcd"}), 1, 2, rapid.ID[string]).Draw(t, "expiring")
		var expiring []expiringEntry
		for _, k := range expKeys {
			expiring = append(expiring, expiringEntry{Entry: keyEntry{Key: k, Read: rapid.IntRange(2, 3).Draw(t, "er"), Write: rapid.IntRange(1, 3).Draw(t, "ew")}.render(), AfterMs: life})
		}
		cs := newCaseStats()
		fmt.Fprintf(&cs.fp, "|perm%v|exp%v", entries, expiring)
		if !w.setKeysExpiring(t, entries, expiring) {
			stats.Class("expiry:case_skipped_import_slower_than_key_life")
			return
		}

		credential := func(label string) string {
			pool := append(append([]string{}, perm...), expKeys...)
			switch rapid.IntRange(0, 9).Draw(t, label) {
			case 0, 1, 2, 3:
				k := rapid.SampledFrom(expKeys).Draw(t, label+"_exp")
				if rapid.Bool().Draw(t, label+"_basic") {
					return basicKey(k)
				}
				return "Bearer " + k
			case 4, 5:
				return "Bearer " + rapid.SampledFrom(perm).Draw(t, label+"_perm")
			case 6:
				return basicKey(rapid.SampledFrom(pool).Draw(t, label+"_any"))
			case 7:
				return rapid.SampledFrom([]string{"Bearer not-configured", "Bearer xy", "Basic !!!", "Token abc", "Bearer"}).Draw(t, label+"_bad")
			default:
				return ""
			}
		}
		request := func(i int, authz string, stable bool) {
			mv := methodVariants[rapid.IntRange(0, 4).Draw(t, "m")]
			h := rapid.SampledFrom([]handlerSpec{{"raw", pDynamic, pDynamic}, {"raw", pUser, pAdmin}, {"wrap", pAdmin, pUser}, {"ep:action", pUser, pUser}, {"ep:data", pDynamic, pAdmin}, {Kind: "meta-permissions"}, {"raw", pAnyone, pSelf}}).Draw(t, "h")
			if h.Kind == "meta-permissions" {
				mv.method = http.MethodGet
			}
			q := reqSpec{H: h, Method: mv.method, Host: "portmaster.test", Authz: authz}
			var o outcome
			if stable {
				var ok bool
				if _, o, ok = w.stepStable(t, q); !ok {
					return
				}
			} else {
				_, o = w.step(t, q) // no import: the configuration does not change, the expired keys stay loaded
			}
			cs.request(w, q, o)
		}

		// before the expiry
		for i, n := 0, rapid.IntRange(0, 3).Draw(t, "before"); i < n; i++ {
			request(i, credential("cb"), false)
		}
		w.waitExpiry()
		// after the expiry: the first request usually presents an expired key
		n := rapid.IntRange(3, 9).Draw(t, "after")
		reconfigured := false
		for i := 0; i < n; i++ {
			if i > 1 && !reconfigured && rapid.IntRange(0, 7).Draw(t, "reconf") == 0 {
				// re-configuration drops the expired keys from the table (permanent keys only, nothing to clean up)
				keep := entries[:rapid.IntRange(0, len(entries)).Draw(t, "keep")]
				w.setKeys(t, append([]string{}, keep...), false)
				reconfigured = true
				fmt.Fprintf(&cs.fp, "|reconf%v", keep)
				stats.Class("expiry:reconfiguration_after_expiry")
				continue
			}
			authz := credential("ca")
			if i == 0 && rapid.IntRange(0, 3).Draw(t, "first") > 0 {
				authz = "Bearer " + expKeys[0]
			}
			request(i, authz, reconfigured)
		}
		cs.nontriv = true
		cs.done("expiry")
	})
}

// ---------------------------------------------------------------- fuzz target

var (
	fuzzOnce  sync.Once
	fuzzWorld *world
	fuzzSess  []string
	fuzzMu    sync.Mutex
	fuzzMade  time.Time
)

type onceT struct{}

func (onceT) Fatalf(f string, a ...any) { panic(fmt.Sprintf(f, a...)) }

func fuzzSetup() {
	fuzzWorld = newWorld()
	fuzzWorld.setKeys(onceT{}, fixtureKeyEntries(), true)
	fuzzWorld.setDev(onceT{}, false)
}

var fuzzHandlers = []handlerSpec{
	{"raw", pDynamic, pDynamic}, {"raw", pUser, pAdmin}, {"raw", pAdmin, pUser}, {"raw", pAnyone, pSelf},
	{"wrap", pUser, pUser}, {"ep:action", pDynamic, pUser}, {"ep:handler", pAdmin, pAdmin}, {Kind: "meta-permissions"}, {Kind: "plain"},
}

// FuzzHeaders: arbitrary Authorization / Cookie / Origin header strings against
// the fixture key set and two live sessions.
func FuzzHeaders(f *testing.F) {
	seedAuthz := []string{"", "Bearer " + keyName(pAdmin, pAdmin), basicKey(keyName(pUser, pAnyone)), "Bearer xyz", "Bearer x", "Basic !!!", "Basic Og==", "Bearer " + keyExpired, "Token abc", "Bearer ab", "Basic YTpi"}
	seedCookie := []string{"", "Portmaster-API-Token=SESSION0", "a=b; Portmaster-API-Token=SESSION1", `Portmaster-API-Token="SESSION0"`, "Portmaster-API-Token=unknown"}
	seedOrigin := []string{"", "http://portmaster.test", "https://evil.example", "chrome-extension://abc", "http://localhost:4200", "http://[::1", "null", "http://PORTMASTER.test", "http://portmaster.test:8080"}
	for i, a := range seedAuthz {
		f.Add(a, seedCookie[i%len(seedCookie)], seedOrigin[i%len(seedOrigin)], uint16(i*37))
	}
	for i, o := range seedOrigin {
		f.Add(seedAuthz[i%len(seedAuthz)], seedCookie[(i+1)%len(seedCookie)], o, uint16(i*101+7))
	}
	f.Fuzz(func(t *testing.T, authz, cookie, origin string, sel uint16) {
		if !validHeaderValue(authz) || !validHeaderValue(cookie) || !validHeaderValue(origin) {
			return // cannot arrive over HTTP
		}
		fuzzMu.Lock()
		defer fuzzMu.Unlock()
		fuzzOnce.Do(fuzzSetup)
		w := fuzzWorld
		if authMode && (fuzzSess == nil || time.Since(fuzzMade) > time.Minute) {
			fuzzMade = time.Now()
			w.sessions = map[string]*modelSession{} // older sessions are never presented again
			fuzzSess = []string{w.newSession(t, tok{pAdmin, pAdmin}), w.newSession(t, tok{pUser, pAnyone})}
		}
		// let the corpus refer to the live sessions
		for i, s := range fuzzSess {
			cookie = strings.ReplaceAll(cookie, fmt.Sprintf("SESSION%d", i), s)
		}
		mv := methodVariants[int(sel)%len(methodVariants)]
		h := fuzzHandlers[int(sel/16)%len(fuzzHandlers)]
		if h.Kind == "meta-permissions" && mv.method == http.MethodHead {
			mv.method = http.MethodGet
		}
		q := reqSpec{H: h, Method: mv.method, ACRM: mv.acrm, Host: "portmaster.test", Origin: origin, Authz: authz, Cookie: cookie}
		if sel&0x8000 != 0 && authMode {
			q.AuthSpec = []string{"tok:2:2", "denied", "err", "tok:4:1"}[int(sel>>13)&3]
		}
		w.step(t, q)
	})
}
