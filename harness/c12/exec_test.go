//go:build verif

package c12

import (
	"encoding/json"
	"fmt"
	"net/http"
	"net/http/httptest"
	"runtime"
	"strconv"
	"strings"
	"sync/atomic"
	"time"

	"github.com/safing/portbase/api"
	"github.com/safing/portbase/config"

	"verifharness/internal/stats"
)

type fataler interface {
	Fatalf(format string, args ...any)
}

// ---------------------------------------------------------------- executing a request

type result struct {
	returned  bool
	status    int
	header    http.Header
	body      string
	runs      int
	tokens    []*tok
	authCalls int
	panics    []string
	newCookie string // value of a session cookie set by the response
}

func drainPanics() (out []string) {
	for {
		select {
		case me := <-panicReports:
			out = append(out, me.Message)
		default:
			return out
		}
	}
}

func execute(q reqSpec) result {
	id := strconv.FormatInt(nextID.Add(1), 10)
	o := &obs{}
	obsMap.Store(id, o)
	defer obsMap.Delete(id)

	var body *strings.Reader
	if q.Method == http.MethodPost || q.Method == http.MethodPut {
		body = strings.NewReader(`{"verif":true}`)
	}
	var r *http.Request
	if body != nil {
		r = httptest.NewRequest(q.Method, q.H.path(), body)
	} else {
		r = httptest.NewRequest(q.Method, q.H.path(), nil)
	}
	if q.Unclean != "" {
		r.URL.Path = q.mangledPath()
		r.RequestURI = q.mangledPath()
	}
	r.Host = q.Host
	r.Header[hdrID] = []string{id}
	if q.H.Kind == "dyn" {
		r.Header[hdrNeedRead] = []string{strconv.Itoa(q.H.Read)}
		r.Header[hdrNeedWrite] = []string{strconv.Itoa(q.H.Write)}
	}
	if q.AuthSpec != "" {
		r.Header[hdrAuth] = []string{q.AuthSpec}
	}
	if q.ACRM != "" {
		r.Header["Access-Control-Request-Method"] = []string{q.ACRM}
	}
	if q.Origin != "" {
		r.Header["Origin"] = []string{q.Origin}
	}
	if q.Authz != "" {
		r.Header["Authorization"] = []string{q.Authz}
	}
	if q.Cookie != "" {
		r.Header["Cookie"] = []string{q.Cookie}
	}
	if q.RemoteAddr != "" {
		r.RemoteAddr = q.RemoteAddr
	}

	drainPanics()
	rec := httptest.NewRecorder()
	done := make(chan struct{})
	go func() { // the marker hangVerdict looks for is this function: c12.execute.func1
		defer close(done)
		mainHandler.ServeHTTP(rec, r)
	}()
	var res result
	timer := time.NewTimer(hangBound)
	select {
	case <-done:
		timer.Stop()
		res.returned = true
	case <-timer.C:
		return res
	}
	res.status = rec.Code
	res.header = rec.Header()
	res.body = rec.Body.String()
	res.panics = drainPanics()
	o.mu.Lock()
	res.runs, res.tokens, res.authCalls = o.runs, append([]*tok(nil), o.tokens...), o.authCalls
	o.mu.Unlock()

	if q.H.Kind == "meta-permissions" && res.status == http.StatusOK && q.Method != http.MethodHead {
		// portbase's own Dynamic endpoint reports the token it was given.
		var p struct{ Read, Write *int }
		if err := json.Unmarshal([]byte(res.body), &p); err == nil && p.Read != nil && p.Write != nil {
			res.runs = 1
			res.tokens = []*tok{{*p.Read, *p.Write}}
		}
	}
	for _, c := range (&http.Response{Header: res.header}).Cookies() {
		if c.Name == cookieName && c.Value != "" && c.MaxAge >= 0 {
			res.newCookie = c.Value
		}
	}
	return res
}

func goroutineDump() string {
	buf := make([]byte, 1<<20)
	return string(buf[:runtime.Stack(buf, true)])
}

// ---------------------------------------------------------------- comparing with the reference

func inInts(x int, l []int) bool {
	for _, v := range l {
		if v == x {
			return true
		}
	}
	return false
}

func matches(q reqSpec, res result, o outcome) string {
	if o.noAuth && res.authCalls > 0 {
		return "the authenticator was consulted"
	}
	switch o.run {
	case mustNotRun:
		if res.runs != 0 {
			return fmt.Sprintf("the handler ran %d time(s)", res.runs)
		}
	case mustRun:
		if res.runs != 1 {
			return fmt.Sprintf("the handler ran %d time(s) (status %d)", res.runs, res.status)
		}
	case mayRun:
		if res.runs > 1 {
			return fmt.Sprintf("the handler ran %d time(s)", res.runs)
		}
	}
	if res.runs == 0 {
		if o.run == mustNotRun && o.statuses != nil && !inInts(res.status, o.statuses) {
			return fmt.Sprintf("status %d (body %q)", res.status, clip(res.body))
		}
		return ""
	}
	if o.tokens != nil {
		seen := res.tokens[0]
		if seen == nil {
			return "the handler saw no AuthToken"
		}
		ok := false
		for _, t := range o.tokens {
			if t == *seen {
				ok = true
			}
		}
		if !ok {
			return fmt.Sprintf("the handler saw token %v", *seen)
		}
	}
	return ""
}

func clip(s string) string {
	if len(s) > 80 {
		return s[:80] + "..."
	}
	return s
}

// step executes one request against the world, compares with the reference and
// updates the session model. It returns the matched outcome.
func (w *world) step(t fataler, q reqSpec) (result, outcome) {
	res, o, msg := w.stepE(q)
	if msg != "" {
		t.Fatalf("%s", msg)
	}
	return res, o
}

const requestMarker = "verifharness/c12.execute.func"

// rawExec sends a request without judging the answer (only: it must return).
func (w *world) rawExec(q reqSpec) result {
	w.logRequest(q, "raw")
	res := execute(q)
	if !res.returned {
		w.hangVerdict("the request "+q.String(), requestMarker)
	}
	if res.newCookie != "" {
		w.sessNames = append(w.sessNames, res.newCookie)
	}
	return res
}

func (w *world) stepE(q reqSpec) (result, outcome, string) {
	return w.stepMode(q, "checked")
}

func (w *world) stepMode(q reqSpec, mode string) (result, outcome, string) {
	w.logRequest(q, mode)
	// a presented key with an expiry: its state before and after the request
	var exp time.Time
	pkey, presented := presentedKey(q.Authz)
	if presented {
		if _, ok := w.keys[pkey]; ok {
			exp = w.keyExp[pkey]
		}
	}
	st0 := 1
	if !exp.IsZero() {
		st0 = keyState(exp, time.Now())
	}
	expected := w.decide(q)
	res := execute(q)
	if !res.returned {
		w.hangVerdict("the request "+q.String(), requestMarker)
	}
	if res.newCookie != "" {
		w.sessNames = append(w.sessNames, res.newCookie)
	}
	if !exp.IsZero() {
		if st1 := keyState(exp, time.Now()); st1 != st0 {
			// the key crossed its expiry (margin) while the request ran: no verdict
			stats.Class("discarded_key_expired_during_request")
			return res, outcome{}, ""
		}
	}
	if len(res.panics) > 0 {
		return res, outcome{}, fmt.Sprintf("the server panicked while handling %s (dev=%v): %s\nresponse: status %d body %q; handler runs %d",
			q, w.dev, strings.Join(res.panics, "; "), res.status, clip(res.body), res.runs)
	}
	var matched *outcome
	var reasons []string
	for i := range expected {
		if why := matches(q, res, expected[i]); why == "" {
			matched = &expected[i]
			break
		} else {
			reasons = append(reasons, why)
		}
	}
	if matched == nil {
		return res, outcome{}, fmt.Sprintf("request %s\nworld: dev=%v authenticator=%v keys=%v\nexpected: %s\nobserved: status %d, handler runs %d, tokens %s, authenticator calls %d, body %q\nmismatch: %s",
			q, w.dev, authMode, w.keys, describe(expected), res.status, res.runs, fmtToks(res.tokens), res.authCalls, clip(res.body), strings.Join(reasons, " / "))
	}

	// ---- model update: sessions
	if sv, ok := presentedSession(q.Cookie); ok {
		if s, ok := w.sessions[sv]; ok {
			if matched.g.src == "session" && matched.g.sess == sv && s.lo >= sessMargin {
				s.lo, s.hi = sessTTL, sessTTL // used, hence refreshed (sliding TTL)
			} else if s.hi > -sessMargin {
				s.hi = sessTTL // possibly consulted and refreshed
			}
		}
	}
	if res.newCookie != "" {
		kind, at := parseAuthSpec(q.AuthSpec)
		if res.authCalls > 0 && kind == "token" {
			w.sessions[res.newCookie] = &modelSession{t: at, lo: sessTTL, hi: sessTTL}
		} else {
			stats.Warn("a session cookie was issued although the authenticator returned no token (request %s)", q)
		}
	}
	// ---- expiring keys: notes for a later hang verdict, and generator statistics
	if matched.g.src != "" && presented && !w.dev && q.RemoteAddr != bridgeAddr && len(w.expiring) > 0 {
		expired := !exp.IsZero() && st0 == -1
		switch {
		case w.importsSinceExp > 0:
			if expired {
				stats.Class("expiry:expired_key_presented_after_reimport")
			}
		default:
			if w.expiredShown > 0 {
				// the situation seeded change C12-4 needs: a further request that reaches the key table
				stats.Class("expiry:authorization_request_after_expired_loaded_key_was_presented")
			}
			if expired {
				w.expiredShown++
				stats.Class("expiry:expired_key_still_loaded_presented")
				w.notes = append(w.notes, fmt.Sprintf("history step %d presented the API key %q, which had expired at %s while it was loaded (no key import since); it was answered with status %d, handler runs %d",
					len(w.ops), pkey, exp.Format(time.RFC3339Nano), res.status, res.runs))
			}
		}
	}
	return res, *matched, ""
}

// pastExpiry: has any of the keys configured with setKeysExpiring expired by now?
func (w *world) pastExpiry() bool {
	for _, e := range w.expiring {
		if time.Now().After(e) {
			return true
		}
	}
	return false
}

func fmtToks(ts []*tok) string {
	var p []string
	for _, t := range ts {
		if t == nil {
			p = append(p, "<nil>")
		} else {
			p = append(p, t.String())
		}
	}
	return "[" + strings.Join(p, " ") + "]"
}

// ---------------------------------------------------------------- changing the world

func (w *world) setDev(t fataler, on bool) {
	if err := config.SetConfigOption(config.CfgDevModeKey, on); err != nil {
		t.Fatalf("harness: cannot set dev mode: %s", err)
	}
	if cfgDev() != on {
		t.Fatalf("harness: dev mode option reads %v after setting it to %v", cfgDev(), on)
	}
	w.dev = on
	w.logOp(jop{Op: "dev", On: on})
	if w.pastExpiry() {
		w.importsSinceExp++ // the change event re-imports the keys
	}
}

func sameStrings(a, b []string) bool {
	if len(a) != len(b) {
		return false
	}
	for i := range a {
		if a[i] != b[i] {
			return false
		}
	}
	return true
}

var cleanupMissing bool

func keyString(l []string) string { return strings.Join(l, "\x00") }

// setKeys configures the API keys. Entries that are already expired make
// portbase rewrite the option asynchronously: the import triggered by the
// change event starts the micro task "api key cleanup", which stores the list
// without the expired entries (as computed at import time, up to 3 s later).
// Such a late write would overwrite a newer configuration of the harness, so
// the harness lets exactly that one chain run to its end before it goes on:
// it does not force an import (which would start a further cleanup task) but
// waits until the stored list has changed and the change has been signalled.
// If that does not happen (bounded), it goes on and only notes it; the model
// never depends on it (see syncKeys / stepStable).
func (w *world) setKeys(t fataler, entries []string, expectCleanup bool) {
	w.logOp(jop{Op: "keys", Entries: entries, Cleanup: expectCleanup})
	w.expiring = nil
	w.applyKeys(t, entries, expectCleanup)
}

// setKeysExpiring configures permanent entries plus entries that expire soon
// (the expires parameter is written now, with fractional seconds). The keys are
// imported while still valid and then expire *while loaded*: portbase drops
// expired keys only at import time, checkAPIKey has to refuse them at request
// time. It reports whether the import surely happened before any expiry.
func (w *world) setKeysExpiring(t fataler, entries []string, expiring []expiringEntry) bool {
	w.logOp(jop{Op: "keys", Entries: entries, Expiring: expiring})
	all := append([]string{}, entries...)
	w.expiring = nil
	start := time.Now()
	for _, e := range expiring {
		exp := start.Add(time.Duration(e.AfterMs) * time.Millisecond).UTC()
		sep := "?"
		if strings.Contains(e.Entry, "?") {
			sep = "&"
		}
		all = append(all, e.Entry+sep+"expires="+exp.Format("2006-01-02T15:04:05.000Z07:00"))
		w.expiring = append(w.expiring, exp.Truncate(time.Millisecond))
	}
	w.applyKeys(t, all, false)
	w.expiredShown, w.importsSinceExp = 0, 0
	for _, exp := range w.expiring {
		if time.Until(exp) < 2*expiryMargin {
			return false
		}
	}
	return true
}

// waitExpiry sleeps until every expiring key is past its expiry (plus margin).
// Nothing is imported meanwhile: the keys stay in the API's table.
func (w *world) waitExpiry() {
	w.logOp(jop{Op: "wait_expiry"})
	for _, exp := range w.expiring {
		if d := time.Until(exp.Add(expiryMargin + 40*time.Millisecond)); d > 0 {
			time.Sleep(d)
		}
	}
}

func (w *world) cleanSessions() {
	w.logOp(jop{Op: "clean"})
	api.VerifCleanSessions()
}

// cfgStores counts every value stored into the configuration (by the harness and by portbase itself: the API removes
// expired keys from the option on its own) through the guarded yield points of the config package.
var cfgStores int64

func init() {
	config.VerifHook = func(name string) {
		if name == "config.set.stored" || name == "config.replace.stored" {
			atomic.AddInt64(&cfgStores, 1)
		}
	}
}

// cleanupMayBePending: a key with an expiry has been configured since the key machinery was last seen at rest. Every
// import that meets an expired key starts a micro task that writes the list it has read, without the expired entries,
// back into the option - whenever it gets to run. Two imports of the same list start two of them, and the second one
// may arrive after the harness has configured the next list. The harness only configures keys when nothing of that
// kind is pending (see DESIGN.md section 8, round 12).
var cleanupMayBePending bool

const flagChangeWhileCleanupPending = "keys.change_while_cleanup_pending"

// quiesceKeyMachinery waits until no import of keys, no config change hook and no removal of expired keys is pending
// or running: no goroutine (started or not yet started) has one of them on its stack.
func quiesceKeyMachinery() {
	deadline := time.Now().Add(10 * time.Second)
	for {
		d := goroutineDump()
		if !strings.Contains(d, "api.updateAPIKeys") && !strings.Contains(d, "StartLowPriorityMicroTask") &&
			!strings.Contains(d, "runEventHook") && !strings.Contains(d, "processEventTrigger") {
			return
		}
		if !time.Now().Before(deadline) {
			stats.Warn("the API's key import / expired-key removal did not come to rest within 10s; the harness goes on")
			return
		}
		time.Sleep(100 * time.Microsecond)
	}
}

// hasExpiry: an entry carries an expiry that is not years away (only such a key can ever be found expired).
func hasExpiry(entries []string) bool {
	for _, e := range entries {
		i := strings.Index(e, "expires=")
		if i < 0 {
			continue
		}
		v := e[i+len("expires="):]
		if j := strings.IndexAny(v, "&#"); j >= 0 {
			v = v[:j]
		}
		if ts, err := time.Parse(time.RFC3339, v); err != nil || time.Until(ts) < 24*time.Hour {
			return true
		}
	}
	return false
}

func (w *world) applyKeys(t fataler, entries []string, expectCleanup bool) {
	if cleanupMayBePending {
		// by-construction exclusion of the open finding C12-cleanup-lost-update (its witness covers the excluded class)
		quiesceKeyMachinery()
		cleanupMayBePending = false
		stats.Class("key_machinery_brought_to_rest_before_a_configuration_change")
		if stats.Excl(flagChangeWhileCleanupPending) {
			stats.Excluded(flagChangeWhileCleanupPending)
		}
	}
	cleanupMayBePending = hasExpiry(entries)
	if err := config.SetConfigOption(api.CfgAPIKeys, entries); err != nil {
		t.Fatalf("harness: cannot set api keys: %s", err)
	}
	if w.pastExpiry() {
		w.importsSinceExp++
	}
	w.synced = "\x01never"
	if expectCleanup && !cleanupMissing {
		set := keyString(entries)
		deadline := time.Now().Add(10 * time.Second)
		for {
			if v, settled := settledKeys(); settled && v != set {
				break
			}
			if !time.Now().Before(deadline) {
				cleanupMissing = true
				stats.Warn("portbase did not remove expired API keys from the configuration within 10s; the harness stops waiting for that")
				break
			}
			time.Sleep(50 * time.Microsecond)
		}
		quiesceKeyMachinery() // a second removal, started by another import of the same list, is through as well
	}
	w.syncKeys()
}

// trueKeys reads the configured key list from the option itself. Getters
// (cfgKeys, and the one the API uses) cache the value and only refresh after a
// change has been *signalled*; while some SetConfigOption is between storing
// the value and signalling it, getters and option disagree.
func trueKeys() string {
	opt, err := config.GetOption(api.CfgAPIKeys)
	if err != nil {
		return "\x01no such option"
	}
	v, _ := opt.UserValue().([]string)
	return keyString(v)
}

// settledKeys returns the configured key list and whether no change of it is
// in flight (option and getter agree).
func settledKeys() (string, bool) {
	c := keyString(cfgKeys())
	return c, c == trueKeys()
}

// syncKeys makes sure that the API has imported the API keys of the value the
// configuration holds right now, and derives the model from that value. It
// returns the value. Afterwards, as long as the configured value stays the
// same, every (also asynchronous) re-import yields the same key table.
func (w *world) syncKeys() string {
	deadline := time.Now().Add(10 * time.Second)
	for {
		stores := atomic.LoadInt64(&cfgStores)
		v, settled := settledKeys()
		if !settled && time.Now().Before(deadline) {
			time.Sleep(20 * time.Microsecond)
			continue
		}
		before := time.Now()
		w.importKeys()
		if v2, s2 := settledKeys(); (v2 != v || !s2 || atomic.LoadInt64(&cfgStores) != stores) && time.Now().Before(deadline) {
			continue // changed under our feet, again
		}
		w.synced, w.syncedStores = v, stores
		// keys that expire between `before` and now may or may not have been imported;
		// setKeysExpiring keeps every expiry at least 2 margins away from the import
		w.keys, w.keyExp = parseKeyEntriesExp(cfgKeys(), before)
		if w.pastExpiry() {
			w.importsSinceExp++
		}
		return v
	}
}

// stepStable is step for histories in which the key configuration changes: the
// verdict of a request only counts if the configured keys were the same before
// and after it (portbase itself rewrites the option when it finds expired keys).
func (w *world) stepStable(t fataler, q reqSpec) (res result, o outcome, ok bool) {
	for i := 0; i < 50; i++ {
		v1 := w.syncKeys()
		keysBefore := w.keys
		sessBefore := cloneSessions(w.sessions)
		var msg string
		res, o, msg = w.stepMode(q, "stable")
		if v2, settled := settledKeys(); v2 != v1 || !settled || atomic.LoadInt64(&cfgStores) != w.syncedStores {
			// (the count of stores, not only the value: the option can go to another list and back while the request runs)
			// the configuration changed while the request ran: not a valid observation
			stats.Class("discarded_config_changed_during_request")
			w.keys, w.sessions = keysBefore, sessBefore
			if res.newCookie != "" {
				// a session may have been created; the model cannot use it
				delete(w.sessions, res.newCookie)
			}
			if sv, ok := presentedSession(q.Cookie); ok {
				if s, ok := w.sessions[sv]; ok && s.hi > -sessMargin {
					s.hi = sessTTL // it may have been refreshed
				}
			}
			continue
		}
		if msg != "" {
			t.Fatalf("%s\n[diagnostics] configured (option) %q\n[diagnostics] configured (getter) %q\n[diagnostics] key table of the API now: %v", msg, trueKeys(), keyString(cfgKeys()), keyTable())
		}
		return res, o, true
	}
	return res, o, false
}

func cloneSessions(m map[string]*modelSession) map[string]*modelSession {
	out := make(map[string]*modelSession, len(m))
	for k, v := range m {
		c := *v
		out[k] = &c
	}
	return out
}

// age makes all sessions d older, in portbase and in the model.
func (w *world) age(d time.Duration) {
	w.logOp(jop{Op: "age", Seconds: d.Seconds()})
	api.VerifAgeSessions(d)
	for _, s := range w.sessions {
		s.lo -= d.Seconds()
		s.hi -= d.Seconds()
	}
}
