//go:build verif

package c12

// Hangs. "…credentials grant nothing beyond anonymous access and never crash or
// hang the server": a request (or a key import) that does not come back is a
// violation of C12 when it is stuck inside portbase. This file holds
//   - the history log of a world (what the harness did, replayable),
//   - the verdict for a request / key import that did not return within hangBound:
//     a goroutine dump tells where it is blocked; inside portbase = violation
//     (journal written, process ended at once, the driver reports the journal as
//     replay), anywhere else = the harness' own problem = inconclusive,
//   - the replay of such a journal (VERIF_REPLAY_CASE).
// After a hang the process is poisoned (the lock stays taken): it is ended
// instead of letting the remaining cases run into further time-outs.

import (
	"encoding/json"
	"fmt"
	"os"
	"strings"
	"sync"
	"syscall"
	"testing"
	"time"

	"github.com/safing/portbase/api"

	"verifharness/internal/stats"
)

// hangBound: nothing in the request path or in a key import sleeps or waits for
// anything but short-held locks; harness handlers never block. A request takes
// tens of microseconds.
const hangBound = 25 * time.Second

// ---------------------------------------------------------------- history log

type expiringEntry struct {
	Entry   string `json:"entry"`    // "<key>?read=..&write=.." without the expires parameter
	AfterMs int    `json:"after_ms"` // expires this long after the keys are set
}

// jop is one step of a history.
type jop struct {
	Op       string          `json:"op"` // keys | dev | age | reset | clean | wait_expiry | request
	Entries  []string        `json:"entries,omitempty"`
	Expiring []expiringEntry `json:"expiring,omitempty"`
	Cleanup  bool            `json:"cleanup,omitempty"`
	On       bool            `json:"on,omitempty"`
	Seconds  float64         `json:"seconds,omitempty"`
	Session  int             `json:"session,omitempty"`
	Q        *reqSpec        `json:"q,omitempty"`    // cookie values of sessions are written as {{S<i>}}
	Mode     string          `json:"mode,omitempty"` // request: checked | stable | raw
}

const maxLoggedOps = 3000

func (w *world) logOp(o jop) {
	if len(w.ops) >= maxLoggedOps {
		// drop the older half of the requests, keep everything that changed the world
		var kept []jop
		drop := maxLoggedOps / 2
		for _, old := range w.ops {
			if old.Op == "request" && drop > 0 {
				drop--
				continue
			}
			kept = append(kept, old)
		}
		w.ops = kept
	}
	w.ops = append(w.ops, o)
}

// compactLog forgets the requests so far (the world-changing steps are kept,
// collapsed to the current state). Used by the enumerated tables per block.
func (w *world) compactLog() {
	var kept []jop
	for _, o := range w.ops {
		if o.Op == "keys" {
			kept = []jop{o}
		}
	}
	w.ops = append(kept, jop{Op: "dev", On: w.dev})
	// no kept step refers to a session: forget the sessions of earlier blocks (they are not presented any more)
	w.sessNames = nil
}

func (w *world) logRequest(q reqSpec, mode string) {
	c := q
	for i, s := range w.sessNames {
		if c.Cookie == "" {
			break
		}
		if s != "" && strings.Contains(c.Cookie, s) {
			c.Cookie = strings.ReplaceAll(c.Cookie, s, fmt.Sprintf("{{S%d}}", i))
		}
	}
	w.logOp(jop{Op: "request", Q: &c, Mode: mode})
}

func (o jop) String() string {
	switch o.Op {
	case "keys":
		s := fmt.Sprintf("configure core/apiKeys = %q", o.Entries)
		for _, e := range o.Expiring {
			s += fmt.Sprintf(" + %q expiring %d ms later", e.Entry, e.AfterMs)
		}
		return s
	case "dev":
		return fmt.Sprintf("development mode %v", o.On)
	case "age":
		return fmt.Sprintf("sessions aged by %v s", o.Seconds)
	case "reset":
		return fmt.Sprintf("GET /api/v1/auth/reset with session {{S%d}}", o.Session)
	case "clean":
		return "session cleaner runs"
	case "wait_expiry":
		return "wait until the expiring keys have expired (they stay loaded, no import)"
	case "request":
		return fmt.Sprintf("request (%s) %s", o.Mode, o.Q)
	}
	return o.Op
}

func (w *world) renderHistory(last int) string {
	var b strings.Builder
	ops := w.ops
	skipped := 0
	if len(ops) > last {
		// always show the world-changing steps, and the last requests
		var sel []jop
		nreq := 0
		for i := len(ops) - 1; i >= 0; i-- {
			if ops[i].Op == "request" {
				nreq++
				if nreq > last {
					skipped++
					continue
				}
			}
			sel = append([]jop{ops[i]}, sel...)
		}
		ops = sel
	}
	if skipped > 0 {
		fmt.Fprintf(&b, "  (%d earlier requests not shown)\n", skipped)
	}
	for i, o := range ops {
		fmt.Fprintf(&b, "  %3d. %s\n", i+1, o)
	}
	return b.String()
}

// ---------------------------------------------------------------- journal

type journalFile struct {
	Marker string `json:"verif_c12_journal"`
	Mode   string `json:"mode"` // auth | noauth
	Why    string `json:"why"`
	Ops    []jop  `json:"ops"`
}

func modeName() string {
	if authMode {
		return "auth"
	}
	return "noauth"
}

func (w *world) writeJournal(why string) string {
	path := os.Getenv("VERIF_JOURNAL")
	if path == "" {
		return ""
	}
	b, err := json.MarshalIndent(journalFile{Marker: "v1", Mode: modeName(), Why: why, Ops: w.ops}, "", " ")
	if err != nil {
		return ""
	}
	if os.WriteFile(path, b, 0o644) != nil {
		return ""
	}
	return path
}

func readJournal(path string) (*journalFile, bool) {
	if path == "" {
		return nil, false
	}
	b, err := os.ReadFile(path)
	if err != nil {
		return nil, false
	}
	var j journalFile
	if json.Unmarshal(b, &j) != nil || j.Marker != "v1" {
		return nil, false
	}
	return &j, true
}

var replayOnce sync.Once

// replayed: if $VERIF_REPLAY_CASE is a journal of this package, the first test
// that asks executes it (same oracle, same watchdog) and every test returns.
func replayed(t *testing.T) bool {
	j, ok := readJournal(os.Getenv("VERIF_REPLAY_CASE"))
	if !ok {
		return false
	}
	replayOnce.Do(func() {
		t.Logf("replaying journalled history (%s):\n%s", j.Why, (&world{ops: j.Ops}).renderHistory(1000))
		runJournal(t, j.Ops)
	})
	return true
}

func runJournal(t fataler, ops []jop) {
	w := newWorld()
	w.setDev(t, false)
	defer w.setDev(t, false)
	for _, o := range ops {
		switch o.Op {
		case "keys":
			if len(o.Expiring) > 0 {
				w.setKeysExpiring(t, o.Entries, o.Expiring)
			} else {
				entries := o.Entries
				if entries == nil {
					entries = []string{}
				}
				w.setKeys(t, entries, o.Cleanup)
			}
		case "dev":
			w.setDev(t, o.On)
		case "age":
			w.age(time.Duration(o.Seconds * float64(time.Second)))
		case "reset":
			if o.Session < len(w.sessNames) {
				w.resetSession(t, w.sessNames[o.Session])
			}
		case "clean":
			w.cleanSessions()
		case "wait_expiry":
			w.waitExpiry()
		case "request":
			q := *o.Q
			for i, s := range w.sessNames {
				q.Cookie = strings.ReplaceAll(q.Cookie, fmt.Sprintf("{{S%d}}", i), s)
			}
			switch o.Mode {
			case "raw":
				w.rawExec(q)
			case "stable":
				w.stepStable(t, q)
			default:
				w.step(t, q)
			}
		}
	}
}

// ---------------------------------------------------------------- the verdict

// goroutineWith returns the dump block of the first goroutine whose stack
// contains the marker.
func goroutineWith(dump, marker string) string {
	for _, g := range strings.Split(dump, "\n\n") {
		if strings.Contains(g, marker) {
			return g
		}
	}
	return ""
}

// blockedWhere reads a goroutine block: its wait state and the innermost
// function that is neither runtime nor a synchronisation primitive, plus the
// call chain up to the marker.
func blockedWhere(block string) (state, where string, chain []string) {
	lines := strings.Split(block, "\n")
	if len(lines) == 0 {
		return "", "", nil
	}
	if i := strings.Index(lines[0], "["); i >= 0 {
		state = strings.TrimSuffix(strings.TrimSpace(lines[0][i:]), ":")
	}
	for _, l := range lines[1:] {
		if strings.HasPrefix(l, "\t") || strings.HasPrefix(l, "created by") || l == "" {
			continue
		}
		fn := l
		if i := strings.LastIndex(fn, "("); i > 0 {
			fn = fn[:i]
		}
		chain = append(chain, fn)
		if where == "" {
			skip := false
			for _, p := range []string{"runtime.", "sync.", "sync/atomic.", "internal/", "time.", "syscall."} {
				if strings.HasPrefix(fn, p) {
					skip = true
				}
			}
			if !skip {
				where = fn
			}
		}
	}
	return
}

// hangVerdict never returns.
func (w *world) hangVerdict(what, marker string) {
	dump := goroutineDump()
	block := goroutineWith(dump, marker)
	state, where, chain := blockedWhere(block)
	if len(chain) > 14 {
		chain = chain[:14]
	}
	var b strings.Builder
	fmt.Fprintf(&b, "%s did not return within %s.\n", what, hangBound)
	fmt.Fprintf(&b, "its goroutine is in state %s, blocked in %s\n  call chain (innermost first): %s\n", state, where, strings.Join(chain, " <- "))
	if len(w.notes) > 0 {
		fmt.Fprintf(&b, "credential history that led here:\n")
		for _, n := range w.notes {
			fmt.Fprintf(&b, "  - %s\n", n)
		}
	}
	fmt.Fprintf(&b, "history of this case (dev=%v, authenticator=%v, model keys=%v):\n%s", w.dev, authMode, w.keys, w.renderHistory(12))

	if strings.HasPrefix(where, "github.com/safing/portbase/") {
		why := fmt.Sprintf("%s hangs in %s", what, where)
		path := w.writeJournal(why)
		// The driver shows the end of the output of a process that died: details first, summary last.
		fmt.Fprintf(os.Stderr, "--- goroutines waiting for a lock inside portbase ---\n%s\n\n--- goroutine of the blocked call ---\n%s\n\nHANG (violation of C12: credentials \"never crash or hang the server\"): %s\njournal (replay with ./check C12 --replay <file>): %s\n%s\n",
			lockWaiters(dump), block, b.String(), path, strings.Repeat("(end of the hang report; the process ends here because the blocked resource would only make every further case time out)\n", 5))
		stats.Class("hang_verdict_violation")
		stats.Flush(1)
		// The lock / resource stays taken: every further case would only time out.
		os.Exit(1)
	}
	// Not stuck inside portbase: the harness (or the machine) is the problem. Leave
	// no verdict: a killed process without a failing test is reported as inconclusive.
	fmt.Fprintf(os.Stderr, "INCONCLUSIVE (harness): %s\nthe blocked goroutine is not inside portbase; full dump:\n%s\n", b.String(), dump)
	stats.Flush(2)
	_ = syscall.Kill(os.Getpid(), syscall.SIGKILL)
	select {}
}

// lockWaiters: the goroutines that wait for a mutex with a portbase frame on their stack.
func lockWaiters(dump string) string {
	var sel []string
	for _, g := range strings.Split(dump, "\n\n") {
		head, _, _ := strings.Cut(g, "\n")
		if strings.Contains(head, "Mutex") && strings.Contains(g, "github.com/safing/portbase/") {
			sel = append(sel, g)
		}
	}
	if len(sel) > 6 {
		sel = append(sel[:6], fmt.Sprintf("(and %d more)", len(sel)-6))
	}
	return strings.Join(sel, "\n\n")
}

// ---------------------------------------------------------------- bounded key import

// importKeys forces the import of the configured keys (api.VerifSyncAPIKeys ->
// updateAPIKeys, what the config change hook does) under the same watchdog as
// requests: an import that blocks means keys can no longer be changed or revoked.
func (w *world) importKeys() {
	done := make(chan struct{})
	go func() {
		defer close(done)
		api.VerifSyncAPIKeys()
	}()
	timer := time.NewTimer(hangBound)
	defer timer.Stop()
	select {
	case <-done:
	case <-timer.C:
		w.hangVerdict("the import of the configured API keys (updateAPIKeys, as run by the config change hook)", "c12.(*world).importKeys.func1")
	}
}

// keyTable is the diagnostic snapshot of the API's key table; it needs the same
// lock, so it is bounded too (nil if it does not come back).
func keyTable() map[string][2]api.Permission {
	ch := make(chan map[string][2]api.Permission, 1)
	go func() { ch <- api.VerifAPIKeyTable() }()
	select {
	case m := <-ch:
		return m
	case <-time.After(2 * time.Second):
		return nil
	}
}
