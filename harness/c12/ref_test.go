//go:build verif

package c12

// The reference decision procedure, written from the statement of C12 and the
// permission documentation in api/authentication.go / api/endpoints.go.
// It never looks at portbase state: the world model (configured keys, sessions,
// development mode) is maintained by the harness from what it did itself.

import (
	"encoding/base64"
	"fmt"
	"net/http"
	"net/url"
	"sort"
	"strings"
	"time"
)

const (
	pNotFound     = -2
	pDynamic      = -1
	pNotSupported = 0
	pAnyone       = 1
	pUser         = 2
	pAdmin        = 3
	pSelf         = 4
)

var anon = tok{pAnyone, pAnyone}

func validPerm(p int) bool { return p >= pAnyone && p <= pSelf }

// ---------------------------------------------------------------- requests

type handlerSpec struct {
	Kind  string // raw | wrap | dyn | plain | ep:<type> | ep-unknown | meta-permissions
	Read  int    // declared permission for the read class
	Write int    // declared permission for the write class
}

func (h handlerSpec) path() string {
	switch {
	case h.Kind == "raw" || h.Kind == "wrap":
		return rawPath(h.Kind, h.Read, h.Write)
	case h.Kind == "dyn":
		return "/verif/dyn"
	case h.Kind == "plain":
		return "/verif/plain"
	case strings.HasPrefix(h.Kind, "ep:"):
		return epPath(strings.TrimPrefix(h.Kind, "ep:"), h.Read, h.Write)
	case h.Kind == "ep-unknown":
		return "/api/v1/verif/ep/none/registered"
	case h.Kind == "meta-permissions":
		return "/api/v1/auth/permissions"
	case h.Kind == "meta-reset":
		return "/api/v1/auth/reset"
	}
	panic("unknown handler kind " + h.Kind)
}

func (h handlerSpec) isEndpoint() bool {
	return strings.HasPrefix(h.Kind, "ep:") || h.Kind == "meta-permissions" || h.Kind == "ep-unknown"
}

// normalised: what the handler declares, independent of how the spec was built.
func (h handlerSpec) declared() (rd, wr int) {
	switch h.Kind {
	case "plain":
		// "requiredPermission := PermitSelf" for handlers that are not AuthenticatedHandlers
		return pSelf, pSelf
	case "ep-unknown":
		return pNotFound, pNotFound
	case "meta-permissions":
		return pDynamic, pNotSupported
	case "meta-reset":
		return pAnyone, pNotSupported
	}
	return h.Read, h.Write
}

type reqSpec struct {
	H          handlerSpec
	Method     string
	ACRM       string // Access-Control-Request-Method header
	Host       string
	Origin     string
	Authz      string // Authorization header
	Cookie     string // Cookie header
	AuthSpec   string // steering of the harness authenticator (X-Verif-Auth)
	RemoteAddr string // "" = ordinary TCP peer
	// Unclean: the request path is sent in a form that is not clean ("" | dot | dotdot | dupslash). The router answers
	// such a request with a redirect to the clean path before anything else; whatever it does, the handler may run
	// only under the same conditions as for the clean path.
	Unclean string
}

func (q reqSpec) String() string {
	return fmt.Sprintf("%s %s (declared R=%d W=%d) acrm=%q host=%q origin=%q authorization=%q cookie=%q authenticator=%q remote=%q",
		q.Method, q.mangledPath(), q.H.Read, q.H.Write, q.ACRM, q.Host, q.Origin, q.Authz, q.Cookie, q.AuthSpec, q.RemoteAddr)
}

func (q reqSpec) mangledPath() string {
	p := q.H.path()
	i := strings.LastIndex(p, "/")
	switch q.Unclean {
	case "dot":
		return p[:i] + "/." + p[i:]
	case "dotdot":
		return p[:i] + "/zz/.." + p[i:]
	case "dupslash":
		return p[:i] + "/" + p[i:]
	}
	return p
}

// ---------------------------------------------------------------- world model

type modelSession struct {
	t      tok
	lo, hi float64 // bounds of the remaining life time in seconds
}

const (
	sessTTL    = 300.0 // api.VerifSessionTTL(), checked in TestMain-time assertion
	sessMargin = 20.0
)

type world struct {
	dev          bool
	synced       string               // configured key value the key model was derived from
	syncedStores int64                // number of stores into the configuration when that value was read
	keys         map[string]tok       // configured keys that were unexpired when they were imported
	keyExp       map[string]time.Time // expiry of those keys that have one
	sessions     map[string]*modelSession

	ops       []jop    // what the harness did to / asked of this world (hang_test.go)
	sessNames []string // session cookie values in the order of their creation
	notes     []string // credential history worth telling when a later call hangs

	expiring        []time.Time // expiry times of the keys configured with setKeysExpiring
	expiredShown    int         // requests that presented an expired key that is still loaded (no import since)
	importsSinceExp int         // key imports / configuration changes since the expiry
}

func newWorld() *world {
	return &world{keys: map[string]tok{}, keyExp: map[string]time.Time{}, sessions: map[string]*modelSession{}}
}

// expiryMargin: a key is taken as certainly valid / certainly expired only this
// far away from its expiry; in between both answers are accepted.
const expiryMargin = 80 * time.Millisecond

// keyState: 1 certainly valid, -1 certainly expired, 0 too close to tell.
func keyState(exp, now time.Time) int {
	switch d := exp.Sub(now); {
	case d > expiryMargin:
		return 1
	case d < -expiryMargin:
		return -1
	}
	return 0
}

// parseKeyEntries is the harness' reading of the documented key format
// `<key>?read=<perm>&write=<perm>[&expires=<RFC3339>]`; permissions are
// anyone|user|admin and may be omitted. Entries that are malformed or already
// expired configure nothing.
func parseKeyEntries(entries []string, now time.Time) map[string]tok {
	out, _ := parseKeyEntriesExp(entries, now)
	return out
}

func parseKeyEntriesExp(entries []string, now time.Time) (map[string]tok, map[string]time.Time) {
	out := map[string]tok{}
	exps := map[string]time.Time{}
	for _, e := range entries {
		key, rawq, _ := strings.Cut(e, "?")
		if key == "" {
			continue
		}
		if k2, err := url.PathUnescape(key); err != nil {
			continue
		} else {
			key = k2
		}
		if strings.ContainsAny(key, "#") {
			continue
		}
		q, err := url.ParseQuery(rawq)
		if err != nil {
			// the generator never produces this
			continue
		}
		rd, ok1 := parsePermWord(q.Get("read"))
		wr, ok2 := parsePermWord(q.Get("write"))
		if !ok1 || !ok2 {
			continue
		}
		var exp time.Time
		if ex := q.Get("expires"); ex != "" {
			t, err := time.Parse(time.RFC3339, ex)
			if err != nil || now.After(t) {
				continue
			}
			exp = t
		}
		out[key] = tok{rd, wr}
		if exp.IsZero() {
			delete(exps, key)
		} else {
			exps[key] = exp
		}
	}
	return out, exps
}

func parsePermWord(s string) (int, bool) {
	switch strings.ToLower(s) {
	case "", "anyone":
		return pAnyone, true
	case "user":
		return pUser, true
	case "admin":
		return pAdmin, true
	}
	return 0, false
}

// ---------------------------------------------------------------- origin gate

type originClass int

const (
	originAbsent originClass = iota
	originAllowed
	originRefused
	originEither // the statement's "matches the Host" does not settle it
)

var devOrigins = []string{"127.0.0.1", "localhost"}

func hostOnly(hostport string) string {
	u, err := url.Parse("http://" + hostport)
	if err != nil {
		return hostport
	}
	return u.Hostname()
}

func classifyOrigin(origin, host string, dev bool) originClass {
	if origin == "" {
		return originAbsent
	}
	u, err := url.Parse(origin)
	if err != nil {
		return originRefused
	}
	switch {
	case u.Host == host, u.Hostname() == host:
		return originAllowed
	case u.Scheme == "chrome-extension":
		return originAllowed
	}
	if dev {
		for _, d := range devOrigins {
			if u.Hostname() == d {
				return originAllowed
			}
		}
		for _, d := range devOrigins {
			if strings.EqualFold(u.Hostname(), d) {
				return originEither
			}
		}
	}
	// Same host spelled differently, or a Host with a port against an Origin
	// without one ("we cannot properly check for equality", router.go).
	if strings.EqualFold(u.Host, host) || strings.EqualFold(u.Hostname(), host) ||
		(u.Port() == "" && strings.EqualFold(u.Hostname(), hostOnly(host))) {
		return originEither
	}
	return originRefused
}

// ---------------------------------------------------------------- credentials

// grant is what a request's credentials grant.
type grant struct {
	kind string // anon | token | autherr | authdenied
	t    tok
	src  string // dev | bridge | key | session | authenticator | none
	sess string // session cookie value used
}

// presentedKey extracts the API key from an Authorization header: "Bearer <key>"
// or HTTP Basic where the key is user+password.
func presentedKey(h string) (key string, ok bool) {
	switch {
	case h == "":
		return "", false
	case strings.HasPrefix(h, "Bearer "):
		return strings.TrimPrefix(h, "Bearer "), true
	case strings.HasPrefix(h, "Basic "):
		raw, err := base64.StdEncoding.DecodeString(strings.TrimPrefix(h, "Basic "))
		if err != nil {
			return "", true
		}
		user, pass, found := strings.Cut(string(raw), ":")
		if !found {
			return "", true
		}
		return user + pass, true
	}
	return "", false
}

func presentedSession(cookieHeader string) (string, bool) {
	if cookieHeader == "" {
		return "", false
	}
	r := &http.Request{Header: http.Header{"Cookie": []string{cookieHeader}}}
	c, err := r.Cookie(cookieName)
	if err != nil {
		return "", false
	}
	return c.Value, true
}

func parseAuthSpec(spec string) (kind string, t tok) {
	switch {
	case spec == "err":
		return "autherr", tok{}
	case spec == "denied":
		return "authdenied", tok{}
	case strings.HasPrefix(spec, "tok:"):
		var rd, wr int
		if n, _ := fmt.Sscanf(spec, "tok:%d:%d", &rd, &wr); n == 2 {
			return "token", tok{rd, wr}
		}
	}
	return "anon", tok{}
}

// grants lists every grant the statement allows for the request (more than one
// only when the model does not know whether a session is still alive).
func (w *world) grants(q reqSpec) []grant {
	if w.dev {
		return []grant{{kind: "token", t: tok{pSelf, pSelf}, src: "dev"}}
	}
	if q.RemoteAddr == bridgeAddr {
		return []grant{{kind: "token", t: tok{pAdmin, pAdmin}, src: "bridge"}}
	}
	var out []grant
	if key, ok := presentedKey(q.Authz); ok {
		if t, ok := w.keys[key]; ok {
			st := 1
			if exp, has := w.keyExp[key]; has {
				st = keyState(exp, time.Now()) // an expired key grants nothing, loaded or not
			}
			switch st {
			case 1:
				return []grant{{kind: "token", t: t, src: "key"}}
			case 0:
				out = append(out, grant{kind: "token", t: t, src: "key"})
			}
		}
	}
	if sv, ok := presentedSession(q.Cookie); ok {
		if s, ok := w.sessions[sv]; ok {
			switch {
			case s.lo >= sessMargin:
				return []grant{{kind: "token", t: s.t, src: "session", sess: sv}}
			case s.hi <= -sessMargin:
				// expired
			default:
				out = append(out, grant{kind: "token", t: s.t, src: "session", sess: sv})
			}
		}
	}
	if !authMode {
		return append(out, grant{kind: "anon", t: anon, src: "none"})
	}
	kind, t := parseAuthSpec(q.AuthSpec)
	switch kind {
	case "token":
		out = append(out, grant{kind: "token", t: t, src: "authenticator"})
	case "anon":
		out = append(out, grant{kind: "anon", t: anon, src: "none"})
	default:
		out = append(out, grant{kind: kind, src: "authenticator"})
	}
	return out
}

// ---------------------------------------------------------------- decision

type runMode int

const (
	mustNotRun runMode = iota
	mustRun
	mayRun // not refused, but the statement does not say that the handler body is reached
)

type outcome struct {
	run      runMode
	tokens   []tok // acceptable tokens seen by the handler (nil: unchecked)
	statuses []int // acceptable statuses when the handler did not run (nil: unchecked)
	noAuth   bool  // the authenticator must not have been consulted
	why      string
	g        grant
}

var refusalStatuses = []int{401, 403, 404, 405, 500}

func methodClass(m string) (read, ok bool) {
	switch m {
	case http.MethodGet, http.MethodHead:
		return true, true
	case http.MethodPost, http.MethodPut, http.MethodDelete:
		return false, true
	}
	return false, false
}

// decide returns the acceptable outcomes of a request.
func (w *world) decide(q reqSpec) []outcome {
	out := w.decideClean(q)
	if q.Unclean != "" {
		for i := range out {
			if out[i].run == mustRun {
				out[i].run = mayRun
			}
			out[i].statuses = nil
		}
	}
	return out
}

func (w *world) decideClean(q reqSpec) []outcome {
	var out []outcome

	// 1. origin gate: before any authenticator or handler.
	oc := classifyOrigin(q.Origin, q.Host, w.dev)
	originRefusal := outcome{run: mustNotRun, statuses: []int{403}, noAuth: true, why: "origin not allowed"}
	switch oc {
	case originRefused:
		return []outcome{originRefusal}
	case originEither:
		out = append(out, originRefusal)
	}

	// 2. method class.
	eff := q.Method
	if q.Method == http.MethodOptions {
		eff = q.ACRM
	}
	read, ok := methodClass(eff)
	if !ok {
		return append(out, outcome{run: mustNotRun, statuses: refusalStatuses, noAuth: true, why: "method has no permission class"})
	}
	if q.Method == http.MethodOptions && q.Origin != "" {
		// CORS preflight: answered without authentication and without the handler.
		return append(out, outcome{run: mustNotRun, statuses: []int{200}, noAuth: true, why: "cors preflight"})
	}

	// 3. declared permission.
	dr, dw := q.H.declared()
	need := dw
	if read {
		need = dr
	}
	switch {
	case need == pNotFound:
		return append(out, outcome{run: mustNotRun, statuses: refusalStatuses, noAuth: true, why: "handler declares not found"})
	case need == pNotSupported:
		return append(out, outcome{run: mustNotRun, statuses: refusalStatuses, noAuth: true, why: "handler declares not supported"})
	case need != pDynamic && !validPerm(need):
		return append(out, outcome{run: mustNotRun, statuses: refusalStatuses, why: "handler declares an invalid permission"})
	}

	entitledRun := mustRun
	if q.Method == http.MethodOptions {
		// An OPTIONS request is authenticated like the method it asks about; whether
		// the handler body is reached is left open (endpoints answer it themselves).
		entitledRun = mayRun
	}

	if need == pAnyone {
		// "anyone can execute the operation without any authentication"
		o := outcome{run: entitledRun, tokens: []tok{anon}, why: "public handler"}
		for _, g := range w.grants(q) {
			if g.kind == "token" {
				o.tokens = append(o.tokens, g.t)
			}
		}
		return append(out, o)
	}

	needed := need
	if need == pDynamic {
		needed = pAnyone
	}

	// 4. what the credentials grant.
	for _, g := range w.grants(q) {
		switch g.kind {
		case "autherr":
			out = append(out, outcome{run: mustNotRun, statuses: refusalStatuses, why: "authenticator failed", g: g})
			continue
		case "authdenied":
			if needed > pAnyone {
				out = append(out, outcome{run: mustNotRun, statuses: refusalStatuses, why: "authenticator denied access", g: g})
				continue
			}
			g = grant{kind: "anon", t: anon, src: g.src}
		}
		have := g.t.W
		if read {
			have = g.t.R
		}
		switch {
		case !validPerm(have):
			out = append(out, outcome{run: mustNotRun, statuses: refusalStatuses, why: fmt.Sprintf("granted permission %d is not a valid permission", have), g: g})
		case have < needed:
			out = append(out, outcome{run: mustNotRun, statuses: refusalStatuses, why: fmt.Sprintf("granted %d < required %d", have, needed), g: g})
		default:
			out = append(out, outcome{run: entitledRun, tokens: []tok{g.t}, why: fmt.Sprintf("granted %d >= required %d via %s", have, needed, g.src), g: g})
		}
	}
	return out
}

func describe(os []outcome) string {
	var parts []string
	for _, o := range os {
		m := map[runMode]string{mustNotRun: "handler must not run", mustRun: "handler must run once", mayRun: "handler may run"}[o.run]
		s := m + " (" + o.why + ")"
		if o.tokens != nil {
			s += fmt.Sprintf(" token in %v", o.tokens)
		}
		if o.statuses != nil && o.run != mustRun {
			s += fmt.Sprintf(" status in %v", o.statuses)
		}
		if o.noAuth {
			s += " authenticator not consulted"
		}
		parts = append(parts, s)
	}
	sort.Strings(parts)
	return strings.Join(parts, " | ")
}
