#!/usr/bin/env python3
"""usage: mutate.py PROP harness/cNN/mutants.json [names...]

Sensitivity helper of the C12/C13 builder: applies each mutant (file, old, new) to the scratch copy
/dev/shm/repo-b7-mut (git clone of the fixed copy), runs ./check PROP against it, reverts.
"""
import json, os, subprocess, sys, time
prop, mfile = sys.argv[1], sys.argv[2]
only = set(sys.argv[3:])
REPO = "/dev/shm/repo-b7-mut"
env = dict(os.environ, GOFLAGS="-mod=mod", GOPROXY="off", GOSUMDB="off", GOTOOLCHAIN="local", VERIF_REPO=REPO)
muts = json.load(open(mfile))
res = []
for m in muts:
    if only and m["name"] not in only:
        continue
    subprocess.run(["git", "checkout", "-q", "--", "."], cwd=REPO, check=True)
    p = os.path.join(REPO, m["file"])
    s = open(p).read()
    if s.count(m["old"]) != 1:
        print("MUTANT %s: pattern occurs %d times, skipped" % (m["name"], s.count(m["old"])), flush=True)
        continue
    open(p, "w").write(s.replace(m["old"], m["new"]))
    t0 = time.time()
    r = subprocess.run(["./check", prop] + m.get("args", []), cwd="/verif", env=env, stdout=subprocess.PIPE, stderr=subprocess.STDOUT)
    out = r.stdout.decode(errors="replace")
    viol = [l for l in out.splitlines() if l.startswith("VIOLATION")]
    first = ""
    for l in out.splitlines():
        if "mismatch:" in l or "panicked" in l or "--- FAIL" in l:
            first = l.strip()[:200]; break
    print("MUTANT %-28s exit=%d violations=%d wall=%.0fs  %s" % (m["name"], r.returncode, len(viol), time.time() - t0, first), flush=True)
    open("/dev/shm/b7-work/mut-%s-%s.out" % (prop, m["name"]), "w").write(out)
    subprocess.run(["git", "checkout", "-q", "--", "."], cwd=REPO, check=True)
