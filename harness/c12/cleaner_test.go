//go:build verif

package c12

import (
	"fmt"
	"net/http"
	"sync"
	"sync/atomic"
	"testing"
	"time"

	"pgregory.net/rapid"

	"github.com/safing/portbase/api"

	"verifharness/internal/stats"
)

// Expired session cookies while the session cleaner is at work. "... expired
// credentials grant nothing beyond anonymous access and never crash or hang the
// server": the cleaner runs every five minutes for as long as the program runs,
// and a browser presents a cookie for as long as it has one - the two meet.
//
// Sessions are created, aged past their lifetime and then presented by several
// goroutines while another goroutine runs the cleaner again and again (a
// spinning barrier lets them start together; new sessions for every round).
// Every request and every cleaner pass has to return; the expired cookies grant
// nothing; afterwards the server still answers.
func TestPropCleanerMeetsExpiredCookies(t *testing.T) {
	if replayed(t) {
		return
	}
	rapid.Check(t, func(t *rapid.T) {
		w := newWorld()
		w.setDev(t, false)
		nSess := rapid.SampledFrom([]int{10, 40, 150}).Draw(t, "sessions")
		rounds := rapid.SampledFrom([]int{20, 60, 150}).Draw(t, "rounds")
		readers := rapid.IntRange(1, 6).Draw(t, "presenting_goroutines")
		protected := handlerSpec{Kind: "raw", Read: pUser, Write: pUser}
		for r := 0; r < rounds; r++ {
			var cookies []string
			for i := 0; i < nSess; i++ {
				cookies = append(cookies, w.newSession(t, tok{R: pAdmin, W: pAdmin}))
			}
			w.age(6 * time.Minute)
			var start, ready, presented int32
			var ran int64
			done := make(chan struct{})
			var wg sync.WaitGroup
			for g := 0; g < readers; g++ {
				wg.Add(1)
				go func(g int) {
					defer wg.Done()
					defer atomic.AddInt32(&presented, 1)
					atomic.AddInt32(&ready, 1)
					for atomic.LoadInt32(&start) == 0 {
					}
					for i := range cookies {
						res := execute(reqSpec{H: protected, Method: http.MethodGet, Host: "portmaster.test", Cookie: cookieHdr(cookies[(i+g)%len(cookies)])})
						if res.returned && res.runs > 0 {
							atomic.AddInt64(&ran, 1)
						}
					}
				}(g)
			}
			wg.Add(1)
			go func() {
				defer wg.Done()
				atomic.AddInt32(&ready, 1)
				for atomic.LoadInt32(&start) == 0 {
				}
				// the first pass begins while the cookies are being presented, not before
				for t0 := time.Now(); time.Since(t0) < time.Duration((r*37)%300)*time.Microsecond; {
				}
				for atomic.LoadInt32(&presented) < int32(readers) {
					api.VerifCleanSessions()
				}
			}()
			go func() { wg.Wait(); close(done) }()
			for atomic.LoadInt32(&ready) < int32(readers+1) {
				time.Sleep(10 * time.Microsecond)
			}
			atomic.StoreInt32(&start, 1)
			select {
			case <-done:
			case <-time.After(hangBound):
				w.hangVerdict(fmt.Sprintf("a request with an expired session cookie, or the session cleaner (%d goroutines presenting %d expired cookies while the cleaner runs, round %d)", readers, nSess, r), "api.")
				t.Fatalf("C12 violated: requests with expired session cookies and the session cleaner did not all return within %s", hangBound)
			}
			if n := atomic.LoadInt64(&ran); n > 0 {
				t.Fatalf("C12 violated: %d requests presenting an expired session cookie (aged 6 min, lifetime 5 min) ran a handler that requires user permission", n)
			}
			// forget the model's view of the cleaned sessions
			for _, c := range cookies {
				delete(w.sessions, c)
			}
		}
		// the server still answers
		c := w.newSession(t, tok{R: pUser, W: pUser})
		res := execute(reqSpec{H: protected, Method: http.MethodGet, Host: "portmaster.test", Cookie: cookieHdr(c)})
		if !res.returned || res.runs == 0 {
			t.Fatalf("C12 violated: after %d rounds of expired cookies meeting the cleaner a request with a fresh session cookie was not served (returned=%v handler runs=%d status=%d)", rounds, res.returned, res.runs, res.status)
		}
		stats.Case(fmt.Sprintf("cleaner|%d|%d|%d", nSess, rounds, readers), true, "expired_cookies_presented_while_the_cleaner_runs")
	})
}
