//go:build verif

package c12

import (
	"encoding/base64"
	"fmt"
	"net/http"
	"strings"
	"sync"
	"testing"
	"time"

	"github.com/safing/portbase/api"
	"github.com/safing/portbase/config"
	"github.com/safing/portbase/database"

	"verifharness/internal/stats"
)

// ---------------------------------------------------------------- fixtures

var permWord = map[int]string{pAnyone: "anyone", pUser: "user", pAdmin: "admin"}

func keyName(r, w int) string { return fmt.Sprintf("key-r%d-w%d-3f9a6c0d2b", r, w) }

const (
	keyFuture  = "key-future-77aa10c2"
	keyExpired = "key-expired-5be1d9"
	keyShort   = "ab" // configured key shorter than four bytes
	keyBadPerm = "key-badperm-18cc"
	keyBadExp  = "key-badexpiry-42"
)

// fixtureKeyEntries: every state of a configured key.
func fixtureKeyEntries() []string {
	var l []string
	for r := pAnyone; r <= pAdmin; r++ {
		for w := pAnyone; w <= pAdmin; w++ {
			var params []string
			// "may be omitted": leave out anyone for half of the entries
			if r != pAnyone || (r+w)%2 == 0 {
				params = append(params, "read="+permWord[r])
			}
			if w != pAnyone || (r+w)%2 == 1 {
				params = append(params, "write="+permWord[w])
			}
			e := keyName(r, w)
			if len(params) > 0 {
				e += "?" + strings.Join(params, "&")
			}
			l = append(l, e)
		}
	}
	l = append(l,
		keyFuture+"?read=admin&write=admin&expires=2099-01-01T00:00:00Z",
		keyExpired+"?read=admin&write=admin&expires=1999-01-01T00:00:00Z",
		keyShort+"?read=user&write=user",
		"?read=admin&write=admin",  // no key at all
		" ?read=admin&write=admin", // a blank is a key like any other; it is not the empty key
		keyBadPerm+"?read=root&write=admin",
		keyBadExp+"?read=admin&write=admin&expires=tomorrow",
	)
	return l
}

func basic(user, pass string) string {
	return "Basic " + base64.StdEncoding.EncodeToString([]byte(user+":"+pass))
}

func basicKey(key string) string {
	cut := len(key) / 2
	return basic(key[:cut], key[cut:])
}

type cred struct {
	name   string
	class  string // statistics: credential source
	authz  string
	cookie string
	auth   string
	remote string
}

type fixture struct {
	made     time.Time
	sessions map[string]string // name -> cookie value
	creds    []cred
}

func cookieHdr(v string) string { return cookieName + "=" + v }

var sessionDyn = handlerSpec{Kind: "raw", Read: pDynamic, Write: pDynamic}

// newSession lets the authenticator vouch for a request, which creates a session.
func (w *world) newSession(t fataler, tk tok) string {
	q := reqSpec{H: sessionDyn, Method: http.MethodGet, Host: "portmaster.test", AuthSpec: fmt.Sprintf("tok:%d:%d", tk.R, tk.W)}
	res, _ := w.step(t, q)
	if res.newCookie == "" {
		t.Fatalf("no session cookie was issued for a request the authenticator vouched for (%s): status %d", q, res.status)
	}
	return res.newCookie
}

func (w *world) resetSession(t fataler, cookie string) {
	idx := -1
	for i, s := range w.sessNames {
		if s == cookie {
			idx = i
		}
	}
	w.logOp(jop{Op: "reset", Session: idx})
	q := reqSpec{H: handlerSpec{Kind: "meta-reset"}, Method: http.MethodGet, Host: "portmaster.test", Cookie: cookieHdr(cookie)}
	res := execute(q)
	if !res.returned {
		w.hangVerdict("the request "+q.String(), requestMarker)
	}
	if len(res.panics) > 0 {
		t.Fatalf("/auth/reset did not answer properly: %+v", res)
	}
	delete(w.sessions, cookie)
}

var authTokenValues = []int{-100, -2, -1, 0, 1, 2, 3, 4, 100}

// newFixture builds every credential state. Development mode must be off.
func (w *world) newFixture(t fataler) *fixture {
	fx := &fixture{made: time.Now(), sessions: map[string]string{}}
	add := func(c cred) { fx.creds = append(fx.creds, c) }

	add(cred{name: "none", class: "none"})

	// ---- API keys
	for r := pAnyone; r <= pAdmin; r++ {
		for wr := pAnyone; wr <= pAdmin; wr++ {
			add(cred{name: fmt.Sprintf("bearer-valid-%d-%d", r, wr), class: "key_bearer_valid", authz: "Bearer " + keyName(r, wr)})
			add(cred{name: fmt.Sprintf("basic-valid-%d-%d", r, wr), class: "key_basic_valid", authz: basicKey(keyName(r, wr))})
		}
	}
	add(cred{name: "bearer-future", class: "key_bearer_valid", authz: "Bearer " + keyFuture})
	add(cred{name: "basic-future", class: "key_basic_valid", authz: basicKey(keyFuture)})
	add(cred{name: "bearer-expired", class: "key_expired", authz: "Bearer " + keyExpired})
	add(cred{name: "basic-expired", class: "key_expired", authz: basicKey(keyExpired)})
	add(cred{name: "bearer-badperm", class: "key_misconfigured", authz: "Bearer " + keyBadPerm})
	add(cred{name: "bearer-badexpiry", class: "key_misconfigured", authz: "Bearer " + keyBadExp})
	add(cred{name: "bearer-unknown", class: "key_unknown", authz: "Bearer this-key-is-not-configured"})
	add(cred{name: "basic-unknown", class: "key_unknown", authz: basic("nobody", "nothing")})
	add(cred{name: "bearer-short-known", class: "key_bearer_valid", authz: "Bearer " + keyShort})
	add(cred{name: "basic-short-known", class: "key_basic_valid", authz: basic("a", "b")})
	add(cred{name: "basic-blank-known", class: "key_basic_valid", authz: basic(" ", "")})
	if !stats.Excl("c12.short_unknown_key") {
		add(cred{name: "bearer-short-3", class: "key_short_unknown", authz: "Bearer xyz"})
		add(cred{name: "bearer-short-1", class: "key_short_unknown", authz: "Bearer x"})
		add(cred{name: "basic-short-2", class: "key_short_unknown", authz: basic("x", "y")})
		add(cred{name: "basic-empty", class: "key_short_unknown", authz: basic("", "")})
		add(cred{name: "basic-not-base64", class: "key_short_unknown", authz: "Basic !!!not-base64!!!"})
		add(cred{name: "basic-no-colon", class: "key_short_unknown", authz: "Basic " + base64.StdEncoding.EncodeToString([]byte("nocolonhere"))})
	} else {
		stats.Excluded("c12.short_unknown_key")
	}
	add(cred{name: "scheme-token", class: "authz_malformed", authz: "Token " + keyName(pAdmin, pAdmin)})
	add(cred{name: "scheme-missing", class: "authz_malformed", authz: keyName(pAdmin, pAdmin)})
	add(cred{name: "bearer-no-key", class: "authz_malformed", authz: "Bearer"})
	add(cred{name: "basic-no-key", class: "authz_malformed", authz: "Basic"})
	add(cred{name: "digest", class: "authz_malformed", authz: `Digest username="admin", realm="x"`})

	// ---- bridge
	add(cred{name: "bridge", class: "bridge", remote: bridgeAddr})

	add(cred{name: "cookie-unknown", class: "cookie_unknown", cookie: cookieHdr("bm90LWEtc2Vzc2lvbi1rZXktYXQtYWxsLW5vLW5vLW5v")})
	add(cred{name: "cookie-other-name", class: "cookie_unknown", cookie: "Some-Other-Cookie=1; theme=dark"})

	if authMode {
		// ---- sessions: the aged-out one first (ageing hits every session)
		aged := w.newSession(t, tok{pAdmin, pAdmin})
		w.age(6 * time.Minute)
		add(cred{name: "cookie-aged-out", class: "cookie_expired", cookie: cookieHdr(aged)})

		reset := w.newSession(t, tok{pAdmin, pAdmin})
		w.resetSession(t, reset)
		add(cred{name: "cookie-reset", class: "cookie_reset", cookie: cookieHdr(reset)})

		for _, tk := range []tok{{pUser, pUser}, {pAdmin, pAdmin}, {pSelf, pSelf}, {pAdmin, pAnyone}, {pAnyone, pAdmin}, {100, pUser}, {pUser, 0}} {
			v := w.newSession(t, tk)
			add(cred{name: fmt.Sprintf("cookie-valid-%d-%d", tk.R, tk.W), class: "cookie_valid", cookie: cookieHdr(v)})
			if tk == (tok{pAdmin, pAdmin}) {
				add(cred{name: "cookie-valid-among-others", class: "cookie_valid", cookie: "theme=dark; " + cookieHdr(v) + "; lang=en"})
				// ---- several credentials at once
				add(cred{name: "unknown-key+valid-cookie", class: "combined", authz: "Bearer this-key-is-not-configured", cookie: cookieHdr(v)})
				add(cred{name: "valid-key+valid-cookie", class: "combined", authz: "Bearer " + keyName(pUser, pUser), cookie: cookieHdr(v)})
			}
		}
		add(cred{name: "aged-cookie+authenticator", class: "combined", cookie: cookieHdr(aged), auth: "tok:2:2"})
		add(cred{name: "valid-key+authenticator", class: "combined", authz: "Bearer " + keyName(pUser, pAnyone), auth: "tok:4:4"})
		add(cred{name: "expired-key+authenticator-denied", class: "combined", authz: "Bearer " + keyExpired, auth: "denied"})

		// ---- authenticator
		for _, r := range authTokenValues {
			for _, wr := range authTokenValues {
				add(cred{name: fmt.Sprintf("authenticator-%d-%d", r, wr), class: "authenticator_token", auth: fmt.Sprintf("tok:%d:%d", r, wr)})
			}
		}
		add(cred{name: "authenticator-error", class: "authenticator_error", auth: "err"})
		add(cred{name: "authenticator-denied", class: "authenticator_denied", auth: "denied"})
	}
	return fx
}

type methodVariant struct{ method, acrm string }

var methodVariants = []methodVariant{
	{http.MethodGet, ""}, {http.MethodHead, ""}, {http.MethodPost, ""}, {http.MethodPut, ""}, {http.MethodDelete, ""},
	{http.MethodPatch, ""}, {http.MethodOptions, ""},
	{http.MethodOptions, http.MethodGet}, {http.MethodOptions, http.MethodPost}, {http.MethodOptions, http.MethodPatch},
}

var hosts = []string{"portmaster.test", "127.0.0.1:817"}

// originsFor lists Origin headers of every class for a Host.
func originsFor(host string) []string {
	l := []string{
		"",
		"http://" + host,
		"https://" + host + "/some/path",
		"https://evil.example",
		"http://" + strings.Split(host, ":")[0] + ".evil.example",
		"http://" + host + ".evil.example:817",
		"chrome-extension://kfjbnhoicnmmmphphlnbenjhpkcklcbe",
		"http://localhost:4200",
		"http://127.0.0.1:4200",
		"http://localhost.evil.example",
		"http://[::1",
		":not-a-url",
		"null",
	}
	if strings.Contains(host, ":") {
		l = append(l, "http://"+strings.Split(host, ":")[0], "http://"+strings.Split(host, ":")[0]+":9999")
	} else {
		l = append(l, "http://"+host+":8080", "http://"+strings.ToUpper(host))
	}
	return l
}

// representative credentials for the full origin product
var originCredNames = map[string]bool{
	"none": true, "bearer-valid-3-3": true, "authenticator-3-3": true, "cookie-valid-3-3": true, "bridge": true, "authenticator-error": true,
}

// ---------------------------------------------------------------- statistics

type counters struct {
	n, nontrivial int64
	classes       map[string]int64
}

func newCounters() *counters { return &counters{classes: map[string]int64{}} }

func (c *counters) add(w *world, q reqSpec, cr cred, o outcome) {
	c.n++
	trivial := q.Origin == "" && cr.class == "none" && !w.dev
	if !trivial {
		c.nontrivial++
	}
	src := cr.class
	if w.dev {
		src = "dev_mode+" + src
	}
	c.classes["cred:"+src]++
	c.classes["origin:"+originClassName(classifyOrigin(q.Origin, q.Host, w.dev))]++
	switch o.run {
	case mustRun:
		c.classes["decision:handler_must_run"]++
	case mayRun:
		c.classes["decision:handler_may_run(options)"]++
	default:
		c.classes["decision:handler_must_not_run:"+o.why[:min(len(o.why), 28)]]++
	}
	c.classes["method:"+q.Method+acrmSuffix(q.ACRM)]++
	c.classes["handler:"+q.H.Kind]++
}

func acrmSuffix(a string) string {
	if a == "" {
		return ""
	}
	return "+acrm=" + a
}

func originClassName(c originClass) string {
	return map[originClass]string{originAbsent: "absent", originAllowed: "allowed", originRefused: "refused", originEither: "host_spelling_ambiguous"}[c]
}

func (c *counters) flush(class string) {
	stats.CaseN(c.n, c.nontrivial, class)
	for k, v := range c.classes {
		stats.ClassN(k, v)
	}
}

// ---------------------------------------------------------------- exhaustive

// handlerSpecs returns the handlers of the table: for every declared permission
// p of the class under test, the other class declares each contrast value.
func handlerSpecs(kind string, perms []int, contrasts []int) []handlerSpec {
	seen := map[handlerSpec]bool{}
	var l []handlerSpec
	for _, p := range perms {
		for _, o := range contrasts {
			for _, h := range []handlerSpec{{kind, p, o}, {kind, o, p}} {
				if !seen[h] {
					seen[h] = true
					l = append(l, h)
				}
			}
		}
	}
	return l
}

func inPerms(p int, l []int) bool { return inInts(p, l) }

// runTable enumerates handlers x methods x credentials x origins (x dev mode).
// fullOrigin: every origin for every credential; otherwise every origin for the
// representative credentials and {absent, same host} for all others.
func runTable(t *testing.T, w *world, specs []handlerSpec, credFilter func(cred) bool, fullOrigin bool, c *counters) {
	for _, dev := range []bool{false, true} {
		for _, h := range specs {
			w.compactLog()
			w.setDev(t, false)
			fx := w.newFixture(t)
			w.setDev(t, dev)
			for _, mv := range methodVariants {
				if h.Kind == "meta-permissions" && mv.method == http.MethodHead {
					continue // a HEAD answer has no body: whether portbase's own function ran cannot be observed
				}
				for _, cr := range fx.creds {
					if credFilter != nil && !credFilter(cr) {
						continue
					}
					for hi, host := range hosts {
						if hi > 0 && !(fullOrigin || originCredNames[cr.name]) {
							continue
						}
						for oi, origin := range originsFor(host) {
							if oi > 1 && !(fullOrigin || originCredNames[cr.name]) {
								break
							}
							q := reqSpec{H: h, Method: mv.method, ACRM: mv.acrm, Host: host, Origin: origin,
								Authz: cr.authz, Cookie: cr.cookie, AuthSpec: cr.auth, RemoteAddr: cr.remote}
							_, o := w.step(t, q)
							c.add(w, q, cr, o)
							if stats.WantSample("table_cell") && !dev && cr.class == "key_basic_valid" && origin != "" {
								stats.Sample("table_cell", map[string]any{"request": q.String(), "dev": dev, "expected": describe(w.decide(q))})
							}
						}
					}
				}
			}
		}
	}
	w.setDev(t, false)
}

func TestExhaustiveRawHandlers(t *testing.T) {
	if replayed(t) {
		return
	}
	if v := api.VerifSessionTTL().Seconds(); v != sessTTL {
		t.Fatalf("harness: session TTL is %v s, the model assumes %v s", v, sessTTL)
	}
	w := newWorld()
	w.setKeys(t, fixtureKeyEntries(), true)
	contrasts := []int{pNotSupported, pAnyone, pSelf}
	if stats.Thorough() {
		contrasts = declPerms
	}
	c := newCounters()
	runTable(t, w, handlerSpecs("raw", declPerms, contrasts), nil, stats.Thorough(), c)
	runTable(t, w, []handlerSpec{{Kind: "plain"}, {Kind: "ep-unknown"}, {Kind: "meta-permissions"}}, nil, stats.Thorough(), c)
	c.flush("exhaustive_raw_handlers")
	stats.Exhaustive("raw AuthenticatedHandler: declared permission {-100,NotFound,Dynamic,NotSupported,Anyone,User,Admin,Self,+100} x 10 method variants x every credential state x {no Origin, Origin = Host} x dev mode on/off; every Origin class x 2 hosts for 6 representative credentials")
	if stats.Thorough() {
		stats.Exhaustive("thorough: full product with every Origin class and all 81 read/write declarations")
	}
}

func TestExhaustiveWrappedHandlers(t *testing.T) {
	if replayed(t) {
		return
	}
	w := newWorld()
	w.setKeys(t, fixtureKeyEntries(), true)
	c := newCounters()
	runTable(t, w, handlerSpecs("wrap", declPerms, []int{pNotSupported, pSelf}), nil, false, c)
	c.flush("exhaustive_wrapped_handlers")
	stats.Exhaustive("WrapInAuthHandler: same table as raw handlers (other class declares NotSupported / Self)")
}

func TestExhaustiveEndpointsAction(t *testing.T) {
	if replayed(t) {
		return
	}
	exhaustiveEndpoints(t, []string{"action"})
	stats.Exhaustive("RegisterEndpoint ActionFunc endpoints: all 36 declared read/write pairs in {Dynamic,NotSupported,Anyone,User,Admin,Self}^2 x the raw handler table")
}

func TestExhaustiveEndpointsOtherTypes(t *testing.T) {
	if replayed(t) {
		return
	}
	exhaustiveEndpoints(t, []string{"data", "struct", "record", "handler"})
	stats.Exhaustive("RegisterEndpoint Data/Struct/Record/HandlerFunc endpoints: every declared permission per class (other class Self)")
}

func exhaustiveEndpoints(t *testing.T, types []string) {
	w := newWorld()
	w.setKeys(t, fixtureKeyEntries(), true)
	c := newCounters()
	for _, typ := range types {
		typ := typ
		// all 36 read/write declarations for the action type, every permission per class for the others
		var specs []handlerSpec
		if typ == "action" || stats.Thorough() {
			for _, r := range epPerms {
				for _, wr := range epPerms {
					specs = append(specs, handlerSpec{"ep:" + typ, r, wr})
				}
			}
		} else {
			specs = handlerSpecs("ep:"+typ, epPerms, []int{pSelf})
		}
		filter := func(cr cred) bool {
			if typ == "action" || stats.Thorough() {
				return true
			}
			// other function types: every credential class, but of the 81 authenticator tokens only those with equal read/write
			if cr.class == "authenticator_token" {
				var a, b int
				_, _ = fmt.Sscanf(cr.auth, "tok:%d:%d", &a, &b)
				return a == b
			}
			return true
		}
		runTable(t, w, specs, filter, false, c)
	}
	c.flush("exhaustive_endpoints")
}

// TestExhaustiveBridgeThroughDatabase drives the real database bridge: records of
// the "api" database are API calls made with the bridge address, which grants
// admin. Every endpoint type x declared permission, read (Get) and write (Put);
// keys that would leave /api/v1/ must not reach any handler.
func TestExhaustiveBridgeThroughDatabase(t *testing.T) {
	if replayed(t) {
		return
	}
	w := newWorld()
	w.setDev(t, false)
	db := database.NewInterface(&database.Options{Local: true, Internal: true})
	n := int64(0)
	take := func() (int, []*tok) {
		bridgeObs.mu.Lock()
		defer bridgeObs.mu.Unlock()
		r, tk := bridgeObs.runs, bridgeObs.tokens
		bridgeObs.runs, bridgeObs.tokens = 0, nil
		return r, tk
	}
	check := func(what string, need int, err error) {
		runs, toks := take()
		n++
		entitled := need == pDynamic || (validPerm(need) && need <= pAdmin)
		switch {
		case entitled && (runs != 1 || toks[0] == nil || *toks[0] != (tok{pAdmin, pAdmin})) && need != pAnyone:
			t.Fatalf("bridge %s (declared %d): handler runs %d tokens %s err %v; want one run with the admin token", what, need, runs, fmtToks(toks), err)
		case entitled && runs != 1:
			t.Fatalf("bridge %s (declared %d): handler runs %d err %v; want one run", what, need, runs, err)
		case !entitled && runs != 0:
			t.Fatalf("bridge %s (declared %d): handler ran %d time(s) although the bridge only holds admin", what, need, runs)
		case !entitled && err == nil:
			t.Fatalf("bridge %s (declared %d): refused call returned no error", what, need)
		}
	}
	take()
	for _, typ := range epTypes {
		for _, rd := range epPerms {
			for _, wr := range epPerms {
				key := "api:" + strings.TrimPrefix(epPath(typ, rd, wr), "/api/v1/")
				_, err := db.Get(key)
				check("Get "+key, rd, err)
				req := &api.EndpointBridgeRequest{Method: http.MethodPost, Data: []byte("x")}
				req.SetKey(key)
				err = db.Put(req)
				check("Put "+key, wr, err)
			}
		}
	}
	// scope: the key is joined to /api/v1/, nothing outside may be reached
	for _, key := range []string{"api:../../verif/raw/1/1", "api:../verif/raw/1/1", "api:/../../verif/plain", "api:..", "api:../v1/../../verif/dyn"} {
		_, err := db.Get(key)
		runs, _ := take()
		n++
		if runs != 0 {
			t.Fatalf("bridge Get %q reached a handler outside /api/v1/ (err %v)", key, err)
		}
	}
	stats.CaseN(n, n, "exhaustive_bridge_through_database")
	stats.Exhaustive("database bridge (api: records): every endpoint type x declared read/write permission via Get and Put, plus path scope escapes")
}

// ---------------------------------------------------------------- histories that need the clock

// TestHistoryKeyExpiresWhileConfigured: a key that is valid when it is imported
// and expires afterwards (while it is loaded) must stop granting anything, and
// presenting it must leave the server able to answer the following requests and
// to import keys. Wall-clock dependent: it conditions on clock readings taken
// around the requests (see keyState).
func TestHistoryKeyExpiresWhileConfigured(t *testing.T) {
	if replayed(t) {
		return
	}
	w := newWorld()
	w.setDev(t, false)
	const key = "key-expiring-soon-91c2"
	const permanent = "key-permanent-5d10"
	if !w.setKeysExpiring(t, []string{permanent + "?read=user&write=user"}, []expiringEntry{{Entry: key + "?read=admin&write=admin", AfterMs: 1500}}) {
		t.Skip("the key import took longer than the key lives; nothing can be said")
	}
	if _, ok := w.keys[key]; !ok {
		t.Fatalf("harness: the model does not list the soon-expiring key: %v", w.keys)
	}
	hs := []handlerSpec{{"raw", pAdmin, pAdmin}, {"raw", pUser, pUser}, {"ep:action", pAdmin, pAdmin}, {"raw", pDynamic, pDynamic}}
	creds := []string{"Bearer " + key, basicKey(key)}
	n := int64(0)
	for _, h := range hs {
		for _, m := range []string{http.MethodGet, http.MethodPost} {
			for _, a := range creds {
				// before the expiry the key grants admin (the model decides by the clock, with a margin)
				_, o := w.step(t, reqSpec{H: h, Method: m, Host: "portmaster.test", Authz: a})
				if o.g.src == "key" {
					stats.Class("expiry:checked_before_expiry")
				}
				n++
			}
		}
	}
	w.waitExpiry()
	for _, h := range hs {
		for _, m := range []string{http.MethodGet, http.MethodPost} {
			for _, a := range append(creds, "Bearer "+permanent, "Bearer not-configured-key", "") {
				// the expired key grants nothing; the other credentials are unaffected; every request returns
				w.step(t, reqSpec{H: h, Method: m, Host: "portmaster.test", Authz: a})
				stats.Class("expiry:checked_after_expiry")
				n++
			}
		}
	}
	// keys can still be changed afterwards
	w.setKeys(t, []string{permanent + "?read=admin&write=admin"}, false)
	w.step(t, reqSpec{H: handlerSpec{"raw", pAdmin, pAdmin}, Method: http.MethodGet, Host: "portmaster.test", Authz: "Bearer " + permanent})
	w.step(t, reqSpec{H: handlerSpec{"raw", pAdmin, pAdmin}, Method: http.MethodGet, Host: "portmaster.test", Authz: "Bearer " + key})
	w.setKeys(t, []string{}, false)
	stats.CaseN(n+2, n+2, "history_key_expires_while_configured")
}

// ---------------------------------------------------------------- regressions (fixed findings)

// TestRegShortUnknownKey: an unknown API key of fewer than four bytes (Bearer or
// Basic, including an undecodable Basic header) paniced the request worker.
func TestRegShortUnknownKey(t *testing.T) {
	if replayed(t) {
		return
	}
	w := newWorld()
	w.setDev(t, false)
	w.setKeys(t, fixtureKeyEntries(), true)
	for _, a := range []string{"Bearer xyz", "Bearer x", "Bearer ä", basic("x", "y"), basic("", ""), "Basic !!!not-base64!!!", "Basic bm9jb2xvbg=="} {
		for _, h := range []handlerSpec{{"raw", pDynamic, pDynamic}, {"raw", pUser, pUser}, {"wrap", pAnyone, pAdmin}, {"ep:action", pDynamic, pAdmin}, {Kind: "meta-permissions"}} {
			for _, m := range []string{http.MethodGet, http.MethodPost} {
				w.step(t, reqSpec{H: h, Method: m, Host: "portmaster.test", Authz: a})
			}
		}
	}
}

// TestRegConcurrentConfigWritesKeepServing: portbase removes expired API keys
// from the configuration by writing the option from a micro task. When that
// write overlapped with any other SetConfigOption, the two config.SaveConfig
// calls dead-locked each other (they locked all options in map order); after
// that every API request hung in devMode(). The history is replayed with
// several writers; afterwards a request must still be answered.
func TestRegConcurrentConfigWritesKeepServing(t *testing.T) {
	if replayed(t) {
		return
	}
	w := newWorld()
	w.setDev(t, false)
	done := make(chan struct{})
	go func() {
		defer close(done)
		var wg sync.WaitGroup
		for g := 0; g < 4; g++ {
			wg.Add(1)
			go func(g int) {
				defer wg.Done()
				for i := 0; i < 40; i++ {
					if g%2 == 0 {
						_ = config.SetConfigOption(api.CfgAPIKeys, []string{
							fmt.Sprintf("key-%d-%d-aaaa?read=user", g, i),
							"key-expired-5be1d9?read=admin&write=admin&expires=1999-01-01T00:00:00Z",
						})
					} else {
						_ = config.SetConfigOption(config.CfgDevModeKey, false)
					}
				}
			}(g)
		}
		wg.Wait()
	}()
	timer := time.NewTimer(60 * time.Second)
	defer timer.Stop()
	select {
	case <-done:
	case <-timer.C:
		dump := goroutineDump()
		t.Fatalf("configuration writers did not finish within 60s; %d goroutines are blocked in config.SaveConfig. API requests hang from here on.\n%s",
			strings.Count(dump, "config.SaveConfig"), clip2(dump, 6000))
	}
	w.setKeys(t, fixtureKeyEntries(), true)
	// cleanup tasks of the writes above may still rewrite the key list: stepStable only judges a settled configuration
	if _, _, ok := w.stepStable(t, reqSpec{H: handlerSpec{"raw", pUser, pUser}, Method: http.MethodGet, Host: "portmaster.test", Authz: "Bearer " + keyName(pUser, pUser)}); !ok {
		t.Fatalf("the key configuration did not settle after the concurrent writers finished")
	}
}

func clip2(s string, n int) string {
	if len(s) > n {
		return s[:n] + "\n..."
	}
	return s
}
