//go:build verif

// Package c15 decides C15: microtasks respect the concurrency limit, run exactly once and are fully accounted.
// In-process against one module system (started in TestMain, never shut down: "before shutdown begins").
package c15

import (
	"context"
	"encoding/json"
	"flag"
	"fmt"
	"os"
	"runtime"
	"sync"
	"sync/atomic"
	"testing"
	"time"

	"pgregory.net/rapid"

	"github.com/safing/portbase/log"
	"github.com/safing/portbase/modules"

	"verifharness/internal/stats"
)

var mods []*modules.Module

// limitBeforeStart is the microtask limit configured before modules.Start(); thresholdAfterStart is what is in force
// right after Start returned.
const limitBeforeStart = 3

var thresholdAfterStart int32

var stoppable *modules.Module

var (
	limitCases     int64
	saturatedCases int64
)

func TestMain(m *testing.M) {
	flag.Parse()
	log.SetAdapter(log.AdapterFunc(func(log.Message, uint64) {}))
	log.SetLogLevel(log.CriticalLevel)
	modules.SetStdErrReporting(false)
	for _, n := range []string{"c15a", "c15b"} {
		mods = append(mods, modules.Register(n, nil, nil, nil))
	}
	// a module that TestPropStoppedModuleObeysLimit stops on its own (module management) and starts again
	stoppable = modules.Register("c15c", nil, nil, nil)
	modules.VerifHook = hook
	// the limit is configured before the module system is started, as a program does it: Start has to leave it alone
	modules.SetMaxConcurrentMicroTasks(limitBeforeStart)
	if err := modules.Start(); err != nil {
		fmt.Fprintln(os.Stderr, "C15 set-up: modules.Start:", err)
		os.Exit(2)
	}
	_, thresholdAfterStart, _, _ = modules.VerifMicroTaskState()
	code := m.Run()
	if lc := atomic.LoadInt64(&limitCases); lc >= 20 {
		if sat := atomic.LoadInt64(&saturatedCases); sat*100 < lc*30 {
			stats.Warn("only %d of %d limit cases reached peak concurrency == limit (floor 30%%): generator too weak to see an over-admission", sat, lc)
		}
	}
	stats.Flush(code)
	os.Exit(code)
}

// perturbation at the guarded yield points (scheduler between granting and counting; conclude between the
// per-module decrement and the completion check)
var jitter atomic.Pointer[[]int]
var jitterIdx int64

func hook(point, _ string) {
	if point != "microtasks.sched.granted" && point != "modules.work.decremented" {
		return
	}
	j := jitter.Load()
	if j == nil || len(*j) == 0 {
		return
	}
	i := atomic.AddInt64(&jitterIdx, 1)
	if us := (*j)[int(i)%len(*j)]; us > 0 {
		time.Sleep(time.Duration(us) * time.Microsecond)
	}
}

type mtSpec struct {
	Variant string `json:"variant"` // run | start | signal
	Prio    string `json:"prio"`    // high | med | low
	HoldUS  int    `json:"hold_us"`
	Panic   bool   `json:"panic,omitempty"`
	Dones   int    `json:"dones,omitempty"` // signal variants: how often done() is called (1-3)
	DoneGo  bool   `json:"done_other_goroutine,omitempty"`
}

type caseSpec struct {
	Limit      int        `json:"limit"`
	LimitCase  bool       `json:"limit_case"` // no high priority, max delay 1h: the concurrency bound must hold
	MaxDelayMS int        `json:"max_delay_ms"`
	Submitters [][]mtSpec `json:"submitters"`
	Jitter     []int      `json:"jitter_us,omitempty"`
	// Reports: the error reporting channel of the module system while the case runs: "" none, "unread" a channel nobody
	// receives from, "full" a buffered channel that is full. Reporting a panic never waits for a receiver.
	Reports string `json:"error_reporting_channel,omitempty"`
}

func genCase(t *rapid.T) *caseSpec {
	c := &caseSpec{Limit: rapid.IntRange(2, 8).Draw(t, "limit")}
	c.LimitCase = rapid.IntRange(0, 2).Draw(t, "limitcase") != 0
	if c.LimitCase {
		c.MaxDelayMS = 3600 * 1000
	} else {
		c.MaxDelayMS = rapid.SampledFrom([]int{1, 5, 50, 3600 * 1000}).Draw(t, "maxdelay")
	}
	s := rapid.IntRange(1, 12).Draw(t, "submitters")
	if c.LimitCase && rapid.Bool().Draw(t, "pressure") {
		s = rapid.IntRange(c.Limit+1, 14).Draw(t, "manysubmitters")
	}
	for i := 0; i < s; i++ {
		n := rapid.IntRange(1, 5).Draw(t, "n")
		var seq []mtSpec
		for k := 0; k < n; k++ {
			m := mtSpec{
				Variant: rapid.SampledFrom([]string{"run", "run", "start", "signal"}).Draw(t, "variant"),
				Prio:    rapid.SampledFrom([]string{"med", "med", "low", "high"}).Draw(t, "prio"),
				HoldUS:  rapid.SampledFrom([]int{200, 500, 1000, 2500, 5000}).Draw(t, "hold"),
			}
			if c.LimitCase && m.Prio == "high" && rapid.IntRange(0, 2).Draw(t, "high_in_limit_case") != 0 {
				// most limit cases are without high-priority microtasks; in the others the bound is judged at the
				// moments at which none of them is running (it finished, the others go on)
				m.Prio = "med"
			}
			if m.Variant != "signal" {
				m.Panic = rapid.IntRange(0, 7).Draw(t, "panic") == 0
			} else {
				m.Dones = rapid.IntRange(1, 3).Draw(t, "dones")
				m.DoneGo = rapid.Bool().Draw(t, "donego")
			}
			seq = append(seq, m)
		}
		c.Submitters = append(c.Submitters, seq)
	}
	c.Reports = rapid.SampledFrom([]string{"", "", "unread", "full"}).Draw(t, "reports")
	if rapid.Bool().Draw(t, "jitter") {
		k := rapid.IntRange(1, 5).Draw(t, "jn")
		for i := 0; i < k; i++ {
			c.Jitter = append(c.Jitter, rapid.SampledFrom([]int{0, 0, 50, 300, 1500}).Draw(t, "jus"))
		}
	}
	return c
}

type fatalf interface{ Fatalf(string, ...any) }

type outcome struct {
	runs     int32
	returned bool
	err      error
}

func runCase(t fatalf, c *caseSpec) (peak int32) {
	modules.SetMaxConcurrentMicroTasks(c.Limit)
	jitter.Store(&c.Jitter)
	defer jitter.Store(nil)
	switch c.Reports {
	case "unread":
		modules.SetErrorReportingChannel(make(chan *modules.ModuleError))
	case "full":
		ch := make(chan *modules.ModuleError, 1)
		ch <- &modules.ModuleError{}
		modules.SetErrorReportingChannel(ch)
	default:
		modules.SetErrorReportingChannel(nil)
	}
	defer func() {
		// taking the channel away needs the lock that a report holds while it is made
		reset := make(chan struct{})
		go func() { modules.SetErrorReportingChannel(nil); close(reset) }()
		select {
		case <-reset:
		case <-time.After(20 * time.Second):
			buf := make([]byte, 1<<20)
			buf = buf[:runtime.Stack(buf, true)]
			js, _ := json.Marshal(c)
			fmt.Fprintf(os.Stderr, "C15-3-stuck: 20 s after the case the lock of the error reporting is still held: the report of a panicking microtask waits for a receiver on the error reporting channel (%s), its counts are never given back; case %s\n%s\n", c.Reports, js, buf)
			stats.Flush(1)
			os.Exit(1)
		}
	}()
	maxDelay := time.Duration(c.MaxDelayMS) * time.Millisecond

	var gauge, peakV, over int32 // medium+low functions currently executing
	var highRunning int32        // high-priority functions currently executing
	var wg sync.WaitGroup
	var mu sync.Mutex
	var problems []string
	problem := func(format string, a ...any) {
		mu.Lock()
		problems = append(problems, fmt.Sprintf(format, a...))
		mu.Unlock()
	}
	total := 0
	outcomes := make([][]*outcome, len(c.Submitters))
	for si, seq := range c.Submitters {
		outcomes[si] = make([]*outcome, len(seq))
		for k := range seq {
			outcomes[si][k] = &outcome{}
			total++
		}
	}
	startWg := sync.WaitGroup{} // Start* variants return at once: wait for their functions separately
	for si, seq := range c.Submitters {
		si, seq := si, seq
		m := mods[si%len(mods)]
		wg.Add(1)
		go func() {
			defer wg.Done()
			for k, spec := range seq {
				spec := spec
				o := outcomes[si][k]
				name := fmt.Sprintf("s%d.%d", si, k)
				// what the function returns: nothing, a plain error, or one of the values that managed code elsewhere
				// treats specially (a cancelled context is "no error" for service workers, not here)
				var wantErr error
				switch (si + 3*k) % 6 {
				case 0:
					wantErr = nil
				case 1, 2:
					wantErr = fmt.Errorf("err-%s", name)
				case 3:
					wantErr = context.Canceled
				case 4:
					wantErr = fmt.Errorf("err-%s: %w", name, context.Canceled)
				default:
					wantErr = context.DeadlineExceeded
				}
				body := func(ctx context.Context) error {
					atomic.AddInt32(&o.runs, 1)
					if spec.Prio == "high" {
						atomic.AddInt32(&highRunning, 1)
						defer atomic.AddInt32(&highRunning, -1)
					}
					if spec.Prio != "high" {
						noHighBefore := atomic.LoadInt32(&highRunning) == 0
						g := atomic.AddInt32(&gauge, 1)
						for {
							p := atomic.LoadInt32(&peakV)
							if g <= p || atomic.CompareAndSwapInt32(&peakV, p, g) {
								break
							}
						}
						if c.LimitCase && int(g) > c.Limit && noHighBefore && atomic.LoadInt32(&highRunning) == 0 {
							atomic.AddInt32(&over, 1)
						}
						defer atomic.AddInt32(&gauge, -1)
					}
					time.Sleep(time.Duration(spec.HoldUS) * time.Microsecond)
					if spec.Panic {
						panic("boom-" + name)
					}
					return wantErr
				}
				switch spec.Variant {
				case "run":
					var err error
					switch spec.Prio {
					case "high":
						err = m.RunHighPriorityMicroTask(name, body)
					case "med":
						err = m.RunMicroTask(name, maxDelay, body)
					default:
						err = m.RunLowPriorityMicroTask(name, maxDelay, body)
					}
					if spec.Panic {
						if ok, me := modules.IsPanic(err); !ok || me == nil || me.PanicValue != "boom-"+name {
							problem("C15-2-error: %s panicked but the blocking call returned %v", name, err)
						}
					} else if err != wantErr {
						problem("C15-2-error: %s returned %v to its caller, the function returned %v", name, err, wantErr)
					}
				case "start":
					startWg.Add(1)
					wrapped := func(ctx context.Context) error {
						defer startWg.Done()
						return body(ctx)
					}
					switch spec.Prio {
					case "high":
						m.StartHighPriorityMicroTask(name, wrapped)
					case "med":
						m.StartMicroTask(name, maxDelay, wrapped)
					default:
						m.StartLowPriorityMicroTask(name, maxDelay, wrapped)
					}
				case "signal":
					var done func()
					switch spec.Prio {
					case "high":
						done = m.SignalHighPriorityMicroTask()
					case "med":
						done = m.SignalMicroTask(maxDelay)
					default:
						done = m.SignalLowPriorityMicroTask(maxDelay)
					}
					func() {
						defer func() { _ = recover() }()
						_ = body(context.Background())
					}()
					call := func() {
						for i := 0; i < spec.Dones; i++ {
							done()
						}
					}
					if spec.DoneGo {
						startWg.Add(1)
						go func() { defer startWg.Done(); call() }()
					} else {
						call()
					}
				}
			}
		}()
	}
	finished := make(chan struct{})
	go func() { wg.Wait(); startWg.Wait(); close(finished) }()
	select {
	case <-finished:
	case <-time.After(120 * time.Second):
		running, thr, pm, pl := modules.VerifMicroTaskState()
		// whatever blocks them stays blocked: no further case (no shrinking either) can run in this process
		buf := make([]byte, 1<<20)
		buf = buf[:runtime.Stack(buf, true)]
		js, _ := json.Marshal(c)
		fmt.Fprintf(os.Stderr, "C15-3-stuck: microtasks did not all finish within 120 s (bodies last <= 5 ms): global count %d, limit %d, pending clearances %d/%d; case %s\n%s\n", running, thr, pm, pl, js, buf)
		stats.Flush(1)
		os.Exit(1)
	}

	// exactly once
	for si := range outcomes {
		for k, o := range outcomes[si] {
			if n := atomic.LoadInt32(&o.runs); n != 1 {
				t.Fatalf("C15-2-once: microtask s%d.%d (%+v) was executed %d times; case %+v", si, k, c.Submitters[si][k], n, *c)
			}
		}
	}
	if len(problems) > 0 {
		t.Fatalf("%s; case %+v", problems[0], *c)
	}
	if n := atomic.LoadInt32(&over); n > 0 {
		t.Fatalf("C15-1-limit: %d medium/low microtask starts saw more than %d (the limit) running, peak %d, with no high-priority microtask and no expired delay; case %+v", n, c.Limit, atomic.LoadInt32(&peakV), *c)
	}

	// quiescence: counters back to zero (stale clearance requests of timed-out waiters are drained by the scheduler)
	deadline := time.Now().Add(30 * time.Second)
	for {
		running, _, pm, pl := modules.VerifMicroTaskState()
		st := modules.GetStatus()
		perMod := 0
		for _, m := range mods {
			perMod += st.Modules[m.Name].MicroTasks
		}
		if running == 0 && pm == 0 && pl == 0 && perMod == 0 {
			break
		}
		if time.Now().After(deadline) {
			t.Fatalf("C15-3-counters: after all %d microtasks finished the global running count is %d, per-module counts sum to %d, pending clearances %d/%d (want all zero); case %+v", total, running, perMod, pm, pl, *c)
		}
		time.Sleep(200 * time.Microsecond)
	}
	// a fresh microtask is admitted by the scheduler (its own max delay cannot help: 1 h)
	probe := func() time.Duration {
		t0 := time.Now()
		admitted := make(chan struct{})
		go func() {
			_ = mods[0].RunMicroTask("probe", time.Hour, func(context.Context) error { close(admitted); return nil })
		}()
		select {
		case <-admitted:
		case <-time.After(30 * time.Second):
			running, thr, pm, pl := modules.VerifMicroTaskState()
			t.Fatalf("C15-3-admission: with nothing running a new microtask was not admitted within 30 s: global count %d, limit %d, pending %d/%d; case %+v", running, thr, pm, pl, *c)
		}
		return time.Since(t0)
	}
	first := probe()
	if first > 400*time.Millisecond {
		// "admitted immediately": a scheduler that went back to sleep although the counts are zero only wakes up at its
		// 1 s re-check. Slowness of the machine would slow the following probes down just the same, a lost wake-up does not.
		second, third := probe(), probe()
		if second < first/20 && third < first/20 {
			t.Fatalf("C15-3-admission-delayed: with all counts back to zero the first new microtask was admitted only after %s (the next two after %s and %s): the scheduler was not woken by the last completion; case %+v", first, second, third, *c)
		}
	}
	return atomic.LoadInt32(&peakV)
}

func TestPropMicroTasks(t *testing.T) {
	rapid.Check(t, func(t *rapid.T) {
		c := genCase(t)
		peak := runCase(t, c)
		n := 0
		for _, s := range c.Submitters {
			n += len(s)
		}
		cls := []string{fmt.Sprintf("limit_%d", c.Limit)}
		if c.LimitCase {
			cls = append(cls, "limit_case")
			atomic.AddInt64(&limitCases, 1)
			if int(peak) == c.Limit {
				cls = append(cls, "limit_case_saturated")
				atomic.AddInt64(&saturatedCases, 1)
			}
		} else {
			cls = append(cls, "accounting_case", fmt.Sprintf("maxdelay_%dms", c.MaxDelayMS))
		}
		if len(c.Jitter) > 0 {
			cls = append(cls, "with_jitter")
		}
		if c.Reports != "" {
			panics := false
			for _, sq := range c.Submitters {
				for _, x := range sq {
					panics = panics || x.Panic
				}
			}
			if panics {
				cls = append(cls, "panic_with_an_error_reporting_channel_that_is_"+c.Reports)
			}
		}
		stats.Case(fmt.Sprintf("%+v", *c), n >= 2 && len(c.Submitters) >= 2, cls...)
		if stats.WantSample("case") && len(c.Submitters) >= 3 {
			stats.Sample("case", map[string]any{"case": c, "peak_concurrency": peak})
		}
	})
}

// TestPropDoneConcurrent: "a done function obtained from the signal variants takes effect once no matter how often it
// is called" - also when several goroutines call it at the same moment. Each attempt releases k callers through one
// channel close; afterwards the global and per-module counts must be exactly zero (a double effect drives them negative
// and lets limit+1 microtasks in, a lost effect leaves them positive).
func TestPropDoneConcurrent(t *testing.T) {
	rapid.Check(t, func(t *rapid.T) {
		attempts := 4000
		callers := rapid.IntRange(2, 6).Draw(t, "callers")
		prio := rapid.SampledFrom([]string{"high", "high", "med", "low"}).Draw(t, "prio")
		spin := rapid.SampledFrom([]int{0, 0, 20, 200}).Draw(t, "spin")
		m := mods[rapid.IntRange(0, len(mods)-1).Draw(t, "module")]
		modules.SetMaxConcurrentMicroTasks(8)
		for a := 0; a < attempts; a++ {
			var done func()
			switch prio {
			case "high":
				done = m.SignalHighPriorityMicroTask()
			case "med":
				done = m.SignalMicroTask(time.Hour)
			default:
				done = m.SignalLowPriorityMicroTask(time.Hour)
			}
			start := make(chan struct{})
			var wg sync.WaitGroup
			for c := 0; c < callers; c++ {
				wg.Add(1)
				go func(c int) {
					defer wg.Done()
					<-start
					for i := 0; i < spin*c; i++ { // stagger the callers a little
						_ = i
					}
					done()
				}(c)
			}
			close(start)
			wg.Wait()
			if prio != "high" && a%64 != 0 {
				continue // clearance counting by the scheduler lags by design: settle only now and then
			}
			// the scheduler counts a clearance just after granting it, so the global count may dip below zero for a
			// moment: only a value that stays off zero is a verdict
			deadline := time.Now().Add(4 * time.Second)
			for {
				running, _, pm, pl := modules.VerifMicroTaskState()
				per := modules.GetStatus().Modules[m.Name].MicroTasks
				if running == 0 && per == 0 && pm == 0 && pl == 0 {
					break
				}
				if time.Now().After(deadline) {
					t.Fatalf("C15-2-done-once: after attempt %d (%d goroutines calling the same done function of a %s-priority signalled microtask at once) the global running count is %d and the module count %d, want 0", a, callers, prio, running, per)
				}
				time.Sleep(50 * time.Microsecond)
			}
		}
		// final settle
		deadline := time.Now().Add(4 * time.Second)
		for {
			running, _, pm, pl := modules.VerifMicroTaskState()
			per := modules.GetStatus().Modules[m.Name].MicroTasks
			if running == 0 && per == 0 && pm == 0 && pl == 0 {
				break
			}
			if time.Now().After(deadline) {
				t.Fatalf("C15-2-done-once: after %d attempts with %d concurrent callers (%s priority) the global running count is %d and the module count %d, want 0", attempts, callers, prio, running, per)
			}
			time.Sleep(50 * time.Microsecond)
		}
		stats.Case(fmt.Sprintf("done-storm %d %s %d", callers, prio, spin), true, "done_concurrent_"+prio)
		stats.ClassN("done_concurrent_attempts", int64(attempts))
		if stats.WantSample("done_concurrent") {
			stats.Sample("done_concurrent", map[string]any{"callers": callers, "priority": prio, "attempts": attempts, "stagger_spin": spin})
		}
	})
}

// TestPropClearanceQueueFull exercises the exits of the clearance functions that are taken when the clearance queue is
// full and the max delay expires. The queue holds 100 x GOMAXPROCS requests, so this only runs in the job that starts
// the test binary with GOMAXPROCS=1 (queue of 100).
func TestPropClearanceQueueFull(t *testing.T) {
	if runtime.GOMAXPROCS(0) != 1 {
		t.Skip("needs GOMAXPROCS=1 (job 'queuefull')")
	}
	rapid.Check(t, func(t *rapid.T) {
		if rapid.Bool().Draw(t, "limit_mode") {
			queueFullLimitCase(t)
			return
		}
		limit := rapid.IntRange(2, 4).Draw(t, "limit")
		extra := rapid.IntRange(5, 60).Draw(t, "extra")
		prio := rapid.SampledFrom([]string{"low", "low", "med"}).Draw(t, "prio")
		delayMS := rapid.SampledFrom([]int{5, 20, 60}).Draw(t, "maxdelay")
		modules.SetMaxConcurrentMicroTasks(limit)
		m := mods[0]
		release := make(chan struct{})
		var blockers sync.WaitGroup
		started := make(chan struct{}, limit)
		for i := 0; i < limit; i++ {
			blockers.Add(1)
			go func() {
				defer blockers.Done()
				_ = m.RunHighPriorityMicroTask("blocker", func(context.Context) error { started <- struct{}{}; <-release; return nil })
			}()
		}
		for i := 0; i < limit; i++ {
			<-started
		}
		// the limit is used up by the blockers: requests pile up in the clearance queue (100), the rest cannot even enqueue
		var ran int32
		var wg sync.WaitGroup
		n := 100 + extra
		for i := 0; i < n; i++ {
			wg.Add(1)
			go func() {
				defer wg.Done()
				fn := func(context.Context) error { atomic.AddInt32(&ran, 1); return nil }
				if prio == "low" {
					_ = m.RunLowPriorityMicroTask("filler", time.Duration(delayMS)*time.Millisecond, fn)
				} else {
					_ = m.RunMicroTask("filler", time.Duration(delayMS)*time.Millisecond, fn)
				}
			}()
		}
		done := make(chan struct{})
		go func() { wg.Wait(); close(done) }()
		select {
		case <-done:
		case <-time.After(120 * time.Second):
			close(release)
			t.Fatalf("C15-3-stuck: %d %s-priority microtasks with a max delay of %d ms did not all finish within 120 s", n, prio, delayMS)
		}
		close(release)
		blockers.Wait()
		if int(atomic.LoadInt32(&ran)) != n {
			t.Fatalf("C15-2-once: %d of %d microtasks were executed", ran, n)
		}
		deadline := time.Now().Add(30 * time.Second)
		for {
			running, _, pm, pl := modules.VerifMicroTaskState()
			per := modules.GetStatus().Modules[m.Name].MicroTasks
			if running == 0 && per == 0 && pm == 0 && pl == 0 {
				break
			}
			if time.Now().After(deadline) {
				t.Fatalf("C15-3-counters: after %d %s-priority microtasks overflowed the clearance queue (limit %d, max delay %d ms) and everything finished, the global running count is %d, the module count %d, pending clearances %d/%d (want all zero)", n, prio, limit, delayMS, running, per, pm, pl)
			}
			time.Sleep(200 * time.Microsecond)
		}
		stats.Case(fmt.Sprintf("queuefull %d %d %s %d", limit, extra, prio, delayMS), true, "clearance_queue_overflow_"+prio)
		if stats.WantSample("queuefull") {
			stats.Sample("queuefull", map[string]any{"limit": limit, "requests": n, "priority": prio, "max_delay_ms": delayMS})
		}
	})
}

// queueFullLimitCase: the limit is held by medium-priority microtasks, more medium/low requests than the clearance queue
// holds are waiting with a max delay of one hour, then the holders finish one by one. No max delay expires and no
// high-priority microtask runs, so at no time may more than the limit be executing - also not a request that could
// only enter the clearance queue after a place in it had become free.
func queueFullLimitCase(t *rapid.T) {
	limit := rapid.IntRange(2, 4).Draw(t, "limit")
	extra := rapid.IntRange(5, 60).Draw(t, "extra")
	prio := rapid.SampledFrom([]string{"low", "med", "med"}).Draw(t, "prio")
	pauseUS := rapid.SampledFrom([]int{0, 200, 2000}).Draw(t, "release_pause_us")
	modules.SetMaxConcurrentMicroTasks(limit)
	m := mods[0]
	var gauge, peak int32
	enter := func() {
		g := atomic.AddInt32(&gauge, 1)
		for {
			p := atomic.LoadInt32(&peak)
			if g <= p || atomic.CompareAndSwapInt32(&peak, p, g) {
				break
			}
		}
	}
	leave := func() { atomic.AddInt32(&gauge, -1) }
	releases := make([]chan struct{}, limit)
	var holders sync.WaitGroup
	started := make(chan struct{}, limit)
	for i := 0; i < limit; i++ {
		releases[i] = make(chan struct{})
		holders.Add(1)
		go func(rel chan struct{}) {
			defer holders.Done()
			_ = m.RunMicroTask("holder", time.Hour, func(context.Context) error {
				enter()
				started <- struct{}{}
				<-rel
				leave()
				return nil
			})
		}(releases[i])
	}
	for i := 0; i < limit; i++ {
		select {
		case <-started:
		case <-time.After(30 * time.Second):
			t.Fatalf("C15-3-stuck: %d holders did not start within 30 s on an idle scheduler", limit)
		}
	}
	var ran int32
	var wg sync.WaitGroup
	n := 100 + extra
	for i := 0; i < n; i++ {
		wg.Add(1)
		go func() {
			defer wg.Done()
			fn := func(context.Context) error {
				enter()
				atomic.AddInt32(&ran, 1)
				time.Sleep(100 * time.Microsecond)
				leave()
				return nil
			}
			if prio == "low" {
				_ = m.RunLowPriorityMicroTask("filler", time.Hour, fn)
			} else {
				_ = m.RunMicroTask("filler", time.Hour, fn)
			}
		}()
	}
	// let the requests pile up: the queue (100) is full, the rest are blocked on it
	deadline := time.Now().Add(10 * time.Second)
	for time.Now().Before(deadline) {
		_, _, pm, pl := modules.VerifMicroTaskState()
		if pm+pl >= 100 {
			break
		}
		time.Sleep(200 * time.Microsecond)
	}
	time.Sleep(2 * time.Millisecond)
	if r := atomic.LoadInt32(&ran); r != 0 {
		for _, rel := range releases {
			close(rel)
		}
		t.Fatalf("C15-1-limit: %d of the waiting %s-priority microtasks ran while %d medium-priority holders used up the limit of %d and no max delay (1 h) had expired", r, prio, limit, limit)
	}
	for _, rel := range releases {
		close(rel)
		if pauseUS > 0 {
			time.Sleep(time.Duration(pauseUS) * time.Microsecond)
		}
	}
	holders.Wait()
	done := make(chan struct{})
	go func() { wg.Wait(); close(done) }()
	select {
	case <-done:
	case <-time.After(120 * time.Second):
		t.Fatalf("C15-3-stuck: %d %s-priority microtasks did not all finish within 120 s after the limit was free again", n, prio)
	}
	if int(atomic.LoadInt32(&ran)) != n {
		t.Fatalf("C15-2-once: %d of %d microtasks were executed", ran, n)
	}
	if p := atomic.LoadInt32(&peak); int(p) > limit {
		t.Fatalf("C15-1-limit: %d medium/low-priority microtasks were executing at the same time, limit %d (no high priority, max delay 1 h; %d requests for a clearance queue of 100)", p, limit, n)
	}
	deadline = time.Now().Add(30 * time.Second)
	for {
		running, _, pm, pl := modules.VerifMicroTaskState()
		per := modules.GetStatus().Modules[m.Name].MicroTasks
		if running == 0 && per == 0 && pm == 0 && pl == 0 {
			break
		}
		if time.Now().After(deadline) {
			t.Fatalf("C15-3-counters: after the clearance queue overflowed (limit %d) and everything finished, the global running count is %d, the module count %d, pending clearances %d/%d (want all zero)", limit, running, per, pm, pl)
		}
		time.Sleep(200 * time.Microsecond)
	}
	stats.Case(fmt.Sprintf("queuefull-limit %d %d %s %d", limit, extra, prio, pauseUS), true, "clearance_queue_overflow_limit_held_"+prio)
}

// TestRegLimitConfiguredBeforeStart: "at most the configured number ... execute at the same time" - the number
// configured before the module system was started. TestMain configures 3 before modules.Start() and reads what the
// scheduler works with right after Start.
func TestRegLimitConfiguredBeforeStart(t *testing.T) {
	if thresholdAfterStart != limitBeforeStart {
		t.Fatalf("C15-1-limit: the limit was set to %d before modules.Start(); after Start the scheduler works with %d", limitBeforeStart, thresholdAfterStart)
	}
}
