package c15

import (
	"context"
	"fmt"
	"runtime"
	"sync"
	"sync/atomic"
	"testing"
	"time"

	"pgregory.net/rapid"

	"github.com/safing/portbase/modules"

	"verifharness/internal/stats"
)

// A burst onto an idle system: nothing is running, and several goroutines submit
// a medium- or low-priority microtask at the same moment. The limit holds from
// the first of them on - an idle system is no reason to admit without counting.
// (The histories of TestPropMicroTasks start their submitters one after the
// other; here they wait at a barrier, again and again, each round from idle.)
func TestPropBurstOntoIdleSystem(t *testing.T) {
	rapid.Check(t, func(t *rapid.T) {
		limit := rapid.IntRange(2, 4).Draw(t, "limit")
		k := rapid.IntRange(limit+1, limit+8).Draw(t, "submitters")
		rounds := rapid.SampledFrom([]int{100, 300, 800}).Draw(t, "rounds")
		low := rapid.IntRange(0, k).Draw(t, "low_priority_submitters")
		holdUS := rapid.SampledFrom([]int{0, 20, 200}).Draw(t, "hold_us")
		modules.SetMaxConcurrentMicroTasks(limit)
		count := func() int32 { n, _, _, _ := modules.VerifMicroTaskState(); return n }
		var over, peak int32
		for r := 0; r < rounds; r++ {
			deadline := time.Now().Add(30 * time.Second)
			for count() != 0 && time.Now().Before(deadline) {
				time.Sleep(50 * time.Microsecond)
			}
			if n := count(); n != 0 {
				t.Fatalf("C15-3-counters: global microtask count is %d although nothing runs (round %d)", n, r)
			}
			var gauge int32
			var start, ready int32 // a spinning barrier: the submitters leave it within nanoseconds of each other
			var wg sync.WaitGroup
			for i := 0; i < k; i++ {
				wg.Add(1)
				go func(i int) {
					defer wg.Done()
					body := func(context.Context) error {
						g := atomic.AddInt32(&gauge, 1)
						for {
							p := atomic.LoadInt32(&peak)
							if g <= p || atomic.CompareAndSwapInt32(&peak, p, g) {
								break
							}
						}
						if int(g) > limit {
							atomic.AddInt32(&over, 1)
						}
						time.Sleep(time.Duration(holdUS) * time.Microsecond)
						atomic.AddInt32(&gauge, -1)
						return nil
					}
					atomic.AddInt32(&ready, 1)
					for atomic.LoadInt32(&start) == 0 {
					}
					if i < low {
						_ = mods[i%len(mods)].RunLowPriorityMicroTask("burst", time.Hour, body)
					} else {
						_ = mods[i%len(mods)].RunMicroTask("burst", time.Hour, body)
					}
				}(i)
			}
			for atomic.LoadInt32(&ready) < int32(k) {
				runtime.Gosched()
			}
			atomic.StoreInt32(&start, 1)
			wg.Wait()
			if n := atomic.LoadInt32(&over); n > 0 {
				t.Fatalf("C15-1-limit: %d goroutines (%d low priority) submitted a microtask to an idle system at the same moment: %d of them found more than %d (the limit) running, peak %d; no high-priority microtask, maximum delay 1 h (round %d of %d)", k, low, n, limit, atomic.LoadInt32(&peak), r, rounds)
			}
		}
		cls := "burst_peak_below_limit"
		if int(atomic.LoadInt32(&peak)) == limit {
			cls = "burst_peak_reached_the_limit"
		}
		stats.Case(fmt.Sprintf("burst|%d|%d|%d|%d|%d", limit, k, rounds, low, holdUS), true, "burst_onto_idle_system", cls)
	})
}
