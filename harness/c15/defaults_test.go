package c15

import (
	"context"
	"encoding/json"
	"fmt"
	"sync"
	"sync/atomic"
	"testing"
	"time"

	"pgregory.net/rapid"

	"github.com/safing/portbase/modules"

	"verifharness/internal/stats"
)

// Default maximum delays. A medium- or low-priority microtask submitted through
// Run*/Start* with a maximum delay <= 0 gets the documented default (1 s medium,
// 3 s low): until that has expired it must not run past the limit.
//
// The limit is held by L medium-priority microtasks that the test releases after
// a drawn time; the probes are submitted once all holders run. A probe that
// starts while every holder is still running has been admitted past the limit:
// that is allowed only from its default delay on. (The Signal* variants are left
// out: their comments promise the same default, the code passes 0 on and the
// repository's own ordering test relies on that.)

type defaultProbe struct {
	Variant string `json:"variant"` // run | start
	Prio    string `json:"prio"`    // med | low
	Delay   int    `json:"delay"`   // 0 or negative: both mean "use the default"
}

type defaultCase struct {
	Limit     int            `json:"limit"`
	ReleaseMS int            `json:"release_ms"`
	Probes    []defaultProbe `json:"probes"`
}

func defaultDelayOf(prio string) time.Duration {
	if prio == "low" {
		return 3 * time.Second
	}
	return time.Second
}

func runDefaultCase(t fatalf, c *defaultCase) {
	modules.SetMaxConcurrentMicroTasks(c.Limit)
	m := mods[0]
	js, _ := json.Marshal(c)

	var released atomic.Bool
	release := make(chan struct{})
	var holders sync.WaitGroup
	running := make(chan struct{}, c.Limit)
	for i := 0; i < c.Limit; i++ {
		holders.Add(1)
		go func() {
			defer holders.Done()
			_ = m.RunMicroTask("holder", time.Hour, func(context.Context) error {
				running <- struct{}{}
				<-release
				return nil
			})
		}()
	}
	for i := 0; i < c.Limit; i++ {
		select {
		case <-running:
		case <-time.After(30 * time.Second):
			t.Fatalf("C15-defaults: the %d holders did not all start within 30 s although nothing else runs; case %s", c.Limit, js)
		}
	}

	type result struct {
		runs          int32
		sinceSubmit   time.Duration
		beforeRelease bool
	}
	res := make([]result, len(c.Probes))
	var probes sync.WaitGroup
	for i, p := range c.Probes {
		probes.Add(1)
		i, p := i, p
		submitted := time.Now()
		body := func(context.Context) error {
			defer probes.Done()
			res[i].beforeRelease = !released.Load()
			res[i].sinceSubmit = time.Since(submitted)
			atomic.AddInt32(&res[i].runs, 1)
			time.Sleep(2 * time.Millisecond)
			return nil
		}
		d := time.Duration(p.Delay)
		name := fmt.Sprintf("probe%d", i)
		switch {
		case p.Variant == "run" && p.Prio == "med":
			go func() { _ = m.RunMicroTask(name, d, body) }()
		case p.Variant == "run":
			go func() { _ = m.RunLowPriorityMicroTask(name, d, body) }()
		case p.Prio == "med":
			m.StartMicroTask(name, d, body)
		default:
			m.StartLowPriorityMicroTask(name, d, body)
		}
	}

	time.Sleep(time.Duration(c.ReleaseMS) * time.Millisecond)
	released.Store(true)
	close(release)
	holders.Wait()
	done := make(chan struct{})
	go func() { probes.Wait(); close(done) }()
	select {
	case <-done:
	case <-time.After(60 * time.Second):
		t.Fatalf("C15-defaults: not every probe ran within 60 s after the limit was free again; case %s", js)
	}
	for i, p := range c.Probes {
		r := res[i]
		if n := atomic.LoadInt32(&r.runs); n != 1 {
			t.Fatalf("C15-defaults: probe %d ran %d times; case %s", i, n, js)
		}
		if r.beforeRelease && r.sinceSubmit < defaultDelayOf(p.Prio)-5*time.Millisecond {
			t.Fatalf("C15-limit-default-delay: probe %d (%s, %s priority, max delay %d = default %s) started %s after its submission while all %d holders were still running: admitted past the limit before its maximum delay expired; case %s",
				i, p.Variant, p.Prio, p.Delay, defaultDelayOf(p.Prio), r.sinceSubmit, c.Limit, js)
		}
		switch {
		case r.beforeRelease:
			stats.Class("default_delay_probe_admitted_past_the_limit_after_its_delay")
		default:
			stats.Class("default_delay_probe_waited_for_a_free_slot")
		}
	}
	// quiescence: the counts are back to zero, so the next case starts clean
	deadline := time.Now().Add(30 * time.Second)
	count := func() int32 { n, _, _, _ := modules.VerifMicroTaskState(); return n }
	for count() != 0 && time.Now().Before(deadline) {
		time.Sleep(time.Millisecond)
	}
	if n := count(); n != 0 {
		t.Fatalf("C15-defaults: global microtask count is %d after everything finished; case %s", n, js)
	}
}

func TestPropDefaultDelays(t *testing.T) {
	rapid.Check(t, func(t *rapid.T) {
		c := &defaultCase{
			Limit:     rapid.IntRange(2, 3).Draw(t, "limit"),
			ReleaseMS: rapid.SampledFrom([]int{300, 1400, 1400}).Draw(t, "release_ms"),
		}
		n := rapid.IntRange(1, 4).Draw(t, "probes")
		for i := 0; i < n; i++ {
			c.Probes = append(c.Probes, defaultProbe{
				Variant: rapid.SampledFrom([]string{"run", "start"}).Draw(t, "variant"),
				Prio:    rapid.SampledFrom([]string{"med", "low", "low"}).Draw(t, "prio"),
				Delay:   rapid.SampledFrom([]int{0, 0, -1}).Draw(t, "delay"),
			})
		}
		runDefaultCase(t, c)
		js, _ := json.Marshal(c)
		stats.Case("defaults"+string(js), true, fmt.Sprintf("default_delay_release_%dms", c.ReleaseMS))
		if stats.WantSample("default_delays") {
			stats.Sample("default_delays", c)
		}
	})
}
