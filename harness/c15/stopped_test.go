package c15

import (
	"context"
	"fmt"
	"sync"
	"sync/atomic"
	"testing"
	"time"

	"pgregory.net/rapid"

	"github.com/safing/portbase/modules"

	"verifharness/internal/stats"
)

// "Before shutdown begins ... at most the configured number of medium- and
// low-priority microtasks execute at the same time": also microtasks of a module
// that has been stopped on its own (module management) while the rest of the
// program goes on - a flush that its stop left behind, a caller that still
// holds the module. Their context is cancelled; the limit is the same.
//
// The limit is held by medium-priority holders on a module that is online.
// Probes (medium and low priority, maximum delay one hour) are submitted to the
// stopped module. A probe that starts while every holder is still running has
// been admitted past the limit. The test waits 120 ms before it releases the
// holders: on the unchanged code no probe can start in that time, however long
// or short it is, so the wait is not a verdict by the clock.

func TestPropStoppedModuleObeysLimit(t *testing.T) {
	rapid.Check(t, func(t *rapid.T) {
		limit := rapid.IntRange(2, 4).Draw(t, "limit")
		nProbes := rapid.IntRange(1, 5).Draw(t, "probes")
		type probe struct{ variant, prio string }
		var probes []probe
		for i := 0; i < nProbes; i++ {
			probes = append(probes, probe{
				variant: rapid.SampledFrom([]string{"run", "start"}).Draw(t, "variant"),
				prio:    rapid.SampledFrom([]string{"med", "low"}).Draw(t, "prio"),
			})
		}
		modules.SetMaxConcurrentMicroTasks(limit)
		modules.EnableModuleManagement(nil)
		defer modules.DisableModuleManagement()
		for _, m := range mods {
			m.Enable()
		}
		stoppable.Disable()
		if err := modules.ManageModules(); err != nil {
			t.Fatalf("harness: stopping module c15c with a management pass failed: %v", err)
		}
		defer func() {
			stoppable.Enable()
			if err := modules.ManageModules(); err != nil {
				t.Fatalf("harness: starting module c15c again failed: %v", err)
			}
		}()
		if stoppable.Online() {
			t.Fatalf("harness: module c15c is still online after it was disabled and a management pass ran")
		}

		var released atomic.Bool
		release := make(chan struct{})
		var holders sync.WaitGroup
		running := make(chan struct{}, limit)
		for i := 0; i < limit; i++ {
			holders.Add(1)
			go func() {
				defer holders.Done()
				_ = mods[0].RunMicroTask("holder", time.Hour, func(context.Context) error {
					running <- struct{}{}
					<-release
					return nil
				})
			}()
		}
		for i := 0; i < limit; i++ {
			select {
			case <-running:
			case <-time.After(30 * time.Second):
				close(release)
				t.Fatalf("C15-stopped: the %d holders did not all start within 30 s although nothing else runs", limit)
			}
		}
		var early, runs int32
		var done sync.WaitGroup
		for i, p := range probes {
			done.Add(1)
			body := func(context.Context) error {
				defer done.Done()
				if !released.Load() {
					atomic.AddInt32(&early, 1)
				}
				atomic.AddInt32(&runs, 1)
				return nil
			}
			name := fmt.Sprintf("probe%d", i)
			switch {
			case p.variant == "run" && p.prio == "med":
				go func() { _ = stoppable.RunMicroTask(name, time.Hour, body) }()
			case p.variant == "run":
				go func() { _ = stoppable.RunLowPriorityMicroTask(name, time.Hour, body) }()
			case p.prio == "med":
				stoppable.StartMicroTask(name, time.Hour, body)
			default:
				stoppable.StartLowPriorityMicroTask(name, time.Hour, body)
			}
		}
		time.Sleep(120 * time.Millisecond)
		e := atomic.LoadInt32(&early)
		released.Store(true)
		close(release)
		holders.Wait()
		if e > 0 {
			t.Fatalf("C15-1-limit: %d of %d microtasks (%v) submitted to the stopped module c15c started while %d medium-priority holders used up the limit of %d; no shutdown has begun, no high-priority microtask runs and no maximum delay (1 h) has expired", e, nProbes, probes, limit, limit)
		}
		fin := make(chan struct{})
		go func() { done.Wait(); close(fin) }()
		select {
		case <-fin:
		case <-time.After(60 * time.Second):
			t.Fatalf("C15-2-once: only %d of the %d microtasks submitted to the stopped module c15c were executed within 60 s after the limit was free again", atomic.LoadInt32(&runs), nProbes)
		}
		deadline := time.Now().Add(30 * time.Second)
		count := func() int32 { n, _, _, _ := modules.VerifMicroTaskState(); return n }
		for count() != 0 && time.Now().Before(deadline) {
			time.Sleep(time.Millisecond)
		}
		if n := count(); n != 0 {
			t.Fatalf("C15-3-counters: global microtask count is %d after everything finished", n)
		}
		stats.Case(fmt.Sprintf("stopped|%d|%v", limit, probes), true, "microtasks_of_an_individually_stopped_module_wait_for_the_limit")
		if stats.WantSample("stopped_module") {
			stats.Sample("stopped_module", map[string]any{"limit": limit, "probes": fmt.Sprint(probes)})
		}
	})
}
