//go:build verif

package c15

import (
	"encoding/json"
	"errors"
	"fmt"
	"testing"
	"time"

	"pgregory.net/rapid"

	"verifharness/internal/stats"
	"verifharness/modsim"
)

// TestPropStopNotHeldUp: "... the global and per-module running counts are zero again, so ... module stops are not
// held up". Microtasks of every variant and priority are in flight when their module is stopped (in a child process,
// because a module system stops only once); each returns a drawn time after the cancellation, before or after the stop
// routine. The stop must complete promptly once the last one has returned (oracle: modsim.CheckC05, clauses 2-4).
func TestPropStopNotHeldUp(t *testing.T) {
	kinds := []string{"run_mt_high", "run_mt_med", "run_mt_low", "start_mt_high", "start_mt_med", "start_mt_low", "sig_mt_high", "sig_mt_med", "sig_mt_low"}
	rapid.Check(t, func(t *rapid.T) {
		sc := &modsim.Scenario{StartTimeoutMS: 20000, StopTimeoutMS: 8000}
		sc.Modules = modsim.GenGraph(t, 1, 3)
		id := 0
		for i := range sc.Modules {
			n := rapid.IntRange(0, 3).Draw(t, "n")
			if i == len(sc.Modules)-1 && n == 0 {
				n = 1
			}
			for j := 0; j < n; j++ {
				id++
				w := modsim.Work{ID: id, Kind: rapid.SampledFrom(kinds).Draw(t, "kind"), Mode: "waitctx",
					DelayUS: rapid.SampledFrom([]int{0, 300, 2000, 6000, 20000}).Draw(t, "delay")}
				if rapid.IntRange(0, 4).Draw(t, "finishes") == 0 {
					w.Mode, w.HoldUS, w.DelayUS = "finish", rapid.SampledFrom([]int{0, 500, 3000}).Draw(t, "hold"), 0
				}
				sc.Modules[i].Work = append(sc.Modules[i].Work, w)
			}
			sc.Modules[i].Stop.DurUS = rapid.SampledFrom([]int{0, 1, 1000, 4000}).Draw(t, "stopdur")
		}
		var names []string
		for _, m := range sc.Modules {
			names = append(names, m.Name)
		}
		sc.MicroTaskLimit = rapid.IntRange(2, 8).Draw(t, "limit")
		sc.Steps = []modsim.Step{{Op: "start"}, {Op: "launch", Mods: names}, {Op: "shutdown"}}
		if rapid.IntRange(0, 2).Draw(t, "straddle") == 0 {
			// microtasks are started on the last module while it is not online (not started yet, or stopped by a
			// management pass) and are still running when it is started: once they have finished, the counts are zero
			// again and the module's stop is not held up
			x := names[len(names)-1]
			sc.Mgmt = true
			us := rapid.SampledFrom([]int{20000, 60000}).Draw(t, "straddle_us")
			again := "relaunch"
			if rapid.Bool().Draw(t, "never_started") {
				again = "launch"
				sc.Enabled = names[:len(names)-1]
				sc.Steps = []modsim.Step{{Op: "start"}, {Op: "launch", Mods: names}}
			} else {
				sc.Enabled = names
				sc.Steps = []modsim.Step{{Op: "start"}, {Op: "launch", Mods: names}, {Op: "disable", Mods: []string{x}}, {Op: "manage"}}
			}
			sc.Steps = append(sc.Steps, modsim.Step{Op: "straddle", Mods: []string{x}, US: us}, modsim.Step{Op: "enable", Mods: []string{x}}, modsim.Step{Op: "manage"},
				modsim.Step{Op: "waitstraddle"}, modsim.Step{Op: again, Mods: []string{x}}, modsim.Step{Op: "shutdown"})
		}
		sc.Delays = modsim.GenDelays(t, sc.Modules, 2)
		res, err := modsim.RunScenario(sc, 300*time.Second)
		b, _ := json.Marshal(sc)
		if errors.Is(err, modsim.ErrChildTimeout) {
			t.Fatalf("C15-3-stop-held-up: child did not terminate within 300 s\nscenario: %s", b)
		}
		if err != nil {
			t.Fatalf("C15-process-died: %v\nscenario: %s", err, b)
		}
		if v := modsim.CheckC05(sc, res); v != nil {
			t.Fatalf("C15-3-stop-held-up/%s\nscenario: %s\nevents:%s", v.Error(), b, modsim.RenderEvents(res.Events, 100))
		}
		// "every submitted microtask function is executed exactly once": also the ones submitted to a module that is not
		// online - the child waits 20 s for each of them to begin
		for _, e := range res.Events {
			if e.Kind == "straddle-incomplete" {
				t.Fatalf("C15-2-executed-once: a microtask submitted to module %s while it was not online (not started yet, or stopped by a management pass) had not begun 20 s later although the limit was free\nscenario: %s\nevents:%s", e.Mod, b, modsim.RenderEvents(res.Events, 100))
			}
		}
		cls, running := modsim.C05Stats(sc, res)
		classes := []string{fmt.Sprintf("stop_with_%d_microtasks_in_flight", min(running, 4))}
		for _, c := range cls {
			if c == "microtask_running_across_module_start" || c == "module_restarted_and_work_relaunched" {
				classes = append(classes, c)
			}
		}
		stats.Case("stop:"+sc.Fingerprint(), running > 0, classes...)
		if running > 0 && stats.WantSample("stop") {
			stats.Sample("stop", map[string]any{"scenario": sc, "events": modsim.RenderEvents(res.Events, 40)})
		}
	})
}
