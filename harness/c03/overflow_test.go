package c03

import (
	"fmt"
	"testing"
	"time"

	"github.com/safing/portbase/database"
	"github.com/safing/portbase/database/query"
	"github.com/safing/portbase/database/record"
	"pgregory.net/rapid"

	"verifharness/internal/stats"
)

// A subscriber whose feed is full. Feeds hold 1000 updates; a privileged
// subscriber that has stopped reading is skipped from then on. Whatever the
// database does about such a subscriber, the updates it cannot take must not end
// up with anybody else: subscribers that lack a privilege are registered before
// and after the stalled one, flagged records are written while its feed is full,
// and none of them may reach a feed whose owner may not see them.
//
// The feeds of the other subscribers are read all the time (they never
// overflow). After the flagged writes the test waits 150 ms for stragglers: on
// the unchanged code nothing can arrive, so the wait cannot raise a false alarm.

func TestPropFullFeedOfAnotherSubscriber(t *testing.T) {
	rapid.Check(t, func(t *rapid.T) {
		backend := rapid.SampledFrom([]string{beHashmap, beHashmap, beBbolt}).Draw(t, "backend")
		p, err := openPlace(backend, rapid.Bool().Draw(t, "shadow"))
		if err != nil {
			t.Fatalf("harness: %v", err)
		}
		priv := database.NewInterface(&database.Options{Local: true, Internal: true})
		q := func() *query.Query { return query.New(p.fullKey("overflow/")) }
		type watcher struct {
			local, internal bool
			sub             *database.Subscription
			got             chan record.Record
		}
		var ws []*watcher
		addWatcher := func(label string) {
			who := rapid.SampledFrom([][2]bool{{true, false}, {false, true}, {false, false}}).Draw(t, label)
			w := &watcher{local: who[0], internal: who[1], got: make(chan record.Record, 4096)}
			w.sub, err = database.NewInterface(&database.Options{Local: w.local, Internal: w.internal}).Subscribe(q())
			if err != nil {
				t.Fatalf("harness: Subscribe: %v", err)
			}
			go func() {
				for r := range w.sub.Feed {
					w.got <- r
				}
				close(w.got)
			}()
			ws = append(ws, w)
		}
		for i := rapid.IntRange(0, 2).Draw(t, "watchers_before"); i > 0; i-- {
			addWatcher("before")
		}
		stalled, err := priv.Subscribe(q())
		if err != nil {
			t.Fatalf("harness: Subscribe: %v", err)
		}
		for i := rapid.IntRange(1, 2).Draw(t, "watchers_after"); i > 0; i-- {
			addWatcher("after")
		}
		defer func() {
			_ = stalled.Cancel()
			for _, w := range ws {
				_ = w.sub.Cancel()
			}
		}()
		// fill the stalled feed (and a little more) with unflagged updates
		fill := 1000 + rapid.IntRange(0, 5).Draw(t, "beyond_full")
		for i := 0; i < fill; i++ {
			k := p.fullKey(fmt.Sprintf("overflow/f%d", i%7))
			if err := priv.Put(newWrapper(k, []byte(`{"V":"plain"}`), false, false, false)); err != nil {
				t.Fatalf("harness: Put: %v", err)
			}
		}
		if len(stalled.Feed) != cap(stalled.Feed) {
			t.Fatalf("harness: the stalled feed holds %d of %d updates after %d writes", len(stalled.Feed), cap(stalled.Feed), fill)
		}
		// flagged records while that feed is full
		m := rapid.IntRange(1, 30).Draw(t, "flagged_writes")
		flaggedKeys := map[string][2]bool{}
		for i := 0; i < m; i++ {
			secret := rapid.Bool().Draw(t, "secret")
			crown := !secret || rapid.Bool().Draw(t, "crown")
			k := p.fullKey(fmt.Sprintf("overflow/x%d", i))
			if err := priv.Put(newWrapper(k, []byte(fmt.Sprintf(`{"V":"flagged-%d"}`, i)), secret, crown, true)); err != nil {
				t.Fatalf("harness: Put: %v", err)
			}
			flaggedKeys[k] = [2]bool{secret, crown}
		}
		time.Sleep(150 * time.Millisecond)
		for wi, w := range ws {
			for n := len(w.got); n > 0; n-- {
				r := <-w.got
				if r == nil {
					continue
				}
				f, isFlagged := flaggedKeys[r.Key()]
				if isFlagged && ((f[0] && !w.internal) || (f[1] && !w.local)) {
					t.Fatalf("LEAK: %s: subscriber #%d (local=%v, internal=%v; %d subscribers, a privileged one among them has a full feed) was pushed %q, which is marked secret=%v crown=%v", backend, wi, w.local, w.internal, len(ws)+1, r.Key(), f[0], f[1])
				}
			}
		}
		stats.Case(fmt.Sprintf("overflow|%s|%d|%d|%d", backend, len(ws), fill, m), true, "flagged_write_while_another_feed_is_full")
	})
}
