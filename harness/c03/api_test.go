package c03

import (
	"bytes"
	"fmt"
	"strings"
	"sync"
	"time"

	"github.com/safing/portbase/api"

	"verifharness/internal/stats"
)

// apiClient drives one in-process database API (api.CreateDatabaseAPI), which
// always acts as neither local nor internal.
type apiClient struct {
	e    *env
	idx  int
	name string
	api  api.DatabaseAPI

	mu      sync.Mutex
	cond    *sync.Cond
	msgs    [][]byte
	scanned int
	nextOp  int
	subs    []*asub
}

type asub struct {
	id      string
	prefix  string
	cond    cond
	cursor  int // index into msgs up to which this subscription's messages were consumed
	skipCmp bool
}

const apiPatience = 60 * time.Second

func newAPIClient(e *env, idx int) *apiClient {
	c := &apiClient{e: e, idx: idx, name: fmt.Sprintf("database API #%d", idx)}
	c.cond = sync.NewCond(&c.mu)
	c.api = api.CreateDatabaseAPI(c.receive)
	return c
}

func (c *apiClient) receive(data []byte) {
	cp := append([]byte(nil), data...)
	c.mu.Lock()
	c.msgs = append(c.msgs, cp)
	c.cond.Broadcast()
	c.mu.Unlock()
}

func (c *apiClient) newID() string {
	c.nextOp++
	return fmt.Sprintf("%d", 100+c.nextOp)
}

// waitFor waits until pred (evaluated under the lock) holds.
func (c *apiClient) waitFor(pred func() bool, patience time.Duration) bool {
	deadline := time.Now().Add(patience)
	c.mu.Lock()
	defer c.mu.Unlock()
	for !pred() {
		if time.Now().After(deadline) {
			return false
		}
		t := time.AfterFunc(5*time.Millisecond, func() {
			c.mu.Lock()
			c.cond.Broadcast()
			c.mu.Unlock()
		})
		c.cond.Wait()
		t.Stop()
	}
	return true
}

// repliesOf returns the messages of one operation id, from index from on (lock held).
func (c *apiClient) repliesOf(id string, from int) [][]byte {
	var out [][]byte
	p := []byte(id + "|")
	for _, m := range c.msgs[from:] {
		if bytes.HasPrefix(m, p) {
			out = append(out, m)
		}
	}
	return out
}

func msgType(m []byte) string {
	parts := bytes.SplitN(m, []byte("|"), 3)
	if len(parts) < 2 {
		return ""
	}
	return string(parts[1])
}

// request sends a message and waits for the terminating reply of its id
// (any of the given types). It returns all replies of that id.
func (c *apiClient) request(msg string, id string, terminal ...string) [][]byte {
	c.mu.Lock()
	from := len(c.msgs)
	c.mu.Unlock()
	c.api.Handle([]byte(msg))
	var out [][]byte
	ok := c.waitFor(func() bool {
		out = c.repliesOf(id, from)
		for _, m := range out {
			ty := msgType(m)
			for _, t := range terminal {
				if ty == t {
					return true
				}
			}
		}
		return false
	}, apiPatience)
	if !ok {
		c.e.failf("%s: no terminating reply (%v) to %q within %s; got %d replies", c.name, terminal, msg, apiPatience, len(out))
	}
	return out
}

// scanAPI applies the taint oracle to every byte the API clients received.
func (e *env) scanAPI() {
	for _, c := range e.apis {
		c.mu.Lock()
		todo := c.msgs[c.scanned:]
		c.scanned = len(c.msgs)
		c.mu.Unlock()
		for _, m := range todo {
			e.taint(c.name, false, false, nil, m, "a reply")
		}
	}
}

// flushAPI makes sure every API subscription has processed all writes of the
// step: it rewrites the public sentinel and waits until each subscription
// reported it.
func (e *env) flushAPI() {
	active := false
	for _, c := range e.apis {
		if len(c.subs) > 0 {
			active = true
		}
	}
	if !active {
		return
	}
	mk := []byte(e.sentinelWrite())
	for _, c := range e.apis {
		for _, s := range c.subs {
			ok := c.waitFor(func() bool {
				for _, m := range c.repliesOf(s.id, s.cursor) {
					if bytes.Contains(m, mk) {
						return true
					}
				}
				return false
			}, apiPatience)
			if !ok {
				e.failf("MODEL: %s: subscription %s (prefix %q%s) never reported the public sentinel write", c.name, s.id, s.prefix, s.cond.text())
			}
		}
	}
}

func (e *env) parseSubMsg(c *apiClient, m []byte) (delivery, bool) {
	parts := bytes.SplitN(m, []byte("|"), 4)
	if len(parts) < 3 {
		return delivery{}, false
	}
	switch string(parts[1]) {
	case "upd", "new":
		d := delivery{key: string(parts[2])}
		if len(parts) == 4 {
			d.marker = string(markerRe.Find(parts[3]))
		}
		return d, true
	case "del":
		return delivery{key: string(parts[2]), deleted: true}, true
	case "warning", "error":
		e.failf("MODEL: %s: subscription reported %q", c.name, m)
	}
	return delivery{}, false
}

func (e *env) checkAPISubs() {
	for _, c := range e.apis {
		for _, s := range c.subs {
			c.mu.Lock()
			msgs := c.repliesOf(s.id, s.cursor)
			s.cursor = len(c.msgs)
			c.mu.Unlock()
			var got []delivery
			for _, m := range msgs {
				if d, ok := e.parseSubMsg(c, m); ok {
					got = append(got, d)
				}
			}
			want := e.expectedFor(false, false, s.prefix, s.cond, "api.feed")
			if s.skipCmp || e.fuzzy {
				s.skipCmp = false
				continue
			}
			if !sameDeliveries(got, want, true) {
				e.failf("MODEL/PUSHED: %s: subscription %s (prefix %q%s) reported%s, expected%s", c.name, s.id, s.prefix, s.cond.text(), fmtDeliveries(got), fmtDeliveries(want))
			}
		}
	}
}

func (c *apiClient) cancelAll() {
	for _, s := range c.subs {
		c.request(s.id+"|cancel", s.id, "done")
	}
	c.subs = nil
}

// apiCond draws the condition of an API query/subscription. The sentinel
// (N=9, T=t1) always matches it, so that a subscription can be flushed.
func apiCond(op opSpec) cond {
	cd := cond{op.Cond % 3, op.CondArg % 9}
	if cd.Kind == 2 {
		cd.Arg = 1
	}
	return cd
}

func isErr(replies [][]byte) (bool, string) {
	for _, m := range replies {
		if msgType(m) == "error" {
			return true, string(m)
		}
	}
	return false, ""
}

func (e *env) execAPI(op opSpec, k string, c *apiClient) {
	m := e.model[k]
	visible := m != nil
	perm := visible && m.permits(false, false)
	stats.Class("path:" + op.Kind)
	switch op.Kind {
	case "api.query", "api.qsub", "api.sub":
	default:
		if visible && !perm {
			e.noteDenied(op.Kind, m)
		}
	}
	id := c.newID()

	switch op.Kind {
	case "api.get":
		rep := c.request(fmt.Sprintf("%s|get|%s", id, e.full(k)), id, "ok", "error")
		e.scanAPI()
		failed, _ := isErr(rep)
		switch {
		case perm && failed:
			e.failf("MODEL: %s: get %q failed: %q", c.name, k, rep)
		case perm && !bytes.Contains(rep[0], []byte(m.Marker)):
			e.failf("MODEL: %s: get %q returned %q, model marker %s", c.name, k, rep, m.Marker)
		case !perm && !failed:
			e.failf("RETURNED: %s: get %q answered %q (visible=%v)", c.name, k, rep, visible)
		}

	case "api.query", "api.qsub":
		prefix := prefixOf(op)
		cd := apiCond(op)
		text := fmt.Sprintf("query %s%s", e.full(prefix), cd.text())
		verb := "query"
		if op.Kind == "api.qsub" {
			if len(c.subs) >= 2 {
				return
			}
			verb = "qsub"
		}
		rep := c.request(fmt.Sprintf("%s|%s|%s", id, verb, text), id, "done", "error")
		e.scanAPI()
		if failed, msg := isErr(rep); failed {
			e.failf("MODEL: %s: %s %q failed: %s", c.name, verb, text, msg)
		}
		got := map[string]string{}
		for _, r := range rep {
			parts := bytes.SplitN(r, []byte("|"), 4)
			if string(parts[1]) != "ok" {
				continue
			}
			mk := ""
			if len(parts) == 4 {
				mk = string(markerRe.Find(parts[3]))
			}
			got[string(parts[2])] = mk
		}
		want := e.visibleSet(false, false, prefix, cd)
		if !sameSet(got, want) {
			e.failf("MODEL/LISTED: %s: %s %q listed%s, expected%s", c.name, verb, text, fmtSet(got), fmtSet(want))
		}
		for _, kk := range keyPool {
			if mm := e.model[kk]; mm != nil && mm.flagged() && !mm.permits(false, false) && strings.HasPrefix(kk, prefix) {
				e.noteDenied(op.Kind, mm)
			}
		}
		if op.Kind == "api.qsub" {
			c.mu.Lock()
			cur := len(c.msgs)
			c.mu.Unlock()
			c.subs = append(c.subs, &asub{id: id, prefix: prefix, cond: cd, cursor: cur})
		}

	case "api.sub":
		if len(c.subs) >= 2 {
			return
		}
		prefix := prefixOf(op)
		cd := apiCond(op)
		text := fmt.Sprintf("query %s%s", e.full(prefix), cd.text())
		c.mu.Lock()
		cur := len(c.msgs)
		c.mu.Unlock()
		c.api.Handle([]byte(fmt.Sprintf("%s|sub|%s", id, text)))
		// "sub" has no acknowledgement: rewrite the sentinel until the subscription reports it.
		registered := false
		for try := 0; try < 20000 && !registered; try++ {
			mk := []byte(e.sentinelWrite())
			registered = c.waitFor(func() bool {
				for _, mm := range c.repliesOf(id, cur) {
					if msgType(mm) == "error" {
						return true
					}
					if bytes.Contains(mm, mk) {
						return true
					}
				}
				return false
			}, 3*time.Millisecond)
		}
		c.mu.Lock()
		rep := c.repliesOf(id, cur)
		c.mu.Unlock()
		if failed, msg := isErr(rep); failed || !registered {
			e.failf("MODEL: %s: sub %q did not become active: %s", c.name, text, msg)
		}
		c.subs = append(c.subs, &asub{id: id, prefix: prefix, cond: cd, cursor: cur, skipCmp: true})

	case "api.create", "api.update":
		nm := &mrec{Marker: e.newMarker(k, false, false), N: int64(op.N % 10), T: tval(op.T)}
		verb := strings.TrimPrefix(op.Kind, "api.")
		rep := c.request(fmt.Sprintf("%s|%s|%s|J%s", id, verb, e.full(k), nm.payload()), id, "success", "error")
		e.scanAPI()
		failed, msg := isErr(rep)
		switch {
		case visible && !perm:
			if !failed {
				e.failf("MODIFIED: %s: %s %q overwrote a record that is secret=%v crownjewel=%v", c.name, verb, k, m.Secret, m.Crown)
			}
		case failed:
			e.failf("MODEL: %s: %s %q failed: %s", c.name, verb, k, msg)
		default:
			e.model[k] = nm
			e.event(k, *nm, false)
		}

	case "api.insert":
		newT := tval(op.T)
		rep := c.request(fmt.Sprintf(`%s|insert|%s|{"T":%q}`, id, e.full(k), newT), id, "success", "error")
		e.scanAPI()
		failed, msg := isErr(rep)
		switch {
		case !perm:
			if !failed {
				e.failf("MODIFIED: %s: insert %q succeeded (visible=%v)", c.name, k, visible)
			}
		case failed:
			e.failf("MODEL: %s: insert %q failed: %s", c.name, k, msg)
		default:
			m.T = newT
			e.event(k, *m, false)
		}

	case "api.delete":
		rep := c.request(fmt.Sprintf("%s|delete|%s", id, e.full(k)), id, "success", "error")
		e.scanAPI()
		failed, msg := isErr(rep)
		switch {
		case !perm:
			if !failed {
				e.failf("MODIFIED: %s: delete %q succeeded (visible=%v)", c.name, k, visible)
			}
		case e.p.rt != nil:
			e.resync(k)
		case failed:
			e.failf("MODEL: %s: delete %q failed: %s", c.name, k, msg)
		default:
			e.model[k] = nil
			e.event(k, *m, true)
		}

	default:
		e.failf("harness: unknown API op %q", op.Kind)
	}
}
