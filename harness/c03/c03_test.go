package c03

import (
	"encoding/json"
	"fmt"
	"os"
	"strings"
	"testing"

	"pgregory.net/rapid"

	"verifharness/internal/stats"
)

// ---------------------------------------------------------------- running one case

func journal(spec caseSpec) {
	path := os.Getenv("VERIF_JOURNAL")
	if path == "" {
		return
	}
	b, err := json.Marshal(spec)
	if err == nil {
		_ = os.WriteFile(path, b, 0o644)
	}
}

// runSpec executes one case and records its statistics.
func runSpec(t fataler, spec caseSpec, count bool) *env {
	journal(spec)
	e := newEnv(t, spec.Backend, spec.Shadow)
	e.run(spec.Ops)
	e.finish()
	if count {
		nontrivial := e.flaggedCreated > 0 && e.deniedOnFlag > 0
		b, _ := json.Marshal(spec)
		classes := []string{"backend:" + spec.Backend}
		if nontrivial {
			classes = append(classes, "case_with_denied_op_on_flagged_record")
		}
		if e.flaggedCreated > 0 {
			classes = append(classes, "case_with_flagged_record")
		}
		stats.Case(string(b), nontrivial, classes...)
		for kind, n := range e.deniedByPath {
			stats.ClassN("denied_on_flagged:"+kind, int64(n))
		}
		if nontrivial && stats.WantSample(spec.Backend) {
			stats.Sample(spec.Backend, spec)
		}
	}
	return e
}

func replaySpec() (caseSpec, bool) {
	path := os.Getenv("VERIF_REPLAY_CASE")
	if path == "" {
		return caseSpec{}, false
	}
	b, err := os.ReadFile(path)
	if err != nil {
		return caseSpec{}, false
	}
	var spec caseSpec
	if json.Unmarshal(b, &spec) != nil || spec.Backend == "" {
		return caseSpec{}, false
	}
	return spec, true
}

// ---------------------------------------------------------------- generator

type weighted struct {
	kind string
	w    int
}

var opWeights = []weighted{
	{"w.put", 7}, {"w.putnew", 2}, {"w.putmany", 1}, {"w.secret", 2}, {"w.crown", 2}, {"w.insertm", 3}, {"w.rmw", 3}, {"w.delete", 2},
	{"r.get", 7}, {"r.exists", 2}, {"r.query", 4}, {"r.sub", 2}, {"r.clearcache", 1}, {"r.insert", 3}, {"r.setabs", 1},
	{"r.setrel", 1}, {"r.secret", 1}, {"r.crown", 1}, {"r.delete", 2}, {"r.put", 2}, {"r.putnew", 1}, {"r.putmany", 1}, {"r.purge", 1}, {"r.dwput", 2}, {"r.dwflush", 1}, {"r.dwputmany", 1},
	{"api.get", 3}, {"api.query", 2}, {"api.qsub", 1}, {"api.sub", 1}, {"api.create", 1}, {"api.update", 1}, {"api.insert", 1}, {"api.delete", 1},
}

var opTable = func() []string {
	var out []string
	for _, w := range opWeights {
		for i := 0; i < w.w; i++ {
			out = append(out, w.kind)
		}
	}
	return out
}()

func backendsFromEnv() []string {
	if v := os.Getenv("C03_BACKENDS"); v != "" {
		return strings.Split(v, ",")
	}
	return []string{beHashmap, beBbolt, beFstree, beRuntime}
}

func genOp() *rapid.Generator[opSpec] {
	return rapid.Custom(func(t *rapid.T) opSpec {
		kind := rapid.SampledFrom(opTable).Draw(t, "kind")
		op := opSpec{Kind: kind}
		// few keys, so that readers meet the records the writer flagged
		op.Key = rapid.SampledFrom([]int{0, 0, 0, 1, 1, 2, 3, 3, 4}).Draw(t, "key")
		switch {
		case strings.HasPrefix(kind, "w."):
			// flagged records are the point: most writes carry a flag
			op.Flags = rapid.SampledFrom([]int{0, 1, 2, 3, 1, 2}).Draw(t, "flags")
			op.Via = rapid.IntRange(0, 2).Draw(t, "via")
		case strings.HasPrefix(kind, "r."):
			// index bits: 1 local, 2 internal, 4 cached; the fully privileged readers (3, 7) are rarer
			op.Reader = rapid.SampledFrom([]int{0, 0, 1, 1, 2, 2, 3, 4, 4, 5, 5, 6, 6, 7}).Draw(t, "reader")
		default:
			op.API = rapid.IntRange(0, 1).Draw(t, "api")
		}
		op.N = rapid.IntRange(0, 9).Draw(t, "n")
		op.T = rapid.IntRange(0, 2).Draw(t, "t")
		switch kind {
		case "r.query", "r.sub", "r.purge", "api.query", "api.qsub", "api.sub":
			op.Prefix = rapid.IntRange(0, 1).Draw(t, "prefix")
			op.Cond = rapid.SampledFrom([]int{0, 0, 1, 2}).Draw(t, "cond")
			op.CondArg = rapid.IntRange(0, 8).Draw(t, "condarg")
		}
		return op
	})
}

func genSpec(t *rapid.T, backends []string) caseSpec {
	spec := caseSpec{
		Backend: rapid.SampledFrom(backends).Draw(t, "backend"),
		Shadow:  rapid.Bool().Draw(t, "shadow"),
	}
	// every case starts with a flagged record
	first := opSpec{Kind: "w.put", Flags: rapid.IntRange(1, 3).Draw(t, "firstflags"), Via: rapid.IntRange(0, 2).Draw(t, "firstvia"), N: 5, T: 1}
	spec.Ops = append([]opSpec{first}, rapid.SliceOfN(genOp(), 3, 30).Draw(t, "ops")...)
	// motif: an interface lacking a privilege queues a delayed write for a key while it may, the key then gets a
	// protected record, the queue is flushed afterwards
	if rapid.IntRange(0, 3).Draw(t, "dwmotif") == 0 {
		key := rapid.IntRange(0, 4).Draw(t, "dwkey")
		reader := rapid.SampledFrom([]int{0, 1, 2}).Draw(t, "dwreader")
		motif := []opSpec{
			{Kind: "w.delete", Key: key},
			{Kind: "r.dwput", Key: key, Reader: reader, N: 3},
			{Kind: "w.put", Key: key, Flags: rapid.IntRange(1, 3).Draw(t, "dwflags"), N: 4, T: 2},
			{Kind: "r.dwflush", Reader: reader},
			{Kind: "r.get", Key: key, Reader: rapid.IntRange(0, 7).Draw(t, "dwafter")},
		}
		if rapid.Bool().Draw(t, "dwevict") {
			// instead of a flush: further delayed writes push the queued entry out of the interface's small cache,
			// whose eviction handler writes it out
			motif[3] = opSpec{Kind: "r.dwput", Key: (key + 1) % 5, Reader: reader, N: 5}
			motif = append(motif[:4], opSpec{Kind: "r.dwput", Key: (key + 2) % 5, Reader: reader, N: 6}, opSpec{Kind: "r.dwput", Key: (key + 3) % 5, Reader: reader, N: 7}, motif[4])
		}
		at := rapid.IntRange(1, len(spec.Ops)).Draw(t, "dwat")
		ops := append([]opSpec{}, spec.Ops[:at]...)
		ops = append(ops, motif...)
		spec.Ops = append(ops, spec.Ops[at:]...)
	}
	return spec
}

func TestPropStateMachine(t *testing.T) {
	if spec, ok := replaySpec(); ok {
		runSpec(t, spec, false)
		return
	}
	backends := backendsFromEnv()
	rapid.Check(t, func(t *rapid.T) {
		spec := genSpec(t, backends)
		runSpec(t, spec, true)
	})
}

// ---------------------------------------------------------------- exhaustive table

var tableReaderPaths = []opSpec{
	{Kind: "r.get"},
	{Kind: "r.exists"},
	{Kind: "r.query"},
	{Kind: "r.query", Cond: 1, CondArg: 0},
	{Kind: "r.query", Prefix: 1, Cond: 2, CondArg: 1},
	{Kind: "r.insert", T: 2},
	{Kind: "r.setabs"},
	{Kind: "r.setrel"},
	{Kind: "r.secret"},
	{Kind: "r.crown"},
	{Kind: "r.delete"},
	{Kind: "r.purge"},
	{Kind: "r.purge", Cond: 1, CondArg: 0},
	{Kind: "r.put", N: 3},
	{Kind: "r.putnew", N: 4},
	{Kind: "r.putmany", N: 5},
	{Kind: "r.dwputmany", N: 6},
	{Kind: "r.dwput", N: 7},
}

var tableAPIPaths = []opSpec{
	{Kind: "api.get"},
	{Kind: "api.query"},
	{Kind: "api.query", Cond: 1, CondArg: 0},
	{Kind: "api.create", N: 3},
	{Kind: "api.update", N: 4},
	{Kind: "api.insert", T: 2},
	{Kind: "api.delete"},
}

type tableCfg struct {
	backend string
	shadow  bool
}

func tableConfigs() []tableCfg {
	var out []tableCfg
	for _, b := range allBackends {
		out = append(out, tableCfg{b, false})
		if b != beRuntime {
			out = append(out, tableCfg{b, true})
		}
	}
	return out
}

// TestExhaustiveTable enumerates path × record flags × interface privileges ×
// backend × shadow-delete × cache × (flagged at creation | flagged in place
// after the reader cached it) × (flag set on the record | by the Always…
// option | pushed by the runtime provider).
func TestExhaustiveTable(t *testing.T) {
	var total, nontrivial int64
	byPath := map[string]int64{}
	run := func(spec caseSpec) {
		e := runSpec(t, spec, false)
		total++
		if e.flaggedCreated > 0 && e.deniedOnFlag > 0 {
			nontrivial++
		}
		for k, n := range e.deniedByPath {
			byPath[k] += int64(n)
		}
		if t.Failed() {
			t.FailNow()
		}
	}
	// key 3 is "d/e": inside the "d/" prefix as well as inside the whole namespace
	const key = 3
	for _, cfg := range tableConfigs() {
		vias := []int{0, 1}
		if cfg.backend == beRuntime {
			vias = []int{0, 1, 2}
		}
		for flags := 0; flags < 4; flags++ {
			for reader := 0; reader < 8; reader++ {
				for _, via := range vias {
					// flagged at creation, then the path
					for _, path := range tableReaderPaths {
						p := path
						p.Key, p.Reader = key, reader
						run(caseSpec{Backend: cfg.backend, Shadow: cfg.shadow, Ops: []opSpec{
							{Kind: "w.put", Key: key, Flags: flags, Via: via, N: 5, T: 1},
							p,
						}})
					}
					// subscription feed: subscribe first, then every kind of write
					for _, sub := range []opSpec{{Kind: "r.sub"}, {Kind: "r.sub", Prefix: 1, Cond: 1, CondArg: 0}} {
						s := sub
						s.Reader = reader
						run(caseSpec{Backend: cfg.backend, Shadow: cfg.shadow, Ops: []opSpec{
							s,
							{Kind: "w.put", Key: key, Flags: flags, Via: via, N: 5, T: 1},
							{Kind: "w.insertm", Key: key},
							{Kind: "w.putnew", Key: key, Flags: flags, Via: via, N: 6, T: 2},
							{Kind: "w.delete", Key: key},
						}})
					}
				}
				// public at first, cached by the reader, then flagged in place
				if flags != 0 {
					flagOps := []opSpec{}
					if flags&1 != 0 {
						flagOps = append(flagOps, opSpec{Kind: "w.secret", Key: key})
					}
					if flags&2 != 0 {
						flagOps = append(flagOps, opSpec{Kind: "w.crown", Key: key})
					}
					for _, path := range tableReaderPaths {
						p := path
						p.Key, p.Reader = key, reader
						ops := []opSpec{
							{Kind: "w.put", Key: key, N: 5, T: 1},
							{Kind: "r.get", Key: key, Reader: reader},
						}
						ops = append(ops, flagOps...)
						ops = append(ops, opSpec{Kind: "w.insertm", Key: key}, p)
						run(caseSpec{Backend: cfg.backend, Shadow: cfg.shadow, Ops: ops})
					}
					// subscription that saw the public record, then the flagging and later writes
					run(caseSpec{Backend: cfg.backend, Shadow: cfg.shadow, Ops: append(append([]opSpec{
						{Kind: "r.sub", Reader: reader},
						{Kind: "w.put", Key: key, N: 5, T: 1},
					}, flagOps...), opSpec{Kind: "w.insertm", Key: key}, opSpec{Kind: "w.delete", Key: key})})
				}
			}
			// the database API (neither local nor internal)
			for _, via := range vias {
				for _, path := range tableAPIPaths {
					p := path
					p.Key = key
					run(caseSpec{Backend: cfg.backend, Shadow: cfg.shadow, Ops: []opSpec{
						{Kind: "w.put", Key: key, Flags: flags, Via: via, N: 5, T: 1},
						p,
					}})
				}
				for _, sub := range []opSpec{{Kind: "api.sub"}, {Kind: "api.qsub"}, {Kind: "api.qsub", Prefix: 1, Cond: 1, CondArg: 0}} {
					run(caseSpec{Backend: cfg.backend, Shadow: cfg.shadow, Ops: []opSpec{
						{Kind: "w.put", Key: 0, Flags: flags, Via: via, N: 5, T: 1},
						sub,
						{Kind: "w.put", Key: key, Flags: flags, Via: via, N: 5, T: 1},
						{Kind: "w.insertm", Key: key},
						{Kind: "w.putnew", Key: key, Flags: flags, Via: via, N: 6, T: 2},
						{Kind: "w.delete", Key: key},
					}})
				}
			}
		}
	}
	stats.CaseN(total, nontrivial, "exhaustive_table_scenarios")
	for k, n := range byPath {
		stats.ClassN("table_denied_on_flagged:"+k, n)
	}
	stats.Exhaustive("path x flags x privileges x backend x shadow-delete x cache x flagging time x flagging mechanism (one record, one access)")
	stats.Sample("table", map[string]any{"scenarios": total, "with_denied_access_to_flagged_record": nontrivial,
		"example": fmt.Sprintf("%v", caseSpec{Backend: beBbolt, Ops: []opSpec{{Kind: "w.put", Key: key, Flags: 1}, {Kind: "r.get", Key: key, Reader: 1}}})})
}

// ---------------------------------------------------------------- regressions (fixed findings)

// TestRegStaleCacheWrite: an interface with a cache that had read a public
// record could still modify / overwrite / delete it after another interface
// had made it secret or crown jewel (permission taken from the outdated cached
// copy). Minimal history found by TestPropStateMachine.
func TestRegStaleCacheWrite(t *testing.T) {
	for _, backend := range []string{beHashmap, beBbolt, beFstree} {
		for _, kind := range []string{"r.insert", "r.put", "r.putnew", "r.delete", "r.setabs", "r.setrel", "r.secret", "r.crown"} {
			for _, flags := range []int{1, 2} {
				reader := 4 // cached, neither local nor internal
				runSpec(t, caseSpec{Backend: backend, Ops: []opSpec{
					{Kind: "w.put", Key: 0},
					{Kind: "r.get", Key: 0, Reader: reader},
					{Kind: "w.put", Key: 0, Flags: flags},
					{Kind: kind, Key: 0, Reader: reader},
				}}, false)
			}
		}
	}
}

// TestRegEvictedDelayedWrite: a write queued by an interface that lacks a
// privilege (cache + DelayCachedWrites) was written out by the cache's eviction
// handler without a permission check: it replaced, unflagged, a secret or crown
// jewel record stored under the key in the meantime. Minimal history found by
// TestPropStateMachine.
func TestRegEvictedDelayedWrite(t *testing.T) {
	for _, backend := range []string{beHashmap, beBbolt} {
		for _, shadow := range []bool{false, true} {
			for _, flags := range []int{1, 2, 3} {
				for _, reader := range []int{0, 1, 2} {
					runSpec(t, caseSpec{Backend: backend, Shadow: shadow, Ops: []opSpec{
						{Kind: "w.delete", Key: 2},
						{Kind: "r.dwput", Key: 2, Reader: reader, N: 3},
						{Kind: "w.put", Key: 2, Flags: flags, N: 4, T: 2},
						{Kind: "r.dwput", Key: 3, Reader: reader, N: 5},
						{Kind: "r.dwput", Key: 4, Reader: reader, N: 6},
						{Kind: "r.dwput", Key: 0, Reader: reader, N: 7},
						{Kind: "r.get", Key: 2, Reader: reader},
					}}, false)
				}
			}
		}
	}
}
