package c03

import (
	"fmt"
	"testing"

	"github.com/safing/portbase/database"
	"github.com/safing/portbase/database/query"
	"pgregory.net/rapid"

	"verifharness/internal/stats"
)

// Records that are flagged while a listing is on its way. An interface that
// lacks a privilege starts a query over unflagged records and takes the first
// few; then a privileged interface marks every record secret / crown jewel, and
// the reader drains the rest of its result stream.
//
// What was checked and queued before the flagging cannot be taken back: the
// stream buffers ten records and the executor holds one more. Beyond those
// eleven, no record that the reader receives may carry a flag that shuts this
// reader out ("a record marked secret is never ... listed for ... an interface
// that is not internal"). Judged on the received objects themselves, under their
// lock: a back end that hands out copies made before the flagging delivers
// unflagged records, which is not a leak of a flagged one.

const listedBeforeFlagging = 11 // iterator buffer (10) + the record the executor holds

func TestPropFlaggedWhileListed(t *testing.T) {
	rapid.Check(t, func(t *rapid.T) {
		backend := rapid.SampledFrom([]string{beHashmap, beHashmap, beHashmap, beBbolt, beFstree}).Draw(t, "backend")
		shadow := rapid.Bool().Draw(t, "shadow")
		p, err := openPlace(backend, shadow)
		if err != nil {
			t.Fatalf("harness: %v", err)
		}
		priv := database.NewInterface(&database.Options{Local: true, Internal: true})
		who := rapid.SampledFrom([][2]bool{{true, false}, {false, true}, {false, false}}).Draw(t, "reader_local_internal")
		local, internal := who[0], who[1]
		reader := database.NewInterface(&database.Options{Local: local, Internal: internal})
		n := rapid.IntRange(13, 60).Draw(t, "records")
		first := rapid.IntRange(0, 3).Draw(t, "taken_before_flagging")
		keys := make([]string, n)
		for i := range keys {
			keys[i] = p.fullKey(fmt.Sprintf("inflight/r%03d", i))
			if err := priv.Put(newWrapper(keys[i], []byte(fmt.Sprintf(`{"V":"plain-%d"}`, i)), false, false, i%2 == 0)); err != nil {
				t.Fatalf("harness: Put(%s): %v", keys[i], err)
			}
		}
		it, err := reader.Query(query.New(p.fullKey("inflight/")))
		if err != nil {
			t.Fatalf("Query failed: %v", err)
		}
		open := true
		for i := 0; i < first && open; i++ {
			_, open = <-it.Next
		}
		// flag everything: what shuts this reader out, now and then both flags
		both := rapid.IntRange(0, 3).Draw(t, "both_flags") == 0
		for _, k := range keys {
			if !internal || both {
				if err := priv.MakeSecret(k); err != nil {
					t.Fatalf("harness: MakeSecret(%s): %v", k, err)
				}
			}
			if !local || both {
				if err := priv.MakeCrownJewel(k); err != nil {
					t.Fatalf("harness: MakeCrownJewel(%s): %v", k, err)
				}
			}
		}
		received, flagged := 0, 0
		var sample string
		for open {
			r, ok := <-it.Next
			if !ok {
				break
			}
			received++
			// (keys are not compared with what was stored: the file-tree back end can list the temporary file of a write
			// that is going on at that moment under the file's own name - not a matter of this property as long as the
			// record in it may be seen by this reader, which is judged next)
			r.Lock()
			denied := !r.Meta().CheckPermission(local, internal)
			r.Unlock()
			if denied {
				flagged++
				sample = r.Key()
			}
		}
		if flagged > listedBeforeFlagging {
			t.Fatalf("LEAK: %s: interface(local=%v,internal=%v) started a listing over %d unflagged records and took %d; then all were flagged (secret=%v crown=%v). After that it received %d more records, %d of which carry a flag that shuts it out (e.g. %s) - only %d can have been checked and queued before the flagging",
				backend, local, internal, n, first, !internal || both, !local || both, received, flagged, sample, listedBeforeFlagging)
		}
		cls := "flagged_while_listed_nothing_flagged_received"
		if flagged > 0 {
			cls = "flagged_while_listed_only_already_queued_records_received"
		}
		stats.Case(fmt.Sprintf("inflight|%s|%v|%v|%v|%d|%d|%v", backend, shadow, local, internal, n, first, both), true, "flagged_while_listed_"+backend, cls)
		if stats.WantSample("inflight") {
			stats.Sample("inflight", map[string]any{"backend": backend, "reader_local": local, "reader_internal": internal, "records": n, "taken_before_flagging": first, "received_after": received, "flagged_among_them": flagged})
		}
	})
}
