# Deliberate breakages for the sensitivity self-test of this check.
# usage: python3 mutants_run.py C03 mutants.py [names...]   (applies each to /dev/shm/repo-b5, runs ./check, reverts with git checkout)
I='database/interface.go'
MUTANTS=[
 ('get_storage_path', [(I, '''	if !i.options.hasAccessPermission(r) {
		return nil, db, ErrPermissionDenied
	}

	r.Lock()
	ttl := r.Meta().GetRelativeExpiry()''', '''	r.Lock()
	ttl := r.Meta().GetRelativeExpiry()''')]),
 ('get_cache_path', [(I, '''	r = i.checkCache(dbName + ":" + dbKey)
	if r != nil {
		if !i.options.hasAccessPermission(r) {
			return nil, db, ErrPermissionDenied
		}''', '''	r = i.checkCache(dbName + ":" + dbKey)
	if r != nil {''')]),
 ('query_hashmap', [('database/storage/hashmap/map.go', '''			!record.Meta().CheckValidity() ||
			!record.Meta().CheckPermission(local, internal) {''', '''			!record.Meta().CheckValidity() {''')]),
 ('query_bbolt', [('database/storage/bbolt/bbolt.go', '''			if !iterWrapper.Meta().CheckPermission(local, internal) {
				continue
			}''', '')]),
 ('query_fstree', [('database/storage/fstree/fstree.go', '''		if !r.Meta().CheckPermission(local, internal) {
			// no permission to access
			return nil
		}''', '')]),
 ('query_badger', [('database/storage/badger/badger.go', '''			if !r.Meta().CheckPermission(local, internal) {
				continue
			}''', '')]),
 ('query_runtime', [('runtime/registry.go', 'isAllowed  = r.Meta().CheckPermission(local, internal)', 'isAllowed  = true || r.Meta().CheckPermission(local, internal)')]),
 ('feed_filter_dropped', [('database/controller.go', 'if r.Meta().CheckPermission(sub.local, sub.internal) && sub.q.Matches(r) {', 'if sub.q.Matches(r) {')]),
 ('feed_filter_crown_only', [('database/controller.go', 'if r.Meta().CheckPermission(sub.local, sub.internal) && sub.q.Matches(r) {', 'if r.Meta().CheckPermission(sub.local, true) && sub.q.Matches(r) {')]),
 ('write_paths_unchecked', [(I, '''	if !i.options.hasAccessPermission(r) {
		return nil, db, ErrPermissionDenied
	}

	r.Lock()
	ttl := r.Meta().GetRelativeExpiry()''', '''	if !mustBeWriteable && !i.options.hasAccessPermission(r) {
		return nil, db, ErrPermissionDenied
	}

	r.Lock()
	ttl := r.Meta().GetRelativeExpiry()''')]),
 ('delete_unchecked', [(I, '''func (i *Interface) Delete(key string) error {
	r, db, err := i.getRecord(getDBFromKey, key, true)
	if err != nil {
		return err
	}
''', '''func (i *Interface) Delete(key string) error {
	dbName, dbKey := record.ParseKey(key)
	db, err := getController(dbName)
	if err != nil {
		return err
	}
	r, err := db.Get(dbKey)
	if err != nil {
		return err
	}
''')]),
 ('putmany_gate', [(I, '''	// permission check
	if !i.options.HasAllPermissions() {
		return func(r record.Record) error {''', '''	// permission check
	if !i.options.Local && !i.options.Internal && i.options.CacheSize < 0 {
		return func(r record.Record) error {''')]),
 ('put_precheck', [(I, '''	if !m.CheckPermission(i.options.Local, i.options.Internal) {
		return nil, db, ErrPermissionDenied
	}

	return m, db, nil''', '''	return m, db, nil''')]),
 ('purge_bbolt', [('database/storage/bbolt/bbolt.go', '''				if !wrapper.Meta().CheckPermission(local, internal) {
					continue
				}''', '')]),
 ('meta_swap', [('database/record/meta.go', '''	case !local && m.cronjewel:
		return false
	case !internal && m.secret:''', '''	case !internal && m.cronjewel:
		return false
	case !local && m.secret:''')]),
 ('api_privileged', [('api/database.go', '''		shuttingDown:   abool.NewBool(false),
		db:             database.NewInterface(nil),
		sendBytes:      sendFunction,''', '''		shuttingDown:   abool.NewBool(false),
		db:             database.NewInterface(&database.Options{Local: true, Internal: true}),
		sendBytes:      sendFunction,''')]),
 ('fix_reverted_getrecord', [(I, '''		if mustBeWriteable {
			// The cached copy may be outdated, check the stored record before
			// allowing a write.
			if err = i.checkStoredPermission(db, dbKey); err != nil {
				return nil, db, err
			}
		}
		return r, db, nil''', '''		return r, db, nil''')]),
 ('always_secret_ignored', [(I, '''	if o.AlwaysMakeSecret {
		r.Meta().MakeSecret()
	}''', '')]),

 ('getmeta_cache_path', [(I, '''	r := i.checkCache(dbName + ":" + dbKey)
	if r != nil {
		if !i.options.hasAccessPermission(r) {
			return nil, db, ErrPermissionDenied
		}''', '''	r := i.checkCache(dbName + ":" + dbKey)
	if r != nil {''')]),
 ('fix_reverted_getmeta', [(I, '''		if mustBeWriteable {
			// The cached copy may be outdated, check the stored record before
			// allowing a write.
			if err = i.checkStoredPermission(db, dbKey); err != nil {
				return nil, db, err
			}
		}
		return r.Meta(), db, nil''', '''		return r.Meta(), db, nil''')]),
 ('has_all_if_any', [(I, '''	return o.Local && o.Internal
}''', '''	return o.Local || o.Internal
}''')]),
 ('insert_unchecked', [(I, '''func (i *Interface) InsertValue(key string, attribute string, value interface{}) error {
	r, db, err := i.getRecord(getDBFromKey, key, true)
	if err != nil {
		return err
	}
''', '''func (i *Interface) InsertValue(key string, attribute string, value interface{}) error {
	dbName, dbKey := record.ParseKey(key)
	db, err := getController(dbName)
	if err != nil {
		return err
	}
	r, err := db.Get(dbKey)
	if err != nil {
		return err
	}
''')]),
 ('feed_filter_secret_only', [('database/controller.go', 'if r.Meta().CheckPermission(sub.local, sub.internal) && sub.q.Matches(r) {', 'if r.Meta().CheckPermission(true, sub.internal) && sub.q.Matches(r) {')]),
 ('stored_check_notfound_only', [(I, '''		if !m.CheckPermission(i.options.Local, i.options.Internal) {
			return ErrPermissionDenied
		}
		return nil
	case errors.Is(err, ErrNotFound):''', '''		_ = m
		return nil
	case errors.Is(err, ErrNotFound):''')]),
]
