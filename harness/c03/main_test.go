// Package c03 decides C03: secret / crown-jewel records never cross a
// non-privileged database interface.
//
// Structure of the check
//
//	spec (plain data, drawn by rapid or enumerated)  ->  journal  ->  run(spec)
//
// run executes the operations of the spec one by one against the real database
// system and against a plain map model. Three oracles are applied after every
// step: taint (a marker of a record that the receiver may not see never shows
// up in anything the receiver gets), integrity (a full privileged read-back of
// every key equals the model, so a refused write changed nothing) and model
// (permitted accesses return exactly what the map holds).
package c03

import (
	"errors"
	"fmt"
	"os"
	"sort"
	"strings"
	"sync"
	"sync/atomic"
	"testing"

	"github.com/safing/portbase/database"
	"github.com/safing/portbase/database/record"
	_ "github.com/safing/portbase/database/storage/badger"
	_ "github.com/safing/portbase/database/storage/bbolt"
	_ "github.com/safing/portbase/database/storage/fstree"
	_ "github.com/safing/portbase/database/storage/hashmap"
	"github.com/safing/portbase/formats/dsd"
	"github.com/safing/portbase/runtime"

	"verifharness/internal/stats"
)

var (
	rootDir   string
	dbCounter atomic.Int64
	nsCounter atomic.Int64

	sharedMu  sync.Mutex
	sharedDBs = map[string]string{} // backend/shadow -> database name (long-lived databases)
)

func TestMain(m *testing.M) {
	dir, err := os.MkdirTemp("/dev/shm", "verif-c03-")
	if err != nil {
		fmt.Println("cannot create scratch dir:", err)
		os.Exit(2)
	}
	rootDir = dir
	if err := database.InitializeWithPath(dir); err != nil {
		fmt.Println("cannot initialize database:", err)
		os.Exit(2)
	}
	code := m.Run()
	stats.Flush(code)
	_ = database.Shutdown()
	_ = os.RemoveAll(dir)
	os.Exit(code)
}

// ---------------------------------------------------------------- backends

const (
	beHashmap = "hashmap"
	beBbolt   = "bbolt"
	beFstree  = "fstree"
	beBadger  = "badger"
	beRuntime = "runtime"
)

var allBackends = []string{beHashmap, beBbolt, beFstree, beBadger, beRuntime}

// place is where the records of one case live: a database and a key namespace
// inside it (database key prefix).
type place struct {
	backend string
	shadow  bool
	dbName  string
	ns      string // database key prefix of this case, "" or ends with "/"
	rt      *rtProvider
}

func registerDB(name, storageType string, shadow bool) error {
	_, err := database.Register(&database.Database{
		Name:         name,
		Description:  "verif c03",
		StorageType:  storageType,
		ShadowDelete: shadow,
	})
	return err
}

// openPlace returns a fresh place. hashmap, fstree and runtime get a new
// database per case; bbolt and badger use one long-lived database per process
// (and shadow-delete setting) with a fresh key namespace per case.
func openPlace(backend string, shadow bool) (*place, error) {
	p := &place{backend: backend, shadow: shadow}
	switch backend {
	case beHashmap, beFstree:
		p.dbName = fmt.Sprintf("c03-%s-%d", backend[:2], dbCounter.Add(1))
		if err := registerDB(p.dbName, backend, shadow); err != nil {
			return nil, err
		}
	case beBbolt, beBadger:
		key := fmt.Sprintf("%s/%v", backend, shadow)
		sharedMu.Lock()
		name, ok := sharedDBs[key]
		if !ok {
			name = fmt.Sprintf("c03-%s-shared-%v", backend[:2], shadow)
			if err := registerDB(name, backend, shadow); err != nil {
				sharedMu.Unlock()
				return nil, err
			}
			sharedDBs[key] = name
		}
		sharedMu.Unlock()
		p.dbName = name
		p.ns = fmt.Sprintf("n%d/", nsCounter.Add(1))
	case beRuntime:
		p.shadow = false
		p.dbName = fmt.Sprintf("c03-rt-%d", dbCounter.Add(1))
		if err := registerDB(p.dbName, database.StorageTypeInjected, false); err != nil {
			return nil, err
		}
		reg := runtime.NewRegistry()
		if err := reg.InjectAsDatabase(p.dbName); err != nil {
			return nil, err
		}
		p.ns = "r/"
		p.rt = &rtProvider{dbName: p.dbName, recs: map[string]*record.Wrapper{}}
		push, err := reg.Register(p.ns, p.rt)
		if err != nil {
			return nil, err
		}
		p.rt.push = push
	default:
		return nil, errors.New("unknown backend " + backend)
	}
	return p, nil
}

// fullKey returns the database-system key of a pool key.
func (p *place) fullKey(k string) string { return p.dbName + ":" + p.ns + k }

// ---------------------------------------------------------------- runtime provider

// rtProvider is a runtime.ValueProvider over a map. It hands out copies, so
// that no caller ever shares a record object with the provider.
type rtProvider struct {
	mu     sync.Mutex
	dbName string
	recs   map[string]*record.Wrapper // database key -> record
	push   runtime.PushFunc
}

func copyWrapper(w *record.Wrapper) *record.Wrapper {
	var meta *record.Meta
	if w.Meta() != nil {
		meta = w.Meta().Duplicate()
	}
	data := make([]byte, len(w.Data))
	copy(data, w.Data)
	c, _ := record.NewWrapper(w.Key(), meta, w.Format, data)
	return c
}

func (p *rtProvider) Get(keyOrPrefix string) ([]record.Record, error) {
	p.mu.Lock()
	defer p.mu.Unlock()
	keys := make([]string, 0, len(p.recs))
	for k := range p.recs {
		if strings.HasPrefix(k, keyOrPrefix) {
			keys = append(keys, k)
		}
	}
	sort.Strings(keys)
	out := make([]record.Record, 0, len(keys))
	for _, k := range keys {
		out = append(out, copyWrapper(p.recs[k]))
	}
	return out, nil
}

// Set is called with r locked by the database system.
func (p *rtProvider) Set(r record.Record) (record.Record, error) {
	w, ok := r.(*record.Wrapper)
	if !ok {
		return nil, errors.New("rtProvider: only wrappers are supported")
	}
	p.mu.Lock()
	p.recs[w.DatabaseKey()] = copyWrapper(w)
	p.mu.Unlock()
	return r, nil
}

// setAndPush stores a record from the provider's side and pushes the update to
// subscribers, as a runtime value provider does.
func (p *rtProvider) setAndPush(w *record.Wrapper) {
	p.mu.Lock()
	if w.Meta().IsDeleted() {
		delete(p.recs, w.DatabaseKey())
	} else {
		p.recs[w.DatabaseKey()] = copyWrapper(w)
	}
	p.mu.Unlock()
	out := copyWrapper(w)
	out.Lock()
	p.push(out)
	out.Unlock()
}

func (p *rtProvider) lookup(dbKey string) *record.Wrapper {
	p.mu.Lock()
	defer p.mu.Unlock()
	if w, ok := p.recs[dbKey]; ok {
		return copyWrapper(w)
	}
	return nil
}

// ---------------------------------------------------------------- records

func newWrapper(fullKey string, payload []byte, secret, crown bool, withMeta bool) *record.Wrapper {
	data := make([]byte, len(payload))
	copy(data, payload)
	w, _ := record.NewWrapper(fullKey, nil, dsd.JSON, data)
	if withMeta || secret || crown {
		w.CreateMeta()
		if secret {
			w.Meta().MakeSecret()
		}
		if crown {
			w.Meta().MakeCrownJewel()
		}
	}
	return w
}
