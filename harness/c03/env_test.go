package c03

import (
	"context"
	"encoding/json"
	"fmt"
	"regexp"
	"sort"
	"strings"
	"sync"
	"sync/atomic"

	"github.com/safing/portbase/database"
	"github.com/safing/portbase/database/query"
	"github.com/safing/portbase/database/record"

	"verifharness/internal/stats"
)

type fataler interface {
	Fatalf(format string, args ...any)
	Helper()
}

// ---------------------------------------------------------------- spec

// caseSpec is one case as plain data: everything run() does is a function of it.
type caseSpec struct {
	Backend string   `json:"backend"`
	Shadow  bool     `json:"shadow"`
	Ops     []opSpec `json:"ops"`
}

// opSpec is one operation. Unused fields are zero.
type opSpec struct {
	Kind    string `json:"kind"`
	Key     int    `json:"key,omitempty"`    // index into the key pool
	Reader  int    `json:"reader,omitempty"` // index into the reader list
	Flags   int    `json:"flags,omitempty"`  // bit 0 secret, bit 1 crown jewel
	Via     int    `json:"via,omitempty"`    // how a writer sets flags: 0 meta, 1 Always… option, 2 provider push (runtime)
	N       int    `json:"n,omitempty"`
	T       int    `json:"t,omitempty"`
	Prefix  int    `json:"prefix,omitempty"` // 0 whole namespace, 1 "d/"
	Cond    int    `json:"cond,omitempty"`   // 0 none, 1 N > arg, 2 T sameas t<arg>
	CondArg int    `json:"condarg,omitempty"`
	API     int    `json:"api,omitempty"` // which API client
}

// key pool; the last key is the sentinel used to flush the API subscriptions.
var keyPool = []string{"a", "b", "c", "d/e", "d/f", "d/zs"}

const sentinelKey = "d/zs"

const nUserKeys = 5

// ---------------------------------------------------------------- model

type mrec struct {
	Marker string
	N      int64
	T      string
	Secret bool
	Crown  bool
}

func (m *mrec) permits(local, internal bool) bool {
	if m.Crown && !local {
		return false
	}
	if m.Secret && !internal {
		return false
	}
	return true
}

func (m *mrec) flagged() bool { return m.Secret || m.Crown }

func (m *mrec) payload() []byte {
	return []byte(fmt.Sprintf(`{"M":%q,"N":%d,"T":%q}`, m.Marker, m.N, m.T))
}

// typedRec is the record as its owner works with it (the usual record.Base + sync.Mutex struct).
type typedRec struct {
	record.Base
	sync.Mutex

	M string
	N int64
	T string
}

type markerInfo struct {
	key    string
	secret bool
	crown  bool
}

type cond struct {
	Kind int
	Arg  int
}

func (c cond) apply(q *query.Query) *query.Query {
	switch c.Kind {
	case 1:
		return q.Where(query.Where("N", query.GreaterThan, c.Arg))
	case 2:
		return q.Where(query.Where("T", query.SameAs, fmt.Sprintf("t%d", c.Arg)))
	}
	return q
}

func (c cond) text() string {
	switch c.Kind {
	case 1:
		return fmt.Sprintf(" where N > %d", c.Arg)
	case 2:
		return fmt.Sprintf(" where T sameas t%d", c.Arg)
	}
	return ""
}

func (c cond) matches(m *mrec) bool {
	switch c.Kind {
	case 1:
		return m.N > int64(c.Arg)
	case 2:
		return m.T == fmt.Sprintf("t%d", c.Arg)
	}
	return true
}

// wevent is one write that the database system performed in the current step.
type wevent struct {
	key     string // pool key
	rec     mrec   // what was written (for a delete: the record that was deleted)
	deleted bool
}

type delivery struct {
	key     string // full key db:ns+key
	marker  string
	deleted bool
}

// ---------------------------------------------------------------- env

type reader struct {
	idx      int
	name     string
	local    bool
	internal bool
	cached   bool
	db       *database.Interface
	seen     map[string]map[string]bool // pool key -> markers the interface cache may hold
	subs     []*isub

	// dw is a second interface with the same privileges, a cache and
	// DelayCachedWrites for the case's database (batching back ends, readers
	// lacking a privilege only). The option is documented for local+internal
	// interfaces; an interface that lacks a privilege and sets it anyway must
	// still not get anything across. dwPending: what its write cache may hold.
	dw        *database.Interface
	dwPending map[string]*mrec
	dwSeen    map[string]bool // keys its cache holds a copy of (it judges later writes by that copy)
	// dwMarkers: every marker this interface ever queued, per key. Its cache is small (2 entries), so queued writes
	// are also evicted; an evicted entry is written out by the cache's eviction handler at any later operation.
	dwMarkers map[string]map[string]bool
}

func (r *reader) full() bool { return r.local && r.internal }

func (r *reader) stale(k string) map[string]bool {
	if !r.cached {
		return nil
	}
	return r.seen[k]
}

func (r *reader) lenient(k string) bool { return r.cached && len(r.seen[k]) > 0 }

func (r *reader) possess(k, marker string) {
	if !r.cached {
		return
	}
	if r.seen[k] == nil {
		r.seen[k] = map[string]bool{}
	}
	r.seen[k][marker] = true
}

type isub struct {
	owner  *reader
	sub    *database.Subscription
	prefix string // pool-key prefix ("" or "d/")
	cond   cond
}

type env struct {
	t       fataler
	id      int64
	p       *place
	model   map[string]*mrec
	markers map[string]*markerInfo
	nextMk  int
	// actingStale: markers of older versions that the reader acting in the current step holds in its cache for the key
	actingStale map[string]bool

	w       *database.Interface
	wAlways [4]*database.Interface
	readers []*reader
	apis    []*apiClient

	events []wevent
	fuzzy  bool // the step contained a write whose result is re-read instead of predicted
	stepNo int
	opName string

	flaggedCreated int
	deniedOnFlag   int
	deniedByPath   map[string]int
}

var caseCounter atomic.Int64

var markerRe = regexp.MustCompile(`MK\d+x\d+Z`)

func newEnv(t fataler, backend string, shadow bool) *env {
	p, err := openPlace(backend, shadow)
	if err != nil {
		t.Fatalf("harness: cannot open %s database: %v", backend, err)
	}
	e := &env{
		t:            t,
		id:           caseCounter.Add(1),
		p:            p,
		model:        map[string]*mrec{},
		markers:      map[string]*markerInfo{},
		deniedByPath: map[string]int{},
	}
	e.w = database.NewInterface(&database.Options{Local: true, Internal: true})
	for f := 0; f < 4; f++ {
		e.wAlways[f] = database.NewInterface(&database.Options{
			Local: true, Internal: true,
			AlwaysMakeSecret:     f&1 != 0,
			AlwaysMakeCrownjewel: f&2 != 0,
		})
	}
	for i := 0; i < 8; i++ {
		r := &reader{
			idx:      i,
			local:    i&1 != 0,
			internal: i&2 != 0,
			cached:   i&4 != 0,
			seen:     map[string]map[string]bool{},
		}
		r.name = fmt.Sprintf("reader(local=%v,internal=%v,cache=%v)", r.local, r.internal, r.cached)
		opts := &database.Options{Local: r.local, Internal: r.internal}
		if r.cached {
			opts.CacheSize = 256
		}
		r.db = database.NewInterface(opts)
		if !r.full() && (backend == beHashmap || backend == beBbolt || backend == beBadger) {
			r.dw = database.NewInterface(&database.Options{Local: r.local, Internal: r.internal, CacheSize: 2, DelayCachedWrites: p.dbName})
			r.dwPending = map[string]*mrec{}
			r.dwSeen = map[string]bool{}
			r.dwMarkers = map[string]map[string]bool{}
		}
		e.readers = append(e.readers, r)
	}
	for i := 0; i < 2; i++ {
		e.apis = append(e.apis, newAPIClient(e, i))
	}
	// The sentinel exists from the start (this also creates the "d" directory of
	// fstree, so that a "d/" query is rooted at a directory).
	e.sentinelWrite()
	e.events = nil
	return e
}

func (e *env) failf(format string, args ...any) {
	e.t.Helper()
	e.t.Fatalf("step %d (%s) on %s shadow=%v: %s", e.stepNo, e.opName, e.p.backend, e.p.shadow, fmt.Sprintf(format, args...))
}

func (e *env) newMarker(key string, secret, crown bool) string {
	e.nextMk++
	m := fmt.Sprintf("MK%dx%dZ", e.id, e.nextMk)
	e.markers[m] = &markerInfo{key: key, secret: secret, crown: crown}
	return m
}

func (e *env) full(k string) string { return e.p.fullKey(k) }

func (e *env) poolKeyOf(fullKey string) string {
	return strings.TrimPrefix(fullKey, e.p.dbName+":"+e.p.ns)
}

// taint fails when blob contains the marker of a record that an interface with
// the given privileges may not see. stale lists markers the receiving cached
// interface legitimately holds in its cache (documented: a cache is not
// invalidated by writes of other interfaces).
func (e *env) taint(who string, local, internal bool, stale map[string]bool, blob []byte, what string) {
	e.t.Helper()
	for _, mk := range markerRe.FindAll(blob, -1) {
		m := string(mk)
		info := e.markers[m]
		if info == nil {
			e.failf("%s received %s containing marker %s which does not belong to this case (foreign record surfaced): %.300q", who, what, m, blob)
			return
		}
		if info.secret && !internal || info.crown && !local {
			if stale[m] || e.actingStale[m] {
				continue
			}
			e.failf("TAINT: %s received %s containing marker %s of record %q (secret=%v crownjewel=%v): %.300q",
				who, what, m, info.key, info.secret, info.crown, blob)
		}
	}
}

// rsnap is what the harness keeps of a record it received.
type rsnap struct {
	key     string
	marker  string
	n       int64
	t       string
	deleted bool
	secret  bool
	crown   bool
	raw     []byte
}

func snapRecord(r record.Record) rsnap {
	r.Lock()
	defer r.Unlock()
	s := rsnap{key: r.Key()}
	if m := r.Meta(); m != nil {
		s.deleted = m.IsDeleted()
		s.secret = !m.CheckPermission(true, false)
		s.crown = !m.CheckPermission(false, true)
	}
	if w, ok := r.(*record.Wrapper); ok {
		s.raw = append([]byte(nil), w.Data...)
	} else {
		s.raw, _ = json.Marshal(r)
	}
	var v struct {
		M string
		N int64
		T string
	}
	if json.Unmarshal(s.raw, &v) == nil {
		s.marker, s.n, s.t = v.M, v.N, v.T
	} else if mk := markerRe.Find(s.raw); mk != nil {
		s.marker = string(mk)
	}
	return s
}

func (s rsnap) blob() []byte {
	return append([]byte(s.key+" "), s.raw...)
}

func (s rsnap) String() string {
	return fmt.Sprintf("{%s M=%s N=%d T=%s deleted=%v secret=%v crown=%v}", s.key, s.marker, s.n, s.t, s.deleted, s.secret, s.crown)
}

// ---------------------------------------------------------------- per-step checks

func (e *env) event(k string, m mrec, deleted bool) {
	e.events = append(e.events, wevent{key: k, rec: m, deleted: deleted})
}

// sentinelWrite rewrites the public sentinel record (an ordinary write of the
// privileged interface, part of the model).
func (e *env) sentinelWrite() string {
	m := &mrec{Marker: e.newMarker(sentinelKey, false, false), N: 9, T: "t1"}
	w := newWrapper(e.full(sentinelKey), m.payload(), false, false, false)
	if err := e.w.Put(w); err != nil {
		e.failf("privileged Put of the sentinel failed: %v", err)
	}
	e.model[sentinelKey] = m
	e.event(sentinelKey, *m, false)
	return m.Marker
}

func (e *env) expectedFor(local, internal bool, prefix string, c cond, path string) []delivery {
	var out []delivery
	for _, ev := range e.events {
		if !strings.HasPrefix(ev.key, prefix) {
			continue
		}
		if !c.matches(&ev.rec) {
			continue
		}
		if !ev.rec.permits(local, internal) {
			// a write that this subscription must not see
			rec := ev.rec
			e.noteDenied(path, &rec)
			continue
		}
		out = append(out, delivery{key: e.full(ev.key), marker: ev.rec.Marker, deleted: ev.deleted})
	}
	return out
}

func fmtDeliveries(d []delivery) string {
	var sb strings.Builder
	for _, x := range d {
		fmt.Fprintf(&sb, " (%s %s deleted=%v)", x.key, x.marker, x.deleted)
	}
	if sb.Len() == 0 {
		return " (none)"
	}
	return sb.String()
}

func sameDeliveries(a, b []delivery, ignoreMarkerOnDelete bool) bool {
	if len(a) != len(b) {
		return false
	}
	for i := range a {
		if a[i].key != b[i].key || a[i].deleted != b[i].deleted {
			return false
		}
		if a[i].deleted && ignoreMarkerOnDelete {
			continue
		}
		if a[i].marker != b[i].marker {
			return false
		}
	}
	return true
}

func (e *env) checkInterfaceSubs() {
	for _, r := range e.readers {
		for _, s := range r.subs {
			who := fmt.Sprintf("subscription(prefix=%q cond=%q) of %s", s.prefix, s.cond.text(), r.name)
			var got []delivery
		drain:
			for {
				select {
				case item, ok := <-s.sub.Feed:
					if !ok {
						e.failf("%s: feed closed although never cancelled", who)
					}
					sn := snapRecord(item)
					e.taint(who, r.local, r.internal, nil, sn.blob(), "a feed item")
					if sn.secret && !r.internal || sn.crown && !r.local {
						e.failf("PUSHED: %s received record %s which it may not see", who, sn)
					}
					got = append(got, delivery{key: sn.key, marker: sn.marker, deleted: sn.deleted})
				default:
					break drain
				}
			}
			want := e.expectedFor(r.local, r.internal, s.prefix, s.cond, "feed")
			if !e.fuzzy && !sameDeliveries(got, want, false) {
				e.failf("MODEL: %s received%s, expected%s", who, fmtDeliveries(got), fmtDeliveries(want))
			}
		}
	}
}

// compareModel reads every key back through the fully privileged interface.
func (e *env) compareModel() {
	for _, k := range keyPool {
		m := e.model[k]
		rec, err := e.w.Get(e.full(k))
		if m == nil {
			if err == nil {
				e.failf("INTEGRITY: key %q should not be visible, privileged Get returned %s", k, snapRecord(rec))
			}
			continue
		}
		if err != nil {
			e.failf("INTEGRITY: key %q should hold {M=%s N=%d T=%s secret=%v crown=%v}, privileged Get failed: %v", k, m.Marker, m.N, m.T, m.Secret, m.Crown, err)
		}
		sn := snapRecord(rec)
		if sn.marker != m.Marker || sn.n != m.N || sn.t != m.T || sn.secret != m.Secret || sn.crown != m.Crown || sn.deleted {
			e.failf("INTEGRITY: key %q should hold {M=%s N=%d T=%s secret=%v crown=%v}, privileged Get returned %s", k, m.Marker, m.N, m.T, m.Secret, m.Crown, sn)
		}
	}
}

// resync re-reads one key after a write whose outcome the documentation leaves
// open (write through an interface cache holding an outdated copy).
func (e *env) resync(k string) {
	e.fuzzy = true
	rec, err := e.w.Get(e.full(k))
	if err != nil {
		e.model[k] = nil
		return
	}
	sn := snapRecord(rec)
	info := e.markers[sn.marker]
	if info == nil {
		e.failf("after a write through a cached interface key %q holds unknown content %s", k, sn)
	}
	info.secret, info.crown = sn.secret, sn.crown
	e.model[k] = &mrec{Marker: sn.marker, N: sn.n, T: sn.t, Secret: sn.secret, Crown: sn.crown}
}

// dwReconcile: a write queued by an interface with DelayCachedWrites that lacks
// a privilege does not reach the storage (its flush is refused as a whole). The
// property only demands that it never lands on a record the interface may not
// modify: a queued record that did reach the storage is accepted where the
// model holds nothing or a record the interface may write; everything else is
// left to compareModel.
func (e *env) dwReconcile(r *reader) {
	for k, markers := range r.dwMarkers {
		m := e.model[k]
		if m != nil && !m.permits(r.local, r.internal) {
			continue
		}
		rec, err := e.w.Get(e.full(k))
		if err != nil {
			continue
		}
		if sn := snapRecord(rec); markers[sn.marker] && (m == nil || m.Marker != sn.marker) {
			stats.Class("delayed_write_of_unprivileged_interface_reached_storage")
			e.resync(k)
		}
	}
}

func (e *env) afterStep() {
	e.flushAPI()
	e.checkInterfaceSubs()
	e.checkAPISubs()
	e.scanAPI()
	e.compareModel()
}

func (e *env) finish() {
	for _, c := range e.apis {
		c.cancelAll()
	}
	e.scanAPI()
	for _, r := range e.readers {
		for _, s := range r.subs {
			_ = s.sub.Cancel()
		}
		r.subs = nil
	}
}

// ---------------------------------------------------------------- running a spec

func (e *env) run(ops []opSpec) {
	for i, op := range ops {
		e.stepNo = i
		e.opName = op.Kind
		e.events = nil
		e.fuzzy = false
		e.exec(op)
		e.afterStep()
	}
}

func (e *env) noteDenied(kind string, m *mrec) {
	if m != nil && m.flagged() {
		e.deniedOnFlag++
		e.deniedByPath[kind]++
	}
}

func (e *env) exec(op opSpec) {
	k := keyPool[op.Key%nUserKeys]
	e.actingStale = nil
	switch {
	case strings.HasPrefix(op.Kind, "w."):
		e.execWriter(op, k)
	case strings.HasPrefix(op.Kind, "r."):
		// what an interface with a cache writes or deletes is the copy in its cache: an older version of the record that it
		// read when it was allowed to. That copy - not marked, whatever happened to the stored record since - is what the
		// subscribers of the database are told. The statement is about records that are marked; the exclusively-used
		// cache is the documented reason why such a copy can be out of date.
		if r := e.readers[op.Reader%len(e.readers)]; r.cached {
			e.actingStale = map[string]bool{}
			for mk := range r.stale(k) {
				e.actingStale[mk] = true
			}
		}
		e.execReader(op, k, e.readers[op.Reader%len(e.readers)])
	case strings.HasPrefix(op.Kind, "api."):
		e.execAPI(op, k, e.apis[op.API%len(e.apis)])
	default:
		e.failf("harness: unknown op kind %q", op.Kind)
	}
}

func tval(i int) string { return fmt.Sprintf("t%d", i%3) }

// ---------------------------------------------------------------- writer

func (e *env) execWriter(op opSpec, k string) {
	secret, crown := op.Flags&1 != 0, op.Flags&2 != 0
	m := e.model[k]
	switch op.Kind {
	case "w.put", "w.putnew":
		nm := &mrec{Marker: e.newMarker(k, secret, crown), N: int64(op.N % 10), T: tval(op.T), Secret: secret, Crown: crown}
		via := op.Via
		if via == 2 && e.p.rt == nil {
			via = 0
		}
		var err error
		switch via {
		case 2:
			w := newWrapper(e.full(k), nm.payload(), secret, crown, true)
			w.UpdateMeta()
			e.p.rt.setAndPush(w)
		case 1:
			w := newWrapper(e.full(k), nm.payload(), false, false, op.N%2 == 0)
			if op.Kind == "w.putnew" {
				err = e.wAlways[op.Flags&3].PutNew(w)
			} else {
				err = e.wAlways[op.Flags&3].Put(w)
			}
		default:
			w := newWrapper(e.full(k), nm.payload(), secret, crown, false)
			if op.Kind == "w.putnew" {
				err = e.w.PutNew(w)
			} else {
				err = e.w.Put(w)
			}
		}
		if err != nil {
			e.failf("MODEL: privileged %s of %q failed: %v", op.Kind, k, err)
		}
		if nm.flagged() {
			e.flaggedCreated++
		}
		e.model[k] = nm
		e.event(k, *nm, false)

	case "w.putmany":
		// batch write of two records (documented: no hooks, no subscriptions)
		if e.p.backend != beHashmap && e.p.backend != beBbolt {
			return
		}
		put := e.w.PutMany(e.p.dbName)
		k2 := keyPool[(op.Key+1)%nUserKeys]
		for _, kk := range []string{k, k2} {
			nm := &mrec{Marker: e.newMarker(kk, secret, crown), N: int64(op.N % 10), T: tval(op.T), Secret: secret, Crown: crown}
			if err := put(newWrapper(e.full(kk), nm.payload(), secret, crown, false)); err != nil {
				e.failf("MODEL: privileged PutMany put failed: %v", err)
			}
			if nm.flagged() {
				e.flaggedCreated++
			}
			e.model[kk] = nm
		}
		if err := put(nil); err != nil {
			e.failf("MODEL: privileged PutMany finish failed: %v", err)
		}

	case "w.rmw":
		// the owner's usual update: get, unwrap into the typed struct, change, put. Nobody took a flag off the record.
		if m == nil || e.p.rt != nil {
			return // (the harness' runtime provider only takes wrappers)
		}
		r, err := e.w.Get(e.full(k))
		if err != nil {
			e.failf("MODEL: privileged Get(%q) before an update failed: %v", k, err)
		}
		got, ok := r.(*typedRec) // (a storage that keeps objects hands the struct of an earlier update back)
		if !ok {
			got = &typedRec{}
			if err := record.Unwrap(r, got); err != nil {
				e.failf("MODEL: record.Unwrap(%q) failed: %v", k, err)
			}
		}
		nm := &mrec{Marker: e.newMarker(k, m.Secret, m.Crown), N: int64(op.N % 10), T: tval(op.T), Secret: m.Secret, Crown: m.Crown}
		got.Lock()
		got.M, got.N, got.T = nm.Marker, nm.N, nm.T
		got.Unlock()
		if err := e.w.Put(got); err != nil {
			e.failf("MODEL: privileged Put of the unwrapped %q failed: %v", k, err)
		}
		e.model[k] = nm
		e.event(k, *nm, false)
		stats.Class("owner_updates_a_record_through_unwrap")

	case "w.secret", "w.crown":
		var err error
		if op.Kind == "w.secret" {
			err = e.w.MakeSecret(e.full(k))
		} else {
			err = e.w.MakeCrownJewel(e.full(k))
		}
		if m == nil {
			if err == nil {
				e.failf("MODEL: privileged %s on absent key %q succeeded", op.Kind, k)
			}
			return
		}
		if err != nil {
			if e.p.rt != nil {
				// a runtime provider may refuse; nothing changed
				return
			}
			e.failf("MODEL: privileged %s on %q failed: %v", op.Kind, k, err)
		}
		if op.Kind == "w.secret" {
			m.Secret = true
		} else {
			m.Crown = true
		}
		e.flaggedCreated++
		info := e.markers[m.Marker]
		info.secret, info.crown = m.Secret, m.Crown
		e.event(k, *m, false)

	case "w.insertm":
		if m == nil {
			return
		}
		nmk := e.newMarker(k, m.Secret, m.Crown)
		if err := e.w.InsertValue(e.full(k), "M", nmk); err != nil {
			e.failf("MODEL: privileged InsertValue on %q failed: %v", k, err)
		}
		if e.p.backend == beHashmap {
			// hashmap: the stored object is the object an interface cache holds, so
			// a cached copy changes with it. A reader that holds the old content and
			// may see the new one holds the new one now.
			for _, r := range e.readers {
				if r.cached && r.seen[k][m.Marker] && m.permits(r.local, r.internal) {
					r.possess(k, nmk)
				}
			}
		}
		m.Marker = nmk
		e.event(k, *m, false)

	case "w.delete":
		if e.p.rt != nil {
			if m == nil {
				return
			}
			w := newWrapper(e.full(k), m.payload(), m.Secret, m.Crown, true)
			w.UpdateMeta()
			w.Meta().Delete()
			e.p.rt.setAndPush(w)
			e.model[k] = nil
			e.event(k, *m, true)
			return
		}
		err := e.w.Delete(e.full(k))
		if m == nil {
			if err == nil {
				e.failf("MODEL: privileged Delete of absent key %q succeeded", k)
			}
			return
		}
		if err != nil {
			e.failf("MODEL: privileged Delete of %q failed: %v", k, err)
		}
		e.model[k] = nil
		e.event(k, *m, true)

	default:
		e.failf("harness: unknown writer op %q", op.Kind)
	}
}

// ---------------------------------------------------------------- readers

func prefixOf(op opSpec) string {
	if op.Prefix%2 == 1 {
		return "d/"
	}
	return ""
}

func (e *env) visibleSet(local, internal bool, prefix string, c cond) map[string]string {
	out := map[string]string{}
	for _, k := range keyPool {
		m := e.model[k]
		if m == nil || !strings.HasPrefix(k, prefix) || !m.permits(local, internal) || !c.matches(m) {
			continue
		}
		out[e.full(k)] = m.Marker
	}
	return out
}

func fmtSet(s map[string]string) string {
	keys := make([]string, 0, len(s))
	for k := range s {
		keys = append(keys, k)
	}
	sort.Strings(keys)
	var sb strings.Builder
	for _, k := range keys {
		fmt.Fprintf(&sb, " %s=%s", k, s[k])
	}
	if sb.Len() == 0 {
		return " (empty)"
	}
	return sb.String()
}

func sameSet(a, b map[string]string) bool {
	if len(a) != len(b) {
		return false
	}
	for k, v := range a {
		if b[k] != v {
			return false
		}
	}
	return true
}

const farFuture = int64(4102444800) // 2100-01-01

func (e *env) execReader(op opSpec, k string, r *reader) {
	m := e.model[k]
	visible := m != nil
	perm := visible && m.permits(r.local, r.internal)
	lenient := r.lenient(k)
	stats.Class("path:" + op.Kind)
	switch op.Kind {
	case "r.query", "r.sub", "r.clearcache", "r.purge", "r.putmany", "r.dwput", "r.dwflush", "r.dwputmany":
		// counted where the records they touch are known
	default:
		if visible && !perm {
			e.noteDenied(op.Kind, m)
		}
	}

	switch op.Kind {
	case "r.get":
		rec, err := r.db.Get(e.full(k))
		if err != nil {
			e.taint(r.name, r.local, r.internal, r.stale(k), []byte(err.Error()), "an error text from Get")
		}
		if rec != nil && err != nil {
			e.failf("%s: Get(%q) returned a record together with error %v", r.name, k, err)
		}
		if rec == nil && err == nil {
			e.failf("%s: Get(%q) returned neither record nor error", r.name, k)
		}
		if rec != nil {
			sn := snapRecord(rec)
			e.taint(r.name, r.local, r.internal, r.stale(k), sn.blob(), "a record from Get")
			switch {
			case perm && sn.marker == m.Marker:
				if !lenient && (sn.n != m.N || sn.t != m.T || sn.deleted) {
					e.failf("MODEL: %s: Get(%q) returned %s, model holds {M=%s N=%d T=%s}", r.name, k, sn, m.Marker, m.N, m.T)
				}
			case lenient && r.seen[k][sn.marker]:
				// outdated copy from the interface cache (documented)
			case visible && !perm:
				e.failf("RETURNED: %s: Get(%q) returned %s although the record is secret=%v crownjewel=%v", r.name, k, sn, m.Secret, m.Crown)
			default:
				e.failf("MODEL: %s: Get(%q) returned %s, model: visible=%v", r.name, k, sn, visible)
			}
			r.possess(k, sn.marker)
			return
		}
		if perm && !lenient {
			e.failf("MODEL: %s: Get(%q) failed with %q although the record is visible and permitted", r.name, k, err)
		}

	case "r.exists":
		ok, err := r.db.Exists(e.full(k))
		if err != nil {
			e.taint(r.name, r.local, r.internal, r.stale(k), []byte(err.Error()), "an error text from Exists")
		}
		if lenient {
			if ok && perm {
				r.possess(k, m.Marker)
			}
			return
		}
		if err != nil {
			e.failf("MODEL: %s: Exists(%q) failed: %v", r.name, k, err)
		}
		switch {
		case !visible && ok:
			e.failf("MODEL: %s: Exists(%q) = true for an absent key", r.name, k)
		case perm && !ok:
			e.failf("MODEL: %s: Exists(%q) = false for a visible, permitted record", r.name, k)
		}
		// not permitted: the statement allows learning that the key exists, both answers are accepted
		if ok && perm {
			r.possess(k, m.Marker)
		}

	case "r.query":
		prefix := prefixOf(op)
		c := cond{op.Cond % 3, op.CondArg % 10}
		q := c.apply(query.New(e.full(prefix)))
		it, err := r.db.Query(q)
		if err != nil {
			e.taint(r.name, r.local, r.internal, nil, []byte(err.Error()), "an error text from Query")
			e.failf("MODEL: %s: Query(%s) failed: %v", r.name, q.Print(), err)
		}
		got := map[string]string{}
		for rec := range it.Next {
			sn := snapRecord(rec)
			e.taint(r.name, r.local, r.internal, nil, sn.blob(), "a record from Query "+q.Print())
			if sn.secret && !r.internal || sn.crown && !r.local {
				e.failf("LISTED: %s: Query(%s) listed %s", r.name, q.Print(), sn)
			}
			if _, dup := got[sn.key]; dup {
				e.failf("MODEL: %s: Query(%s) listed %s twice", r.name, q.Print(), sn.key)
			}
			got[sn.key] = sn.marker
		}
		if err := it.Err(); err != nil {
			e.taint(r.name, r.local, r.internal, nil, []byte(err.Error()), "an iterator error text")
			e.failf("MODEL: %s: Query(%s) ended with error %v", r.name, q.Print(), err)
		}
		want := e.visibleSet(r.local, r.internal, prefix, c)
		if !sameSet(got, want) {
			e.failf("MODEL: %s: Query(%s) listed%s, expected%s", r.name, q.Print(), fmtSet(got), fmtSet(want))
		}
		for _, kk := range keyPool {
			if mm := e.model[kk]; mm != nil && mm.flagged() && !mm.permits(r.local, r.internal) && strings.HasPrefix(kk, prefix) {
				e.noteDenied(op.Kind, mm)
			}
		}

	case "r.sub":
		if len(r.subs) >= 2 {
			return
		}
		prefix := prefixOf(op)
		c := cond{op.Cond % 3, op.CondArg % 9}
		sub, err := r.db.Subscribe(c.apply(query.New(e.full(prefix))))
		if err != nil {
			e.failf("MODEL: %s: Subscribe failed: %v", r.name, err)
		}
		r.subs = append(r.subs, &isub{owner: r, sub: sub, prefix: prefix, cond: c})

	case "r.clearcache":
		r.db.ClearCache()
		r.seen = map[string]map[string]bool{}

	case "r.insert", "r.setabs", "r.setrel", "r.secret", "r.crown", "r.delete":
		if r.cached && perm {
			r.possess(k, m.Marker)
		}
		var err error
		newT := tval(op.T)
		switch op.Kind {
		case "r.insert":
			err = r.db.InsertValue(e.full(k), "T", newT)
		case "r.setabs":
			err = r.db.SetAbsoluteExpiry(e.full(k), farFuture)
		case "r.setrel":
			err = r.db.SetRelativateExpiry(e.full(k), 365*24*3600)
		case "r.secret":
			err = r.db.MakeSecret(e.full(k))
		case "r.crown":
			err = r.db.MakeCrownJewel(e.full(k))
		case "r.delete":
			err = r.db.Delete(e.full(k))
		}
		if err != nil {
			e.taint(r.name, r.local, r.internal, r.stale(k), []byte(err.Error()), "an error text from "+op.Kind)
		}
		switch {
		case visible && !perm:
			if err == nil {
				e.failf("MODIFIED: %s: %s(%q) succeeded although the record is secret=%v crownjewel=%v", r.name, op.Kind, k, m.Secret, m.Crown)
			}
			// integrity: compareModel after the step
		case lenient:
			e.resync(k)
		case !visible:
			if err == nil {
				e.failf("MODEL: %s: %s(%q) succeeded on an absent key", r.name, op.Kind, k)
			}
		case op.Kind == "r.delete" && e.p.rt != nil:
			// runtime databases have no delete; any answer, re-read
			e.resync(k)
		default:
			if err != nil {
				if e.p.rt != nil && (op.Kind == "r.setabs" || op.Kind == "r.setrel") {
					e.resync(k)
					return
				}
				e.failf("MODEL: %s: %s(%q) failed with %q although the record is visible and permitted", r.name, op.Kind, k, err)
			}
			switch op.Kind {
			case "r.insert":
				m.T = newT
			case "r.secret":
				m.Secret = true
				e.markers[m.Marker].secret = true
			case "r.crown":
				m.Crown = true
				e.markers[m.Marker].crown = true
			case "r.delete":
				e.model[k] = nil
				e.event(k, *m, true)
				return
			}
			e.event(k, *m, false)
		}

	case "r.put", "r.putnew":
		nm := &mrec{Marker: e.newMarker(k, false, false), N: int64(op.N % 10), T: tval(op.T)}
		w := newWrapper(e.full(k), nm.payload(), false, false, op.N%2 == 0)
		if r.cached && (perm || !visible) {
			r.possess(k, nm.Marker)
		}
		var err error
		if op.Kind == "r.put" {
			err = r.db.Put(w)
		} else {
			err = r.db.PutNew(w)
		}
		if err != nil {
			e.taint(r.name, r.local, r.internal, r.stale(k), []byte(err.Error()), "an error text from "+op.Kind)
		}
		switch {
		case visible && !perm:
			if err == nil {
				e.failf("MODIFIED: %s: %s(%q) overwrote a record that is secret=%v crownjewel=%v", r.name, op.Kind, k, m.Secret, m.Crown)
			}
		case lenient:
			e.resync(k)
		default:
			if err != nil {
				e.failf("MODEL: %s: %s(%q) failed with %q although nothing forbids it", r.name, op.Kind, k, err)
			}
			e.model[k] = nm
			e.event(k, *nm, false)
		}

	case "r.putmany":
		nm := &mrec{Marker: e.newMarker(k, false, false), N: int64(op.N % 10), T: tval(op.T)}
		if r.full() && e.p.backend != beHashmap && e.p.backend != beBbolt {
			return // not a batching backend; outside this property
		}
		put := r.db.PutMany(e.p.dbName)
		err := put(newWrapper(e.full(k), nm.payload(), false, false, false))
		if !r.full() {
			if err == nil {
				e.failf("MODIFIED: %s: PutMany accepted a record although the interface lacks a privilege", r.name)
			}
			e.taint(r.name, r.local, r.internal, nil, []byte(err.Error()), "an error text from PutMany")
			e.noteDenied(op.Kind, m)
			return
		}
		if err != nil {
			e.failf("MODEL: %s: PutMany put failed: %v", r.name, err)
		}
		if err := put(nil); err != nil {
			e.failf("MODEL: %s: PutMany finish failed: %v", r.name, err)
		}
		e.model[k] = nm

	case "r.dwputmany":
		if r.dw == nil {
			return
		}
		nm := &mrec{Marker: e.newMarker(k, false, false), N: int64(op.N % 10), T: tval(op.T)}
		put := r.dw.PutMany(e.p.dbName)
		err := put(newWrapper(e.full(k), nm.payload(), false, false, false))
		if err == nil {
			_ = put(nil)
			e.failf("MODIFIED: %s with DelayCachedWrites: PutMany accepted a record although the interface lacks a privilege", r.name)
		}
		e.taint(r.name, r.local, r.internal, nil, []byte(err.Error()), "an error text from PutMany")
		e.noteDenied(op.Kind, m)

	case "r.dwput":
		if r.dw == nil {
			return
		}
		nm := &mrec{Marker: e.newMarker(k, false, false), N: int64(op.N % 10), T: tval(op.T)}
		err := r.dw.Put(newWrapper(e.full(k), nm.payload(), false, false, false))
		if err != nil {
			e.taint(r.name, r.local, r.internal, nil, []byte(err.Error()), "an error text from a delayed Put")
		}
		if visible && !perm {
			e.noteDenied(op.Kind, m)
			// the interface's cache may hold its own earlier write of this key and judge by that
			if err == nil && !r.dwSeen[k] {
				e.failf("MODIFIED: %s with DelayCachedWrites: Put(%q) accepted over a record that is secret=%v crownjewel=%v", r.name, k, m.Secret, m.Crown)
			}
		}
		if err == nil {
			r.dwPending[k] = nm
			r.dwSeen[k] = true
			if r.dwMarkers[k] == nil {
				r.dwMarkers[k] = map[string]bool{}
			}
			r.dwMarkers[k][nm.Marker] = true
			stats.Class("delayed_write_queued_by_unprivileged_interface")
		}
		e.dwReconcile(r)

	case "r.dwflush":
		if r.dw == nil {
			return
		}
		for kk := range r.dwPending {
			if mm := e.model[kk]; mm != nil && !mm.permits(r.local, r.internal) {
				e.noteDenied(op.Kind, mm)
				stats.Class("delayed_write_flushed_onto_protected_record")
			}
		}
		r.dw.FlushCache()
		e.dwReconcile(r)
		r.dwPending = map[string]*mrec{}

	case "r.purge":
		prefix := prefixOf(op)
		c := cond{op.Cond % 3, op.CondArg % 10}
		q := c.apply(query.New(e.full(prefix)))
		_, err := r.db.Purge(context.Background(), q)
		if err != nil {
			e.taint(r.name, r.local, r.internal, nil, []byte(err.Error()), "an error text from Purge")
		}
		for _, kk := range keyPool {
			if mm := e.model[kk]; mm != nil && mm.flagged() && !mm.permits(r.local, r.internal) && strings.HasPrefix(kk, prefix) && c.matches(mm) {
				e.noteDenied(op.Kind, mm)
			}
		}
		if e.p.backend != beBbolt {
			if err == nil {
				e.failf("MODEL: %s: Purge succeeded on backend %s which has no purge", r.name, e.p.backend)
			}
			return // nothing may have changed: compareModel
		}
		if err != nil {
			e.failf("MODEL: %s: Purge(%s) failed: %v", r.name, q.Print(), err)
		}
		for _, kk := range keyPool {
			mm := e.model[kk]
			if mm == nil || !strings.HasPrefix(kk, prefix) || !mm.permits(r.local, r.internal) || !c.matches(mm) {
				continue
			}
			e.model[kk] = nil
		}

	default:
		e.failf("harness: unknown reader op %q", op.Kind)
	}
}
