// Package stats collects what a check run actually covered: number of cases,
// the set of distinct non-trivial case fingerprints, a class histogram and a few
// rendered sample cases. Every test package calls stats.Main(m) from TestMain;
// the result is written to the file named by VERIF_STATS_OUT (JSON) and the
// fingerprint hashes next to it (<file>.fp, little-endian uint64) so that the
// driver can merge shards and count distinct cases across them.
package stats

import (
	"encoding/binary"
	"encoding/json"
	"fmt"
	"hash/fnv"
	"os"
	"sort"
	"strings"
	"sync"
	"testing"
)

const maxSamples = 6

// maxFingerprints bounds the memory used for the distinct set.
const maxFingerprints = 4_000_000

type collector struct {
	mu          sync.Mutex
	evaluations int64
	nontrivial  int64
	fps         map[uint64]struct{}
	fpOverflow  int64
	classes     map[string]int64
	samples     []any
	sampleKeys  map[string]int
	excluded    map[string]int64
	warnings    []string
	exhaustive  map[string]bool
}

var c = &collector{
	fps:        map[uint64]struct{}{},
	classes:    map[string]int64{},
	sampleKeys: map[string]int{},
	excluded:   map[string]int64{},
	exhaustive: map[string]bool{},
}

func hash(s string) uint64 {
	h := fnv.New64a()
	_, _ = h.Write([]byte(s))
	return h.Sum64()
}

// Case records one generated case. fingerprint identifies the case (two cases
// with the same fingerprint count once); nontrivial says whether it satisfies
// the property's stated non-triviality rule.
func Case(fingerprint string, nontrivial bool, classes ...string) {
	c.mu.Lock()
	defer c.mu.Unlock()
	c.evaluations++
	if nontrivial {
		c.nontrivial++
		if len(c.fps) < maxFingerprints {
			c.fps[hash(fingerprint)] = struct{}{}
		} else {
			c.fpOverflow++
		}
	}
	for _, cl := range classes {
		c.classes[cl]++
	}
}

// CaseN records n evaluations at once (for exhaustive loops); distinct
// non-trivial ones are given as a count because an exhaustive enumeration
// visits each input once.
func CaseN(n, distinctNontrivial int64, class string) {
	c.mu.Lock()
	defer c.mu.Unlock()
	c.evaluations += n
	c.nontrivial += distinctNontrivial
	c.classes[class] += n
	c.classes["enumerated_distinct_nontrivial"] += distinctNontrivial
}

// Class increments a histogram class.
func Class(name string) { ClassN(name, 1) }

// ClassN adds n to a histogram class.
func ClassN(name string, n int64) {
	c.mu.Lock()
	c.classes[name] += n
	c.mu.Unlock()
}

// Excluded counts a would-be case removed by a known-finding exclusion flag.
func Excluded(flag string) {
	c.mu.Lock()
	c.excluded[flag]++
	c.mu.Unlock()
}

// Exhaustive marks a named sub-space as enumerated completely by this run.
func Exhaustive(name string) {
	c.mu.Lock()
	c.exhaustive[name] = true
	c.mu.Unlock()
}

// Warn records a generator warning (soft failure, evidence only).
func Warn(format string, a ...any) {
	c.mu.Lock()
	c.warnings = append(c.warnings, fmt.Sprintf(format, a...))
	c.mu.Unlock()
}

// Sample keeps up to maxSamples rendered cases, at most two per kind.
func Sample(kind string, v any) {
	c.mu.Lock()
	defer c.mu.Unlock()
	if len(c.samples) >= maxSamples || c.sampleKeys[kind] >= 2 {
		return
	}
	c.sampleKeys[kind]++
	c.samples = append(c.samples, map[string]any{"kind": kind, "case": v})
}

// WantSample reports whether another sample of this kind would be kept (lets
// callers skip rendering).
func WantSample(kind string) bool {
	c.mu.Lock()
	defer c.mu.Unlock()
	return len(c.samples) < maxSamples && c.sampleKeys[kind] < 2
}

type out struct {
	Evaluations int64            `json:"evaluations"`
	Nontrivial  int64            `json:"nontrivial_evaluations"`
	Distinct    int64            `json:"distinct_nontrivial_local"`
	EnumDist    int64            `json:"enumerated_distinct_nontrivial"`
	FpOverflow  int64            `json:"fingerprint_overflow"`
	Classes     map[string]int64 `json:"classes"`
	Samples     []any            `json:"samples"`
	Excluded    map[string]int64 `json:"excluded"`
	Warnings    []string         `json:"warnings"`
	Exhaustive  []string         `json:"exhaustive"`
	ExitCode    int              `json:"exit_code"`
}

// Flush writes the stats file (if VERIF_STATS_OUT is set).
func Flush(code int) {
	path := os.Getenv("VERIF_STATS_OUT")
	if path == "" {
		return
	}
	c.mu.Lock()
	defer c.mu.Unlock()
	o := out{
		Evaluations: c.evaluations,
		Nontrivial:  c.nontrivial,
		Distinct:    int64(len(c.fps)),
		EnumDist:    c.classes["enumerated_distinct_nontrivial"],
		FpOverflow:  c.fpOverflow,
		Classes:     c.classes,
		Samples:     c.samples,
		Excluded:    c.excluded,
		Warnings:    c.warnings,
		ExitCode:    code,
	}
	for k := range c.exhaustive {
		o.Exhaustive = append(o.Exhaustive, k)
	}
	sort.Strings(o.Exhaustive)
	b, err := json.Marshal(o)
	if err == nil {
		_ = os.WriteFile(path, b, 0o644)
	}
	fp := make([]byte, 0, 8*len(c.fps))
	for h := range c.fps {
		fp = binary.LittleEndian.AppendUint64(fp, h)
	}
	_ = os.WriteFile(path+".fp", fp, 0o644)
}

// Main is the common TestMain body.
func Main(m *testing.M) {
	code := m.Run()
	Flush(code)
	os.Exit(code)
}

// Excl reports whether the generator exclusion flag is active
// (VERIF_EXCLUDE=flag1,flag2 — derived by the driver from known-findings.txt).
func Excl(flag string) bool {
	for _, f := range strings.Split(os.Getenv("VERIF_EXCLUDE"), ",") {
		if f == flag {
			return true
		}
	}
	return false
}

// Thorough reports whether the thorough tier is running.
func Thorough() bool { return os.Getenv("VERIF_TIER") == "thorough" }
