// Package c08 decides C08: the stored-record format round-trips and its
// decoder (record.NewRawWrapper) is total.
//
// c08_test.go: record model, the two oracles (round trip, totality) and the
// generators. props_test.go: rapid properties, exhaustive enumerations, fuzz
// targets and regression tests.
package c08

import (
	"bytes"
	"encoding/hex"
	"fmt"
	"reflect"
	"strings"
	"sync"
	"testing"

	"github.com/safing/portbase/database/record"
	"github.com/safing/portbase/formats/dsd"
	"pgregory.net/rapid"

	"verifharness/internal/stats"
)

func TestMain(m *testing.M) { stats.Main(m) }

type fataler interface {
	Fatalf(format string, args ...any)
}

// ---------------------------------------------------------------- record model

// metaM is the harness's view of the six metadata fields.
type metaM struct {
	Created, Modified, Expires, Deleted int64
	Secret, CrownJewel                  bool
}

func (m metaM) deleted() bool { return m.Deleted > 0 } // record.Meta.IsDeleted: Deleted > 0

func (m metaM) build() *record.Meta {
	r := &record.Meta{Created: m.Created, Modified: m.Modified, Expires: m.Expires, Deleted: m.Deleted}
	if m.Secret {
		r.MakeSecret()
	}
	if m.CrownJewel {
		r.MakeCrownJewel()
	}
	return r
}

// readMeta observes the six fields through the exported API: the two flags are
// unexported and only visible through CheckPermission(local, internal):
// !local && crownjewel -> false ; !internal && secret -> false.
func readMeta(m *record.Meta) metaM {
	return metaM{
		Created: m.Created, Modified: m.Modified, Expires: m.Expires, Deleted: m.Deleted,
		Secret:     !m.CheckPermission(true, false),
		CrownJewel: !m.CheckPermission(false, true),
	}
}

func (m metaM) String() string {
	return fmt.Sprintf("{Created:%d Modified:%d Expires:%d Deleted:%d secret:%v crownjewel:%v}", m.Created, m.Modified, m.Expires, m.Deleted, m.Secret, m.CrownJewel)
}

// Payload is the harness schema of typed records. Every field type survives
// encoding/json exactly (no omitempty: nil and empty stay distinct; strings are
// valid UTF-8; floats are finite).
type Payload struct {
	S     string
	I     int64
	U     uint64
	F     float64
	B     bool
	Bytes []byte
	List  []string
	Map   map[string]string
	Inner Inner
	Ptr   *int64
	Ints  []int32
}

// Inner is a nested struct of the schema.
type Inner struct {
	Name  string
	Value int16
	Tags  []string
}

// Typed is a typed record like the ones portbase users define.
type Typed struct {
	record.Base
	sync.Mutex
	Payload
}

func hx(b []byte) string {
	if len(b) > 48 {
		return fmt.Sprintf("%s..(%d bytes)", hex.EncodeToString(b[:48]), len(b))
	}
	return hex.EncodeToString(b)
}

// ---------------------------------------------------------------- parsing helpers

type outcome struct {
	ok     bool
	err    string
	key    string
	meta   metaM
	format uint8
	data   []byte
	panic  any
}

func (o outcome) same(p outcome) bool {
	if o.ok != p.ok || (o.panic != nil) != (p.panic != nil) {
		return false
	}
	if !o.ok {
		return true
	}
	return o.key == p.key && o.meta == p.meta && o.format == p.format && bytes.Equal(o.data, p.data)
}

func (o outcome) String() string {
	switch {
	case o.panic != nil:
		return fmt.Sprintf("panic(%v)", o.panic)
	case !o.ok:
		return "error(" + o.err + ")"
	default:
		return fmt.Sprintf("record(meta=%v format=%d data=%s)", o.meta, o.format, hx(o.data))
	}
}

// parse calls NewRawWrapper on exactly the given slice header.
func parse(db, key string, in []byte) (o outcome, w *record.Wrapper) {
	defer func() {
		if r := recover(); r != nil {
			o = outcome{panic: r}
			w = nil
		}
	}()
	w, err := record.NewRawWrapper(db, key, in)
	if err != nil {
		if w != nil {
			return outcome{panic: "returned a record together with error " + err.Error()}, nil
		}
		return outcome{err: err.Error()}, nil
	}
	if w == nil {
		return outcome{panic: "returned neither a record nor an error"}, nil
	}
	if w.Meta() == nil {
		return outcome{panic: "returned a record without metadata"}, nil
	}
	return outcome{ok: true, key: w.Key(), meta: readMeta(w.Meta()), format: w.Format, data: append([]byte{}, w.Data...)}, w
}

// withCap returns a copy of in whose backing array continues with trailer
// (cap > len): a decoder that reslices beyond len(in) does not panic there, it
// silently reads the trailer.
func withCap(in, trailer []byte) []byte {
	buf := make([]byte, 0, len(in)+len(trailer))
	buf = append(buf, in...)
	buf = append(buf, trailer...)
	return buf[:len(in)]
}

func exact(in []byte) []byte {
	out := make([]byte, len(in))
	copy(out, in)
	return out[:len(in):len(in)]
}

// trailers that would turn a truncated input into a well-formed one when read
var trailerZero = bytes.Repeat([]byte{0x00}, 64)
var trailerMeta = func() []byte {
	b := []byte{0x01, 0x23, dsd.GenCode}
	b = append(b, bytes.Repeat([]byte{0x01}, 34)...)
	b = append(b, dsd.JSON, '{', '}')
	return append(b, bytes.Repeat([]byte{0x01}, 24)...)
}()

// checkTotal is the oracle for arbitrary input: NewRawWrapper returns a record
// or an error, never panics, and the result does not depend on memory behind
// the input (no read beyond it, no trust in a length field that points there).
// It returns the outcome and the wrapper parsed from the exact-capacity copy.
func checkTotal(t fataler, in []byte) (outcome, *record.Wrapper) {
	o1, w := parse("db", "k", exact(in))
	if o1.panic != nil {
		t.Fatalf("NewRawWrapper(%s) [%d bytes, cap=len]: %v", hx(in), len(in), o1.panic)
	}
	for _, tr := range [][]byte{trailerZero, trailerMeta} {
		o2, _ := parse("db", "k", withCap(in, tr))
		if o2.panic != nil {
			t.Fatalf("NewRawWrapper(%s) [%d bytes, followed in memory by %s]: %v", hx(in), len(in), hx(tr), o2.panic)
		}
		if !o1.same(o2) {
			t.Fatalf("NewRawWrapper(%s) [%d bytes] depends on the memory behind the input: %v with nothing behind it, %v when followed by %s", hx(in), len(in), o1, o2, hx(tr))
		}
	}
	if o1.ok && len(o1.data) > len(in) {
		t.Fatalf("NewRawWrapper(%s) returned %d data bytes from %d input bytes", hx(in), len(o1.data), len(in))
	}
	// a length prefix that announces more than is present must not yield a record
	if o1.ok {
		if v, n, st := refVarint(in); st == 0 && v == 1 {
			if l, n2, st2 := refVarint(in[n:]); st2 == 0 && l > uint64(len(in)-n-n2) {
				t.Fatalf("NewRawWrapper(%s) returned %v although the meta block length %d exceeds the %d bytes that follow", hx(in), o1, l, len(in)-n-n2)
			}
		}
	}
	return o1, w
}

// refVarint: independent LEB128 decoder (status 0 ok, 1 truncated, 2 overflow).
func refVarint(b []byte) (v uint64, n int, st int) {
	for i := 0; i < len(b); i++ {
		c := b[i]
		if i > 9 || (i == 9 && c > 1) {
			return 0, 0, 2
		}
		v |= uint64(c&0x7f) << (7 * uint(i))
		if c&0x80 == 0 {
			return v, i + 1, 0
		}
	}
	return 0, 0, 1
}

func refPack(v uint64) []byte {
	var out []byte
	for {
		c := byte(v & 0x7f)
		v >>= 7
		if v != 0 {
			out = append(out, c|0x80)
		} else {
			return append(out, c)
		}
	}
}

// errClass buckets decoder errors by the stage that rejected the input.
func errClass(o outcome) string {
	switch {
	case o.ok:
		return "accepted"
	case strings.HasPrefix(o.err, "incompatible record version"):
		return "rejected_version_value"
	case strings.HasPrefix(o.err, "could not get meta section"):
		return "rejected_meta_block_length"
	case strings.HasPrefix(o.err, "could not unmarshal meta section"):
		return "rejected_meta_content"
	case strings.HasPrefix(o.err, "could not get dsd format"):
		return "rejected_format_id"
	default:
		return "rejected_version_varint"
	}
}

// ---------------------------------------------------------------- round-trip oracle

type wrapCase struct {
	db, key string
	meta    metaM
	format  uint8
	data    []byte
}

func (c wrapCase) fullKey() string { return c.db + ":" + c.key }

func (c wrapCase) String() string {
	return fmt.Sprintf("key=%q meta=%v format=%d data=%s", c.fullKey(), c.meta, c.format, hx(c.data))
}

// compareParsed checks what the statement promises about parse(serialize(r)).
func compareParsed(t fataler, what string, c wrapCase, raw []byte, o outcome) {
	if o.panic != nil {
		t.Fatalf("%s: NewRawWrapper(%s) panicked: %v\nrecord: %v", what, hx(raw), o.panic, c)
	}
	if !o.ok {
		t.Fatalf("%s: the storage form %s does not parse back: %s\nrecord: %v", what, hx(raw), o.err, c)
	}
	if o.key != c.fullKey() {
		t.Fatalf("%s: key %q came back as %q", what, c.fullKey(), o.key)
	}
	if o.meta != c.meta {
		t.Fatalf("%s: metadata %v came back as %v (storage form %s)", what, c.meta, o.meta, hx(raw))
	}
	if c.meta.deleted() {
		if len(o.data) != 0 {
			t.Fatalf("%s: deleted record came back with %d data bytes (%s)\nrecord: %v", what, len(o.data), hx(o.data), c)
		}
		return
	}
	if o.format != c.format {
		t.Fatalf("%s: data format %d came back as %d (storage form %s)\nrecord: %v", what, c.format, o.format, hx(raw), c)
	}
	if !bytes.Equal(o.data, c.data) {
		t.Fatalf("%s: data %s came back as %s (storage form %s)\nrecord: %v", what, hx(c.data), hx(o.data), hx(raw), c)
	}
}

// checkWrapperRoundTrip: NewWrapper -> MarshalRecord -> NewRawWrapper, twice.
func checkWrapperRoundTrip(t fataler, c wrapCase) (raw []byte) {
	orig := append([]byte(nil), c.data...)
	w, err := record.NewWrapper(c.fullKey(), c.meta.build(), c.format, c.data)
	if err != nil {
		t.Fatalf("NewWrapper(%v) failed: %v", c, err)
	}
	if w.Key() != c.fullKey() {
		t.Fatalf("NewWrapper(%q).Key() = %q", c.fullKey(), w.Key())
	}
	raw, err = marshal(t, w, c.String())
	if err != nil {
		t.Fatalf("MarshalRecord failed: %v\nrecord: %v", err, c)
	}
	if !bytes.Equal(c.data, orig) {
		t.Fatalf("MarshalRecord modified the record's data: %s -> %s", hx(orig), hx(c.data))
	}
	checkTotal(t, raw)
	w2 := reparse(t, c, raw)
	// the parsed wrapper is itself a record: serialize and parse it again
	raw2, err := marshal(t, w2, "re-marshal of parsed "+c.String())
	if err != nil {
		t.Fatalf("MarshalRecord of the parsed record failed: %v\nrecord: %v", err, c)
	}
	o2, _ := parse(c.db, c.key, exact(raw2))
	compareParsed(t, "second round trip (parsed record serialized again)", c, raw2, o2)
	if bytes.Equal(raw, raw2) {
		stats.Class("remarshal_byte_identical")
	} else {
		stats.Class("remarshal_bytes_differ")
	}
	return raw
}

// reparse parses the storage form under the record's own database name and key
// (the key is not part of the storage form, the backend passes it in).
func reparse(t fataler, c wrapCase, raw []byte) *record.Wrapper {
	o, w := parse(c.db, c.key, exact(raw))
	compareParsed(t, "round trip", c, raw, o)
	return w
}

func marshal(t fataler, r record.Record, what string) (raw []byte, err error) {
	defer func() {
		if p := recover(); p != nil {
			t.Fatalf("MarshalRecord panicked: %v\nrecord: %s", p, what)
		}
	}()
	return r.MarshalRecord(r)
}

// checkTypedRoundTrip: typed struct -> MarshalRecord -> NewRawWrapper -> Unwrap.
func checkTypedRoundTrip(t fataler, db, key string, m metaM, p Payload) []byte {
	full := db + ":" + key
	rec := &Typed{Payload: p}
	rec.SetKey(full)
	rec.SetMeta(m.build())
	if rec.Key() != full {
		t.Fatalf("SetKey(%q); Key() = %q", full, rec.Key())
	}
	raw, err := marshal(t, rec, fmt.Sprintf("typed %+v", p))
	if err != nil {
		t.Fatalf("MarshalRecord of typed record failed: %v\npayload: %+v", err, p)
	}
	checkTotal(t, raw)
	o, w := parse(db, key, exact(raw))
	if o.panic != nil || !o.ok {
		t.Fatalf("typed record: storage form %s does not parse back: %v\npayload: %+v meta: %v", hx(raw), o, p, m)
	}
	if o.key != full {
		t.Fatalf("typed record: key %q came back as %q", full, o.key)
	}
	if o.meta != m {
		t.Fatalf("typed record: metadata %v came back as %v", m, o.meta)
	}
	if m.deleted() {
		if len(o.data) != 0 {
			t.Fatalf("typed record: deleted record came back with %d data bytes", len(o.data))
		}
		return raw
	}
	if o.format != dsd.JSON {
		// Base.MarshalRecord stores typed records as JSON
		t.Fatalf("typed record: data format came back as %d, stored as JSON (%d)", o.format, dsd.JSON)
	}
	out := &Typed{}
	if err := unwrap(t, w, out); err != nil {
		t.Fatalf("typed record: Unwrap failed: %v\nstorage form %s\npayload: %+v", err, hx(raw), p)
	}
	if !reflect.DeepEqual(out.Payload, p) {
		t.Fatalf("typed record: unwrapped payload differs\n got: %#v\nwant: %#v\nstorage form: %s", out.Payload, p, hx(raw))
	}
	if out.Key() != full {
		t.Fatalf("typed record: unwrapped key %q, want %q", out.Key(), full)
	}
	if out.Meta() == nil || readMeta(out.Meta()) != m {
		t.Fatalf("typed record: unwrapped metadata %v, want %v", out.Meta(), m)
	}
	return raw
}

func unwrap(t fataler, w *record.Wrapper, out record.Record) (err error) {
	defer func() {
		if p := recover(); p != nil {
			t.Fatalf("record.Unwrap panicked: %v", p)
		}
	}()
	return record.Unwrap(w, out)
}

// ---------------------------------------------------------------- generators

var int64Edges = []int64{0, 1, -1, 2, 127, 128, 255, 256, 1<<31 - 1, 1 << 31, 1<<32 - 1, 1 << 32, 1 << 40, 1<<63 - 1, -1 << 63, -1<<63 + 1, -1 << 31, -256, 1696356000, 1696356001}

func genInt64() *rapid.Generator[int64] {
	return rapid.Custom(func(t *rapid.T) int64 {
		switch rapid.IntRange(0, 4).Draw(t, "ikind") {
		case 0:
			return rapid.SampledFrom(int64Edges).Draw(t, "edge")
		case 1:
			return rapid.Int64().Draw(t, "any")
		case 2:
			return 1696356000 + int64(rapid.IntRange(-100000, 100000).Draw(t, "now"))
		case 3:
			// one byte set: makes dropped / swapped bytes of the fixed-width encoding visible
			return int64(rapid.IntRange(1, 255).Draw(t, "b")) << (8 * uint(rapid.IntRange(0, 7).Draw(t, "byte")))
		default:
			return -int64(rapid.IntRange(0, 100000).Draw(t, "ttl"))
		}
	})
}

func genMeta() *rapid.Generator[metaM] {
	return rapid.Custom(func(t *rapid.T) metaM {
		m := metaM{
			Created:    genInt64().Draw(t, "created"),
			Modified:   genInt64().Draw(t, "modified"),
			Expires:    genInt64().Draw(t, "expires"),
			Secret:     rapid.Bool().Draw(t, "secret"),
			CrownJewel: rapid.Bool().Draw(t, "crownjewel"),
		}
		switch rapid.IntRange(0, 3).Draw(t, "delkind") {
		case 0:
			m.Deleted = 0
		case 1:
			m.Deleted = genInt64().Draw(t, "deleted")
		case 2:
			m.Deleted = 1 + int64(rapid.IntRange(0, 1<<31).Draw(t, "deleted_at"))
		default:
			m.Deleted = -int64(rapid.IntRange(1, 100000).Draw(t, "relative_expiry"))
		}
		return m
	})
}

func genKey() *rapid.Generator[[2]string] {
	return rapid.Custom(func(t *rapid.T) [2]string {
		var db string
		if rapid.Bool().Draw(t, "plaindb") {
			db = rapid.StringMatching(`[a-z0-9\-]{1,8}`).Draw(t, "db")
		} else {
			db = strings.ReplaceAll(rapid.StringN(1, 8, -1).Draw(t, "dbany"), ":", "_")
		}
		var key string
		switch rapid.IntRange(0, 3).Draw(t, "keykind") {
		case 0:
			key = ""
		case 1:
			key = rapid.StringMatching(`[a-zA-Z0-9/_.\-]{1,24}`).Draw(t, "key")
		case 2:
			key = rapid.StringMatching(`[a-z:/]{1,12}`).Draw(t, "keycolon")
		default:
			key = rapid.StringN(0, 16, -1).Draw(t, "keyany")
		}
		return [2]string{db, key}
	})
}

var formatEdges = []uint8{dsd.AUTO, dsd.RAW, dsd.CBOR, dsd.GenCode, dsd.JSON, dsd.MsgPack, dsd.YAML, dsd.GZIP, dsd.LIST, 2, 126, 127, 128, 129, 200, 254, 255}

func genFormat() *rapid.Generator[uint8] {
	return rapid.Custom(func(t *rapid.T) uint8 {
		switch rapid.IntRange(0, 2).Draw(t, "fkind") {
		case 0:
			return rapid.SampledFrom(formatEdges).Draw(t, "fedge")
		case 1:
			return uint8(rapid.IntRange(128, 255).Draw(t, "fhigh"))
		default:
			return rapid.Uint8().Draw(t, "fany")
		}
	})
}

var dataSizes = []int{0, 1, 2, 33, 34, 35, 127, 128, 129, 255, 256, 1023, 1024, 4095, 4096}

// genData draws a payload: sizes 0..4 KiB (boundary biased); contents random,
// or starting with bytes that a lenient format parser could swallow (0x01,
// continuation bits), or a real dsd document.
func genData(maxLen int) *rapid.Generator[[]byte] {
	return rapid.Custom(func(t *rapid.T) []byte {
		var n int
		switch rapid.IntRange(0, 3).Draw(t, "sizekind") {
		case 0:
			n = rapid.IntRange(0, 16).Draw(t, "small")
		case 1:
			n = rapid.SampledFrom(dataSizes).Draw(t, "sizeedge")
		case 2:
			n = rapid.IntRange(0, 300).Draw(t, "medium")
		default:
			n = rapid.IntRange(0, maxLen).Draw(t, "size")
		}
		if n > maxLen {
			n = maxLen
		}
		var out []byte
		switch rapid.IntRange(0, 3).Draw(t, "contentkind") {
		case 0:
			out = rapid.SliceOfN(rapid.Byte(), n, n).Draw(t, "bytes")
		case 1:
			out = make([]byte, n)
			start := rapid.Byte().Draw(t, "start")
			for i := range out {
				out[i] = start + byte(i)*3
			}
		case 2:
			out = make([]byte, n)
			for i := range out {
				out[i] = byte(rapid.SampledFrom([]int{0x00, 0x01, 0x02, 0x7f, 0x80, 0x81, 0xff, 'J', 'G'}).Draw(t, "hostile"))
			}
		default:
			doc := `{"a":"b","n":` + fmt.Sprint(rapid.IntRange(0, 1<<30).Draw(t, "docn")) + `}`
			out = []byte(doc)
		}
		if out == nil {
			out = []byte{}
		}
		if len(out) > 0 && rapid.IntRange(0, 3).Draw(t, "first01") == 0 {
			out[0] = 0x01
		}
		if rapid.IntRange(0, 15).Draw(t, "nildata") == 0 && len(out) == 0 {
			return nil
		}
		return out
	})
}

func genWrapCase(maxData int) *rapid.Generator[wrapCase] {
	return rapid.Custom(func(t *rapid.T) wrapCase {
		k := genKey().Draw(t, "key")
		c := wrapCase{db: k[0], key: k[1], meta: genMeta().Draw(t, "meta"), format: genFormat().Draw(t, "format"), data: genData(maxData).Draw(t, "data")}
		if stats.Excl("wrapper.format_ge_128") && c.format >= 128 {
			stats.Excluded("wrapper.format_ge_128")
			c.format &= 0x7f
		}
		return c
	})
}

func genString() *rapid.Generator[string] {
	return rapid.OneOf(
		rapid.StringN(0, 12, -1),
		rapid.StringMatching(`[a-z<>&"'\\/ ]{0,12}`),
		rapid.SampledFrom([]string{"", "é", "日本語", "\u2028", "\x00", "a\nb", `"`, `\`, "\U0001F600"}),
	)
}

func genPayload() *rapid.Generator[Payload] {
	return rapid.Custom(func(t *rapid.T) Payload {
		p := Payload{
			S: genString().Draw(t, "S"),
			I: genInt64().Draw(t, "I"),
			U: uint64(genInt64().Draw(t, "U")),
			B: rapid.Bool().Draw(t, "B"),
		}
		switch rapid.IntRange(0, 3).Draw(t, "fkind") {
		case 0:
			p.F = 0
		case 1:
			p.F = float64(rapid.IntRange(-1000, 1000).Draw(t, "fint")) / 8
		case 2:
			p.F = rapid.Float64Range(-1e300, 1e300).Draw(t, "f")
		default:
			p.F = rapid.SampledFrom([]float64{1e-320, 5e-324, 1.7976931348623157e308, -1.5, 1 << 53, 0.1}).Draw(t, "fedge")
		}
		switch rapid.IntRange(0, 2).Draw(t, "byteskind") {
		case 1:
			p.Bytes = []byte{}
		case 2:
			p.Bytes = rapid.SliceOfN(rapid.Byte(), 1, 40).Draw(t, "Bytes")
		}
		switch rapid.IntRange(0, 2).Draw(t, "listkind") {
		case 1:
			p.List = []string{}
		case 2:
			p.List = rapid.SliceOfN(genString(), 1, 4).Draw(t, "List")
		}
		switch rapid.IntRange(0, 2).Draw(t, "mapkind") {
		case 1:
			p.Map = map[string]string{}
		case 2:
			p.Map = rapid.MapOfN(genString(), genString(), 1, 3).Draw(t, "Map")
		}
		p.Inner = Inner{Name: genString().Draw(t, "InnerName"), Value: rapid.Int16().Draw(t, "InnerValue")}
		if rapid.Bool().Draw(t, "tags") {
			p.Inner.Tags = rapid.SliceOfN(genString(), 0, 3).Draw(t, "Tags")
		}
		if rapid.Bool().Draw(t, "ptr") {
			v := genInt64().Draw(t, "Ptr")
			p.Ptr = &v
		}
		if rapid.Bool().Draw(t, "ints") {
			p.Ints = rapid.SliceOfN(rapid.Int32(), 0, 5).Draw(t, "Ints")
		}
		return p
	})
}

// ---------------------------------------------------------------- corruption space of one valid encoding

// layout is the harness's own reading of a valid encoding (version varint |
// length-prefixed meta block | format varint | payload). It is only used to aim
// corruptions; when a valid encoding does not have this shape the field-aimed
// corruptions are skipped (generator warning), nothing is asserted from it.
type layout struct {
	verLen            int
	lenOff, lenLen    int
	metaOff, metaLen  int
	fmtOff            int // -1 when the record is deleted
	ok                bool
	announcedMetaSize uint64
}

func readLayout(raw []byte, deleted bool) layout {
	var l layout
	v, n, st := refVarint(raw)
	if st != 0 || v != 1 {
		return l
	}
	l.verLen = n
	l.lenOff = n
	sz, n2, st := refVarint(raw[n:])
	if st != 0 || sz > uint64(len(raw)-n-n2) {
		return l
	}
	l.lenLen = n2
	l.announcedMetaSize = sz
	l.metaOff = n + n2
	l.metaLen = int(sz)
	l.fmtOff = -1
	if !deleted {
		l.fmtOff = l.metaOff + l.metaLen
		if l.fmtOff >= len(raw) {
			return l
		}
	}
	l.ok = true
	return l
}

func splice(raw []byte, off, n int, repl []byte) []byte {
	out := make([]byte, 0, len(raw)-n+len(repl))
	out = append(out, raw[:off]...)
	out = append(out, repl...)
	return append(out, raw[off+n:]...)
}

var hostileLengths = func() []uint64 {
	v := []uint64{0, 1, 2, 33, 34, 35, 36, 37, 127, 128, 255, 256, 1 << 14, 1 << 21, 1<<31 - 1, 1 << 31, 1<<32 - 1, 1 << 32, 1 << 40, 1<<62 + 5, 1<<63 - 1, 1 << 63, 1<<63 + 1, ^uint64(0) - 40, ^uint64(0) - 2, ^uint64(0) - 1, ^uint64(0)}
	return v
}()

// corruptions enumerates every truncation and every single-field corruption of
// a valid encoding. Each entry carries the field it aimed at.
type corruption struct {
	field string
	in    []byte
}

func corruptions(raw []byte, deleted bool) (out []corruption, aimed bool) {
	for k := 0; k < len(raw); k++ {
		out = append(out, corruption{"truncation", raw[:k]})
	}
	l := readLayout(raw, deleted)
	if !l.ok {
		return out, false
	}
	// version: every one-byte value, two-byte forms
	for v := 0; v < 256; v++ {
		out = append(out, corruption{"version", splice(raw, 0, l.verLen, []byte{byte(v)})})
	}
	for _, two := range [][]byte{{0x81, 0x00}, {0x81, 0x01}, {0x80, 0x01}, {0x81}, {0xff, 0xff}, {0x01, 0x01}} {
		out = append(out, corruption{"version", splice(raw, 0, l.verLen, two)})
	}
	// block length: hostile values, minimal and overlong encodings, lengths that end exactly at / one behind the input
	rest := uint64(len(raw) - l.metaOff)
	lens := append([]uint64{rest, rest + 1, rest - 1, ^uint64(0) - uint64(l.metaOff) + 1, ^uint64(0) - uint64(l.metaOff)}, hostileLengths...)
	for _, v := range lens {
		p := refPack(v)
		out = append(out, corruption{"block_length", splice(raw, l.lenOff, l.lenLen, p)})
		over := append([]byte{}, p...)
		over[len(over)-1] |= 0x80
		over = append(over, 0x00)
		if len(over) <= 10 {
			out = append(out, corruption{"block_length", splice(raw, l.lenOff, l.lenLen, over)})
		}
	}
	for _, b := range [][]byte{{0x80}, {0xff, 0xff, 0xff, 0xff, 0xff, 0xff, 0xff, 0xff, 0xff, 0x02}, {0x80, 0x80, 0x80, 0x80, 0x80, 0x80, 0x80, 0x80, 0x80, 0x80, 0x01}} {
		out = append(out, corruption{"block_length", splice(raw, l.lenOff, l.lenLen, b)})
	}
	// DSD id of the meta block: every value
	if l.metaLen > 0 {
		for v := 0; v < 256; v++ {
			out = append(out, corruption{"meta_dsd_id", splice(raw, l.metaOff, 1, []byte{byte(v)})})
		}
		// meta bytes: each byte of the block set to a few values; block shortened / lengthened consistently
		for i := 1; i < l.metaLen; i++ {
			for _, v := range []byte{0x00, 0x01, 0x02, 0x7f, 0x80, 0xff} {
				if raw[l.metaOff+i] != v {
					out = append(out, corruption{"meta_bytes", splice(raw, l.metaOff+i, 1, []byte{v})})
				}
			}
		}
		for _, d := range []int{-34, -2, -1, 1, 2} {
			nl := l.metaLen + d
			if nl < 0 {
				continue
			}
			var blk []byte
			if d < 0 {
				blk = raw[l.metaOff : l.metaOff+nl]
			} else {
				blk = append(append([]byte{}, raw[l.metaOff:l.metaOff+l.metaLen]...), bytes.Repeat([]byte{0x01}, d)...)
			}
			out = append(out, corruption{"meta_bytes", splice(raw, l.lenOff, l.lenLen+l.metaLen, append(refPack(uint64(nl)), blk...))})
		}
		// meta block replaced by other dsd documents of the same information
		for _, doc := range [][]byte{[]byte(`J{"Created":5,"Deleted":0}`), []byte(`J{"Deleted":7}`), []byte(`J{`), []byte(`Jnull`), {dsd.RAW, 1, 2}, {dsd.GZIP, 0x1f, 0x8b}, {dsd.LIST}, []byte("Y{}\n"), {dsd.CBOR, 0xa0}, {dsd.MsgPack, 0x80}} {
			out = append(out, corruption{"meta_document", splice(raw, l.lenOff, l.lenLen+l.metaLen, append(refPack(uint64(len(doc))), doc...))})
		}
	}
	// format varint
	if l.fmtOff >= 0 {
		for v := 0; v < 256; v++ {
			out = append(out, corruption{"format_id", splice(raw, l.fmtOff, 1, []byte{byte(v)})})
		}
		for _, two := range [][]byte{{0x80, 0x01}, {0xff, 0x01}, {0x80, 0x00}, {0x80, 0x02}, {0x80}, {0xca, 0x01}} {
			out = append(out, corruption{"format_id", splice(raw, l.fmtOff, 1, two)})
			out = append(out, corruption{"format_id", append(append([]byte{}, raw[:l.fmtOff]...), two...)})
		}
	}
	return out, true
}
