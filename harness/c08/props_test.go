package c08

import (
	"bytes"
	"encoding/binary"
	"encoding/hex"
	"fmt"
	"runtime"
	"testing"

	"github.com/safing/portbase/database/record"
	"github.com/safing/portbase/formats/dsd"
	"pgregory.net/rapid"

	"verifharness/internal/stats"
)

const exclFormat = "wrapper.format_ge_128"

func sizeClass(n int) string {
	switch {
	case n == 0:
		return "data_empty"
	case n < 128:
		return "data_1_127"
	case n < 1024:
		return "data_128_1023"
	default:
		return "data_1k_4k"
	}
}

func (m metaM) nonZero() bool {
	return m.Created != 0 || m.Modified != 0 || m.Expires != 0 || m.Deleted != 0 || m.Secret || m.CrownJewel
}

// checkReserialize: a wrapper obtained from arbitrary bytes is a record as well;
// serializing it and parsing it back must reproduce it.
func checkReserialize(t fataler, in []byte, o outcome, w *record.Wrapper) {
	if !o.ok {
		return
	}
	if stats.Excl(exclFormat) && o.format >= 128 && !o.meta.deleted() {
		stats.Excluded(exclFormat)
		return
	}
	c := wrapCase{db: "db", key: "k", meta: o.meta, format: o.format, data: o.data}
	raw2, err := marshal(t, w, "record parsed from "+hx(in))
	if err != nil {
		t.Fatalf("MarshalRecord of the record parsed from %s failed: %v", hx(in), err)
	}
	o2, _ := parse("db", "k", exact(raw2))
	compareParsed(t, "record parsed from "+hx(in)+", serialized again", c, raw2, o2)
}

// ---------------------------------------------------------------- rapid properties

func TestPropWrapperRoundTrip(t *testing.T) {
	rapid.Check(t, func(t *rapid.T) {
		c := genWrapCase(4096).Draw(t, "record")
		raw := checkWrapperRoundTrip(t, c)
		cls := []string{"wrapper", sizeClass(len(c.data))}
		if c.meta.deleted() {
			cls = append(cls, "wrapper_deleted")
		}
		if c.format >= 128 {
			cls = append(cls, "wrapper_format_ge_128")
		}
		if _, ok := dsd.ValidateSerializationFormat(c.format); ok && c.format != dsd.AUTO {
			cls = append(cls, "wrapper_format_known_dsd")
		}
		if len(c.data) > 0 && c.data[0] == 0x01 {
			cls = append(cls, "wrapper_data_starts_with_01")
		}
		if c.meta.Secret || c.meta.CrownJewel {
			cls = append(cls, "wrapper_flag_set")
		}
		nontrivial := c.meta.nonZero() && (len(c.data) > 0 || c.meta.deleted())
		stats.Case("w:"+c.fullKey()+string(raw), nontrivial, cls...)
		if nontrivial && stats.WantSample("wrapper") && len(c.data) < 24 {
			stats.Sample("wrapper", map[string]any{"record": c.String(), "storage_form": hex.EncodeToString(raw)})
		}
	})
}

func TestPropTypedRoundTrip(t *testing.T) {
	rapid.Check(t, func(t *rapid.T) {
		k := genKey().Draw(t, "key")
		m := genMeta().Draw(t, "meta")
		p := genPayload().Draw(t, "payload")
		// the storage form of a record does not depend on what the program has configured as its default
		// serialization format for other uses of dsd
		def := rapid.SampledFrom([]uint8{dsd.JSON, dsd.JSON, dsd.JSON, dsd.CBOR, dsd.MsgPack, dsd.YAML, dsd.GenCode, dsd.RAW}).Draw(t, "default_serialization_format")
		old := dsd.DefaultSerializationFormat
		dsd.DefaultSerializationFormat = def
		raw := func() []byte {
			defer func() { dsd.DefaultSerializationFormat = old }()
			return checkTypedRoundTrip(t, k[0], k[1], m, p)
		}()
		cls := []string{"typed"}
		if def != dsd.JSON {
			cls = append(cls, "typed_with_another_default_serialization_format")
		}
		if m.deleted() {
			cls = append(cls, "typed_deleted")
		}
		if p.Map != nil || p.List != nil || p.Ptr != nil {
			cls = append(cls, "typed_with_collections")
		}
		stats.Case("t:"+k[0]+":"+k[1]+string(raw), m.nonZero(), cls...)
		if m.nonZero() && !m.deleted() && stats.WantSample("typed") && len(raw) < 400 {
			stats.Sample("typed", map[string]any{"key": k[0] + ":" + k[1], "meta": m.String(), "storage_form_tail": string(raw[37:])})
		}
	})
}

// TestPropCorruptions: for a generated valid encoding (small payload) the
// whole truncation / single-field corruption space is enumerated.
func TestPropCorruptions(t *testing.T) {
	rapid.Check(t, func(t *rapid.T) {
		var raw []byte
		var deleted bool
		if rapid.IntRange(0, 3).Draw(t, "basekind") == 0 {
			k := genKey().Draw(t, "key")
			m := genMeta().Draw(t, "meta")
			raw = checkTypedRoundTrip(t, k[0], k[1], m, genPayload().Draw(t, "payload"))
			deleted = m.deleted()
		} else {
			c := genWrapCase(48).Draw(t, "record")
			raw = checkWrapperRoundTrip(t, c)
			deleted = c.meta.deleted()
		}
		runCorruptions(t, raw, deleted, false)
	})
}

func runCorruptions(t fataler, raw []byte, deleted, allVersions bool) {
	cs, aimed := corruptions(raw, deleted)
	if !aimed {
		stats.Warn("a valid encoding does not have the layout version|len|meta|format|data: field-aimed corruptions skipped")
	}
	for _, c := range cs {
		if c.field != "truncation" && bytes.Equal(c.in, raw) {
			continue // the replacement happened to be the original value
		}
		if c.field == "version" && !allVersions && len(c.in) > 0 && c.in[0] > 3 && c.in[0] != 0x7f && c.in[0] != 0x80 && c.in[0] != 0x81 && c.in[0] != 0xff {
			continue // all 256 one-byte versions are enumerated by TestExhaustiveCorruptions only
		}
		o, w := checkTotal(t, c.in)
		checkReserialize(t, c.in, o, w)
		ec := errClass(o)
		// non-trivial: the corruption survives the first field check (version)
		nontrivial := ec != "rejected_version_value" && ec != "rejected_version_varint"
		stats.Case("c:"+string(c.in), nontrivial, "corrupt_"+c.field+"/"+ec)
		if nontrivial && o.ok && c.field != "format_id" && c.field != "truncation" && stats.WantSample("corruption_accepted") {
			stats.Sample("corruption_accepted", map[string]any{"field": c.field, "input": hex.EncodeToString(c.in), "result": o.String()})
		}
	}
}

// genWireish draws byte strings from a loose grammar of the storage form so
// that most of them get past the first checks.
func genWireish() *rapid.Generator[[]byte] {
	return rapid.Custom(func(t *rapid.T) []byte {
		var out []byte
		// (rapid favours the ends of an integer range: the rare choices sit in the middle)
		switch rapid.IntRange(0, 15).Draw(t, "verkind") {
		case 6:
			out = append(out, rapid.Byte().Draw(t, "ver"))
		case 9:
			out = append(out, 0x81, byte(rapid.IntRange(0, 2).Draw(t, "ver2")))
		default:
			out = append(out, 1)
		}
		var meta []byte
		switch rapid.IntRange(0, 5).Draw(t, "metakind") {
		case 0, 1, 2:
			meta = append(meta, dsd.GenCode)
			meta = append(meta, rapid.SliceOfN(rapid.SampledFrom([]byte{0, 0, 0, 1, 2, 0x7f, 0x80, 0xff}), 30, 40).Draw(t, "gencode")...)
		case 3:
			meta = []byte(fmt.Sprintf(`J{"Created":%d,"Deleted":%d}`, rapid.IntRange(-5, 5).Draw(t, "jc"), rapid.IntRange(-2, 2).Draw(t, "jd")))
		case 4:
			meta = rapid.SliceOfN(rapid.Byte(), 0, 50).Draw(t, "metaany")
		default:
			meta = append([]byte{rapid.SampledFrom([]byte{dsd.GZIP, dsd.LIST, dsd.RAW, dsd.CBOR, dsd.MsgPack, dsd.YAML, dsd.AUTO}).Draw(t, "metafmt")}, rapid.SliceOfN(rapid.Byte(), 0, 20).Draw(t, "metabody")...)
		}
		var tail []byte
		switch rapid.IntRange(0, 4).Draw(t, "fmtkind") {
		case 0: // nothing behind the meta block
		case 1:
			tail = []byte{byte(rapid.IntRange(0, 127).Draw(t, "fmt7"))}
		case 2:
			tail = []byte{byte(rapid.IntRange(128, 255).Draw(t, "fmt8")), 0x01}
		case 3:
			tail = []byte{byte(rapid.IntRange(128, 255).Draw(t, "fmt8")), byte(rapid.IntRange(0, 3).Draw(t, "fmt8b"))}
		default:
			tail = []byte{rapid.Byte().Draw(t, "fmtany")}
		}
		tail = append(tail, rapid.SliceOfN(rapid.SampledFrom([]byte{0, 1, 2, 'J', 0x7f, 0x80, 0x81, 0xff, 'x'}), 0, 6).Draw(t, "tail")...)
		var l uint64
		switch rapid.IntRange(0, 5).Draw(t, "lenkind") {
		case 0, 1, 2:
			l = uint64(len(meta))
		case 3:
			l = uint64(len(meta) + len(tail) + rapid.IntRange(-2, 2).Draw(t, "dl"))
		case 4:
			l = rapid.SampledFrom(hostileLengths).Draw(t, "hostile")
		default:
			l = uint64(rapid.IntRange(0, 60).Draw(t, "anylen"))
		}
		out = append(out, refPack(l)...)
		out = append(out, meta...)
		out = append(out, tail...)
		if rapid.IntRange(0, 5).Draw(t, "cut") == 2 && len(out) > 0 {
			out = out[:rapid.IntRange(0, len(out)-1).Draw(t, "cutat")]
		}
		return out
	})
}

func TestPropArbitraryBytes(t *testing.T) {
	rapid.Check(t, func(t *rapid.T) {
		var in []byte
		if rapid.IntRange(0, 7).Draw(t, "raw") == 3 {
			in = rapid.SliceOfN(rapid.Byte(), 0, 64).Draw(t, "bytes")
		} else {
			in = genWireish().Draw(t, "wire")
		}
		o, w := checkTotal(t, in)
		checkReserialize(t, in, o, w)
		ec := errClass(o)
		nontrivial := ec != "rejected_version_value" && ec != "rejected_version_varint"
		cls := []string{"arbitrary/" + ec}
		if o.ok && o.format >= 128 && !o.meta.deleted() {
			cls = append(cls, "arbitrary_accepted_format_ge_128")
		}
		if o.ok && o.meta.deleted() {
			cls = append(cls, "arbitrary_accepted_deleted")
		}
		stats.Case("a:"+string(in), nontrivial, cls...)
	})
}

// ---------------------------------------------------------------- exhaustive enumerations

// all 256 format identifiers x deleted or not x payload shapes x flag combinations
func TestExhaustiveFormatIDs(t *testing.T) {
	datas := [][]byte{nil, {}, {0x00}, {0x01}, {0x01, 0x02}, {0x80}, {0xff, 0x01}, []byte(`{"a":"b"}`), bytes.Repeat([]byte{0x01}, 130)}
	var n, nt int64
	for f := 0; f < 256; f++ {
		if stats.Excl(exclFormat) && f >= 128 {
			stats.Excluded(exclFormat)
			continue
		}
		for _, del := range []int64{0, 5, -5} {
			for fl := 0; fl < 4; fl++ {
				for _, d := range datas {
					c := wrapCase{db: "db", key: "some/key", meta: metaM{Created: 11, Modified: 22, Expires: 33, Deleted: del, Secret: fl&1 != 0, CrownJewel: fl&2 != 0}, format: uint8(f), data: d}
					checkWrapperRoundTrip(t, c)
					n++
					if len(d) > 0 || del > 0 {
						nt++
					}
				}
			}
		}
	}
	stats.CaseN(n, nt, "exhaustive_format_ids")
	stats.Exhaustive("wrapper round trip for all 256 format ids x Deleted in {0,5,-5} x 4 flag combinations x 9 payload shapes")
	stats.Sample("exhaustive_format_ids", map[string]any{"example": "format=200 data=01 Deleted=0 secret=true"})
}

// every combination of edge values in the four int64 fields and both flags
func TestExhaustiveMetaEdges(t *testing.T) {
	edges := []int64{0, 1, -1, 255, 256, 1<<32 + 7, 1<<63 - 1, -1 << 63, 0x0102030405060708}
	var n, nt int64
	for _, a := range edges {
		for _, b := range edges {
			for _, c := range edges {
				for _, d := range edges {
					for fl := 0; fl < 4; fl++ {
						m := metaM{Created: a, Modified: b, Expires: c, Deleted: d, Secret: fl&1 != 0, CrownJewel: fl&2 != 0}
						checkWrapperRoundTrip(t, wrapCase{db: "db", key: "k", meta: m, format: dsd.JSON, data: []byte(`{}`)})
						n++
						if m.nonZero() {
							nt++
						}
					}
				}
			}
		}
	}
	p := Payload{S: "x", I: -5, U: 1<<64 - 1, Map: map[string]string{"a": "b"}}
	for _, a := range edges {
		for _, d := range edges {
			checkTypedRoundTrip(t, "db", "typed/key", metaM{Created: a, Modified: d, Expires: a ^ d, Deleted: d, Secret: a&1 != 0}, p)
			n++
			nt++
		}
	}
	stats.CaseN(n, nt, "exhaustive_meta_edges")
	stats.Exhaustive("wrapper round trip for all 9^4 combinations of int64 edge values in Created/Modified/Expires/Deleted x 4 flag combinations")
}

func fixedBases(t fataler) (bases [][]byte, deleted []bool) {
	m := metaM{Created: 0x0102030405060708, Modified: 0x1112131415161718, Expires: 0x2122232425262728, Deleted: 0, Secret: true}
	md := m
	md.Deleted = 0x3132333435363738
	add := func(raw []byte, del bool) {
		bases = append(bases, raw)
		deleted = append(deleted, del)
	}
	add(checkWrapperRoundTrip(t, wrapCase{db: "db", key: "k", meta: m, format: dsd.JSON, data: []byte(`{"a":"b"}`)}), false)
	add(checkWrapperRoundTrip(t, wrapCase{db: "db", key: "k", meta: m, format: dsd.RAW, data: nil}), false)
	add(checkWrapperRoundTrip(t, wrapCase{db: "db", key: "k", meta: md, format: dsd.JSON, data: []byte(`{"a":"b"}`)}), true)
	add(checkWrapperRoundTrip(t, wrapCase{db: "db", key: "k", meta: metaM{}, format: 2, data: []byte{0x01, 0x80, 0xff}}), false)
	add(checkTypedRoundTrip(t, "db", "k", m, Payload{S: "s", I: 7}), false)
	add(checkTypedRoundTrip(t, "db", "k", md, Payload{S: "s", I: 7}), true)
	return
}

// every truncation, every field corruption and every single-byte substitution
// in the header region of six fixed valid encodings
func TestExhaustiveCorruptions(t *testing.T) {
	bases, deleted := fixedBases(t)
	var n int64
	for i, raw := range bases {
		cs, _ := corruptions(raw, deleted[i])
		n += int64(len(cs))
		runCorruptions(t, raw, deleted[i], true)
		hdr := len(raw)
		if hdr > 40 {
			hdr = 40
		}
		for pos := 0; pos < hdr; pos++ {
			for v := 0; v < 256; v++ {
				if raw[pos] == byte(v) {
					continue
				}
				in := splice(raw, pos, 1, []byte{byte(v)})
				o, w := checkTotal(t, in)
				checkReserialize(t, in, o, w)
				ec := errClass(o)
				stats.Case("s:"+string(in), ec != "rejected_version_value" && ec != "rejected_version_varint", "substitution/"+ec)
			}
		}
	}
	stats.Exhaustive("six fixed valid encodings: all truncations, all field-aimed corruptions (all 256 version bytes, 30+ hostile block lengths incl. >= 2^63 and offset overflow, all 256 DSD ids of the meta block, 6 values in every meta byte, all 256 format bytes) and all 255 substitutions of each of the first 40 bytes")
	_ = n
}

// ---------------------------------------------------------------- native fuzzing

func withLen(b []byte) []byte { return append(refPack(uint64(len(b))), b...) }

func FuzzNewRawWrapper(f *testing.F) {
	bases, _ := fixedBases(f)
	for _, b := range bases {
		f.Add(b)
		f.Add(b[:len(b)/2])
	}
	for _, s := range [][]byte{
		{}, {0x01}, {0x01, 0x00}, {0x01, 0x23}, {0x02, 0x00}, {0x81, 0x01},
		{0x01, 0xff, 0xff, 0xff, 0xff, 0xff, 0xff, 0xff, 0xff, 0xff, 0x01},
		{0x01, 0x80, 0x80, 0x80, 0x80, 0x80, 0x80, 0x80, 0x80, 0x80, 0x01, 'G'},
		{0x01, 0xfe, 0xff, 0xff, 0xff, 0xff, 0xff, 0xff, 0xff, 0xff, 0x01, 'G'},
		append(append([]byte{0x01}, withLen([]byte(`J{"Deleted":1}`))...), "xyz"...),
		append(append([]byte{0x01}, withLen([]byte(`J{"Created":1}`))...), "\xc8\x01data"...),
		{0x01, 0x03, dsd.GZIP, 0x1f, 0x8b, 'J'},
	} {
		f.Add(s)
	}
	f.Fuzz(func(t *testing.T, in []byte) {
		if len(in) > 1<<16 {
			return
		}
		o, w := checkTotal(t, in)
		checkReserialize(t, in, o, w)
	})
}

func FuzzWrapperRoundTrip(f *testing.F) {
	f.Add(int64(1), int64(2), int64(3), int64(0), uint8(0), uint8(dsd.JSON), []byte(`{"a":"b"}`))
	f.Add(int64(-1), int64(1<<63-1), int64(-1<<63), int64(5), uint8(3), uint8(dsd.RAW), []byte{})
	f.Add(int64(0), int64(0), int64(0), int64(-30), uint8(1), uint8(200), []byte{0x01, 0x02})
	f.Add(int64(0), int64(0), int64(0), int64(0), uint8(2), uint8(128), []byte{})
	f.Add(int64(7), int64(7), int64(7), int64(0), uint8(0), uint8(255), []byte{0x80, 0x01})
	f.Fuzz(func(t *testing.T, created, modified, expires, deleted int64, flags, format uint8, data []byte) {
		if len(data) > 1<<16 {
			return
		}
		if stats.Excl(exclFormat) && format >= 128 {
			return
		}
		checkWrapperRoundTrip(t, wrapCase{db: "db", key: "k", meta: metaM{created, modified, expires, deleted, flags&1 != 0, flags&2 != 0}, format: format, data: data})
	})
}

// ---------------------------------------------------------------- regressions (fixed findings)

// Wrapper.Marshal wrote the format id as one raw byte, NewRawWrapper reads a
// varint: ids >= 128 did not parse back (or swallowed a leading 0x01 of the data).
func TestRegWrapperFormatGE128(t *testing.T) {
	for f := 128; f < 256; f++ {
		for _, d := range [][]byte{nil, {0x01}, {0x01, 0x02, 0x03}, {0x00}, []byte("payload")} {
			checkWrapperRoundTrip(t, wrapCase{db: "db", key: "k", meta: metaM{Created: 1}, format: uint8(f), data: d})
		}
	}
}

// ---------------------------------------------------------------- allocation follows the input, not a length field

// allocatedBy returns the heap bytes allocated while f runs (the test process runs one case at a time).
func allocatedBy(f func()) uint64 {
	var before, after runtime.MemStats
	runtime.ReadMemStats(&before)
	f()
	runtime.ReadMemStats(&after)
	return after.TotalAlloc - before.TotalAlloc
}

// parseBudget: what parsing an input of n bytes may allocate. Deflate expands by at most about 1032:1, the gzip reader
// itself needs some 50 KiB; everything beyond that was sized by a number read from the input.
func parseBudget(n int) uint64 { return 4<<20 + 4096*uint64(n) }

// TestPropAllocationBounded: "never ... trusts an unvalidated length field", for the fields that announce a size
// without being an offset into the input: a stored record whose meta section is a compressed dsd document (dsd.Load
// accepts one) carries the uncompressed size and a check sum in the gzip footer. Valid encodings with one such field
// corrupted, and arbitrary sections that merely start like a gzip stream, must be answered with a record or an error
// without allocating by the announced size. Announced sizes stay below 2^28 so that a parser that does trust them
// fails this check instead of taking the machine down.
func TestPropAllocationBounded(t *testing.T) {
	rapid.Check(t, func(t *rapid.T) {
		m := genMeta().Draw(t, "meta")
		inner := rapid.SampledFrom([]uint8{dsd.GenCode, dsd.JSON}).Draw(t, "meta_format")
		section, err := dsd.DumpAndCompress(m.build(), inner, dsd.GZIP)
		if err != nil {
			t.Fatalf("harness: cannot build a compressed meta section: %v", err)
		}
		announced := rapid.SampledFrom([]uint32{1 << 20, 1 << 24, 1<<27 + 12345, 1<<28 - 1}).Draw(t, "announced")
		var in []byte
		kind := rapid.SampledFrom([]string{"gzip_size_field", "gzip_size_and_crc", "bare_gzip_header", "truncated_stream", "untouched"}).Draw(t, "kind")
		tail := append([]byte{dsd.JSON}, []byte(`{"a":"b"}`)...)
		switch kind {
		case "untouched":
			in = append(append([]byte{1}, withLen(section)...), tail...)
		case "gzip_size_field":
			s := append([]byte(nil), section...)
			binary.LittleEndian.PutUint32(s[len(s)-4:], announced)
			in = append(append([]byte{1}, withLen(s)...), tail...)
		case "gzip_size_and_crc":
			s := append([]byte(nil), section...)
			binary.LittleEndian.PutUint32(s[len(s)-4:], announced)
			binary.LittleEndian.PutUint32(s[len(s)-8:], rapid.Uint32().Draw(t, "crc"))
			in = append(append([]byte{1}, withLen(s)...), tail...)
		case "bare_gzip_header":
			s := []byte{dsd.GZIP, 0x1f, 0x8b, 0x08, 0x00, 0x00, 0x00, 0x00, 0x00, 0x00, 0xff}
			s = append(s, rapid.SliceOfN(rapid.Byte(), 0, 24).Draw(t, "garbage")...)
			s = binary.LittleEndian.AppendUint32(s, rapid.Uint32().Draw(t, "crc"))
			s = binary.LittleEndian.AppendUint32(s, announced)
			in = append(append([]byte{1}, withLen(s)...), tail...)
		default:
			cut := rapid.IntRange(12, len(section)-1).Draw(t, "cut")
			s := append([]byte(nil), section[:cut]...)
			s = binary.LittleEndian.AppendUint32(s, announced)
			in = append(append([]byte{1}, withLen(s)...), tail...)
		}
		var o outcome
		got := allocatedBy(func() { o, _ = parse("db", "k", exact(in)) })
		if o.panic != nil {
			t.Fatalf("NewRawWrapper(%s): %v", hx(in), o.panic)
		}
		if got > parseBudget(len(in)) {
			t.Fatalf("ALLOCATION: parsing %d bytes (%s: a meta section whose gzip footer announces %d bytes) allocated %d bytes (budget %d): a size read from the input was trusted before it was validated; input %s",
				len(in), kind, announced, got, parseBudget(len(in)), hx(in))
		}
		// (a JSON meta document cannot carry the two flags, which are unexported fields: compared for GenCode only)
		if kind == "untouched" && (!o.ok || (inner == dsd.GenCode && o.meta != m)) {
			t.Fatalf("a stored record with a compressed meta section (%s) is parsed as %v, expected meta %v", hx(in), o, m)
		}
		checkTotal(t, in)
		stats.Case("alloc:"+hx(in), true, "alloc_"+kind, "alloc_outcome_ok_"+fmt.Sprint(o.ok))
	})
}
