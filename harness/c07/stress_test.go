//go:build verif

package c07

import (
	"context"
	"fmt"
	"os"
	"runtime"
	"sync"
	"sync/atomic"
	"testing"
	"time"

	"pgregory.net/rapid"

	"github.com/safing/portbase/modules"

	"verifharness/internal/stats"
)

// TestRegOverdueTaskRacesQueueWait: fixed finding. An overdue task is started by the schedule handler while the queue
// handler waits for the running queued task; the wait used a sync.WaitGroup whose Add then raced the Wait that was
// being released ("WaitGroup is reused before previous Wait has returned" - the process died). The two yield points
// tasks.watch.done / tasks.run.add are used to line the Done of the finishing queued task up with the Add of the
// overdue one, many times.
func TestRegOverdueTaskRacesQueueWait(t *testing.T) {
	m := mods[0]
	prefix := fmt.Sprintf("w%d.", atomic.AddInt64(&caseSeq, 1))
	casePrefix.Store(prefix)
	var mu sync.Mutex
	doneArrived := map[string]chan struct{}{}
	addArrived := map[string]chan struct{}{}
	release := map[string]chan struct{}{}
	mk := func(mp map[string]chan struct{}, k string) chan struct{} {
		mu.Lock()
		defer mu.Unlock()
		if mp[k] == nil {
			mp[k] = make(chan struct{})
		}
		return mp[k]
	}
	old := modules.VerifHook
	defer func() { modules.VerifHook = old }()
	modules.VerifHook = func(point, ctx string) {
		switch {
		case point == "tasks.watch.done" && len(ctx) > len(prefix) && ctx[:len(prefix)] == prefix && ctx[len(prefix)] == 'q':
			close(mk(doneArrived, ctx))
			<-mk(release, ctx)
		case point == "tasks.run.add" && len(ctx) > len(prefix) && ctx[:len(prefix)] == prefix && ctx[len(prefix)] == 'o':
			close(mk(addArrived, ctx))
			<-mk(release, ctx)
		}
	}
	var ran int64
	for i := 0; i < 300; i++ {
		q := fmt.Sprintf("%sq%d", prefix, i)
		o := fmt.Sprintf("%so%d", prefix, i)
		body := func(context.Context, *modules.Task) error {
			atomic.AddInt64(&ran, 1)
			time.Sleep(3 * time.Millisecond)
			return nil
		}
		// q runs through the queue; the handler then waits for it
		m.NewTask(q, body).MaxDelay(time.Hour).Queue()
		// o becomes overdue after 1 ms while q runs: queued behind q, started by the schedule handler directly
		m.NewTask(o, body).MaxDelay(time.Millisecond).Queue()
		select {
		case <-mk(addArrived, o):
		case <-time.After(70 * time.Second):
			t.Fatalf("overdue task %s did not arrive at its start within 70 s", o)
		}
		select {
		case <-mk(doneArrived, q):
		case <-time.After(70 * time.Second):
			t.Fatalf("queued task %s did not finish within 70 s", q)
		}
		// let the Done of q release the waiting queue handler, and the Add of o follow immediately
		close(mk(release, q))
		close(mk(release, o))
		time.Sleep(5 * time.Millisecond)
	}
	deadline := time.Now().Add(60 * time.Second)
	for atomic.LoadInt64(&ran) < 600 && time.Now().Before(deadline) {
		time.Sleep(time.Millisecond)
	}
	if n := atomic.LoadInt64(&ran); n != 600 {
		t.Fatalf("C07-4: %d of 600 submitted tasks were executed", n)
	}
}

// TestRegRequeueWhileExecutingBecomesOverdue: fixed finding. A task that is queued again while it executes (here from
// inside its own function) and whose max delay expires before the execution ends was handed to runWithLocking by the
// schedule handler; that removed the task from all queues, saw that it was executing and returned - the submission was
// lost although the task was never cancelled.
func TestRegRequeueWhileExecutingBecomesOverdue(t *testing.T) {
	m := mods[1]
	for round := 0; round < 3; round++ {
		var runs int32
		second := make(chan struct{})
		task := m.NewTask(fmt.Sprintf("requeue-overdue-%d", round), func(ctx context.Context, tk *modules.Task) error {
			if atomic.AddInt32(&runs, 1) == 1 {
				tk.Queue() // submitted again while executing; overdue after 15 ms
				time.Sleep(45 * time.Millisecond)
			} else {
				close(second)
			}
			return nil
		}).MaxDelay(15 * time.Millisecond)
		task.Queue()
		select {
		case <-second:
		case <-time.After(150 * time.Second):
			t.Fatalf("C07-4-not-executed: the task was queued again during its first run (max delay 15 ms, run time 45 ms) and never executed after that submission (runs=%d)", atomic.LoadInt32(&runs))
		}
		task.Cancel()
	}
}

// TestRegScheduleOnCancelledTaskKeepsScheduleSorted: fixed finding. Schedule() on a cancelled task changed the task's
// execution time but left its old entry where it was in the sorted schedule; while that entry was first, the schedule
// handler slept until the new (far) time and other tasks whose time had come were not started.
func TestRegScheduleOnCancelledTaskKeepsScheduleSorted(t *testing.T) {
	prefix := fmt.Sprintf("k%d.", atomic.AddInt64(&caseSeq, 1))
	c := &caseSpec{
		Module: 0,
		Tasks: []taskSpec{
			{Name: prefix + "t0", HoldMS: 3, MaxDelay: "20ms"},
			{Name: prefix + "t1", HoldMS: 3, MaxDelay: "0"},
			{Name: prefix + "t2", HoldMS: 30, MaxDelay: "1h"},
			{Name: prefix + "t3", HoldMS: 3, MaxDelay: "0"},
		},
		// t2 occupies the queue; t1 is scheduled for +40 ms; t0 (max delay 20 ms) is queued behind t2, so its schedule entry
		// (+20 ms) is first; t0 is cancelled and re-scheduled for +1 h (entry stays first); scheduling t3 (+2 h, goes to the
		// end) makes the handler re-arm its timer from the first entry.
		Ops: []op{{Do: "queue", Task: 2}, {Do: "sleep", MS: 2}, {Do: "schedule", Task: 1, MS: 40}, {Do: "queue", Task: 0}, {Do: "cancel", Task: 0},
			{Do: "schedule", Task: 0, MS: 3600 * 1000}, {Do: "sleep", MS: 1}, {Do: "schedule", Task: 3, MS: 7200 * 1000}},
	}
	rs := c.start(prefix)
	c.execOps(rs)
	stuck := c.quiesce(rs)
	final := c.finalStates(rs)
	c.finish(rs)
	c.judge(t, rs, stuck, final)
}

// TestPropSubmissionStorm: several goroutines keep submitting the same tasks (Schedule for now or a moment ahead,
// Queue, QueuePrioritized, StartASAP) while the schedule and queue handlers work on them. Every call must return
// (the handlers and the callers take the task lock and the list locks from both sides), every task must have been
// executed after the storm and never concurrently with itself.
func TestPropSubmissionStorm(t *testing.T) {
	rapid.Check(t, func(t *rapid.T) {
		m := mods[0]
		prefix := fmt.Sprintf("storm%d.", atomic.AddInt64(&caseSeq, 1))
		nTasks := rapid.IntRange(1, 3).Draw(t, "tasks")
		nCallers := rapid.IntRange(2, 6).Draw(t, "callers")
		calls := rapid.SampledFrom([]int{300, 1500}).Draw(t, "calls")
		aheadUS := rapid.SampledFrom([]int{0, 0, 50, 500}).Draw(t, "ahead_us")
		mix := rapid.SampledFrom([]string{"schedule", "schedule", "mixed"}).Draw(t, "mix")
		type st struct {
			running, overlaps, runs int32
		}
		sts := make([]*st, nTasks)
		tasks := make([]*modules.Task, nTasks)
		for i := range tasks {
			s := &st{}
			sts[i] = s
			tasks[i] = m.NewTask(fmt.Sprintf("%st%d", prefix, i), func(context.Context, *modules.Task) error {
				if atomic.AddInt32(&s.running, 1) > 1 {
					atomic.AddInt32(&s.overlaps, 1)
				}
				atomic.AddInt32(&s.runs, 1)
				time.Sleep(20 * time.Microsecond)
				atomic.AddInt32(&s.running, -1)
				return nil
			}).MaxDelay(time.Hour)
		}
		var wg sync.WaitGroup
		for c := 0; c < nCallers; c++ {
			wg.Add(1)
			go func(c int) {
				defer wg.Done()
				for i := 0; i < calls; i++ {
					tk := tasks[(c+i)%nTasks]
					switch {
					case mix == "schedule" || i%4 == 0:
						tk.Schedule(time.Now().Add(time.Duration(aheadUS) * time.Microsecond))
					case i%4 == 1:
						tk.Queue()
					case i%4 == 2:
						tk.QueuePrioritized()
					default:
						tk.StartASAP()
					}
				}
			}(c)
		}
		done := make(chan struct{})
		go func() { wg.Wait(); close(done) }()
		select {
		case <-done:
		case <-time.After(60 * time.Second):
			buf := make([]byte, 1<<20)
			buf = buf[:runtime.Stack(buf, true)]
			fmt.Fprintf(os.Stderr, "C07-wedged: %d goroutines submitting %d tasks (%s, %d us ahead) did not all return within 60 s: a submission call is blocked\n%s\n", nCallers, nTasks, mix, aheadUS, buf)
			stats.Flush(1)
			os.Exit(1) // the locks stay taken: no further case can run in this process
		}
		// every task was submitted after its last run began at some point: it must run (again) and come to rest
		deadline := time.Now().Add(150 * time.Second) // two execution-wait limits (known t.ctx stall, allowed)
		for i, s := range sts {
			for atomic.LoadInt32(&s.runs) == 0 {
				if time.Now().After(deadline) {
					t.Fatalf("C07-lost: task %d of the storm was never executed although it was submitted %d times", i, nCallers*calls/nTasks)
				}
				time.Sleep(200 * time.Microsecond)
			}
		}
		for i, s := range sts {
			if o := atomic.LoadInt32(&s.overlaps); o != 0 {
				t.Fatalf("C07-overlap: task %d ran concurrently with itself %d times during the storm", i, o)
			}
		}
		for _, tk := range tasks {
			tk.Cancel()
		}
		stats.Case(fmt.Sprintf("storm %d %d %d %d %s", nTasks, nCallers, calls, aheadUS, mix), true, "submission_storm_"+mix)
	})
}
