//go:build verif

// Package c07 decides C07: tasks never overlap with themselves, never run early or after a cancel that came while
// they were waiting, are not lost, not run more often than submitted, and queued tasks start in the documented order.
// Everything runs in-process against one module system that is started in TestMain and never shut down.
package c07

import (
	"context"
	"flag"
	"fmt"
	"os"
	"strings"
	"sync"
	"sync/atomic"
	"testing"
	"time"

	"pgregory.net/rapid"

	"github.com/safing/portbase/log"
	"github.com/safing/portbase/modules"

	"verifharness/internal/stats"
)

var (
	mods    []*modules.Module
	caseSeq int64
)

func TestMain(m *testing.M) {
	flag.Parse()
	log.SetAdapter(log.AdapterFunc(func(log.Message, uint64) {}))
	log.SetLogLevel(log.CriticalLevel)
	modules.SetStdErrReporting(false)
	for _, n := range []string{"c07a", "c07b", "c07c"} {
		mods = append(mods, modules.Register(n, nil, nil, nil))
	}
	modules.VerifHook = hook
	if err := modules.Start(); err != nil {
		fmt.Fprintln(os.Stderr, "C07 set-up: modules.Start:", err)
		os.Exit(2)
	}
	code := m.Run()
	stats.Flush(code)
	os.Exit(code)
}

// ------------------------------------------------------------------ recording

type event struct {
	seq  int64
	at   time.Time
	kind string // submit:<how> | cancel-return | begin | end | popped | checked | returned
	task string
	info string
}

type recorder struct {
	mu     sync.Mutex
	seq    int64
	events []event
	// inline actions executed by the hook when a goroutine of portbase arrives at a yield point
	actions []*inlineAction
	tasks   map[string]*modules.Task
	lastEvt atomic.Int64 // unix nano of the last recorded event
	// queued is called whenever a task is put into a queue (from outside, from its own body or by an inline action)
	queued func(name string)
	// scheduled is called before a Schedule call made by an inline action
	scheduled func(name string, at time.Time)
}

type inlineAction struct {
	Point string `json:"point"`
	Task  string `json:"task"`
	Nth   int    `json:"nth"`
	Do    string `json:"do"` // cancel | queue | prioritize | asap | schedule-soon (+30 ms) | schedule-far (+1 h)
	// SleepMS keeps the portbase goroutine parked at the yield point after the action (e.g. long enough for a small max
	// delay of the re-submitted task to expire while the handler is between its state checks and the execution)
	SleepMS int `json:"sleep_ms,omitempty"`
	seen    int
	fired   bool
}

var cur atomic.Pointer[recorder]

func (r *recorder) rec(kind, task, info string) int64 {
	r.mu.Lock()
	r.seq++
	s := r.seq
	r.events = append(r.events, event{seq: s, at: time.Now(), kind: kind, task: task, info: info})
	r.mu.Unlock()
	r.lastEvt.Store(time.Now().UnixNano())
	return s
}

func hook(point, ctx string) {
	r := cur.Load()
	if r == nil || !strings.HasPrefix(point, "tasks.") {
		return
	}
	if !strings.HasPrefix(ctx, r.prefix()) {
		return // task of an earlier case
	}
	switch point {
	case "tasks.handler.popped":
		r.rec("popped", ctx, "")
	case "tasks.sched.run":
		// the schedule handler is about to run an overdue task itself (no queue in between)
		r.rec("sched-run", ctx, "")
		return
	case "tasks.run.admitted":
		// called with the task lock held: the order of this event and of a Cancel return is the real order of the
		// admission decision and the cancel (recording after the unlock could be overtaken by a Cancel that came later)
		r.rec("checked", ctx, "")
		return
	case "tasks.exec.returned":
		r.rec("returned", ctx, "")
	}
	var fire *inlineAction
	r.mu.Lock()
	for _, a := range r.actions {
		if a.Point == point && a.Task == ctx && !a.fired {
			a.seen++
			if a.seen == a.Nth {
				a.fired = true
				fire = a
			}
		}
	}
	t := r.tasks[ctx]
	r.mu.Unlock()
	if fire != nil && t != nil {
		r.apply(t, ctx, fire.Do, "inline@"+point)
		if fire.SleepMS > 0 {
			time.Sleep(time.Duration(fire.SleepMS) * time.Millisecond)
		}
	}
}

var casePrefix atomic.Value

func (r *recorder) prefix() string { return casePrefix.Load().(string) }

func (r *recorder) apply(t *modules.Task, name, do, how string) {
	switch do {
	case "cancel":
		t.Cancel()
		r.rec("cancel-return", name, how)
	case "queue":
		r.noteQueued(name)
		r.rec("submit:queue", name, how)
		t.Queue()
		r.rec("queue-return", name, "")
	case "prioritize":
		r.noteQueued(name)
		r.rec("submit:prioritize", name, how)
		t.QueuePrioritized()
		r.rec("queue-return", name, "")
	case "asap":
		r.noteQueued(name)
		r.rec("submit:asap", name, how)
		t.StartASAP()
		r.rec("queue-return", name, "")
	case "schedule-soon", "schedule-far":
		at := time.Now().Add(30 * time.Millisecond)
		if do == "schedule-far" {
			at = time.Now().Add(time.Hour)
		}
		if r.scheduled != nil {
			r.scheduled(name, at)
		}
		r.rec("submit:schedule", name, fmt.Sprintf("at=%d %s %s", at.UnixNano(), do, how))
		t.Schedule(at)
		r.rec("schedule-return", name, "")
	}
}

func (r *recorder) noteQueued(name string) {
	if r.queued != nil {
		r.queued(name)
	}
}

// ------------------------------------------------------------------ case description

type taskSpec struct {
	Name          string `json:"name"`
	HoldMS        int    `json:"hold_ms"`
	RequeueInside string `json:"requeue_inside,omitempty"` // "", queue, asap, schedule — issued by the first run of the body
	MaxDelay      string `json:"max_delay,omitempty"`      // "", "0", "20ms", "1h"
}

type op struct {
	Do     string `json:"do"` // queue | prioritize | asap | schedule | cancel | sleep
	Task   int    `json:"task"`
	MS     int    `json:"ms,omitempty"`
	schedT time.Time
}

type caseSpec struct {
	Module  int             `json:"module"`
	Tasks   []taskSpec      `json:"tasks"`
	Ops     []op            `json:"ops"`
	Actions []*inlineAction `json:"inline_actions,omitempty"`
}

func genCase(t *rapid.T, prefix string) *caseSpec {
	c := &caseSpec{Module: rapid.IntRange(0, len(mods)-1).Draw(t, "module")}
	if rapid.IntRange(0, 7).Draw(t, "reschedulecase") == 0 {
		// quiet schedule: one or two tasks without max delay that are only ever (re-)scheduled, also from far to near
		n := rapid.IntRange(1, 2).Draw(t, "rtasks")
		for i := 0; i < n; i++ {
			c.Tasks = append(c.Tasks, taskSpec{Name: fmt.Sprintf("%st%d", prefix, i), HoldMS: 3, MaxDelay: "0"})
		}
		k := rapid.IntRange(2, 5).Draw(t, "rops")
		for i := 0; i < k; i++ {
			o := op{Do: "schedule", Task: rapid.IntRange(0, n-1).Draw(t, "rtask")}
			o.MS = rapid.SampledFrom([]int{5, 15, 40, 3600 * 1000, 3600 * 1000}).Draw(t, "rin")
			if i == k-1 && o.MS > 1000 && rapid.Bool().Draw(t, "endnear") {
				o.MS = 10
			}
			c.Ops = append(c.Ops, o)
			if rapid.Bool().Draw(t, "rsleep") {
				c.Ops = append(c.Ops, op{Do: "sleep", MS: rapid.SampledFrom([]int{1, 4, 10}).Draw(t, "rsl")})
			}
		}
		return c
	}
	n := rapid.IntRange(1, 5).Draw(t, "tasks")
	for i := 0; i < n; i++ {
		ts := taskSpec{
			Name:          fmt.Sprintf("%st%d", prefix, i),
			HoldMS:        rapid.SampledFrom([]int{3, 3, 6, 12}).Draw(t, "hold"),
			RequeueInside: rapid.SampledFrom([]string{"", "", "", "queue", "asap", "schedule"}).Draw(t, "inside"),
			MaxDelay:      rapid.SampledFrom([]string{"", "", "0", "20ms", "1h"}).Draw(t, "maxdelay"),
		}
		c.Tasks = append(c.Tasks, ts)
	}
	k := rapid.IntRange(2, 12).Draw(t, "ops")
	for i := 0; i < k; i++ {
		o := op{Task: rapid.IntRange(0, n-1).Draw(t, "optask")}
		o.Do = rapid.SampledFrom([]string{"queue", "queue", "prioritize", "asap", "schedule", "schedule", "cancel", "sleep", "sleep", "maxdelay"}).Draw(t, "do")
		switch o.Do {
		case "schedule":
			// mostly soon; now and then far in the future (a later, earlier re-schedule must still be honoured)
			o.MS = rapid.SampledFrom([]int{5, 10, 25, 40, 5, 10, 25, 40, 3600 * 1000}).Draw(t, "in")
		case "sleep":
			o.MS = rapid.SampledFrom([]int{1, 4, 10, 30}).Draw(t, "sleep")
		case "maxdelay":
			// a new maximum delay for later queueings; what is waiting (a scheduled time, say) is not touched by it
			o.MS = rapid.SampledFrom([]int{20, 3600 * 1000}).Draw(t, "newmaxdelay")
		}
		c.Ops = append(c.Ops, o)
	}
	na := rapid.IntRange(0, 2).Draw(t, "inline")
	for i := 0; i < na; i++ {
		c.Actions = append(c.Actions, &inlineAction{
			Point:   rapid.SampledFrom([]string{"tasks.handler.popped", "tasks.run.checked", "tasks.exec.returned"}).Draw(t, "point"),
			Task:    c.Tasks[rapid.IntRange(0, n-1).Draw(t, "atask")].Name,
			Nth:     rapid.IntRange(1, 2).Draw(t, "nth"),
			Do:      rapid.SampledFrom([]string{"cancel", "queue", "asap", "prioritize", "schedule-soon", "schedule-soon", "schedule-far"}).Draw(t, "ado"),
			SleepMS: rapid.SampledFrom([]int{0, 0, 30}).Draw(t, "asleep"),
		})
	}
	return c
}

type fatalf interface{ Fatalf(string, ...any) }

// ------------------------------------------------------------------ execution

type runState struct {
	r         *recorder
	tasks     []*modules.Task
	gauges    []int32
	overlaps  []int32
	runs      []int32
	schedAt   []atomic.Int64 // earliest executeAt of the Schedule calls since the task's last begin (unix nano), 0 = none
	onlySched []atomic.Bool  // task has only ever been scheduled (never queued)
	lastSched []atomic.Int64 // executeAt of the most recent Schedule call (unix nano)
}

// noteSchedule remembers the earliest time any Schedule call since the task's last begin asked for: a run is
// legitimate once the time of one of those calls has come (a later re-schedule does not recall a task that is
// already queued because an earlier scheduled time came).
func (rs *runState) noteSchedule(i int, at time.Time) {
	rs.lastSched[i].Store(at.UnixNano())
	for {
		old := rs.schedAt[i].Load()
		if old != 0 && old <= at.UnixNano() {
			return
		}
		if rs.schedAt[i].CompareAndSwap(old, at.UnixNano()) {
			return
		}
	}
}

func (c *caseSpec) start(prefix string) *runState {
	r := &recorder{tasks: map[string]*modules.Task{}, actions: c.Actions}
	casePrefix.Store(prefix)
	rs := &runState{r: r, tasks: make([]*modules.Task, len(c.Tasks)), gauges: make([]int32, len(c.Tasks)), overlaps: make([]int32, len(c.Tasks)),
		runs: make([]int32, len(c.Tasks)), schedAt: make([]atomic.Int64, len(c.Tasks)), onlySched: make([]atomic.Bool, len(c.Tasks)), lastSched: make([]atomic.Int64, len(c.Tasks))}
	m := mods[c.Module]
	idx := map[string]int{}
	for i := range c.Tasks {
		idx[c.Tasks[i].Name] = i
	}
	r.queued = func(name string) {
		if i, ok := idx[name]; ok {
			rs.onlySched[i].Store(false)
		}
	}
	r.scheduled = func(name string, at time.Time) {
		if i, ok := idx[name]; ok {
			rs.noteSchedule(i, at)
		}
	}
	for i := range c.Tasks {
		i := i
		ts := c.Tasks[i]
		rs.onlySched[i].Store(true)
		task := m.NewTask(ts.Name, func(ctx context.Context, t *modules.Task) error {
			now := time.Now()
			if g := atomic.AddInt32(&rs.gauges[i], 1); g > 1 {
				atomic.AddInt32(&rs.overlaps[i], 1)
			}
			n := atomic.AddInt32(&rs.runs[i], 1)
			info := ""
			if ctx.Err() != nil {
				info = "ctxdone"
			}
			if sa := rs.schedAt[i].Swap(0); sa != 0 && rs.onlySched[i].Load() && now.UnixNano() < sa {
				info += fmt.Sprintf(" EARLY by %s", time.Duration(sa-now.UnixNano()))
			}
			r.rec("begin", ts.Name, info)
			time.Sleep(time.Duration(ts.HoldMS) * time.Millisecond)
			if n == 1 {
				switch ts.RequeueInside {
				case "queue":
					rs.onlySched[i].Store(false)
					r.rec("submit:queue", ts.Name, "inside")
					t.Queue()
				case "asap":
					rs.onlySched[i].Store(false)
					r.rec("submit:asap", ts.Name, "inside")
					t.StartASAP()
				case "schedule":
					at := time.Now().Add(8 * time.Millisecond)
					rs.noteSchedule(i, at)
					r.rec("submit:schedule", ts.Name, fmt.Sprintf("at=%d inside", at.UnixNano()))
					t.Schedule(at)
					r.rec("schedule-return", ts.Name, "")
				}
			}
			atomic.AddInt32(&rs.gauges[i], -1)
			r.rec("end", ts.Name, "")
			return nil
		})
		switch ts.MaxDelay {
		case "0":
			task.MaxDelay(0)
		case "20ms":
			task.MaxDelay(20 * time.Millisecond)
		case "1h":
			task.MaxDelay(time.Hour)
		}
		rs.tasks[i] = task
		r.tasks[ts.Name] = task
	}
	cur.Store(r)
	return rs
}

func (c *caseSpec) execOps(rs *runState) {
	r := rs.r
	for _, o := range c.Ops {
		name := c.Tasks[o.Task].Name
		t := rs.tasks[o.Task]
		switch o.Do {
		case "sleep":
			time.Sleep(time.Duration(o.MS) * time.Millisecond)
		case "schedule":
			at := time.Now().Add(time.Duration(o.MS) * time.Millisecond)
			rs.noteSchedule(o.Task, at)
			r.rec("submit:schedule", name, fmt.Sprintf("at=%d +%dms", at.UnixNano(), o.MS))
			t.Schedule(at)
			r.rec("schedule-return", name, "")
		case "maxdelay":
			r.rec("maxdelay", name, fmt.Sprintf("%dms", o.MS))
			t.MaxDelay(time.Duration(o.MS) * time.Millisecond)
		case "queue", "prioritize", "asap":
			rs.onlySched[o.Task].Store(false)
			r.apply(t, name, o.Do, "outside")
		case "cancel":
			r.apply(t, name, "cancel", "outside")
		}
	}
}

// quiesce waits until no harness task is queued, due, or executing. It returns a description of what is stuck if
// there has been no progress for longer than two execution-wait limits (2 x 1 min) plus slack.
func (c *caseSpec) quiesce(rs *runState) string {
	const noProgress = 135 * time.Second
	stable := 0
	for {
		busy := ""
		for i, t := range rs.tasks {
			canceled, executing, queued, prioritized, scheduled := t.VerifTaskState()
			switch {
			case executing || atomic.LoadInt32(&rs.gauges[i]) > 0:
				busy = c.Tasks[i].Name + " executing"
			case queued || prioritized:
				busy = c.Tasks[i].Name + " queued"
			case scheduled && !canceled:
				// still has a schedule entry: due within the next minute only when it was scheduled explicitly or has a small max delay
				// explicit schedules are at most 40 ms ahead and the small max delay is 20 ms; entries created by the default
				// (1 min) or 1 h max delay belong to submissions that are also in a queue and disappear when the task runs
				busy = c.Tasks[i].Name + " scheduled"
				if ls := rs.lastSched[i].Load(); ls != 0 && time.Until(time.Unix(0, ls)) > 10*time.Minute {
					busy = "" // explicitly scheduled for the far future and not re-scheduled since: not due in this case
				}
			}
			if busy != "" {
				break
			}
		}
		if busy == "" {
			stable++
			if stable >= 8 {
				return ""
			}
		} else {
			stable = 0
			if last := rs.r.lastEvt.Load(); last != 0 && time.Since(time.Unix(0, last)) > noProgress {
				return busy
			}
		}
		time.Sleep(2 * time.Millisecond)
	}
}

type taskFinal struct{ canceled, scheduled bool }

// finalStates reads the task flags at quiescence (before finish cancels everything).
func (c *caseSpec) finalStates(rs *runState) []taskFinal {
	out := make([]taskFinal, len(rs.tasks))
	for i, t := range rs.tasks {
		canceled, _, _, _, scheduled := t.VerifTaskState()
		out[i] = taskFinal{canceled, scheduled}
	}
	return out
}

func (c *caseSpec) finish(rs *runState) {
	for _, t := range rs.tasks {
		t.Cancel()
		t.Schedule(time.Time{}) // take far-future entries out of the schedule
	}
	// cancelled entries that are still in a queue are dropped when they are popped; give the handler a kick
	time.Sleep(time.Millisecond)
	cur.Store(nil)
}

func render(evs []event) string {
	var sb strings.Builder
	var t0 time.Time
	for i, e := range evs {
		if i == 0 {
			t0 = e.at
		}
		if i > 140 {
			sb.WriteString(" …")
			break
		}
		fmt.Fprintf(&sb, " [%d +%.1fms %s %s", e.seq, float64(e.at.Sub(t0).Microseconds())/1000, e.kind, e.task)
		if e.info != "" {
			sb.WriteString(" " + e.info)
		}
		sb.WriteString("]")
	}
	return sb.String()
}

type schedSub struct {
	seq, ret int64 // seq of the record made before the call and of the one made after it returned (0 = not yet)
	at       int64 // the requested time (unix nano)
}

// judge checks clauses 1-4 on the recorded history.
func (c *caseSpec) judge(t fatalf, rs *runState, stuck string, final []taskFinal) {
	evs := rs.r.events
	fail := func(clause, format string, a ...any) {
		t.Fatalf("%s: %s\ncase: %+v\nactions: %s\nevents:%s", clause, fmt.Sprintf(format, a...), *c, renderActions(c.Actions), render(evs))
	}
	if stuck != "" {
		fail("C07-4-lost", "no progress for more than two execution-wait limits while %s (a submitted task is never executed)", stuck)
	}
	for i := range c.Tasks {
		if atomic.LoadInt32(&rs.overlaps[i]) > 0 {
			fail("C07-1-self-overlap", "task %s ran concurrently with itself", c.Tasks[i].Name)
		}
	}
	type tstate struct {
		submits, begins   int
		lastSubmit        int64
		lastBegin         int64
		cancelReturn      int64 // seq of the first cancel-return, 0 = never
		lastSubmitIsSched bool
		lastSubmitDue     bool
		// for the per-run reading of "only scheduled" (see below)
		queueSubs      int   // queue / prioritize / asap submissions, whoever made them
		firstQueueSeq  int64 // seq of the first of them
		firstQueueRet  int64 // seq of the record made after that call returned (0: made from inside the task, not recorded)
		lastAdmission  int64 // seq of the admission of the most recent run
		prevAdmission  int64 // ... and of the run before it
		held, prevHeld bool  // at that admission another handler held the task (taken from a queue earlier, not yet dealt with)
		firstAdmission int64
		admissions     int
		scheds         []schedSub
		pendingSchedIx int // index in scheds of a schedule call that has not returned yet, -1 = none
	}
	st := map[string]*tstate{}
	for _, ts := range c.Tasks {
		st[ts.Name] = &tstate{pendingSchedIx: -1}
	}
	// What each of the two handlers is about to run (announced at a yield point right before its runWithLocking call) and
	// has not dealt with yet, as far as the events show: an admission of that task, or the handler's next announcement,
	// closes it. (Goroutine ids would tell the handlers apart exactly; reading them costs a stack walk under the task lock,
	// which made the known slow-watcher stall of the queue - a minute each - frequent.)
	qOpen, sOpen := "", ""
	// qRunning: the task that the queue handler started last and that has not returned yet. The queue handler starts the
	// next one only after that (or after a cancel, or the execution-wait limit); what the schedule handler starts itself
	// because a maximum delay expired runs beside it and is not held to this.
	qRunning, qRunningCancelled := "", false
	var qRunningSince time.Time
	for _, e := range evs {
		s := st[e.task]
		if s == nil {
			continue
		}
		switch e.kind {
		case "returned":
			if e.task == qRunning {
				qRunning = ""
			}
		case "cancel-return":
			if e.task == qRunning {
				qRunningCancelled = true
			}
		}
		switch e.kind {
		case "popped":
			qOpen = e.task
		case "sched-run":
			sOpen = e.task
		case "checked":
			// a handler that holds this task from before this admission may run it once more, whatever is submitted or not
			s.prevHeld = s.held
			switch {
			case qOpen == e.task && sOpen == e.task:
				s.held = true // one of the two admitted it, the other still holds it
				qRunning = "" // (who started what is not known from here on until the next clear start)
			case qOpen == e.task:
				qOpen, s.held = "", false
				if qRunning != "" && qRunning != e.task && !qRunningCancelled && e.at.Sub(qRunningSince) < 50*time.Second {
					fail("C07-5-serial", "the queue handler started %s (seq %d) while %s, which it had started before, had not returned (no cancel, no execution-wait limit)", e.task, e.seq, qRunning)
				}
				qRunning, qRunningCancelled, qRunningSince = e.task, false, e.at
			case sOpen == e.task:
				sOpen, s.held = "", false
			default:
				s.held = false
			}
		}
		switch e.kind {
		case "submit:queue", "submit:prioritize", "submit:asap":
			if s.queueSubs++; s.queueSubs == 1 {
				s.firstQueueSeq = e.seq
			}
		case "submit:schedule":
			var at int64
			if _, err := fmt.Sscanf(e.info, "at=%d", &at); err == nil {
				s.scheds = append(s.scheds, schedSub{seq: e.seq, at: at})
				s.pendingSchedIx = len(s.scheds) - 1
			}
		case "queue-return":
			if s.firstQueueRet == 0 {
				s.firstQueueRet = e.seq
			}
		case "schedule-return":
			// (calls on one task are recorded by the goroutine that makes them; an inline action and an outside call can
			// overlap: the return is credited to the oldest call that has none yet)
			for i := range s.scheds {
				if s.scheds[i].ret == 0 {
					s.scheds[i].ret = e.seq
					break
				}
			}
		}
		switch {
		case strings.HasPrefix(e.kind, "submit:"):
			s.submits++
			s.lastSubmit = e.seq
		case e.kind == "cancel-return":
			if s.cancelReturn == 0 {
				s.cancelReturn = e.seq
			}
		case e.kind == "checked":
			s.prevAdmission, s.lastAdmission = s.lastAdmission, e.seq
			if s.admissions++; s.admissions == 1 {
				s.firstAdmission = e.seq
			}
			// the state checks (under the task lock) passed for this run
			if s.cancelReturn != 0 && s.cancelReturn < e.seq {
				fail("C07-3-run-after-cancel", "task %s was admitted for execution (seq %d) after Cancel had returned (seq %d) while it was still waiting", e.task, e.seq, s.cancelReturn)
			}
		case e.kind == "begin":
			s.begins++
			s.lastBegin = e.seq
			// (the "EARLY" note of the task body compares with the Schedule calls since the previous begin; it is kept as a
			// hint in the event list, the verdict is made from the recorded calls and their returns)
			// "Only scheduled", run by run. The task was put into a queue exactly once, and that call had returned before its
			// first admission: the first run is the queued one, and it takes everything submitted before its admission with it
			// (the admission clears the queues and the schedule under the task lock). Any later run can only be owed to
			// Schedule calls that had not returned before the admission of the run before it - and may not begin before
			// the earliest time one of those asked for.
			// A task that has never been put into a queue is owed to Schedule calls alone from its first run on.
			// (No verdict for a run whose predecessor was admitted while another handler held the task: that handler runs
			// it when it gets on.)
			if !s.prevHeld && (s.queueSubs == 0 || (s.begins >= 2 && s.queueSubs == 1 && s.prevAdmission != 0 && s.firstQueueRet != 0 && s.firstQueueRet < s.firstAdmission)) {
				var earliest int64
				for _, sc := range s.scheds {
					if sc.seq < e.seq && (sc.ret == 0 || sc.ret > s.prevAdmission) && (earliest == 0 || sc.at < earliest) {
						earliest = sc.at
					}
				}
				if earliest != 0 && e.at.UnixNano() < earliest {
					fail("C07-2-early", "run %d of task %s began %s before the earliest time that any Schedule call since the admission of its previous run (seq %d; 0 = none) asked for; the task was put into a queue %d times (if once: before its first run) - this run is owed to Schedule calls alone", s.begins, e.task, time.Duration(earliest-e.at.UnixNano()), s.prevAdmission, s.queueSubs)
				}
			}
		}
	}
	for i, ts := range c.Tasks {
		s := st[ts.Name]
		if s.begins > s.submits {
			fail("C07-4-too-often", "task %s was submitted %d times but began %d times", ts.Name, s.submits, s.begins)
		}
		canceled, scheduled := final[i].canceled, final[i].scheduled
		if s.submits > 0 && s.cancelReturn == 0 && !canceled && !scheduled && s.lastBegin < s.lastSubmit {
			fail("C07-4-not-executed", "task %s was not executed after its last submission (seq %d, last begin seq %d) although it was never cancelled and nothing is waiting any more", ts.Name, s.lastSubmit, s.lastBegin)
		}
	}
}

func renderActions(as []*inlineAction) string {
	var sb strings.Builder
	for _, a := range as {
		fmt.Fprintf(&sb, "{%s %s nth=%d do=%s sleep=%dms fired=%v} ", a.Point, a.Task, a.Nth, a.Do, a.SleepMS, a.fired)
	}
	return sb.String()
}

func TestPropTaskHistories(t *testing.T) {
	rapid.Check(t, func(t *rapid.T) {
		prefix := fmt.Sprintf("c%d.", atomic.AddInt64(&caseSeq, 1))
		c := genCase(t, prefix)
		rs := c.start(prefix)
		c.execOps(rs)
		stuck := c.quiesce(rs)
		final := c.finalStates(rs)
		c.finish(rs)
		c.judge(t, rs, stuck, final)

		// statistics
		subs, cancels, fired, resub := 0, 0, 0, 0
		perTask := map[string]int{}
		for _, e := range rs.r.events {
			if strings.HasPrefix(e.kind, "submit:") {
				subs++
				perTask[e.task]++
			}
			if e.kind == "cancel-return" {
				cancels++
			}
		}
		for _, n := range perTask {
			if n >= 2 {
				resub++
			}
		}
		for _, a := range c.Actions {
			if a.fired {
				fired++
				stats.Class("inline_fired_" + a.Point + "_" + a.Do)
			}
		}
		nontrivial := resub > 0 || (cancels > 0 && subs > 0)
		cls := []string{fmt.Sprintf("tasks_%d", len(c.Tasks))}
		if resub > 0 {
			cls = append(cls, "task_resubmitted")
		}
		if cancels > 0 {
			cls = append(cls, "with_cancel")
		}
		if fired > 0 {
			cls = append(cls, "inline_action_fired")
		}
		stats.Case(fmt.Sprintf("%+v|%s", *c, renderActions(c.Actions)), nontrivial, cls...)
		if nontrivial && stats.WantSample("history") {
			stats.Sample("history", map[string]any{"case": c, "events": render(rs.r.events)})
		}
	})
}

// ------------------------------------------------------------------ queue order

type orderSpec struct {
	Module int      `json:"module"`
	Kinds  []string `json:"submissions"` // per batch task: queue | prioritize | asap
	// Second: an optional second submission of the same task, issued after all first submissions (in task order):
	// e.g. a prioritized task that is then marked start-as-soon-as-possible must move to the very front.
	Second []string `json:"second_submissions"`
	Cancel []bool   `json:"cancel"` // cancel the task while it is waiting
	HoldMS int      `json:"hold_ms"`
	// Inside: the first run of the task's function submits the task again (queue | prioritize | asap): a submission like
	// any other, made at that moment - behind everything that waits in that queue already (asap: next to start).
	Inside []string `json:"resubmits_itself_while_running,omitempty"`
}

func TestPropQueueOrder(t *testing.T) {
	rapid.Check(t, func(t *rapid.T) {
		prefix := fmt.Sprintf("o%d.", atomic.AddInt64(&caseSeq, 1))
		n := rapid.IntRange(2, 9).Draw(t, "batch")
		o := &orderSpec{Module: rapid.IntRange(0, len(mods)-1).Draw(t, "module"), HoldMS: rapid.SampledFrom([]int{3, 5}).Draw(t, "hold")}
		for i := 0; i < n; i++ {
			o.Kinds = append(o.Kinds, rapid.SampledFrom([]string{"queue", "queue", "prioritize", "prioritize", "asap"}).Draw(t, "kind"))
			o.Cancel = append(o.Cancel, rapid.IntRange(0, 5).Draw(t, "cancel") == 0)
			o.Second = append(o.Second, rapid.SampledFrom([]string{"", "", "", "asap", "asap", "prioritize", "queue"}).Draw(t, "second"))
			o.Inside = append(o.Inside, rapid.SampledFrom([]string{"", "", "", "", "", "queue", "queue", "prioritize", "asap"}).Draw(t, "inside"))
		}
		casePrefix.Store(prefix)
		r := &recorder{tasks: map[string]*modules.Task{}}
		cur.Store(r)
		m := mods[o.Module]
		gate := make(chan struct{})
		plugBegan := make(chan struct{})
		plug := m.NewTask(prefix+"plug", func(ctx context.Context, _ *modules.Task) error {
			r.rec("begin", prefix+"plug", "")
			close(plugBegan)
			<-gate
			r.rec("end", prefix+"plug", "")
			return nil
		})
		plug.MaxDelay(time.Hour).Queue()
		select {
		case <-plugBegan:
		case <-time.After(150 * time.Second):
			close(gate)
			cur.Store(nil)
			t.Fatalf("C07-4-lost: the plug task was not executed within 150 s although the queue was idle; case %+v", *o)
		}
		// (a plug that returns within microseconds of its start can end before the queue handler's watcher goroutine for
		// it runs; the watcher then waits for the task's *next* context and holds the queue for a minute - the known
		// slow-watcher stall, no matter of this property. Give the watcher time to start.)
		time.Sleep(2 * time.Millisecond)
		var running int32
		var overlap int32
		tasks := make([]*modules.Task, n)
		runs := make([]int32, n)
		for i := 0; i < n; i++ {
			i := i
			name := fmt.Sprintf("%sb%d", prefix, i)
			tasks[i] = m.NewTask(name, func(ctx context.Context, tk *modules.Task) error {
				if atomic.AddInt32(&running, 1) > 1 {
					atomic.AddInt32(&overlap, 1)
				}
				r.rec("begin", name, "")
				if atomic.AddInt32(&runs[i], 1) == 1 && o.Inside[i] != "" {
					r.apply(tk, name, o.Inside[i], "inside")
				}
				time.Sleep(time.Duration(o.HoldMS) * time.Millisecond)
				r.rec("end", name, "")
				atomic.AddInt32(&running, -1)
				return nil
			}).MaxDelay(time.Hour)
		}
		// submissions in issue order: all first submissions, then the second ones
		type sub struct {
			task int
			kind string
		}
		var subs []sub
		for i := 0; i < n; i++ {
			subs = append(subs, sub{i, o.Kinds[i]})
		}
		for i := 0; i < n; i++ {
			if o.Second[i] != "" {
				subs = append(subs, sub{i, o.Second[i]})
			}
		}
		for _, sb := range subs {
			r.apply(tasks[sb.task], fmt.Sprintf("%sb%d", prefix, sb.task), sb.kind, "batch")
		}
		for i := 0; i < n; i++ {
			if o.Cancel[i] {
				r.apply(tasks[i], fmt.Sprintf("%sb%d", prefix, i), "cancel", "batch")
			}
		}
		// model order (statement): start-as-soon-as-possible tasks, latest request first; then prioritized tasks in
		// submission order; then normal tasks in submission order. A task belongs to the highest class it was submitted to;
		// its place is its latest asap request, else its first prioritized submission, else its first queue submission.
		lastASAP := make([]int, n)
		firstPrio := make([]int, n)
		firstQueue := make([]int, n)
		for i := range lastASAP {
			lastASAP[i], firstPrio[i], firstQueue[i] = -1, -1, -1
		}
		for idx, sb := range subs {
			switch sb.kind {
			case "asap":
				lastASAP[sb.task] = idx
			case "prioritize":
				if firstPrio[sb.task] < 0 {
					firstPrio[sb.task] = idx
				}
			case "queue":
				if firstQueue[sb.task] < 0 {
					firstQueue[sb.task] = idx
				}
			}
		}
		var asapQ, prioQ, normalQ []int
		for idx := len(subs) - 1; idx >= 0; idx-- {
			if i := subs[idx].task; lastASAP[i] == idx && !o.Cancel[i] {
				asapQ = append(asapQ, i)
			}
		}
		for idx := range subs {
			if i := subs[idx].task; lastASAP[i] < 0 && firstPrio[i] == idx && !o.Cancel[i] {
				prioQ = append(prioQ, i)
			}
		}
		for idx := range subs {
			if i := subs[idx].task; lastASAP[i] < 0 && firstPrio[i] < 0 && firstQueue[i] == idx && !o.Cancel[i] {
				normalQ = append(normalQ, i)
			}
		}
		// the queues are served one task at a time; a task that submits itself again while it runs joins the waiting ones
		var want []string
		ran := make([]bool, n)
		resubmittedInside := 0
		for len(asapQ)+len(prioQ)+len(normalQ) > 0 {
			var i int
			switch {
			case len(asapQ) > 0:
				i, asapQ = asapQ[0], asapQ[1:]
			case len(prioQ) > 0:
				i, prioQ = prioQ[0], prioQ[1:]
			default:
				i, normalQ = normalQ[0], normalQ[1:]
			}
			want = append(want, fmt.Sprintf("%sb%d", prefix, i))
			if !ran[i] {
				ran[i] = true
				switch o.Inside[i] {
				case "asap":
					asapQ = append([]int{i}, asapQ...)
					resubmittedInside++
				case "prioritize":
					prioQ = append(prioQ, i)
					resubmittedInside++
				case "queue":
					normalQ = append(normalQ, i)
					resubmittedInside++
				}
			}
		}
		close(gate)
		// wait until all expected tasks ended (bounded by no-progress)
		deadline := time.Now().Add(200 * time.Second)
		for {
			r.mu.Lock()
			ends := 0
			for _, e := range r.events {
				if e.kind == "end" && strings.Contains(e.task, "b") && e.task != prefix+"plug" {
					ends++
				}
			}
			r.mu.Unlock()
			if ends >= len(want) || time.Now().After(deadline) {
				break
			}
			if os.Getenv("C07_DEBUG_STALL") != "" && time.Until(deadline) < 195*time.Second {
				r.mu.Lock()
				fmt.Fprintf(os.Stderr, "STALL in order case %+v\nwant %v\nevents:%s\n", *o, want, render(r.events))
				r.mu.Unlock()
				os.Exit(3)
			}
			time.Sleep(time.Millisecond)
		}
		time.Sleep(3 * time.Millisecond) // a cancelled task that is started wrongly gets the chance to show up
		for _, tk := range tasks {
			tk.Cancel()
		}
		cur.Store(nil)
		evs := r.events
		var got []string
		lastEnd := int64(0)
		openBegin := ""
		for _, e := range evs {
			if e.task == prefix+"plug" {
				if e.kind == "end" {
					lastEnd = e.seq
				}
				continue
			}
			switch e.kind {
			case "begin":
				got = append(got, e.task)
				if openBegin != "" {
					t.Fatalf("C07-5-serial: %s began before %s had returned\ncase: %+v\nevents:%s", e.task, openBegin, *o, render(evs))
				}
				openBegin = e.task
			case "end":
				openBegin = ""
				lastEnd = e.seq
			}
		}
		_ = lastEnd
		if atomic.LoadInt32(&overlap) > 0 {
			t.Fatalf("C07-5-serial: two queued tasks ran at the same time\ncase: %+v\nevents:%s", *o, render(evs))
		}
		if strings.Join(got, ",") != strings.Join(want, ",") {
			t.Fatalf("C07-5-order: queued tasks began in order %v, documented order is %v\ncase: %+v\nevents:%s", got, want, *o, render(evs))
		}
		nc := 0
		for _, c := range o.Cancel {
			if c {
				nc++
			}
		}
		cls := []string{fmt.Sprintf("order_batch_%d", n)}
		for i := range o.Second {
			if o.Second[i] != "" {
				cls = append(cls, "order_resubmitted_"+o.Kinds[i]+"_then_"+o.Second[i])
			}
		}
		if nc > 0 {
			cls = append(cls, "order_with_cancel")
		}
		if resubmittedInside > 0 {
			cls = append(cls, "order_task_submitted_itself_again_while_running")
		}
		stats.Case(fmt.Sprintf("order %+v", *o), n >= 3, cls...)
		if stats.WantSample("order") {
			stats.Sample("order", map[string]any{"case": o, "began": got})
		}
	})
}

// fixed finding: the schedule handler fired the task at the front of the schedule whenever its timer expired, without
// checking that this task was due; a timer armed for an entry that had been removed in the meantime started the next
// scheduled task early.
func TestRegStaleScheduleTimerStartsTaskEarly(t *testing.T) {
	for round := 0; round < 3; round++ {
		prefix := fmt.Sprintf("r%d.", atomic.AddInt64(&caseSeq, 1))
		// t2 occupies the queue handler, t0 (max delay 20 ms => schedule entry at +20 ms) waits behind it, t1 is scheduled for
		// +70 ms; t0 then runs through the queue (its entry is removed, the handler's timer stays armed for +20 ms).
		c := &caseSpec{
			Module: 0,
			Tasks: []taskSpec{
				{Name: prefix + "t0", HoldMS: 3, MaxDelay: "20ms"},
				{Name: prefix + "t1", HoldMS: 3, MaxDelay: "0"},
				{Name: prefix + "t2", HoldMS: 10, MaxDelay: "1h"},
			},
			Ops: []op{{Do: "queue", Task: 2}, {Do: "sleep", MS: 2}, {Do: "queue", Task: 0}, {Do: "schedule", Task: 1, MS: 70}},
		}
		rs := c.start(prefix)
		c.execOps(rs)
		stuck := c.quiesce(rs)
		final := c.finalStates(rs)
		c.finish(rs)
		c.judge(t, rs, stuck, final)
	}
}

// fixed finding: executeWithLocking reset the task's execution time without the task lock, right before the function
// ran. A Schedule call that came between the admission of a run (under the lock) and that reset - the window includes
// the wait for a time slot - kept its schedule entry, but with a zero time: the schedule handler found it due at once
// and the task ran again immediately instead of at the scheduled time. (With the far-future time of this case: an hour
// early.)
func TestRegScheduleBetweenAdmissionAndStart(t *testing.T) {
	for round := 0; round < 3; round++ {
		prefix := fmt.Sprintf("r%d.", atomic.AddInt64(&caseSeq, 1))
		c := &caseSpec{
			Module:  0,
			Tasks:   []taskSpec{{Name: prefix + "t0", HoldMS: 3, MaxDelay: "1h"}},
			Ops:     []op{{Do: []string{"queue", "prioritize", "asap"}[round], Task: 0}, {Do: "sleep", MS: 10}},
			Actions: []*inlineAction{{Point: "tasks.run.checked", Task: prefix + "t0", Nth: 1, Do: "schedule-far"}},
		}
		rs := c.start(prefix)
		c.execOps(rs)
		stuck := c.quiesce(rs)
		final := c.finalStates(rs)
		c.finish(rs)
		c.judge(t, rs, stuck, final)
	}
}

// fixed finding: runWithLocking cleared the queues and the schedule entry of a task before it looked whether the task was
// executing. A handler call that arrives while the task executes (here: the queue handler, held up for 30 ms with a
// task it had taken from the queue, while the schedule handler ran that task because its max delay expired) wiped the
// entry of a Schedule call made during that execution: the task was never run at the scheduled time.
func TestRegScheduleDuringExecutionSurvivesLateHandlerCall(t *testing.T) {
	for round := 0; round < 3; round++ {
		prefix := fmt.Sprintf("r%d.", atomic.AddInt64(&caseSeq, 1))
		c := &caseSpec{
			Module: 0,
			Tasks:  []taskSpec{{Name: prefix + "t0", HoldMS: 3, MaxDelay: "20ms"}},
			Ops:    []op{{Do: "sleep", MS: 10}, {Do: "asap", Task: 0}, {Do: "sleep", MS: 5}, {Do: "asap", Task: 0}},
			Actions: []*inlineAction{
				{Point: "tasks.handler.popped", Task: prefix + "t0", Nth: 2, Do: "queue", SleepMS: 30},
				{Point: "tasks.exec.returned", Task: prefix + "t0", Nth: 2, Do: "schedule-soon", SleepMS: 30},
			},
		}
		rs := c.start(prefix)
		c.execOps(rs)
		stuck := c.quiesce(rs)
		final := c.finalStates(rs)
		c.finish(rs)
		c.judge(t, rs, stuck, final)
	}
}
