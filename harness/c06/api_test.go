//go:build verif

package c06

import (
	"fmt"
	"io"
	"net"
	"net/http"
	"os"
	"strconv"
	"sync"
	"testing"
	"time"

	"pgregory.net/rapid"

	"github.com/safing/portbase/api"
	"github.com/safing/portbase/config"
	"github.com/safing/portbase/database/record"
	"github.com/safing/portbase/dataroot"
	"github.com/safing/portbase/log"
	"github.com/safing/portbase/modules"

	_ "github.com/safing/portbase/database/dbmodule"

	"verifharness/internal/stats"
	"verifharness/modsim"
)

// API request handlers are exercised in-process: the api module (with config and database) is started once per
// test process and never shut down; requests go over a real loopback connection.

var (
	apiTmpDir  string
	apiBase    string
	apiReports = make(chan *modules.ModuleError, 1024)
	endpoints  = []string{"action", "data", "struct", "record", "handlerfunc", "raw", "wrapped"}
)

type c06Record struct {
	record.Base
	sync.Mutex
	V string
}

// act is the common body of every harness handler.
func act(r *http.Request) {
	q := r.URL.Query()
	if us, _ := strconv.Atoi(q.Get("hold")); us > 0 {
		time.Sleep(time.Duration(us) * time.Microsecond)
	}
	if k := q.Get("panic"); k != "" {
		modsim.PanicNow(k)
	}
}

type rawHandler struct{}

func (rawHandler) ReadPermission(*http.Request) api.Permission  { return api.PermitAnyone }
func (rawHandler) WritePermission(*http.Request) api.Permission { return api.PermitAnyone }
func (rawHandler) ServeHTTP(w http.ResponseWriter, r *http.Request) {
	act(r)
	_, _ = w.Write([]byte("ok"))
}

func startAPI() {
	var err error
	apiTmpDir, err = os.MkdirTemp("/dev/shm", "c06-api-")
	if err != nil {
		panic(err)
	}
	if err := dataroot.Initialize(apiTmpDir, 0o755); err != nil {
		panic(err)
	}
	l, err := net.Listen("tcp", "127.0.0.1:0")
	if err != nil {
		panic(err)
	}
	addr := l.Addr().String()
	_ = l.Close()
	api.SetDefaultAPIListenAddress(addr)
	apiBase = "http://" + addr
	log.SetAdapter(log.AdapterFunc(func(log.Message, uint64) {}))
	modules.SetStdErrReporting(false)
	modules.SetErrorReportingChannel(apiReports)

	must := func(err error) {
		if err != nil {
			panic(err)
		}
	}
	must(api.RegisterEndpoint(api.Endpoint{Path: "c06/action", Read: api.PermitAnyone, Write: api.PermitAnyone, ActionFunc: func(ar *api.Request) (string, error) { act(ar.Request); return "ok", nil }}))
	must(api.RegisterEndpoint(api.Endpoint{Path: "c06/data", Read: api.PermitAnyone, Write: api.PermitAnyone, DataFunc: func(ar *api.Request) ([]byte, error) { act(ar.Request); return []byte("ok"), nil }}))
	must(api.RegisterEndpoint(api.Endpoint{Path: "c06/struct", Read: api.PermitAnyone, Write: api.PermitAnyone, StructFunc: func(ar *api.Request) (interface{}, error) { act(ar.Request); return map[string]string{"v": "ok"}, nil }}))
	must(api.RegisterEndpoint(api.Endpoint{Path: "c06/record", Read: api.PermitAnyone, Write: api.PermitAnyone, RecordFunc: func(ar *api.Request) (record.Record, error) {
		act(ar.Request)
		r := &c06Record{V: "ok"}
		r.SetKey("c06:rec")
		r.UpdateMeta()
		return r, nil
	}}))
	must(api.RegisterEndpoint(api.Endpoint{Path: "c06/handlerfunc", Read: api.PermitAnyone, Write: api.PermitAnyone, HandlerFunc: func(w http.ResponseWriter, r *http.Request) {
		act(r)
		_, _ = w.Write([]byte("ok"))
	}}))
	api.RegisterHandler("/c06raw", rawHandler{})
	api.RegisterHandler("/c06wrapped", api.WrapInAuthHandler(func(w http.ResponseWriter, r *http.Request) {
		act(r)
		_, _ = w.Write([]byte("ok"))
	}, api.PermitAnyone, api.PermitAnyone))

	if err := modules.Start(); err != nil {
		panic(fmt.Sprintf("C06 api set-up: modules.Start: %v", err))
	}
	// wait for the listener
	for i := 0; i < 2000; i++ {
		c, err := net.DialTimeout("tcp", addr, time.Second)
		if err == nil {
			_ = c.Close()
			return
		}
		time.Sleep(5 * time.Millisecond)
	}
	panic("C06 api set-up: server did not come up")
}

func epURL(ep string) string {
	switch ep {
	case "raw":
		return apiBase + "/c06raw"
	case "wrapped":
		return apiBase + "/c06wrapped"
	}
	return apiBase + "/api/v1/c06/" + ep
}

var httpClient = &http.Client{Timeout: 60 * time.Second, Transport: &http.Transport{MaxIdleConnsPerHost: 64}}

type reqSpec struct {
	EP     string `json:"endpoint"`
	Method string `json:"method"`
	Panic  string `json:"panic,omitempty"`
	HoldUS int    `json:"hold_us"`
}

func doReq(s reqSpec) (int, error) {
	u := fmt.Sprintf("%s?hold=%d", epURL(s.EP), s.HoldUS)
	if s.Panic != "" {
		u += "&panic=" + s.Panic
	}
	req, _ := http.NewRequest(s.Method, u, nil)
	resp, err := httpClient.Do(req)
	if err != nil {
		return 0, err
	}
	_, _ = io.Copy(io.Discard, resp.Body)
	_ = resp.Body.Close()
	return resp.StatusCode, nil
}

func apiWorkers() int {
	st := modules.GetStatus()
	if st == nil || st.Modules["api"] == nil {
		return -1
	}
	return st.Modules["api"].Workers
}

func drainReports() []*modules.ModuleError {
	var out []*modules.ModuleError
	for {
		select {
		case r := <-apiReports:
			out = append(out, r)
		default:
			return out
		}
	}
}

// waitWorkers polls until the api module's worker counter equals want (quiescence), bounded.
func waitWorkers(want int) int {
	deadline := time.Now().Add(10 * time.Second)
	got := apiWorkers()
	for got != want && time.Now().Before(deadline) {
		time.Sleep(300 * time.Microsecond)
		got = apiWorkers()
	}
	return got
}

type fatalf interface{ Fatalf(string, ...any) }

var devModeNow bool

// setDevMode switches the development mode of the running api module (core/devMode): a handler panic is answered
// with the details instead of a bare 500 then; everything else C06 demands stays as it is.
func setDevMode(t fatalf, on bool) {
	if on == devModeNow {
		return
	}
	base := steadyWorkers()
	if err := config.SetConfigOption(config.CfgDevModeKey, on); err != nil {
		t.Fatalf("harness: cannot set %s: %v", config.CfgDevModeKey, err)
	}
	devModeNow = on
	// the change event runs hooks as workers of the api module (API keys are re-read): let them finish
	time.Sleep(2 * time.Millisecond)
	if got := waitWorkers(base); got != base {
		t.Fatalf("harness: api module has %d workers after the configuration change, %d before", got, base)
	}
	_ = steadyWorkers()
}

// steadyWorkers returns the api module's worker counter once it has not changed for 20 ms.
func steadyWorkers() int {
	last, since := apiWorkers(), time.Now()
	deadline := time.Now().Add(10 * time.Second)
	for time.Since(since) < 20*time.Millisecond && time.Now().Before(deadline) {
		time.Sleep(500 * time.Microsecond)
		if got := apiWorkers(); got != last {
			last, since = got, time.Now()
		}
	}
	return last
}

// runBatch fires the requests concurrently and checks the C06 clauses for API handlers.
func runBatch(t fatalf, reqs []reqSpec) {
	base := waitWorkers(apiWorkers()) // whatever is idle now
	_ = drainReports()
	codes := make([]int, len(reqs))
	errs := make([]error, len(reqs))
	var wg sync.WaitGroup
	for i := range reqs {
		wg.Add(1)
		go func(i int) {
			defer wg.Done()
			codes[i], errs[i] = doReq(reqs[i])
		}(i)
	}
	wg.Wait()
	panics := map[string]int{}
	for i, r := range reqs {
		if errs[i] != nil {
			t.Fatalf("C06-api-request-failed: %s %s: %v (server gone or connection dropped) batch=%+v", r.Method, r.EP, errs[i], reqs)
		}
		if r.Panic != "" {
			panics[r.Panic]++
			if codes[i] != http.StatusInternalServerError {
				t.Fatalf("C06-api-status: handler %s panicked (%s) but the request was answered %d, want 500; batch=%+v", r.EP, r.Panic, codes[i], reqs)
			}
		} else if codes[i] < 200 || codes[i] > 299 {
			t.Fatalf("C06-api-healthy: healthy request to %s answered %d, want 2xx; batch=%+v", r.EP, codes[i], reqs)
		}
	}
	// reports: one per panic, identifying itself as a panic, with value and stack
	want := 0
	for _, n := range panics {
		want += n
	}
	var got []*modules.ModuleError
	deadline := time.Now().Add(10 * time.Second)
	for {
		got = append(got, drainReports()...)
		if len(got) >= want || time.Now().After(deadline) {
			break
		}
		time.Sleep(time.Millisecond)
	}
	seen := map[string]int{}
	for _, me := range got {
		isPanic, _ := modules.IsPanic(me)
		if !isPanic || me.Severity != "panic" || me.ModuleName != "api" {
			continue
		}
		r := &modsim.Report{PanicValue: fmt.Sprintf("%v", me.PanicValue), PanicType: fmt.Sprintf("%T", me.PanicValue)}
		for k := range panics {
			if modsim.PanicMatches(k, r) && len(me.StackTrace) > 0 {
				seen[k]++
			}
		}
	}
	for k, n := range panics {
		if seen[k] < n {
			t.Fatalf("C06-api-report: %d handler panics of kind %q but only %d matching panic reports (with value and stack) on the module error channel; batch=%+v reports=%d", n, k, seen[k], reqs, len(got))
		}
	}
	if want > 0 && modules.GetLastReportedError() == nil {
		t.Fatalf("C06-api-last-report: GetLastReportedError is nil after a handler panic")
	}
	if after := waitWorkers(base); after != base {
		t.Fatalf("C06-api-counters: api module worker counter is %d after the batch, %d before; batch=%+v", after, base, reqs)
	}
}

func requireAPI(t *testing.T) {
	if os.Getenv("VERIF_C06_API") != "1" {
		t.Skip("api stack not started in this process (job 'api' sets VERIF_C06_API=1)")
	}
}

// TestExhaustiveAPIHandlerPanics: endpoint type x panic value x position (alone, first, last among healthy requests).
func TestExhaustiveAPIHandlerPanics(t *testing.T) {
	requireAPI(t)
	n := int64(0)
	defer setDevMode(t, false)
	for _, dev := range []bool{false, true} {
		setDevMode(t, dev)
		for _, ep := range endpoints {
			for _, pk := range modsim.PanicKinds {
				for _, method := range []string{"GET", "POST"} {
					for pos := 0; pos < 3; pos++ {
						p := reqSpec{EP: ep, Method: method, Panic: pk, HoldUS: 500}
						var batch []reqSpec
						switch pos {
						case 0:
							batch = []reqSpec{p}
						case 1:
							batch = []reqSpec{p, {EP: "action", Method: "GET", HoldUS: 3000}, {EP: "raw", Method: "POST", HoldUS: 3000}}
						default:
							batch = []reqSpec{{EP: "struct", Method: "GET", HoldUS: 3000}, {EP: "handlerfunc", Method: "POST", HoldUS: 3000}, p}
						}
						runBatch(t, batch)
						n++
						if stats.WantSample("api_table") {
							stats.Sample("api_table", batch)
						}
					}
				}
			}
		}
	}
	stats.CaseN(n, n, "exhaustive_api_endpoint_x_value_x_method_x_position")
	stats.Exhaustive("development mode (off, on) x API endpoint type (7) x panic value (14: nil, error, string, runtime index, nil deref, struct, custom error type, context.Canceled, wrapped context.Canceled, typed nil error pointer, slice, map, struct holding a slice, *ModuleError) x method class (GET, POST) x position (alone, first, last)")
}

func TestPropAPIHandlerPanics(t *testing.T) {
	requireAPI(t)
	rapid.Check(t, func(t *rapid.T) {
		dev := rapid.Bool().Draw(t, "devmode")
		setDevMode(t, dev)
		k := rapid.IntRange(1, 10).Draw(t, "requests")
		var batch []reqSpec
		np := 0
		for i := 0; i < k; i++ {
			r := reqSpec{
				EP:     rapid.SampledFrom(endpoints).Draw(t, "ep"),
				Method: rapid.SampledFrom([]string{"GET", "POST", "PUT", "DELETE", "HEAD"}).Draw(t, "method"),
				HoldUS: rapid.SampledFrom([]int{0, 200, 2000, 6000}).Draw(t, "hold"),
			}
			if rapid.IntRange(0, 2).Draw(t, "panics") == 0 {
				r.Panic = rapid.SampledFrom(modsim.PanicKinds).Draw(t, "kind")
				np++
			}
			batch = append(batch, r)
		}
		if np == 0 {
			batch[rapid.IntRange(0, k-1).Draw(t, "which")].Panic = rapid.SampledFrom(modsim.PanicKinds).Draw(t, "kind")
			np = 1
		}
		runBatch(t, batch)
		stats.Case(fmt.Sprintf("dev=%v %+v", dev, batch), true, fmt.Sprintf("api_batch_%d", k), fmt.Sprintf("api_panics_%d", min(np, 4)), fmt.Sprintf("api_devmode_%v", dev))
		if stats.WantSample("api_generated") {
			stats.Sample("api_generated", batch)
		}
	})
}
