//go:build verif

// Package c06 decides C06: a panic in managed code is contained, reported and leaves the accounting intact.
// Lifecycle routines, workers, tasks, microtasks and event hooks are exercised in child processes (one scenario
// each, see verifharness/modsim); API request handlers are exercised in-process (api_test.go).
package c06

import (
	"encoding/json"
	"errors"
	"fmt"
	"os"
	"testing"
	"time"

	"pgregory.net/rapid"

	"verifharness/internal/stats"
	"verifharness/modsim"
)

var panicWorkKinds = []string{
	"runworker", "startworker", "service", "task", "schedtask",
	"run_mt_high", "run_mt_med", "run_mt_low",
	"start_mt_high", "start_mt_med", "start_mt_low",
	"hook",
}

var healthyKinds = []string{
	"runworker", "startworker", "service", "task",
	"run_mt_high", "run_mt_med", "run_mt_low", "start_mt_med", "sig_mt_med", "sig_mt_low", "hook",
}

func allNames(sc *modsim.Scenario) []string {
	out := make([]string, len(sc.Modules))
	for i, m := range sc.Modules {
		out[i] = m.Name
	}
	return out
}

// workScenario builds a scenario with one panicking work item at the given position among k healthy ones.
func workScenario(mods []modsim.Module, kind, pkind, mode string, position int, healthy []modsim.Work) *modsim.Scenario {
	sc := &modsim.Scenario{StartTimeoutMS: 20000, StopTimeoutMS: 8000, Modules: mods}
	pw := modsim.Work{ID: 100, Kind: kind, Mode: mode, Panic: pkind, HoldUS: 2000, DelayUS: 300}
	target := &sc.Modules[len(sc.Modules)-1]
	var ws []modsim.Work
	for i, h := range healthy {
		if i == position {
			ws = append(ws, pw)
		}
		ws = append(ws, h)
	}
	if position >= len(healthy) {
		ws = append(ws, pw)
	}
	// a context-waiting task would block the task queue for the tasks behind it: keep tasks finishing
	for i := range ws {
		if (ws[i].Kind == "task" || ws[i].Kind == "schedtask") && ws[i].ID != 100 {
			ws[i].Mode, ws[i].HoldUS = "finish", 2000
		}
	}
	target.Work = ws
	names := allNames(sc)
	sc.Steps = []modsim.Step{{Op: "start"}, {Op: "launch", Mods: names}, {Op: "waitrestart"}}
	if mode == "finish" {
		sc.Steps = append(sc.Steps, modsim.Step{Op: "waitfinish"}, modsim.Step{Op: "waitcounts"})
		if kind == "task" || kind == "schedtask" {
			sc.Steps = append(sc.Steps, modsim.Step{Op: "requeue", Mods: names}, modsim.Step{Op: "waitfinish"}, modsim.Step{Op: "waitcounts"})
		}
		if kind == "hook" {
			// the event is triggered again after the hook panicked: the hook runs again like any other, nothing of the
			// first run is in its way
			src := pw.On
			if src == "" {
				src = target.Name
			}
			sc.Steps = append(sc.Steps, modsim.Step{Op: "trigger", Mods: []string{src}}, modsim.Step{Op: "sleep", US: 3000}, modsim.Step{Op: "waitfinish"}, modsim.Step{Op: "waitcounts"})
		}
	}
	sc.Steps = append(sc.Steps, modsim.Step{Op: "shutdown"})
	return sc
}

// stopPanicsWhileWorkOutlivesTheStop: the stop routine of the last module panics and one of its workers does not
// return within the (short) stop timeout. The module system gives up waiting, as documented; the panic of the stop
// routine must still come back as the error of Shutdown and be reported. (C05 says nothing about work that exceeds
// the stop timeout, so its clauses are not applied to such a scenario.)
func stopPanicsWhileWorkOutlivesTheStop(pk string, stopDurUS int) *modsim.Scenario {
	sc := &modsim.Scenario{StartTimeoutMS: 20000, StopTimeoutMS: 300}
	sc.Modules = []modsim.Module{{Name: "m0"}, {Name: "m1", Deps: []string{"m0"}}}
	x := &sc.Modules[1]
	x.Stop = modsim.Callback{Fault: "panic", Panic: pk, DurUS: stopDurUS}
	x.Work = []modsim.Work{{ID: 1, Kind: "startworker", Mode: "waitctx", DelayUS: 700000}}
	sc.Steps = []modsim.Step{{Op: "start"}, {Op: "launch", Mods: []string{"m0", "m1"}}, {Op: "shutdown"}}
	return sc
}

func judgeC06Only(t interface {
	Fatalf(string, ...any)
}, sc *modsim.Scenario) *modsim.Result {
	res, err := modsim.RunScenario(sc, 600*time.Second)
	b, _ := json.Marshal(sc)
	if errors.Is(err, modsim.ErrChildTimeout) {
		t.Fatalf("C06-hang: child did not terminate within 600 s\nscenario: %s", b)
	}
	if err != nil {
		t.Fatalf("C06-process-died: the process did not survive: %v\nscenario: %s", err, b)
	}
	if v := modsim.CheckC06(sc, res); v != nil {
		t.Fatalf("%s\nscenario: %s\nevents:%s", v.Error(), b, modsim.RenderEvents(res.Events, 120))
	}
	return res
}

func judge(t interface {
	Fatalf(string, ...any)
}, sc *modsim.Scenario) *modsim.Result {
	res, err := modsim.RunScenario(sc, 600*time.Second)
	b, _ := json.Marshal(sc)
	if errors.Is(err, modsim.ErrChildTimeout) {
		t.Fatalf("C06-hang: child did not terminate within 600 s\nscenario: %s", b)
	}
	if err != nil {
		t.Fatalf("C06-process-died: the process did not survive: %v\nscenario: %s", err, b)
	}
	if v := modsim.CheckC06(sc, res); v != nil {
		t.Fatalf("%s\nscenario: %s\nevents:%s", v.Error(), b, modsim.RenderEvents(res.Events, 120))
	}
	// "the module can still be stopped": the stop clauses of C05 hold as well
	if v := modsim.CheckC05(sc, res); v != nil {
		t.Fatalf("C06-still-stoppable/%s\nscenario: %s\nevents:%s", v.Error(), b, modsim.RenderEvents(res.Events, 120))
	}
	return res
}

// disabledNotYetStopped rewrites a work scenario with a panicking service worker: module management is on and the
// module has been disabled, but no management pass has stopped it yet (or it is enabled again before the next pass).
// It is online and not stopping, so its panicking service worker is restarted like any other.
func disabledNotYetStopped(sc *modsim.Scenario, reenable bool) {
	last := &sc.Modules[len(sc.Modules)-1]
	for i := range last.Work {
		if last.Work[i].ID == 100 {
			last.Work[i].HoldUS = 15000
		}
	}
	sc.Mgmt = true
	sc.Enabled = allNames(sc)
	steps := []modsim.Step{sc.Steps[0], sc.Steps[1], {Op: "disable", Mods: []string{last.Name}}}
	if reenable {
		steps = append(steps, modsim.Step{Op: "sleep", US: 30000}, modsim.Step{Op: "enable", Mods: []string{last.Name}}, modsim.Step{Op: "manage"})
	}
	sc.Steps = append(steps, sc.Steps[2:]...)
	stats.Class("service_panic_in_disabled_module_not_yet_stopped")
}

// TestExhaustiveWorkPanics enumerates kind x panic value x position (alone, first, last among healthy items).
func TestExhaustiveWorkPanics(t *testing.T) {
	n := int64(0)
	for _, kind := range panicWorkKinds {
		for _, pk := range modsim.PanicKinds {
			for pos := 0; pos < 3; pos++ {
				var healthy []modsim.Work
				position := 0
				switch pos {
				case 1: // first among healthy, concurrently running items
					healthy = []modsim.Work{{ID: 1, Kind: "startworker", Mode: "waitctx", DelayUS: 300}, {ID: 2, Kind: "run_mt_med", Mode: "waitctx", DelayUS: 300}, {ID: 3, Kind: "task", Mode: "finish", HoldUS: 2000}}
				case 2: // last
					healthy = []modsim.Work{{ID: 1, Kind: "service", Mode: "waitctx", DelayUS: 300}, {ID: 2, Kind: "sig_mt_med", Mode: "waitctx", DelayUS: 300}, {ID: 3, Kind: "hook", Mode: "waitctx", DelayUS: 300}}
					position = 3
				}
				mods := []modsim.Module{{Name: "m0"}, {Name: "m1", Deps: []string{"m0"}}}
				sc := workScenario(mods, kind, pk, "finish", position, healthy)
				judge(t, sc)
				n++
				if stats.WantSample("work_table") {
					stats.Sample("work_table", sc)
				}
			}
		}
	}
	for _, kind := range panicWorkKinds {
		mods := []modsim.Module{{Name: "m0"}, {Name: "m1", Deps: []string{"m0"}}}
		sc := workScenario(mods, kind, "string", "finish", 0, nil)
		sc.NoReports = true
		stats.Class("no_report_channel_installed")
		judge(t, sc)
		n++
		// a report channel without buffer and a receiver waiting on it: one panic, nothing else to report
		sc = workScenario(mods, kind, "error", "finish", 0, nil)
		sc.UnbufferedReports = true
		stats.Class("unbuffered_report_channel_with_waiting_receiver")
		judge(t, sc)
		n++
	}
	for _, pk := range modsim.PanicKinds {
		for _, reenable := range []bool{false, true} {
			mods := []modsim.Module{{Name: "m0"}, {Name: "m1", Deps: []string{"m0"}}}
			sc := workScenario(mods, "service", pk, "finish", 0, nil)
			disabledNotYetStopped(sc, reenable)
			judge(t, sc)
			n++
		}
	}
	stats.CaseN(n, n, "exhaustive_work_kind_x_value_x_position")
	stats.Exhaustive("execution kind (12 work kinds) x panic value (14: nil, error, string, runtime index, nil deref, struct, custom error type, context.Canceled, wrapped context.Canceled, typed nil error pointer, slice, map, struct holding a slice, *ModuleError) x position (alone, first, last among healthy items)")
}

// TestExhaustiveLifecyclePanics enumerates phase x panic value for a module inside a small graph.
func TestExhaustiveLifecyclePanics(t *testing.T) {
	n := int64(0)
	for _, pk := range []string{"string", "error", "nil", "typednil"} {
		judgeC06Only(t, stopPanicsWhileWorkOutlivesTheStop(pk, 0))
		stats.Class("stop_panics_while_work_outlives_the_stop_timeout")
		n++
	}
	for _, phase := range []string{"prep", "start", "stop"} {
		for _, pk := range modsim.PanicKinds {
			for _, where := range []int{0, 1, 2} {
				mods := []modsim.Module{{Name: "m0"}, {Name: "m1", Deps: []string{"m0"}}, {Name: "m2", Deps: []string{"m1"}}}
				cb := modsim.Callback{Fault: "panic", Panic: pk}
				switch phase {
				case "prep":
					mods[where].Prep = cb
				case "start":
					mods[where].Start = cb
				default:
					mods[where].Stop = cb
				}
				sc := &modsim.Scenario{StartTimeoutMS: 20000, StopTimeoutMS: 8000, Modules: mods, Steps: []modsim.Step{{Op: "start"}, {Op: "shutdown"}}}
				res := judge(t, sc)
				if v := modsim.CheckC01(sc, res); v != nil {
					t.Fatalf("C06-lifecycle/%s", v.Error())
				}
				n++
				if pk == "string" || pk == "error" || pk == "slice" {
					// the same with a slow consumer of the reports: a channel of one or two entries that is read only after
					// the call has returned. The panic is the first thing reported in that call, it finds room and is there
					// when the consumer reads (what follows it may be dropped)
					for _, cp := range []int{1, 2} {
						slow := *sc
						slow.ReportsCap = cp
						judgeC06Only(t, &slow)
						stats.Class("lifecycle_panic_reported_to_a_short_channel_with_a_slow_consumer")
						n++
					}
				}
				if stats.WantSample("lifecycle_table") {
					stats.Sample("lifecycle_table", sc)
				}
			}
		}
	}
	stats.CaseN(n, n, "exhaustive_lifecycle_phase_x_value_x_module")
	stats.Exhaustive("lifecycle routine (prep,start,stop) x panic value (14: nil, error, string, runtime index, nil deref, struct, custom error type, context.Canceled, wrapped context.Canceled, typed nil error pointer, slice, map, struct holding a slice, *ModuleError) x position in a 3-module chain")
}

func TestPropWorkPanics(t *testing.T) {
	rapid.Check(t, func(t *rapid.T) {
		mods := modsim.GenGraph(t, 1, 3)
		kind := rapid.SampledFrom(panicWorkKinds).Draw(t, "kind")
		if rapid.IntRange(0, 5).Draw(t, "service") == 0 {
			kind = "service" // the kind with the most behaviour behind it (restart, back-off)
		}
		pk := rapid.SampledFrom(modsim.PanicKinds).Draw(t, "panic")
		mode := rapid.SampledFrom([]string{"finish", "finish", "waitctx"}).Draw(t, "mode")
		if mode == "waitctx" && (kind == "task" || kind == "schedtask") {
			mode = "finish"
		}
		k := rapid.IntRange(0, 6).Draw(t, "healthy")
		var healthy []modsim.Work
		for i := 0; i < k; i++ {
			h := modsim.Work{ID: i + 1, Kind: rapid.SampledFrom(healthyKinds).Draw(t, "hkind")}
			if rapid.Bool().Draw(t, "hmode") {
				h.Mode, h.HoldUS = "finish", rapid.SampledFrom([]int{0, 300, 2000}).Draw(t, "hhold")
			} else {
				h.Mode, h.DelayUS = "waitctx", rapid.SampledFrom([]int{0, 300, 3000}).Draw(t, "hdelay")
			}
			healthy = append(healthy, h)
		}
		pos := rapid.IntRange(0, k).Draw(t, "position")
		sc := workScenario(mods, kind, pk, mode, pos, healthy)
		// a second panicking item of another kind now and then
		if rapid.IntRange(0, 3).Draw(t, "second") == 0 {
			k2 := rapid.SampledFrom(panicWorkKinds).Draw(t, "kind2")
			if k2 != "task" && k2 != "schedtask" {
				last := &sc.Modules[len(sc.Modules)-1]
				last.Work = append(last.Work, modsim.Work{ID: 101, Kind: k2, Mode: "finish", HoldUS: 500, Panic: rapid.SampledFrom(modsim.PanicKinds).Draw(t, "panic2")})
			}
		}
		// the same item panics again in its next run(s): the restarted service worker, the task or hook that runs again
		runs := 1
		if mode == "finish" && (kind == "service" || kind == "task" || kind == "schedtask" || kind == "hook") {
			runs = rapid.SampledFrom([]int{1, 1, 2, 3}).Draw(t, "panicking_runs")
			if runs > 1 {
				last := &sc.Modules[len(sc.Modules)-1]
				for i := range last.Work {
					if last.Work[i].ID == 100 {
						last.Work[i].PanicRuns = runs
					}
				}
				stats.Class("item_panics_again_in_its_next_run")
			}
		}
		if kind == "task" && mode == "finish" && runs == 1 && rapid.IntRange(0, 1).Draw(t, "queued_again_inside") == 0 {
			// the task has a maximum delay of 5 ms and is queued again from inside its 30 ms run, which then panics: the new
			// submission is overdue while the execution is still running and must be run afterwards
			last := &sc.Modules[len(sc.Modules)-1]
			for i := range last.Work {
				if last.Work[i].ID == 100 {
					last.Work[i].MaxDelayMS, last.Work[i].QueueInside, last.Work[i].HoldUS = 5, true, rapid.SampledFrom([]int{2000, 30000}).Draw(t, "hold")
				}
			}
			steps := []modsim.Step{}
			for _, st := range sc.Steps {
				steps = append(steps, st)
				if st.Op == "waitrestart" {
					steps = append(steps, modsim.Step{Op: "waitrerun"})
				}
			}
			sc.Steps = steps
			stats.Class("task_queued_again_during_its_panicking_run_with_a_maximum_delay")
		}
		if kind == "service" && mode == "finish" && rapid.IntRange(0, 2).Draw(t, "from_prep") == 0 {
			// the service worker is started by the module's prep routine and outlives the start (its first run takes
			// 30 ms): it panics while the module is online and is restarted like any other
			last := &sc.Modules[len(sc.Modules)-1]
			for i := range last.Work {
				if last.Work[i].ID == 100 {
					last.Work[i].HoldUS = 30000
				}
			}
			last.Prep.Launch = append(last.Prep.Launch, 100)
			stats.Class("panicking_service_worker_started_by_the_prep_routine")
		}
		sc.Delays = modsim.GenDelays(t, sc.Modules, 2)
		if rapid.IntRange(0, 4).Draw(t, "noreports") == 0 {
			// nobody listens for reports (no channel, stderr off): everything else stays as it is
			sc.NoReports = true
			stats.Class("no_report_channel_installed")
		}
		if kind == "service" && mode == "finish" && runs == 1 && rapid.Bool().Draw(t, "slowbackoff") {
			// the panicked service worker sits in a long restart back-off when the module is stopped: "the module can still
			// be stopped" (promptly, CheckC05); it is not run again before that, so the restart clause does not apply
			last := &sc.Modules[len(sc.Modules)-1]
			for i := range last.Work {
				if last.Work[i].ID == 100 {
					last.Work[i].BackoffMS = 6000
				}
			}
			sc.Steps = []modsim.Step{{Op: "start"}, {Op: "launch", Mods: allNames(sc)}, {Op: "sleep", US: 20000}, {Op: "shutdown"}}
			stats.Class("service_panic_then_stop_during_backoff")
		}
		if kind == "service" && mode == "finish" && len(sc.Steps) > 4 && rapid.IntRange(0, 2).Draw(t, "disabled") == 0 {
			disabledNotYetStopped(sc, rapid.Bool().Draw(t, "reenabled"))
		}
		res := judge(t, sc)
		stats.Case(sc.Fingerprint(), true, "work_"+kind, "panic_"+pk, "mode_"+mode, fmt.Sprintf("healthy_%d", k))
		if stats.WantSample("work_generated") {
			stats.Sample("work_generated", map[string]any{"scenario": sc, "events": modsim.RenderEvents(res.Events, 50)})
		}
	})
}

func TestPropLifecyclePanics(t *testing.T) {
	rapid.Check(t, func(t *rapid.T) {
		sc := &modsim.Scenario{StartTimeoutMS: 20000, StopTimeoutMS: 8000}
		sc.Modules = modsim.GenGraph(t, 1, 5)
		np := rapid.IntRange(1, 2).Draw(t, "npanics")
		for i := 0; i < np; i++ {
			m := &sc.Modules[rapid.IntRange(0, len(sc.Modules)-1).Draw(t, "pmod")]
			cb := modsim.Callback{Fault: "panic", Panic: rapid.SampledFrom(modsim.PanicKinds).Draw(t, "pkind"), DurUS: rapid.SampledFrom([]int{0, 300, 2000}).Draw(t, "pdur")}
			switch rapid.SampledFrom([]string{"prep", "start", "stop", "stop"}).Draw(t, "phase") {
			case "prep":
				m.Prep = cb
			case "start":
				m.Start = cb
			default:
				m.Stop = cb
			}
		}
		sc.Mgmt = rapid.Bool().Draw(t, "mgmt")
		sc.Steps = []modsim.Step{{Op: "start"}}
		if sc.Mgmt {
			sc.Enabled = modsim.Subset(t, sc.Modules, "enabled")
			for i := rapid.IntRange(0, 3).Draw(t, "steps"); i > 0; i-- {
				sub := modsim.Subset(t, sc.Modules, "toggle")
				if len(sub) > 0 {
					sc.Steps = append(sc.Steps, modsim.Step{Op: rapid.SampledFrom([]string{"enable", "disable"}).Draw(t, "op"), Mods: sub})
				}
				sc.Steps = append(sc.Steps, modsim.Step{Op: "manage"})
			}
		}
		sc.Steps = append(sc.Steps, modsim.Step{Op: "shutdown"})
		if rapid.IntRange(0, 4).Draw(t, "retrycase") == 0 {
			// a start routine launches a worker and then panics; the module is started again by the next management pass
			// and finally stopped: the counters must be back, the module must still be stoppable
			for i := range sc.Modules {
				sc.Modules[i].Prep, sc.Modules[i].Start, sc.Modules[i].Stop = modsim.Callback{}, modsim.Callback{}, modsim.Callback{}
			}
			x := &sc.Modules[len(sc.Modules)-1]
			x.Work = []modsim.Work{{ID: 1, Kind: rapid.SampledFrom([]string{"startworker", "service", "start_mt_med"}).Draw(t, "rkind"), Mode: "waitctx", DelayUS: 300}}
			x.Start = modsim.Callback{Fault: "panic", Panic: rapid.SampledFrom(modsim.PanicKinds).Draw(t, "rpanic"), FaultTimes: 1, Launch: []int{1}}
			sc.Mgmt = true
			sc.Enabled = nil
			for _, m := range sc.Modules[:len(sc.Modules)-1] {
				sc.Enabled = append(sc.Enabled, m.Name)
			}
			sc.Steps = []modsim.Step{{Op: "start"}, {Op: "enable", Mods: []string{x.Name}}, {Op: "manage"}, {Op: "manage"}, {Op: "shutdown"}}
			stats.Class("start_panics_after_launching_work_then_retried")
		}
		if rapid.IntRange(0, 9).Draw(t, "stoptimeout") == 0 {
			sc = stopPanicsWhileWorkOutlivesTheStop(rapid.SampledFrom(modsim.PanicKinds).Draw(t, "tpanic"), rapid.SampledFrom([]int{0, 2000, 50000}).Draw(t, "tstopdur"))
			judgeC06Only(t, sc)
			stats.Class("stop_panics_while_work_outlives_the_stop_timeout")
			stats.Case(sc.Fingerprint(), true, "lifecycle_stop_timeout")
			return
		}
		sc.Delays = modsim.GenDelays(t, sc.Modules, 3)
		res := judge(t, sc)
		if v := modsim.CheckC01(sc, res); v != nil {
			b, _ := json.Marshal(sc)
			t.Fatalf("C06-lifecycle/%s\nscenario: %s", v.Error(), b)
		}
		panicked := false
		for _, e := range res.Events {
			if (e.Kind == "prep-end" || e.Kind == "start-end" || e.Kind == "stop-end") && e.Info == "panic" {
				panicked = true
			}
		}
		cls := "lifecycle_panic_not_reached"
		if panicked {
			cls = "lifecycle_panic_happened"
		}
		stats.Case(sc.Fingerprint(), panicked, cls)
		if panicked && stats.WantSample("lifecycle_generated") {
			stats.Sample("lifecycle_generated", map[string]any{"scenario": sc, "events": modsim.RenderEvents(res.Events, 50)})
		}
	})
}

// TestRegReplayCase re-executes a journalled scenario (./check C06 --replay <file.case>).
func TestRegReplayCase(t *testing.T) {
	p := os.Getenv("VERIF_REPLAY_CASE")
	if p == "" {
		t.Skip("no replay case")
	}
	sc, err := modsim.Load(p)
	if err != nil || len(sc.Modules) == 0 {
		t.Skipf("not a scenario file: %v", err)
	}
	judge(t, sc)
}

// fixed finding (second half of the control-function hand-over): with the running flag reset before the result is
// handed over, a worker that finishes in between signals "stop complete" and the stop sequence used to look for the
// stop routine's result without waiting for it - the panic/error of the stop routine was dropped and Shutdown returned nil.
func TestRegStopResultNotMissed(t *testing.T) {
	for _, js := range []string{
		`{"modules":[{"name":"m0","prep":{"dur_us":0},"start":{"dur_us":0},"stop":{"dur_us":0,"fault":"panic","panic":"string"},"work":[{"id":1,"kind":"startworker","mode":"waitctx","delay_us":2000}]}],"mgmt":false,"steps":[{"op":"start"},{"op":"launch","mods":["m0"]},{"op":"shutdown"}],"start_timeout_ms":20000,"stop_timeout_ms":8000,"delays":[{"point":"modules.ctrlfn.returned","ctx":"m0","nth":3,"delay_us":10000}]}`,
	} {
		sc := &modsim.Scenario{}
		if err := json.Unmarshal([]byte(js), sc); err != nil {
			t.Fatal(err)
		}
		judge(t, sc)
	}
}
