//go:build verif

package c06

import (
	"testing"

	"verifharness/internal/stats"
)

func TestMain(m *testing.M) { stats.Main(m) }
