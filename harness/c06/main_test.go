//go:build verif

package c06

import (
	"flag"
	"os"
	"testing"

	"verifharness/internal/stats"
)

func TestMain(m *testing.M) {
	flag.Parse()
	if os.Getenv("VERIF_C06_API") == "1" {
		startAPI()
	}
	code := m.Run()
	stats.Flush(code)
	if apiTmpDir != "" {
		_ = os.RemoveAll(apiTmpDir)
	}
	os.Exit(code)
}
