package c04

// reg_test.go: regression tests, one per fixed finding (see known-findings.part
// and NOTES.md). Each is the minimal failing history the generated search found.

import (
	"os"
	"path/filepath"
	"testing"

	"github.com/safing/portbase/config"
)

func regSetup(t *testing.T) {
	t.Helper()
	resetGlobal(t)
	t.Cleanup(func() {
		if poisoned.Load() == nil {
			resetGlobal(t)
		}
	})
}

func mustRegister(t *testing.T, o *config.Option) {
	t.Helper()
	o.Name, o.Description = o.Key, "regression option"
	if err := config.Register(o); err != nil {
		t.Fatalf("register %s: %v", o.Key, err)
	}
}

func noPanic(t *testing.T, what string, f func()) {
	t.Helper()
	defer func() {
		if r := recover(); r != nil {
			msg := what + " panicked"
			poisoned.CompareAndSwap(nil, &msg)
			t.Fatalf("%s panicked: %v", what, r)
		}
	}()
	f()
}

// finding C04-release-layer-order
func TestRegReleaseLevelUserLayerOverDefaultLayer(t *testing.T) {
	regSetup(t)
	key := "reg1/beta"
	mustRegister(t, &config.Option{Key: key, OptType: config.OptTypeString, ReleaseLevel: config.ReleaseLevelBeta, DefaultValue: "registered"})
	g := config.GetAsString(key, "fallback")
	level := config.GetAsString(relKey, "fallback")
	check := func(step, wantLevel, want string) {
		t.Helper()
		if got := level(); got != wantLevel {
			t.Fatalf("%s: getter of %s returns %q, want %q", step, relKey, got, wantLevel)
		}
		if got := g(); got != want {
			t.Fatalf("%s: effective release level is %q, but the getter of the beta option returns %q, want %q", step, wantLevel, got, want)
		}
	}
	if err := config.SetConfigOption(key, "user"); err != nil {
		t.Fatal(err)
	}
	check("user value set, level stable", "stable", "registered")
	if err := config.SetConfigOption(relKey, "beta"); err != nil {
		t.Fatal(err)
	}
	check("user layer: beta", "beta", "user")
	// the default layer must not override the user's choice
	if err := config.SetDefaultConfigOption(relKey, "stable"); err != nil {
		t.Fatal(err)
	}
	check("user layer: beta, default layer: stable", "beta", "user")
	// and the other way round
	if err := config.SetConfigOption(relKey, "stable"); err != nil {
		t.Fatal(err)
	}
	if err := config.SetDefaultConfigOption(relKey, "experimental"); err != nil {
		t.Fatal(err)
	}
	check("user layer: stable, default layer: experimental", "stable", "registered")
	if _, ok := config.GetActiveConfigValues()[key]; ok {
		t.Fatalf("GetActiveConfigValues lists the beta option although the effective release level is stable")
	}
	// without a user choice the default layer decides
	if err := config.SetConfigOption(relKey, nil); err != nil {
		t.Fatal(err)
	}
	check("user layer: unset, default layer: experimental", "experimental", "user")
}

// finding C04-possible-values-panic
func TestRegNilAndBytesForOptionWithPossibleValues(t *testing.T) {
	regSetup(t)
	key, other := "reg2/mode", "reg2/other"
	mustRegister(t, &config.Option{Key: key, OptType: config.OptTypeString, DefaultValue: "on",
		PossibleValues: []config.PossibleValue{{Name: "on", Value: "on"}, {Name: "off", Value: "off"}}})
	mustRegister(t, &config.Option{Key: other, OptType: config.OptTypeInt, DefaultValue: 1})
	g := config.GetAsString(key, "fallback")
	o := config.GetAsInt(other, -1)
	if err := config.SetConfigOption(key, "off"); err != nil {
		t.Fatal(err)
	}
	if g() != "off" || o() != 1 {
		t.Fatalf("set-up: got %q, %d", g(), o())
	}
	noPanic(t, "ReplaceConfig with a JSON null", func() {
		errs, _ := config.ReplaceConfig(map[string]interface{}{key: nil, other: 7})
		if len(errs) != 1 || errs[0].Option == nil || errs[0].Option.Key != key {
			t.Fatalf("ReplaceConfig({%s: nil, %s: 7}) reported %v, want exactly the nil entry", key, other, errs)
		}
	})
	// the replace happened as a whole and was signalled
	if g() != "on" || o() != 7 {
		t.Fatalf("after ReplaceConfig({%s: nil, %s: 7}) the getters return %q and %d, want \"on\" (registered default) and 7", key, other, g(), o())
	}
	noPanic(t, "ReplaceDefaultConfig with a JSON null", func() {
		if errs, _ := config.ReplaceDefaultConfig(map[string]interface{}{key: nil}); len(errs) != 1 {
			t.Fatalf("ReplaceDefaultConfig reported %v, want one error", errs)
		}
	})
	noPanic(t, "ValidateConfig with a JSON null", func() {
		if errs, _, _ := config.ValidateConfig(map[string]interface{}{key: nil}); len(errs) != 1 {
			t.Fatalf("ValidateConfig reported %v, want one error", errs)
		}
	})
	noPanic(t, "NewPerspective with a JSON null", func() {
		p, err := config.NewPerspective(map[string]interface{}{key: nil})
		if err == nil || p == nil || p.Has(key) {
			t.Fatalf("NewPerspective({%s: nil}) = (%v, %v), want a perspective without the key and an error", key, p, err)
		}
	})
	noPanic(t, "SetConfigOption with a []byte", func() {
		if err := config.SetConfigOption(key, []byte("on")); err == nil {
			t.Fatalf("SetConfigOption(%s, []byte(\"on\")) succeeded on a string option", key)
		}
	})
	noPanic(t, "SetDefaultConfigOption with a []byte", func() {
		if err := config.SetDefaultConfigOption(relKey, []byte("beta")); err == nil {
			t.Fatalf("SetDefaultConfigOption(%s, []byte(\"beta\")) succeeded", relKey)
		}
	})
	if g() != "on" {
		t.Fatalf("a rejected set changed the value to %q", g())
	}
}

// finding C04-int-regex-float-format
func TestRegIntRegexWithJSONNumbers(t *testing.T) {
	regSetup(t)
	withRegex, withPossible := "reg3/regex", "reg3/possible"
	mustRegister(t, &config.Option{Key: withRegex, OptType: config.OptTypeInt, DefaultValue: 1, ValidationRegex: "^[0-9]+$"})
	mustRegister(t, &config.Option{Key: withPossible, OptType: config.OptTypeInt, DefaultValue: 10,
		PossibleValues: []config.PossibleValue{{Name: "ten", Value: 10}, {Name: "million", Value: 1000000}}})
	g := config.GetAsInt(withRegex, -1)
	p := config.GetAsInt(withPossible, -1)
	for _, v := range []any{int64(1000000), float64(1000000), float64(2147483648), float32(1048576), float64(9007199254740992)} {
		if err := config.SetConfigOption(withRegex, v); err != nil {
			t.Fatalf("SetConfigOption(%s, %s) on an int option with regex ^[0-9]+$: %v", withRegex, render(v), err)
		}
		c, _, _ := canonicalize(v)
		if g() != c.(int64) {
			t.Fatalf("after SetConfigOption(%s, %s) the getter returns %d", withRegex, render(v), g())
		}
	}
	if err := config.SetConfigOption(withRegex, float64(-1000000)); err == nil {
		t.Fatalf("-1000000 accepted although it violates ^[0-9]+$")
	}
	if err := config.SetConfigOption(withRegex, float64(1000000.5)); err == nil {
		t.Fatalf("1000000.5 accepted for an int option")
	}
	if err := config.SetDefaultConfigOption(withPossible, float64(1000000)); err != nil {
		t.Fatalf("SetDefaultConfigOption(%s, float64(1e6)) with possible values {10, 1000000}: %v", withPossible, err)
	}
	if p() != 1000000 {
		t.Fatalf("getter returns %d, want 1000000", p())
	}
	// save -> load keeps the value
	file := filepath.Join(t.TempDir(), "config.json")
	config.VerifSetConfigFile(file)
	defer config.VerifSetConfigFile("")
	if err := config.SetConfigOption(withRegex, 1000000); err != nil {
		t.Fatal(err)
	}
	if err := config.SetConfigOption(withPossible, 1000000); err != nil {
		t.Fatal(err)
	}
	if err := config.SaveConfig(); err != nil {
		t.Fatal(err)
	}
	config.ReplaceConfig(map[string]interface{}{})
	if err := config.VerifLoadConfig(); err != nil {
		t.Fatal(err)
	}
	if errs := config.GetLoadedConfigValidationErrors(); len(errs) > 0 {
		t.Fatalf("loading the saved file reported %v", errs)
	}
	if g() != 1000000 || p() != 1000000 {
		data, _ := os.ReadFile(file)
		t.Fatalf("after save -> load the getters return %d and %d, want 1000000 twice; file:\n%s", g(), p(), data)
	}
}

// finding C04-nil-slice-roundtrip
func TestRegNilStringSliceSurvivesSaveLoad(t *testing.T) {
	regSetup(t)
	key := "reg4/list"
	mustRegister(t, &config.Option{Key: key, OptType: config.OptTypeStringArray, DefaultValue: []string{"default"}})
	g := config.GetAsStringArray(key, []string{"fallback"})
	file := filepath.Join(t.TempDir(), "config.json")
	config.VerifSetConfigFile(file)
	defer config.VerifSetConfigFile("")
	if err := config.SetConfigOption(key, []string(nil)); err != nil {
		t.Fatalf("SetConfigOption(%s, []string(nil)): %v", key, err)
	}
	if len(g()) != 0 {
		t.Fatalf("after setting the empty list the getter returns %v", g())
	}
	if err := config.SaveConfig(); err != nil {
		t.Fatal(err)
	}
	if err := config.VerifLoadConfig(); err != nil {
		t.Fatal(err)
	}
	opt, _ := config.GetOption(key)
	if errs := config.GetLoadedConfigValidationErrors(); len(errs) > 0 || !opt.IsSetByUser() || len(g()) != 0 {
		data, _ := os.ReadFile(file)
		t.Fatalf("after save -> load: validation errors %v, IsSetByUser=%v, getter=%v; want the user-set empty list; file:\n%s", errs, opt.IsSetByUser(), g(), data)
	}
}

// finding C04-derived-regex-unquoted
func TestRegPossibleValuesWithRegexMetacharacters(t *testing.T) {
	regSetup(t)
	one, list := "reg5/one", "reg5/list"
	pv := []config.PossibleValue{{Name: "plain", Value: "ab"}, {Name: "plus", Value: "a+b"}, {Name: "bar", Value: "c|d"}}
	mustRegister(t, &config.Option{Key: one, OptType: config.OptTypeString, DefaultValue: "a+b", PossibleValues: pv})
	mustRegister(t, &config.Option{Key: list, OptType: config.OptTypeStringArray, DefaultValue: []string{"ab"}, PossibleValues: pv})
	g := config.GetAsString(one, "fallback")
	l := config.GetAsStringArray(list, nil)
	if err := config.SetConfigOption(one, "c|d"); err != nil || g() != "c|d" {
		t.Fatalf("SetConfigOption(%s, \"c|d\") with possible values ab, a+b, c|d: err=%v, getter=%q", one, err, g())
	}
	if err := config.SetConfigOption(list, []string{"a+b", "c|d"}); err != nil || len(l()) != 2 {
		t.Fatalf("SetConfigOption(%s, [a+b c|d]): err=%v, getter=%v", list, err, l())
	}
	// what the unquoted regex would have matched is still not allowed
	for _, v := range []string{"aab", "c", "d", "a"} {
		if err := config.SetConfigOption(one, v); err == nil {
			t.Fatalf("SetConfigOption(%s, %q) succeeded although %q is not a possible value", one, v, v)
		}
	}
	if g() != "c|d" {
		t.Fatalf("rejected sets changed the value to %q", g())
	}
}
