// Package c04 decides C04: config getters always return the layered,
// validated, current value; set / replace semantics; save -> load round trip;
// getter-vs-setter interleavings.
//
// model_test.go: the reference model (three layers + release gate + validation
// rules taken from the property statement) and the value / option generators.
package c04

import (
	"fmt"
	"math"
	"regexp"
	"sort"
	"strings"

	"github.com/safing/portbase/config"
	"pgregory.net/rapid"
)

const relKey = "core/releaseLevel"

// ---------------------------------------------------------------- canonical values
//
// A canonical value is one of: string, []string, int64, bool.

func canonEqual(a, b any) bool {
	switch x := a.(type) {
	case string:
		y, ok := b.(string)
		return ok && x == y
	case int64:
		y, ok := b.(int64)
		return ok && x == y
	case bool:
		y, ok := b.(bool)
		return ok && x == y
	case []string:
		y, ok := b.([]string)
		if !ok || len(x) != len(y) {
			return false
		}
		for i := range x {
			if x[i] != y[i] {
				return false
			}
		}
		return true
	}
	return false
}

func render(v any) string {
	switch x := v.(type) {
	case nil:
		return "nil"
	case []string:
		if x == nil {
			return "[]string(nil)"
		}
		return fmt.Sprintf("%#v", x)
	case float64:
		return fmt.Sprintf("float64(%v)", x)
	case float32:
		return fmt.Sprintf("float32(%v)", x)
	case string, bool:
		return fmt.Sprintf("%#v", x)
	case []interface{}:
		parts := make([]string, len(x))
		for i, e := range x {
			parts[i] = render(e)
		}
		return "[]interface{}{" + strings.Join(parts, ", ") + "}"
	case map[string]interface{}:
		keys := make([]string, 0, len(x))
		for k := range x {
			keys = append(keys, k)
		}
		sort.Strings(keys)
		parts := make([]string, len(keys))
		for i, k := range keys {
			parts[i] = fmt.Sprintf("%q: %s", k, render(x[k]))
		}
		return "map{" + strings.Join(parts, ", ") + "}"
	default:
		return fmt.Sprintf("%T(%v)", v, v)
	}
}

func copyCanon(v any) any {
	if s, ok := v.([]string); ok {
		return append([]string{}, s...)
	}
	return v
}

func typeName(t config.OptionType) string {
	switch t {
	case config.OptTypeString:
		return "string"
	case config.OptTypeStringArray:
		return "[]string"
	case config.OptTypeInt:
		return "int"
	case config.OptTypeBool:
		return "bool"
	}
	return "?"
}

// ---------------------------------------------------------------- option specification

type spec struct {
	key      string // registered key (with the per-case prefix)
	rel      string // key without the prefix (for fingerprints / rendering)
	typ      config.OptionType
	level    config.ReleaseLevel
	regex    string // explicit validation regex ("" = none)
	re       *regexp.Regexp
	possible []any // canonical allowed values (entries for arrays); nil = unrestricted
	fn       int   // validation function id, 0 = none
	def      any   // canonical registered default
	builtin  bool
}

func (s *spec) String() string {
	return fmt.Sprintf("{%s %s level=%d regex=%q possible=%v fn=%d default=%s}", s.rel, typeName(s.typ), s.level, s.regex, s.possible, s.fn, render(s.def))
}

// validation functions: pure, shared between the registered option (it IS the
// option's validation function) and the model.
func applyFn(id int, canon any) error {
	if id == 0 {
		return nil
	}
	switch v := canon.(type) {
	case string:
		if id == 1 && len(v) > 4 {
			return fmt.Errorf("longer than 4 bytes")
		}
		if id == 2 && strings.Contains(v, "x") {
			return fmt.Errorf("contains x")
		}
	case []string:
		if id == 1 && len(v) > 2 {
			return fmt.Errorf("more than two entries")
		}
		if id == 2 {
			seen := map[string]bool{}
			for _, e := range v {
				if seen[e] {
					return fmt.Errorf("duplicate entry")
				}
				seen[e] = true
			}
		}
	case int64:
		if id == 1 && v%2 != 0 {
			return fmt.Errorf("odd")
		}
		if id == 2 && (v < -100 || v > 1000) {
			return fmt.Errorf("out of range")
		}
	case bool:
		if !v {
			return fmt.Errorf("must be true")
		}
	default:
		return fmt.Errorf("validation function called with unexpected type %T", canon)
	}
	return nil
}

type verdict int

const (
	vValid   verdict = iota // the statement requires success
	vInvalid                // the statement requires rejection
	vEither                 // the statement does not decide (documented corner, e.g. uint64)
)

const maxExact = int64(1) << 53

// canonicalize maps a Go / JSON-decoded value to its canonical form and says
// which option type it is a value of (0 = of none).
func canonicalize(raw any) (canon any, typ config.OptionType, ambiguous bool) {
	switch v := raw.(type) {
	case string:
		return v, config.OptTypeString, false
	case []string:
		return append([]string{}, v...), config.OptTypeStringArray, false
	case []interface{}:
		out := make([]string, len(v))
		for i, e := range v {
			s, ok := e.(string)
			if !ok {
				return nil, 0, false
			}
			out[i] = s
		}
		return out, config.OptTypeStringArray, false
	case int:
		return int64(v), config.OptTypeInt, false
	case int8:
		return int64(v), config.OptTypeInt, false
	case int16:
		return int64(v), config.OptTypeInt, false
	case int32:
		return int64(v), config.OptTypeInt, false
	case int64:
		return v, config.OptTypeInt, false
	case uint:
		return int64(v), config.OptTypeInt, false
	case uint8:
		return int64(v), config.OptTypeInt, false
	case uint16:
		return int64(v), config.OptTypeInt, false
	case uint32:
		return int64(v), config.OptTypeInt, false
	case uint64:
		// validate.go documents that uint64 is not accepted; the statement
		// does not say whether a small uint64 "violates the type".
		return int64(v), config.OptTypeInt, true
	case float32:
		return canonFloat(float64(v))
	case float64:
		return canonFloat(v)
	case bool:
		return v, config.OptTypeBool, false
	}
	return nil, 0, false
}

func canonFloat(f float64) (any, config.OptionType, bool) {
	if math.IsNaN(f) || math.IsInf(f, 0) || f != math.Trunc(f) {
		return nil, 0, false // not an integer
	}
	if f > float64(maxExact) || f < -float64(maxExact) {
		return int64(f), config.OptTypeInt, true // outside the stated domain
	}
	return int64(f), config.OptTypeInt, false
}

// judge decides what the statement demands for setting raw on option s.
func (s *spec) judge(raw any) (canon any, vd verdict, reasons []string) {
	canon, typ, amb := canonicalize(raw)
	if typ == 0 || typ != s.typ {
		return nil, vInvalid, []string{"type"}
	}
	reasons = s.violations(canon)
	if len(reasons) > 0 {
		return nil, vInvalid, reasons
	}
	if amb {
		return canon, vEither, nil
	}
	return canon, vValid, nil
}

func (s *spec) violations(canon any) (reasons []string) {
	if s.re != nil {
		ok := true
		switch v := canon.(type) {
		case string:
			ok = s.re.MatchString(v)
		case []string:
			for _, e := range v {
				if !s.re.MatchString(e) {
					ok = false
				}
			}
		case int64:
			ok = s.re.MatchString(fmt.Sprintf("%d", v))
		}
		if !ok {
			reasons = append(reasons, "regex")
		}
	}
	if s.possible != nil {
		ok := true
		member := func(x any) bool {
			for _, p := range s.possible {
				if canonEqual(p, x) {
					return true
				}
			}
			return false
		}
		if arr, isArr := canon.([]string); isArr {
			for _, e := range arr {
				if !member(e) {
					ok = false
				}
			}
		} else {
			ok = member(canon)
		}
		if !ok {
			reasons = append(reasons, "allowed")
		}
	}
	if s.fn != 0 && applyFn(s.fn, canon) != nil {
		reasons = append(reasons, "func")
	}
	return reasons
}

// ---------------------------------------------------------------- model state

type model struct {
	specs []*spec // specs[0] is the built-in release level option
	byKey map[string]*spec
	user  map[string]any
	def   map[string]any
	// file: the user layer as of the last save (nil map = no file yet)
	file map[string]any
}

func newModel(specs []*spec) *model {
	m := &model{specs: specs, byKey: map[string]*spec{}, user: map[string]any{}, def: map[string]any{}}
	for _, s := range specs {
		m.byKey[s.key] = s
	}
	return m
}

func levelOf(name any) config.ReleaseLevel {
	switch name {
	case "beta":
		return config.ReleaseLevelBeta
	case "experimental":
		return config.ReleaseLevelExperimental
	}
	return config.ReleaseLevelStable
}

// effectiveLevel is the layered value of the release level option (user layer
// over default layer over registered default). The release level option itself
// is a stable option, so its user layer is always enabled.
func (m *model) effectiveLevel() config.ReleaseLevel {
	if v, ok := m.user[relKey]; ok {
		return levelOf(v)
	}
	if v, ok := m.def[relKey]; ok {
		return levelOf(v)
	}
	return config.ReleaseLevelStable
}

// effective is the statement's first sentence.
func (m *model) effective(s *spec) any {
	if v, ok := m.user[s.key]; ok && s.level <= m.effectiveLevel() {
		return v
	}
	if v, ok := m.def[s.key]; ok {
		return v
	}
	return s.def
}

func (m *model) clone() *model {
	c := &model{specs: m.specs, byKey: m.byKey, user: map[string]any{}, def: map[string]any{}}
	for k, v := range m.user {
		c.user[k] = v
	}
	for k, v := range m.def {
		c.def[k] = v
	}
	if m.file != nil {
		c.file = map[string]any{}
		for k, v := range m.file {
			c.file[k] = v
		}
	}
	return c
}

func (m *model) snapshotUser() map[string]any {
	out := map[string]any{}
	for k, v := range m.user {
		out[k] = v
	}
	return out
}

// ---------------------------------------------------------------- pools

var (
	stringPool = []string{"", "a", "b", "c", "ab", "abc", "ba", "on", "off", "auto", "x", "xa", "zzzzz", "abcab", "a b", "ä", "<&>", "1", "true", "line\nbreak", `q"uote\`, "beta", "stable", "a+b", "a.b", "aab", "c|d"}
	intPool    = []int64{0, 1, -1, 2, 3, 7, 10, 42, 100, 101, 255, -128, 999, 1000, 1001, 123456, 999999, 1000000, 1000001, 2097152, 1 << 31, -(1 << 31) - 1, 1<<53 - 1, 1 << 53, -(1 << 53), 20000000000}

	stringRegexes = []string{`^[a-c]*$`, `^(on|off|auto)$`, `b`, `^.{0,3}$`}
	intRegexes    = []string{`^[0-9]+$`, `^-?[0-9]{1,3}$`, `0$`, `^[1-9][0-9]*$`}

	stringPossible = [][]any{{"on", "off", "auto"}, {"a", "b", "ab"}, {"stable", "x", ""}, {"ab", "a+b", "c|d"}}
	intPossible    = [][]any{{int64(0), int64(1), int64(2)}, {int64(10), int64(100), int64(1000000)}, {int64(-1), int64(7)}}

	keyPool = []string{"a", "b/x", "b/xy", "b/y", "c/d/e", "c/d/f", "c/g", "H.i-j", "k/l_m/n"}
)

func genCanon(t *rapid.T, typ config.OptionType, label string) any {
	switch typ {
	case config.OptTypeString:
		return rapid.SampledFrom(stringPool).Draw(t, label)
	case config.OptTypeStringArray:
		n := rapid.IntRange(0, 3).Draw(t, label+"_len")
		out := make([]string, n)
		for i := range out {
			out[i] = rapid.SampledFrom(stringPool).Draw(t, label)
		}
		return out
	case config.OptTypeInt:
		return rapid.SampledFrom(intPool).Draw(t, label)
	default:
		return rapid.Bool().Draw(t, label)
	}
}

// candidates enumerates a deterministic list of canonical values of the
// option's type (used to find valid / specifically invalid values).
func candidates(typ config.OptionType) []any {
	var out []any
	switch typ {
	case config.OptTypeString:
		for _, s := range stringPool {
			out = append(out, s)
		}
	case config.OptTypeStringArray:
		out = append(out, []string{})
		for _, a := range stringPool {
			out = append(out, []string{a})
		}
		for i, a := range stringPool {
			b := stringPool[(i*7+3)%len(stringPool)]
			out = append(out, []string{a, b}, []string{a, a}, []string{b, a, stringPool[(i*5+1)%len(stringPool)]})
		}
	case config.OptTypeInt:
		for _, v := range intPool {
			out = append(out, v)
		}
	case config.OptTypeBool:
		out = append(out, true, false)
	}
	return out
}

func (s *spec) validCandidates() []any {
	var out []any
	for _, c := range candidates(s.typ) {
		if len(s.violations(c)) == 0 {
			out = append(out, c)
		}
	}
	return out
}

// invalidCandidates returns canonical values of the right type that violate
// the named constraint (and possibly others).
func (s *spec) invalidCandidates(reason string) []any {
	var out []any
	for _, c := range candidates(s.typ) {
		for _, r := range s.violations(c) {
			if r == reason {
				out = append(out, c)
				break
			}
		}
	}
	return out
}

// genSpec draws one option.
func genSpec(t *rapid.T, prefix, rel string) *spec {
	s := &spec{key: prefix + "/" + rel, rel: rel}
	s.typ = config.OptionType(rapid.IntRange(1, 4).Draw(t, "type"))
	s.level = config.ReleaseLevel(rapid.SampledFrom([]int{0, 0, 1, 1, 2}).Draw(t, "level"))
	switch s.typ {
	case config.OptTypeString, config.OptTypeStringArray:
		if rapid.IntRange(0, 2).Draw(t, "has_regex") == 0 {
			s.regex = rapid.SampledFrom(stringRegexes).Draw(t, "regex")
		}
		if rapid.IntRange(0, 3).Draw(t, "has_possible") == 0 {
			s.possible = rapid.SampledFrom(stringPossible).Draw(t, "possible")
		}
	case config.OptTypeInt:
		if rapid.IntRange(0, 2).Draw(t, "has_regex") == 0 {
			s.regex = rapid.SampledFrom(intRegexes).Draw(t, "regex")
		}
		if rapid.IntRange(0, 3).Draw(t, "has_possible") == 0 {
			s.possible = rapid.SampledFrom(intPossible).Draw(t, "possible")
		}
	case config.OptTypeBool:
		if rapid.IntRange(0, 5).Draw(t, "has_possible") == 0 {
			s.possible = []any{true}
		}
	}
	if rapid.IntRange(0, 2).Draw(t, "has_fn") == 0 {
		s.fn = rapid.IntRange(1, 2).Draw(t, "fn")
	}
	if s.regex != "" {
		s.re = regexp.MustCompile(s.regex)
	}
	// the registered default must be valid: drop constraints until one exists
	// (keep at least two valid values, so that a valid set can change the value;
	// a bool option with a validation function has exactly one: true)
	min := 2
	if s.typ == config.OptTypeBool {
		min = 1
	}
	valid := s.validCandidates()
	if len(valid) < min && s.fn != 0 {
		s.fn = 0
		valid = s.validCandidates()
	}
	if len(valid) < min && s.regex != "" {
		s.regex, s.re = "", nil
		valid = s.validCandidates()
	}
	if len(valid) == 0 {
		s.possible = nil
		valid = s.validCandidates()
	}
	s.def = copyCanon(valid[rapid.IntRange(0, len(valid)-1).Draw(t, "default")])
	return s
}

func releaseSpec() *spec {
	return &spec{
		key: relKey, rel: relKey, typ: config.OptTypeString, level: config.ReleaseLevelStable,
		possible: []any{"stable", "beta", "experimental"}, def: "stable", builtin: true,
	}
}

// toOption builds the portbase option for a spec.
func (s *spec) toOption(intAsInt bool) *config.Option {
	o := &config.Option{
		Name:            "opt " + s.rel,
		Key:             s.key,
		Description:     "generated option",
		OptType:         s.typ,
		ReleaseLevel:    s.level,
		ValidationRegex: s.regex,
	}
	switch d := s.def.(type) {
	case int64:
		if intAsInt {
			o.DefaultValue = int(d)
		} else {
			o.DefaultValue = d
		}
	case []string:
		o.DefaultValue = append([]string{}, d...)
	default:
		o.DefaultValue = d
	}
	if s.possible != nil {
		for _, p := range s.possible {
			pv := config.PossibleValue{Name: render(p), Value: p}
			if iv, ok := p.(int64); ok && intAsInt {
				pv.Value = int(iv)
			}
			o.PossibleValues = append(o.PossibleValues, pv)
		}
	}
	if s.fn != 0 {
		id := s.fn
		o.ValidationFunc = func(v interface{}) error {
			switch x := v.(type) {
			case string, int64, bool:
				return applyFn(id, x)
			case []string:
				return applyFn(id, append([]string{}, x...))
			}
			return applyFn(id, v) // unexpected type -> error
		}
	}
	return o
}

// ---------------------------------------------------------------- raw value shapes

// shapeOf renders a canonical value in one of the Go / JSON-decoded shapes the
// setters accept for it. All shapes denote the same value.
func shapeOf(t *rapid.T, canon any) any {
	switch v := canon.(type) {
	case string:
		return v
	case bool:
		return v
	case []string:
		switch rapid.IntRange(0, 3).Draw(t, "arr_shape") {
		case 0:
			out := make([]interface{}, len(v))
			for i, e := range v {
				out[i] = e
			}
			return out
		case 1:
			if len(v) == 0 {
				return []string(nil)
			}
		}
		return append([]string{}, v...)
	case int64:
		k := rapid.IntRange(0, 13).Draw(t, "int_shape")
		switch {
		case k == 10 && int64(int16(v)) == v:
			return int16(v)
		case k == 11 && v >= 0 && int64(uint16(v)) == v:
			return uint16(v)
		case k == 12 && v >= 0 && int64(uint8(v)) == v:
			return uint8(v)
		case k == 13 && v >= 0 && int64(uint(v)) == v:
			return uint(v)
		case k <= 1:
			return v
		case k == 2 && int64(int(v)) == v:
			return int(v)
		case k == 3 && v == 0:
			return math.Copysign(0, -1) // "-0" in a JSON file decodes to negative zero
		case k <= 5:
			return float64(v) // JSON-decoded number (exact: |v| <= 2^53)
		case k == 6 && int64(int32(v)) == v:
			return int32(v)
		case k == 7 && int64(int8(v)) == v:
			return int8(v)
		case k == 8 && v >= 0 && int64(uint32(v)) == v:
			return uint32(v)
		case k == 9 && int64(float32(v)) == v && v > -(1<<24) && v < 1<<24:
			return float32(v)
		}
		return v
	}
	return canon
}

// genWrongType draws a value that is of no use for an option of type typ.
func genWrongType(t *rapid.T, typ config.OptionType) any {
	for {
		k := rapid.IntRange(0, 14).Draw(t, "wrong_kind")
		switch k {
		case 0:
			if typ != config.OptTypeString {
				return rapid.SampledFrom(stringPool).Draw(t, "wrong_s")
			}
		case 1:
			if typ != config.OptTypeStringArray {
				return []string{rapid.SampledFrom(stringPool).Draw(t, "wrong_a")}
			}
		case 2:
			if typ != config.OptTypeInt {
				return shapeOf(t, rapid.SampledFrom(intPool).Draw(t, "wrong_i"))
			}
		case 3:
			if typ != config.OptTypeBool {
				return rapid.Bool().Draw(t, "wrong_b")
			}
		case 4:
			if typ != config.OptTypeStringArray {
				return []interface{}{"a", "b"}
			}
		case 5:
			return []interface{}{"a", float64(1)} // array with a non-string entry
		case 6:
			return rapid.SampledFrom([]float64{0.5, -2.25, 1e-9, math.NaN(), math.Inf(1), 1000000.5}).Draw(t, "wrong_f")
		case 7:
			return map[string]interface{}{"a": "b"}
		case 8:
			return []byte(rapid.SampledFrom([]string{"a", "on", "stable", ""}).Draw(t, "wrong_bytes"))
		case 9:
			return []int{1, 2}
		case 10:
			return struct{ A int }{1}
		case 11:
			if typ != config.OptTypeInt {
				return uint64(rapid.IntRange(0, 3).Draw(t, "wrong_u64"))
			}
		case 12:
			return float32(0.25)
		case 13:
			// empty lists: nothing in them to convert or to match, yet a list all the same
			if typ != config.OptTypeStringArray {
				return []interface{}{}
			}
		case 14:
			if typ != config.OptTypeStringArray {
				return rapid.SampledFrom([]any{[]string{}, []string(nil), []interface{}(nil)}).Draw(t, "wrong_empty")
			}
		}
	}
}
