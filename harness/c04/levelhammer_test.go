package c04

// levelhammer_test.go: the release level itself is the value that changes.
// One writer walks a long sequence of core/releaseLevel settings (mostly
// SetConfigOption in the user layer, sometimes unset, default layer, whole-layer
// replace) while 8 readers hammer plain and Concurrent getters of options of
// every release level that carry user values. The options' own layers stay
// constant, so the layered value of an option is a function of the effective
// release level only.
//
// Oracle (statement: "the new state is what every getter call that begins
// after the operation returned observes, including the concurrency-safe
// getters used from many goroutines"): a call that began after level change #r
// returned and ended before change #s+1 began returns the layered value under
// one of the levels #r..#s; the writer's own read right after each change and
// every getter after the writer finished return exactly the current value.
// Two atomic counters order the calls; no wall clock takes part in the verdict.

import (
	"fmt"
	"runtime"
	"strings"
	"sync"
	"sync/atomic"
	"testing"

	"github.com/safing/portbase/config"
	"pgregory.net/rapid"

	"verifharness/internal/stats"
)

type lhOption struct {
	key     string
	typ     config.OptionType
	level   config.ReleaseLevel
	hasDefL bool // a value in the default layer as well
}

// values are tagged: 0 = user value, 1 = default-layer value, 2 = registered default
func lhEncode(typ config.OptionType, tag int) any {
	switch typ {
	case config.OptTypeString:
		return []string{"user", "deflayer", "registered"}[tag]
	case config.OptTypeStringArray:
		return []string{"v", []string{"user", "deflayer", "registered"}[tag]}
	case config.OptTypeInt:
		return int64(100 + tag)
	}
	return tag == 0 // bool: user value true, everything else false
}

func lhDecode(typ config.OptionType, v any) int {
	switch x := v.(type) {
	case string:
		for i, s := range []string{"user", "deflayer", "registered"} {
			if x == s {
				return i
			}
		}
	case []string:
		if len(x) == 2 && x[0] == "v" {
			return lhDecode(config.OptTypeString, x[1])
		}
	case int64:
		if x >= 100 && x <= 102 {
			return int(x - 100)
		}
	case bool:
		if x {
			return 0
		}
		return 1 // bool options are generated without a default-layer value: false is "not the user value"
	}
	return -1
}

func lhGetter(o lhOption, conc bool) func() any {
	switch o.typ {
	case config.OptTypeString:
		f := config.GetAsString
		if conc {
			f = config.Concurrent.GetAsString
		}
		g := f(o.key, "fallback")
		return func() any { return g() }
	case config.OptTypeStringArray:
		f := config.GetAsStringArray
		if conc {
			f = config.Concurrent.GetAsStringArray
		}
		g := f(o.key, nil)
		return func() any { return append([]string{}, g()...) }
	case config.OptTypeInt:
		f := config.GetAsInt
		if conc {
			f = config.Concurrent.GetAsInt
		}
		g := f(o.key, -7)
		return func() any { return g() }
	}
	f := config.GetAsBool
	if conc {
		f = config.Concurrent.GetAsBool
	}
	g := f(o.key, false)
	return func() any { return g() }
}

type lhStep struct {
	kind  int    // 0 user set, 1 user unset, 2 default-layer set, 3 default-layer unset, 4 ReplaceConfig, 5 ReplaceDefaultConfig
	name  string // level name ("" = release level absent from the replace map)
	level config.ReleaseLevel
}

var lhLevelNames = []string{"stable", "beta", "experimental"}

type lhViolation struct {
	who, getter string
	opt         lhOption
	got         any
	lo, hi      int64
}

func TestPropLevelHammer(t *testing.T) {
	rapid.Check(t, func(t *rapid.T) {
		resetGlobal(t)
		prefix := fmt.Sprintf("t%d", caseCounter.Add(1))

		// options: one per non-stable level at least, user value on all of them
		nOpts := rapid.IntRange(2, 5).Draw(t, "n_options")
		opts := make([]lhOption, nOpts)
		for i := range opts {
			lvl := []config.ReleaseLevel{1, 2, 1, 2, 0}[i]
			if i >= 2 {
				lvl = config.ReleaseLevel(rapid.IntRange(0, 2).Draw(t, "level"))
			}
			o := lhOption{key: fmt.Sprintf("%s/lh/opt%d", prefix, i), level: lvl, typ: config.OptionType(rapid.IntRange(1, 4).Draw(t, "type"))}
			if o.typ != config.OptTypeBool {
				o.hasDefL = rapid.Bool().Draw(t, "has_default_layer_value")
			}
			opts[i] = o
			if err := config.Register(&config.Option{Name: "lh", Key: o.key, Description: "d", OptType: o.typ, ReleaseLevel: o.level, DefaultValue: lhEncode(o.typ, 2)}); err != nil {
				t.Fatalf("harness: register: %v", err)
			}
		}
		userMap := func(level string) map[string]interface{} {
			m := map[string]interface{}{}
			for _, o := range opts {
				m[o.key] = lhEncode(o.typ, 0)
			}
			if level != "" {
				m[relKey] = level
			}
			return m
		}
		defMap := func(level string) map[string]interface{} {
			m := map[string]interface{}{}
			for _, o := range opts {
				if o.hasDefL {
					m[o.key] = lhEncode(o.typ, 1)
				}
			}
			if level != "" {
				m[relKey] = level
			}
			return m
		}
		if errs, _ := config.ReplaceConfig(userMap("")); len(errs) > 0 {
			t.Fatalf("harness: installing the user values: %v", errs[0])
		}
		if errs, _ := config.ReplaceDefaultConfig(defMap("")); len(errs) > 0 {
			t.Fatalf("harness: installing the default-layer values: %v", errs[0])
		}

		// the writer's walk and the model of the effective level after every step
		nSteps := rapid.IntRange(20, 400).Draw(t, "steps")
		steps := make([]lhStep, nSteps+1)
		userLvl, defLvl := "", ""
		levelOfName := func(n string) config.ReleaseLevel { return levelOf(n) }
		var sb strings.Builder
		for i := 1; i <= nSteps; i++ {
			// mostly the single-option user-layer setter
			k := rapid.SampledFrom([]int{0, 0, 0, 0, 0, 0, 1, 2, 3, 4, 5}).Draw(t, "writer_kind")
			name := rapid.SampledFrom(lhLevelNames).Draw(t, "level_name")
			switch k {
			case 0:
				userLvl = name
			case 1:
				userLvl, name = "", ""
			case 2:
				defLvl = name
			case 3:
				defLvl, name = "", ""
			case 4:
				if rapid.IntRange(0, 3).Draw(t, "replace_without_level") == 0 {
					name = ""
				}
				userLvl = name
			case 5:
				if rapid.IntRange(0, 3).Draw(t, "replace_without_level") == 0 {
					name = ""
				}
				defLvl = name
			}
			eff := defLvl
			if userLvl != "" {
				eff = userLvl
			}
			steps[i] = lhStep{kind: k, name: name, level: levelOfName(eff)}
			fmt.Fprintf(&sb, "%d%c", k, (name + "-")[0])
		}
		// tag expected for option oi after step j
		exp := make([][]int8, len(opts))
		flips := 0
		for oi, o := range opts {
			exp[oi] = make([]int8, nSteps+1)
			for j := 0; j <= nSteps; j++ {
				switch {
				case o.level <= steps[j].level:
					exp[oi][j] = 0
				case o.hasDefL:
					exp[oi][j] = 1
				case o.typ == config.OptTypeBool:
					exp[oi][j] = 1
				default:
					exp[oi][j] = 2
				}
				if j > 0 && exp[oi][j] != exp[oi][j-1] {
					flips++
				}
			}
		}
		delayMode := rapid.IntRange(0, 3).Draw(t, "delay_mode") // 0,1: free running; 2,3: perturbed yield points
		var delays []int
		if delayMode >= 2 {
			delays = rapid.SliceOfN(rapid.SampledFrom([]int{0, 0, 0, 0, 0, 1, 2, 5, 30}), 8, 32).Draw(t, "delays")
		}
		writerPause := rapid.SampledFrom([]int{0, 0, 1, 3, 20}).Draw(t, "writer_pause")
		readerYield := rapid.SliceOfN(rapid.Bool(), 8, 8).Draw(t, "reader_yields")

		shared := make([]func() any, len(opts))
		for oi, o := range opts {
			shared[oi] = lhGetter(o, true)
		}

		var started, returned atomic.Int64
		var stop atomic.Bool
		var reads, overlapping, overlappingFlip atomic.Int64
		var mu sync.Mutex
		var violations []lhViolation
		var panics []any

		setDelays(delays)
		defer setDelays(nil)

		legal := func(oi int, tag int, lo, hi int64) bool {
			if tag < 0 {
				return false
			}
			for j := lo; j <= hi; j++ {
				if int(exp[oi][j]) == tag {
					return true
				}
			}
			return false
		}
		report := func(who, getter string, oi int, got any, lo, hi int64) {
			mu.Lock()
			violations = append(violations, lhViolation{who, getter, opts[oi], got, lo, hi})
			mu.Unlock()
			stop.Store(true)
		}

		const readers = 8
		var ready, wg sync.WaitGroup
		ready.Add(readers)
		type named struct {
			name string
			oi   int
			call func() any
		}
		finals := make([][]named, readers+1)
		for r := 0; r < readers; r++ {
			wg.Add(1)
			go func(r int) {
				defer wg.Done()
				var once sync.Once
				markReady := func() { once.Do(ready.Done) }
				defer markReady()
				defer func() {
					if pv := recover(); pv != nil {
						mu.Lock()
						panics = append(panics, pv)
						mu.Unlock()
						stop.Store(true)
					}
				}()
				var gs []named
				for oi, o := range opts {
					gs = append(gs, named{"shared Concurrent getter", oi, shared[oi]}, named{"own Concurrent getter", oi, lhGetter(o, true)}, named{"own plain getter", oi, lhGetter(o, false)})
				}
				finals[r] = gs
				who := fmt.Sprintf("reader %d", r)
				for !stop.Load() {
					for _, g := range gs {
						lo := returned.Load()
						v := g.call()
						hi := started.Load()
						reads.Add(1)
						if hi > lo {
							overlapping.Add(1)
							if exp[g.oi][hi] != exp[g.oi][lo] {
								overlappingFlip.Add(1)
							}
						}
						if !legal(g.oi, lhDecode(opts[g.oi].typ, v), lo, hi) {
							report(who, g.name, g.oi, v, lo, hi)
						}
					}
					markReady()
					if readerYield[r] {
						runtime.Gosched()
					}
				}
			}(r)
		}
		ready.Wait()

		// the writer reads through its own plain getters and the shared Concurrent ones
		var own []named
		for oi, o := range opts {
			own = append(own, named{"shared Concurrent getter", oi, shared[oi]}, named{"writer's plain getter", oi, lhGetter(o, false)})
		}
		finals[readers] = own
		var werr error
		done := int64(0)
		for i := 1; i <= nSteps && !stop.Load(); i++ {
			st := steps[i]
			started.Store(int64(i))
			switch st.kind {
			case 0:
				werr = config.SetConfigOption(relKey, st.name)
			case 1:
				werr = config.SetConfigOption(relKey, nil)
			case 2:
				werr = config.SetDefaultConfigOption(relKey, st.name)
			case 3:
				werr = config.SetDefaultConfigOption(relKey, nil)
			case 4:
				if errs, _ := config.ReplaceConfig(userMap(st.name)); len(errs) > 0 {
					werr = errs[0]
				}
			case 5:
				if errs, _ := config.ReplaceDefaultConfig(defMap(st.name)); len(errs) > 0 {
					werr = errs[0]
				}
			}
			returned.Store(int64(i))
			done = int64(i)
			if werr != nil {
				break
			}
			// these calls begin after change #i returned and end before #i+1 begins
			for _, g := range own {
				if v := g.call(); lhDecode(opts[g.oi].typ, v) != int(exp[g.oi][i]) {
					report("writer (right after the change returned)", g.name, g.oi, v, int64(i), int64(i))
				}
			}
			perturb(writerPause)
		}
		stop.Store(true)
		wg.Wait()
		setDelays(nil)

		describe := func(j int64) string {
			if j == 0 {
				return "#0 (initial, stable)"
			}
			st := steps[j]
			what := []string{"SetConfigOption", "SetConfigOption(nil)", "SetDefaultConfigOption", "SetDefaultConfigOption(nil)", "ReplaceConfig", "ReplaceDefaultConfig"}[st.kind]
			return fmt.Sprintf("#%d (%s %s %q -> effective level %d)", j, what, relKey, st.name, st.level)
		}
		if len(panics) > 0 {
			t.Fatalf("reader panicked: %v", panics[0])
		}
		if werr != nil {
			t.Fatalf("writer: release level change %s failed: %v", describe(done), werr)
		}
		if len(violations) > 0 {
			v := violations[0]
			t.Fatalf("%s, %s of %s (%s, release level %d, default-layer value: %v) returned %s in a call that began after change %s had returned and ended before change #%d began; legal: the layered value under the levels of #%d..#%d",
				v.who, v.getter, v.opt.key, typeName(v.opt.typ), v.opt.level, v.opt.hasDefL, render(v.got), describe(v.lo), v.hi+1, v.lo, v.hi)
		}
		// after the writer finished every getter returns the final value
		for r, gs := range finals {
			for _, g := range gs {
				if v := g.call(); lhDecode(opts[g.oi].typ, v) != int(exp[g.oi][done]) {
					t.Fatalf("after the writer finished with change %s, %s of %s (release level %d) held by goroutine %d still returns %s, want tag %d (0 user value, 1 default-layer value / false, 2 registered default)",
						describe(done), g.name, opts[g.oi].key, opts[g.oi].level, r, render(v), exp[g.oi][done])
				}
			}
		}
		stats.Case(fmt.Sprintf("levelhammer:%v:%s:%d:%v:%d", opts, sb.String(), delayMode, delays, writerPause), flips > 0, "levelhammer_cases")
		stats.ClassN("levelhammer_level_changes", int64(nSteps))
		stats.ClassN("levelhammer_changes_flipping_an_option_value", int64(flips))
		stats.ClassN("levelhammer_reads", reads.Load())
		stats.ClassN("levelhammer_reads_overlapping_a_level_change", overlapping.Load())
		stats.ClassN("levelhammer_reads_overlapping_a_change_that_flips_the_value", overlappingFlip.Load())
		if overlappingFlip.Load() > 0 {
			stats.Class("levelhammer_cases_with_read_overlapping_a_flipping_change")
		}
		if delays != nil {
			stats.Class("levelhammer_cases_with_perturbed_yield_points")
		}
	})
}
