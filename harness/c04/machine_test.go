package c04

// machine_test.go: the state machine that drives portbase/config next to the
// model, the pause-and-interleave schedules and the comparison of every getter
// after every operation.

import (
	"errors"
	"fmt"
	"hash/fnv"
	"os"
	"path/filepath"
	"sort"
	"strings"
	"sync"
	"sync/atomic"
	"time"

	"github.com/safing/portbase/config"
	"pgregory.net/rapid"

	"verifharness/internal/stats"
)

// ---------------------------------------------------------------- yield point controller

type trap struct {
	point   string
	parked  chan struct{}
	release chan struct{}
}

var ctl struct {
	active   atomic.Bool // fast path: false while no trap is armed and no perturbation is on
	mu       sync.Mutex
	armed    *trap
	delays   []int // perturbation mode: per-arrival delays (cycled); nil = off
	arrivals int
}

// hook is installed as config.VerifHook once, before any test runs.
func hook(name string) {
	if !ctl.active.Load() {
		return
	}
	ctl.mu.Lock()
	if t := ctl.armed; t != nil && t.point == name {
		ctl.armed = nil
		ctl.active.Store(ctl.delays != nil)
		ctl.mu.Unlock()
		close(t.parked)
		<-t.release
		return
	}
	var d int
	if ctl.delays != nil {
		d = ctl.delays[ctl.arrivals%len(ctl.delays)]
		ctl.arrivals++
	}
	ctl.mu.Unlock()
	if d > 0 {
		perturb(d)
	}
}

func arm(point string) *trap {
	t := &trap{point: point, parked: make(chan struct{}), release: make(chan struct{})}
	ctl.mu.Lock()
	ctl.armed = t
	ctl.active.Store(true)
	ctl.mu.Unlock()
	return t
}

func disarm() {
	ctl.mu.Lock()
	ctl.armed = nil
	ctl.active.Store(ctl.delays != nil)
	ctl.mu.Unlock()
}

// setDelays switches the perturbation of the yield points on (non-nil) or off.
func setDelays(d []int) {
	ctl.mu.Lock()
	ctl.delays = d
	ctl.arrivals = 0
	ctl.active.Store(d != nil || ctl.armed != nil)
	ctl.mu.Unlock()
}

// grace only chooses between two legal schedules (release the parked goroutine
// before or after the other side finished); it is never a verdict.
var grace = 15 * time.Millisecond

type outcome struct {
	res any
	pv  any // recovered panic value
}

func safely(f func() any) (o outcome) {
	defer func() {
		if r := recover(); r != nil {
			o.pv = r
		}
	}()
	o.res = f()
	return o
}

// runParked starts a; if a parks at point, b runs while a is parked.
// Returns the outcomes and whether the point was reached and whether b had to
// be let go first (b needed a lock that the parked a holds).
func runParked(point string, a func() any, b func() any) (oa, ob outcome, reached, locked bool) {
	tr := arm(point)
	doneA := make(chan outcome, 1)
	go func() { doneA <- safely(a) }()
	select {
	case <-tr.parked:
		reached = true
	case oa = <-doneA:
		disarm()
		return oa, ob, false, false
	}
	doneB := make(chan outcome, 1)
	go func() { doneB <- safely(b) }()
	timer := time.NewTimer(grace)
	select {
	case ob = <-doneB:
		timer.Stop()
		close(tr.release)
	case <-timer.C:
		locked = true
		close(tr.release)
		ob = <-doneB
	}
	oa = <-doneA
	return oa, ob, true, locked
}

// ---------------------------------------------------------------- machine

type getter struct {
	id   int
	key  string
	typ  config.OptionType
	conc bool
	fb   any
	call func() any
	spec *spec // nil: unknown key
	born int
}

func (g *getter) String() string {
	kind := "GetAs"
	if g.conc {
		kind = "Concurrent.GetAs"
	}
	tn := map[config.OptionType]string{config.OptTypeString: "String", config.OptTypeStringArray: "StringArray", config.OptTypeInt: "Int", config.OptTypeBool: "Bool"}[g.typ]
	return fmt.Sprintf("%s%s(%s) #%d created at step %d", kind, tn, g.key, g.id, g.born)
}

type persp struct {
	p       *config.Perspective
	entries map[string]any // key -> canonical value of the valid entries
	desc    string
}

type prepared struct {
	desc  string
	exec  func() any
	apply func(res any)
}

type machine struct {
	t       *rapid.T
	prefix  string
	m       *model
	getters []*getter
	persps  []*persp
	hist    []string
	fp      []string // history without the per-case prefix
	path    string
	step    int

	sets, readsAfterSet int
	lastSet             map[string]int // key -> step of the last successful set / replace / load
	classes             map[string]bool
}

var caseCounter atomic.Int64

func scratchDir() string {
	if d := os.Getenv("VERIF_SCRATCH"); d != "" {
		// keep the config files on tmpfs: every successful user set rewrites the file
		if fi, err := os.Stat("/dev/shm"); err == nil && fi.IsDir() {
			return "/dev/shm"
		}
		return d
	}
	return "/dev/shm"
}

var procDir = sync.OnceValue(func() string {
	d, err := os.MkdirTemp(scratchDir(), "c04-")
	if err != nil {
		panic(err)
	}
	return d
})

// poisoned is set after a panic inside portbase was recovered: a portbase mutex
// may still be locked, so no further case can be run in this process.
var poisoned atomic.Pointer[string]

func (mc *machine) panicked(what string, pv any) {
	msg := fmt.Sprintf("%s panicked: %v", what, pv)
	poisoned.CompareAndSwap(nil, &msg)
	mc.failf("%s", msg)
}

func (mc *machine) failf(format string, a ...any) {
	msg := fmt.Sprintf(format, a...)
	var sb strings.Builder
	sb.WriteString(msg)
	sb.WriteString("\n  options:\n")
	for _, s := range mc.m.specs[1:] {
		sb.WriteString("    " + s.String() + "\n")
	}
	sb.WriteString("  history:\n")
	for i, h := range mc.hist {
		sb.WriteString(fmt.Sprintf("    %2d. %s\n", i+1, h))
	}
	mc.t.Fatalf("%s", sb.String())
}

func (mc *machine) class(name string) {
	stats.Class(name)
	mc.classes[name] = true
}

func (mc *machine) log(format string, a ...any) {
	line := fmt.Sprintf(format, a...)
	mc.hist = append(mc.hist, line)
	mc.fp = append(mc.fp, strings.ReplaceAll(line, mc.prefix+"/", ""))
}

// resetGlobal brings the process-global config state back to the registered
// defaults through the exported API (plus the guarded registry reset).
type fataler interface {
	Fatalf(format string, args ...any)
}

func resetGlobal(t fataler) {
	if p := poisoned.Load(); p != nil {
		t.Fatalf("%s  (this process recovered that panic earlier; portbase locks may still be held, so every later case in the process fails with this message)", *p)
	}
	relOpt, err := config.GetOption(relKey)
	if err != nil {
		t.Fatalf("built-in release level option missing: %v", err)
	}
	if !relOpt.TryLock() {
		t.Fatalf("harness: %s is still locked from an earlier case (a panic inside portbase left it locked); this process cannot continue", relKey)
	}
	relOpt.Unlock()
	config.VerifSetConfigFile("")
	config.VerifResetRegistry()
	config.ReplaceConfig(map[string]interface{}{})
	config.ReplaceDefaultConfig(map[string]interface{}{})
	if lvl := config.VerifReleaseLevel(); lvl != config.ReleaseLevelStable {
		t.Fatalf("after clearing both layers the release level gate is %d, want stable", lvl)
	}
}

func newMachine(t *rapid.T, minOpts, maxOpts int) *machine {
	resetGlobal(t)
	n := caseCounter.Add(1)
	mc := &machine{t: t, prefix: fmt.Sprintf("t%d", n), classes: map[string]bool{}}
	mc.path = filepath.Join(procDir(), fmt.Sprintf("config-%d.json", n))
	_ = os.Remove(mc.path)
	config.VerifSetConfigFile(mc.path)

	// prefix-free key set drawn from the pool
	nOpts := rapid.IntRange(minOpts, maxOpts).Draw(t, "n_options")
	perm := rapid.Permutation(keyPool).Draw(t, "keys")
	specs := []*spec{releaseSpec()}
	for i := 0; i < nOpts; i++ {
		s := genSpec(t, mc.prefix, perm[i])
		intAsInt := rapid.Bool().Draw(t, "int_as_int")
		if err := config.Register(s.toOption(intAsInt)); err != nil {
			t.Fatalf("harness: could not register %s: %v", s, err)
		}
		specs = append(specs, s)
		stats.Class("opt_type_" + typeName(s.typ))
		stats.Class(fmt.Sprintf("opt_level_%d", s.level))
		if s.regex != "" {
			stats.Class("opt_with_regex")
		}
		if s.possible != nil {
			stats.Class("opt_with_possible_values")
		}
		if s.fn != 0 {
			stats.Class("opt_with_validation_func")
		}
	}
	mc.m = newModel(specs)

	// getters created before anything is set
	for _, s := range specs {
		mc.addGetter(s.key, s.typ, false)
		mc.addGetter(s.key, s.typ, true)
		if !s.builtin {
			wrong := config.OptionType((int(s.typ)-1+rapid.IntRange(1, 3).Draw(t, "wrong_type"))%4 + 1)
			mc.addGetter(s.key, wrong, rapid.Bool().Draw(t, "wrong_conc"))
		}
	}
	mc.addGetter(mc.prefix+"/nope", config.OptionType(rapid.IntRange(1, 4).Draw(t, "unknown_type")), false)
	mc.addGetter(mc.prefix+"/b", config.OptionType(rapid.IntRange(1, 4).Draw(t, "unknown_type")), true)
	return mc
}

func (mc *machine) finish() {
	if poisoned.Load() != nil {
		return
	}
	config.VerifSetConfigFile("")
	_ = os.Remove(mc.path)
}

func fallbackFor(typ config.OptionType, id int) any {
	switch typ {
	case config.OptTypeString:
		return fmt.Sprintf("FALLBACK-%d", id)
	case config.OptTypeStringArray:
		return []string{"FALLBACK", fmt.Sprint(id)}
	case config.OptTypeInt:
		return int64(-424200 - id)
	}
	return id%2 == 0
}

func (mc *machine) addGetter(key string, typ config.OptionType, conc bool) *getter {
	g := &getter{id: len(mc.getters), key: key, typ: typ, conc: conc, spec: mc.m.byKey[key], born: mc.step}
	g.fb = fallbackFor(typ, g.id)
	switch typ {
	case config.OptTypeString:
		f := config.GetAsString
		if conc {
			f = config.Concurrent.GetAsString
		}
		fn := f(key, g.fb.(string))
		g.call = func() any { return fn() }
	case config.OptTypeStringArray:
		f := config.GetAsStringArray
		if conc {
			f = config.Concurrent.GetAsStringArray
		}
		fn := f(key, append([]string{}, g.fb.([]string)...))
		g.call = func() any { return append([]string{}, fn()...) }
	case config.OptTypeInt:
		f := config.GetAsInt
		if conc {
			f = config.Concurrent.GetAsInt
		}
		fn := f(key, g.fb.(int64))
		g.call = func() any { return fn() }
	default:
		f := config.GetAsBool
		if conc {
			f = config.Concurrent.GetAsBool
		}
		fn := f(key, g.fb.(bool))
		g.call = func() any { return fn() }
	}
	mc.getters = append(mc.getters, g)
	return g
}

func expected(g *getter, m *model) any {
	if g.spec == nil || g.spec.typ != g.typ {
		return g.fb
	}
	return m.effective(g.spec)
}

// ---------------------------------------------------------------- checks after an operation

func (mc *machine) checkGetter(g *getter) {
	want := expected(g, mc.m)
	got := g.call()
	if !canonEqual(got, want) {
		why := "layered value"
		if g.spec == nil {
			why = "fallback (unknown option)"
		} else if g.spec.typ != g.typ {
			why = "fallback (wrong type)"
		}
		mc.failf("getter %s returned %s, want %s = %s  [effective release level %d; user layer set: %v; default layer set: %v]",
			g, render(got), why, render(want), mc.m.effectiveLevel(), has(mc.m.user, g.key), has(mc.m.def, g.key))
	}
	if g.born < mc.lastSetStep(g.key) {
		mc.readsAfterSet++
	}
}

func has(m map[string]any, k string) bool { _, ok := m[k]; return ok }

// lastSetStep: bookkeeping for the non-triviality rule (a set followed by a
// read of the same option through a getter created before the set).
func (mc *machine) lastSetStep(key string) int {
	if mc.lastSet == nil {
		return -1
	}
	if s, ok := mc.lastSet[key]; ok {
		return s
	}
	return -1
}

func (mc *machine) checkFull() {
	for _, g := range mc.getters {
		mc.checkGetter(g)
	}
	lvl := mc.m.effectiveLevel()
	wantActive := map[string]any{}
	for _, s := range mc.m.specs {
		opt, err := config.GetOption(s.key)
		if err != nil {
			mc.failf("GetOption(%s): %v", s.key, err)
		}
		u, set := mc.m.user[s.key]
		if opt.IsSetByUser() != set {
			mc.failf("Option(%s).IsSetByUser() = %v, model says %v", s.key, !set, set)
		}
		uv := opt.UserValue()
		if set {
			c, typ, _ := canonicalize(uv)
			if typ != s.typ || !canonEqual(c, u) {
				mc.failf("Option(%s).UserValue() = %s, want %s", s.key, render(uv), render(u))
			}
			if s.level <= lvl {
				wantActive[s.key] = u
			}
		} else if uv != nil {
			mc.failf("Option(%s).UserValue() = %s, want nil (not set by user)", s.key, render(uv))
		}
	}
	active := config.GetActiveConfigValues()
	for k, v := range active {
		w, ok := wantActive[k]
		if !ok {
			mc.failf("GetActiveConfigValues() contains %s = %s, which is not an enabled user-set value", k, render(v))
		}
		c, _, _ := canonicalize(v)
		if !canonEqual(c, w) {
			mc.failf("GetActiveConfigValues()[%s] = %s, want %s", k, render(v), render(w))
		}
	}
	for k, w := range wantActive {
		if _, ok := active[k]; !ok {
			mc.failf("GetActiveConfigValues() lacks %s = %s (user-set, release level enabled)", k, render(w))
		}
	}
	for _, p := range mc.persps {
		mc.checkPerspective(p)
	}
}

func (mc *machine) checkPerspective(p *persp) {
	lvl := mc.m.effectiveLevel()
	for _, s := range mc.m.specs {
		want, ok := p.entries[s.key]
		if ok && s.level > lvl {
			ok = false
		}
		if p.p.Has(s.key) != ok {
			mc.failf("perspective %s: Has(%s) = %v, want %v", p.desc, s.key, !ok, ok)
		}
		var got any
		var gotOK bool
		switch s.typ {
		case config.OptTypeString:
			got, gotOK = p.p.GetAsString(s.key)
		case config.OptTypeStringArray:
			var a []string
			a, gotOK = p.p.GetAsStringArray(s.key)
			got = append([]string{}, a...)
		case config.OptTypeInt:
			got, gotOK = p.p.GetAsInt(s.key)
		default:
			got, gotOK = p.p.GetAsBool(s.key)
		}
		if gotOK != ok || (ok && !canonEqual(got, want)) {
			mc.failf("perspective %s: getter for %s returned (%s, %v), want (%s, %v)", p.desc, s.key, render(got), gotOK, render(want), ok)
		}
		// wrong type through a perspective: not available
		if s.typ != config.OptTypeBool {
			if _, wok := p.p.GetAsBool(s.key); wok {
				mc.failf("perspective %s: GetAsBool(%s) succeeded on a %s option", p.desc, s.key, typeName(s.typ))
			}
		}
	}
}

func (mc *machine) checkAfterOp(last bool) {
	mode := 0
	if !last {
		mode = rapid.IntRange(0, 9).Draw(mc.t, "check_mode")
	}
	switch {
	case mode <= 5:
		mc.checkFull()
	case mode <= 7:
		mask := rapid.Uint64().Draw(mc.t, "check_subset")
		for i, g := range mc.getters {
			if mask>>(uint(i)%64)&1 == 1 {
				mc.checkGetter(g)
			}
		}
		mc.class("check_subset_only")
	default:
		mc.class("check_skipped_getters_stay_stale")
	}
}

// ---------------------------------------------------------------- operations

func (mc *machine) pickSpec(label string) *spec {
	// the release level option is an ordinary target, but over-weighted
	if rapid.IntRange(0, 4).Draw(mc.t, label+"_rel") == 0 {
		return mc.m.specs[0]
	}
	if len(mc.m.specs) == 1 {
		return mc.m.specs[0]
	}
	return mc.m.specs[rapid.IntRange(1, len(mc.m.specs)-1).Draw(mc.t, label)]
}

// genRaw draws a value to set on s together with a class label.
func (mc *machine) genRaw(s *spec, allowNil bool) (raw any, class string) {
	t := mc.t
	for {
		k := rapid.IntRange(0, 19).Draw(t, "value_kind")
		switch {
		case k <= 10:
			v := s.validCandidates()
			return shapeOf(t, copyCanon(v[rapid.IntRange(0, len(v)-1).Draw(t, "valid")])), "valid"
		case k <= 12:
			if allowNil {
				return nil, "nil"
			}
		case k <= 14:
			return genWrongType(t, s.typ), "type"
		case k <= 18:
			reasons := []string{}
			for _, r := range []string{"regex", "allowed", "func"} {
				if len(s.invalidCandidates(r)) > 0 {
					reasons = append(reasons, r)
				}
			}
			if len(reasons) == 0 {
				continue
			}
			r := reasons[rapid.IntRange(0, len(reasons)-1).Draw(t, "reason")]
			v := s.invalidCandidates(r)
			return shapeOf(t, copyCanon(v[rapid.IntRange(0, len(v)-1).Draw(t, "invalid")])), r
		default:
			if s.typ == config.OptTypeInt {
				v := s.validCandidates()
				c := v[rapid.IntRange(0, len(v)-1).Draw(t, "valid")].(int64)
				if c >= 0 {
					return uint64(c), "either_uint64"
				}
			}
		}
	}
}

func layerName(user bool) string {
	if user {
		return "user"
	}
	return "default"
}

func (mc *machine) layer(user bool) map[string]any {
	if user {
		return mc.m.user
	}
	return mc.m.def
}

func (mc *machine) noteSet(key string) {
	if mc.lastSet == nil {
		mc.lastSet = map[string]int{}
	}
	mc.lastSet[key] = mc.step
	mc.sets++
}

// prepSet prepares SetConfigOption / SetDefaultConfigOption.
func (mc *machine) prepSet(user bool, s *spec, raw any, class string) *prepared {
	fname := "SetDefaultConfigOption"
	f := config.SetDefaultConfigOption
	if user {
		fname = "SetConfigOption"
		f = config.SetConfigOption
	}
	p := &prepared{desc: fmt.Sprintf("%s(%s, %s)", fname, s.key, render(raw))}
	key := s.key
	p.exec = func() any { return f(key, raw) }
	p.apply = func(res any) {
		err, _ := res.(error)
		layer := mc.layer(user)
		mc.class("set_" + layerName(user) + "_" + class)
		if s.builtin {
			mc.class("release_level_set_in_" + layerName(user) + "_layer")
		}
		if raw == nil {
			if err != nil {
				mc.failf("%s: unsetting returned error %v", p.desc, err)
			}
			delete(layer, key)
			mc.noteSet(key)
		} else {
			canon, vd, reasons := s.judge(raw)
			switch {
			case vd == vValid && err != nil:
				mc.failf("%s: a valid value was rejected: %v", p.desc, err)
			case vd == vInvalid && err == nil:
				mc.failf("%s: succeeded although the value violates %v", p.desc, reasons)
			}
			if err == nil {
				layer[key] = canon
				mc.noteSet(key)
			} else {
				for _, r := range reasons {
					mc.class("rejected_set_reason_" + r)
				}
			}
		}
		if err == nil && user {
			mc.m.file = mc.m.snapshotUser() // a successful user set saves the configuration
		}
		mc.hist[len(mc.hist)-1] += fmt.Sprintf(" -> err=%v", err)
	}
	return p
}

type replaceResult struct {
	reported []string
	broken   string
}

func reportedKeys(errs []*config.ValidationError) replaceResult {
	var r replaceResult
	for _, e := range errs {
		if e == nil || e.Option == nil {
			r.broken = "validation error without option"
			continue
		}
		r.reported = append(r.reported, e.Option.Key)
	}
	sort.Strings(r.reported)
	return r
}

// genEntries draws a flat map for replace / validate / perspective.
func (mc *machine) genEntries(label string) (entries map[string]any, classes []string) {
	t := mc.t
	entries = map[string]any{}
	nValid, nInvalid := 0, 0
	for _, s := range mc.m.specs {
		p := 2
		if s.builtin {
			p = 3
		}
		if rapid.IntRange(0, p).Draw(t, label+"_present") != 0 {
			continue
		}
		raw, cl := mc.genRaw(s, true)
		entries[s.key] = raw
		if cl == "valid" {
			nValid++
		} else if !strings.HasPrefix(cl, "either") {
			nInvalid++
		}
		if s.builtin {
			classes = append(classes, label+"_touches_release_level")
		}
	}
	if rapid.IntRange(0, 4).Draw(t, label+"_unknown") == 0 {
		entries[mc.prefix+"/unknown/key"] = "x"
		classes = append(classes, label+"_with_unknown_key")
	}
	// round trip through the JSON file format, like a loaded file
	if rapid.Bool().Draw(t, label+"_via_json") {
		if data, err := config.MapToJSON(entries); err == nil {
			if m2, err := config.JSONToMap(data); err == nil {
				entries = m2
				classes = append(classes, label+"_via_json")
			}
		}
	}
	switch {
	case nValid > 0 && nInvalid > 0:
		classes = append(classes, label+"_mixed_valid_invalid")
	case nInvalid > 0:
		classes = append(classes, label+"_only_invalid")
	case nValid > 0:
		classes = append(classes, label+"_only_valid")
	default:
		classes = append(classes, label+"_empty")
	}
	return entries, classes
}

// flatten is the harness' own rendering of "a hierarchical config denotes the
// flat map of its leaves" (keys joined with "/").
func flatten(m map[string]any) map[string]any {
	out := map[string]any{}
	var walk func(prefix string, sub map[string]any)
	walk = func(prefix string, sub map[string]any) {
		for k, v := range sub {
			if child, ok := v.(map[string]interface{}); ok {
				walk(prefix+k+"/", child)
			} else {
				out[prefix+k] = v
			}
		}
	}
	walk("", m)
	return out
}

func copyMap(m map[string]any) map[string]interface{} {
	out := make(map[string]interface{}, len(m))
	for k, v := range m {
		out[k] = v
	}
	return out
}

// judgeEntries applies the statement to a map: which entries are to be
// installed, which must be reported, which are undecided.
func (mc *machine) judgeEntries(entries map[string]any) (valid map[string]any, invalid, either map[string]bool, unknown bool) {
	valid, invalid, either = map[string]any{}, map[string]bool{}, map[string]bool{}
	for k, raw := range entries {
		s, ok := mc.m.byKey[k]
		if !ok {
			unknown = true
			continue
		}
		canon, vd, _ := s.judge(raw)
		switch vd {
		case vValid:
			valid[k] = canon
		case vInvalid:
			invalid[k] = true
		default:
			either[k] = true
			valid[k] = canon
		}
	}
	return
}

// compareReported checks "reports the invalid ones" in both directions.
func (mc *machine) compareReported(desc string, r replaceResult, invalid, either map[string]bool) (reported map[string]bool) {
	if r.broken != "" {
		mc.failf("%s: %s", desc, r.broken)
	}
	reported = map[string]bool{}
	for _, k := range r.reported {
		if reported[k] {
			mc.failf("%s: key %s reported twice", desc, k)
		}
		reported[k] = true
		if !invalid[k] && !either[k] {
			mc.failf("%s: reported %s as invalid, but its entry is valid (or absent)", desc, k)
		}
	}
	for k := range invalid {
		if !reported[k] {
			mc.failf("%s: the invalid entry for %s was not reported", desc, k)
		}
	}
	return reported
}

func (mc *machine) prepReplace(user bool, entries map[string]any, classes []string) *prepared {
	fname := "ReplaceDefaultConfig"
	f := config.ReplaceDefaultConfig
	if user {
		fname = "ReplaceConfig"
		f = config.ReplaceConfig
	}
	p := &prepared{desc: fmt.Sprintf("%s(%s)", fname, render(copyMap(entries)))}
	arg := copyMap(entries)
	p.exec = func() any {
		errs, _ := f(arg)
		return reportedKeys(errs)
	}
	p.apply = func(res any) {
		r := res.(replaceResult)
		valid, invalid, either, _ := mc.judgeEntries(entries)
		reported := mc.compareReported(p.desc, r, invalid, either)
		layer := mc.layer(user)
		for k := range layer {
			delete(layer, k)
		}
		for k, v := range valid {
			if either[k] && reported[k] {
				continue
			}
			layer[k] = v
		}
		for _, s := range mc.m.specs {
			mc.noteSet(s.key)
		}
		for _, c := range classes {
			mc.class(c)
		}
		mc.class("replace_" + layerName(user))
		mc.hist[len(mc.hist)-1] += fmt.Sprintf(" -> reported=%v", r.reported)
	}
	return p
}

func (mc *machine) prepMutation() *prepared {
	t := mc.t
	k := rapid.IntRange(0, 9).Draw(t, "mutation")
	switch {
	case k <= 3:
		s := mc.pickSpec("set_target")
		raw, cl := mc.genRaw(s, true)
		return mc.prepSet(true, s, raw, cl)
	case k <= 6:
		s := mc.pickSpec("set_target")
		raw, cl := mc.genRaw(s, true)
		return mc.prepSet(false, s, raw, cl)
	case k <= 7:
		e, cl := mc.genEntries("replace")
		return mc.prepReplace(true, e, cl)
	case k == 8:
		e, cl := mc.genEntries("replace")
		return mc.prepReplace(false, e, cl)
	default:
		return mc.prepLoadOrSave()
	}
}

func (mc *machine) prepSave() *prepared {
	p := &prepared{desc: "SaveConfig()"}
	p.exec = func() any { return config.SaveConfig() }
	p.apply = func(res any) {
		if err, _ := res.(error); err != nil {
			mc.failf("SaveConfig() failed: %v", err)
		}
		mc.m.file = mc.m.snapshotUser()
		mc.class("save")
	}
	return p
}

type loadResult struct {
	err    error
	report replaceResult
}

func (mc *machine) prepLoad() *prepared {
	p := &prepared{desc: "load config file"}
	p.exec = func() any {
		err := config.VerifLoadConfig()
		return loadResult{err: err, report: reportedKeys(config.GetLoadedConfigValidationErrors())}
	}
	p.apply = func(res any) {
		r := res.(loadResult)
		if mc.m.file == nil {
			if r.err == nil {
				mc.failf("loading succeeded although no config file was ever written")
			}
			if !errors.Is(r.err, os.ErrNotExist) {
				mc.failf("loading without a file: unexpected error %v", r.err)
			}
			mc.class("load_without_file")
			mc.hist[len(mc.hist)-1] += " -> no file"
			return
		}
		if r.err != nil {
			mc.failf("loading the saved configuration failed: %v", r.err)
		}
		if len(r.report.reported) > 0 || r.report.broken != "" {
			mc.failf("loading the saved configuration reported validation errors for %v although every saved value had been accepted by a setter", r.report.reported)
		}
		// the statement: loading restores exactly the saved user-set values
		differs := len(mc.m.user) != len(mc.m.file)
		for k := range mc.m.user {
			delete(mc.m.user, k)
		}
		for k, v := range mc.m.file {
			mc.m.user[k] = v
		}
		for _, s := range mc.m.specs {
			mc.noteSet(s.key)
		}
		mc.class("load")
		if len(mc.m.file) > 0 {
			mc.class("load_nonempty_user_layer")
		}
		if differs {
			mc.class("load_replaces_diverged_user_layer")
		}
		for k := range mc.m.file {
			if s := mc.m.byKey[k]; s != nil && s.level > mc.m.effectiveLevel() {
				mc.class("load_restores_value_of_disabled_release_level")
				break
			}
		}
	}
	return p
}

func (mc *machine) prepLoadOrSave() *prepared {
	if rapid.Bool().Draw(mc.t, "load") {
		return mc.prepLoad()
	}
	return mc.prepSave()
}

func (mc *machine) run(p *prepared) {
	mc.log("%s", p.desc)
	o := safely(p.exec)
	if o.pv != nil {
		mc.panicked(p.desc, o.pv)
	}
	p.apply(o.res)
}

func (mc *machine) opValidate() {
	entries, _ := mc.genEntries("validate")
	desc := fmt.Sprintf("ValidateConfig(%s)", render(copyMap(entries)))
	mc.log("%s", desc)
	var errs []*config.ValidationError
	var unknown bool
	o := safely(func() any {
		errs, _, unknown = config.ValidateConfig(copyMap(entries))
		return nil
	})
	if o.pv != nil {
		mc.panicked(desc, o.pv)
	}
	_, invalid, either, wantUnknown := mc.judgeEntries(entries)
	mc.compareReported(desc, reportedKeys(errs), invalid, either)
	if unknown != wantUnknown {
		mc.failf("%s: containsUnknown = %v, want %v", desc, unknown, wantUnknown)
	}
	mc.class("validate_config")
}

func (mc *machine) opPerspective() {
	entries, _ := mc.genEntries("perspective")
	arg := copyMap(entries)
	// NewPerspective flattens its argument: an entry whose value is a JSON
	// object is not an entry for that key but a set of entries below it.
	entries = flatten(entries)
	form := "flat"
	if rapid.Bool().Draw(mc.t, "hierarchical") {
		arg = config.Expand(arg)
		form = "hierarchical"
	}
	desc := fmt.Sprintf("NewPerspective(%s %s)", form, render(copyMap(entries)))
	mc.log("%s", desc)
	var p *config.Perspective
	var err error
	o := safely(func() any {
		p, err = config.NewPerspective(arg)
		return nil
	})
	if o.pv != nil {
		mc.panicked(desc, o.pv)
	}
	valid, invalid, either, _ := mc.judgeEntries(entries)
	if len(invalid) > 0 && err == nil {
		mc.failf("%s: no error although entries %v are invalid", desc, invalid)
	}
	if len(invalid) == 0 && len(either) == 0 && err != nil {
		mc.failf("%s: error %v although every entry is valid", desc, err)
	}
	if p == nil {
		mc.failf("%s returned no perspective", desc)
	}
	for k := range either {
		// undecided entries: take what the perspective did
		if !p.Has(k) {
			delete(valid, k)
		}
	}
	mc.persps = append(mc.persps, &persp{p: p, entries: valid, desc: desc})
	mc.class("perspective")
}

func (mc *machine) opNewGetters() {
	s := mc.pickSpec("getter_target")
	mc.log("create getters for %s", s.key)
	mc.addGetter(s.key, s.typ, false)
	mc.addGetter(s.key, s.typ, true)
	mc.class("getters_created_later")
}

// opUnknownSet: setting an unregistered key must fail and change nothing.
func (mc *machine) opUnknownSet() {
	key := mc.prefix + "/nope"
	mc.log("SetConfigOption(%s, \"x\") [unregistered]", key)
	if err := config.SetConfigOption(key, "x"); err == nil {
		mc.failf("SetConfigOption on the unregistered key %s succeeded", key)
	}
	if err := config.SetDefaultConfigOption(key, "x"); err == nil {
		mc.failf("SetDefaultConfigOption on the unregistered key %s succeeded", key)
	}
	mc.class("set_unknown_key")
}

// ---------------------------------------------------------------- schedules

// opParkedGetter: a getter call is parked between fetching the validity flag
// and fetching the value; a complete mutation runs; the parked call may return
// the old or the new value, every later call (checkFull) must see the new one.
func (mc *machine) opParkedGetter() {
	t := mc.t
	// make getters stale first: a mutation without the read-back
	m1 := mc.prepMutation()
	mc.run(m1)
	var cands []*getter
	for _, g := range mc.getters {
		if g.spec != nil {
			cands = append(cands, g)
		}
	}
	g := cands[rapid.IntRange(0, len(cands)-1).Draw(t, "parked_getter")]
	var m2 *prepared
	switch k := rapid.IntRange(0, 9).Draw(t, "interleaved_kind"); {
	case k <= 5 && g.spec.typ == g.typ:
		// a valid set on the option the parked getter reads: the case the hand-over is about
		v := g.spec.validCandidates()
		raw := shapeOf(t, copyCanon(v[rapid.IntRange(0, len(v)-1).Draw(t, "valid")]))
		m2 = mc.prepSet(rapid.IntRange(0, 2).Draw(t, "interleaved_layer") != 2, g.spec, raw, "valid")
	case k <= 7:
		// a release level change, which moves every non-stable option at once
		lv := rapid.SampledFrom([]any{"experimental", "beta", "stable", nil}).Draw(t, "interleaved_level")
		cl := "valid"
		if lv == nil {
			cl = "nil"
		}
		m2 = mc.prepSet(rapid.IntRange(0, 2).Draw(t, "interleaved_layer") != 2, mc.m.specs[0], lv, cl)
	default:
		m2 = mc.prepMutation()
	}
	sameGetterToo := g.conc && rapid.IntRange(0, 9).Draw(t, "b_calls_parked_getter") == 0
	before := expected(g, mc.m)
	mc.log("PARK %s at config.get.refresh, meanwhile: %s", g, m2.desc)
	b := m2.exec
	if sameGetterToo {
		b = func() any {
			g.call() // needs the mutex the parked call holds
			return m2.exec()
		}
	}
	oa, ob, reached, locked := runParked("config.get.refresh", g.call, b)
	if oa.pv != nil {
		mc.panicked("getter "+g.String(), oa.pv)
	}
	if !reached {
		mc.class("pause_get_refresh_not_reached_getter_was_fresh")
		if !canonEqual(oa.res, before) {
			mc.failf("getter %s returned %s, want %s", g, render(oa.res), render(before))
		}
		mc.run2(m2)
		return
	}
	if ob.pv != nil {
		mc.panicked(m2.desc, ob.pv)
	}
	m2.apply(ob.res)
	after := expected(g, mc.m)
	if locked {
		mc.class("pause_get_refresh_excluded_by_locking")
	} else {
		mc.class("pause_get_refresh_reached")
		if g.conc {
			mc.class("pause_get_refresh_reached_concurrent_getter")
		}
		if !canonEqual(before, after) {
			mc.class("pause_get_refresh_reached_value_changed_meanwhile")
		}
	}
	if !canonEqual(oa.res, before) && !canonEqual(oa.res, after) {
		mc.failf("parked getter %s returned %s, which is neither the value before (%s) nor after (%s) the interleaved operation", g, render(oa.res), render(before), render(after))
	}
	// the call that begins now began after the mutation returned
	mc.checkGetter(g)
}

// run2 runs a prepared mutation whose description is already in the history.
func (mc *machine) run2(p *prepared) {
	o := safely(p.exec)
	if o.pv != nil {
		mc.panicked(p.desc, o.pv)
	}
	p.apply(o.res)
}

// opParkedSetter: a setter is parked after storing the value (before / inside
// signalChanges) while every getter is read; reads may see old or new; after
// the setter returned everything must be new.
func (mc *machine) opParkedSetter() {
	t := mc.t
	var a *prepared
	var point string
	switch k := rapid.IntRange(0, 9).Draw(t, "parked_setter_kind"); {
	case k <= 3:
		s := mc.pickSpec("set_target")
		raw, cl := mc.genRaw(s, true)
		a, point = mc.prepSet(true, s, raw, cl), "config.set.stored"
	case k <= 6:
		s := mc.pickSpec("set_target")
		raw, cl := mc.genRaw(s, true)
		a, point = mc.prepSet(false, s, raw, cl), "config.set.stored"
	case k <= 8:
		e, cl := mc.genEntries("replace")
		a, point = mc.prepReplace(rapid.Bool().Draw(t, "replace_user"), e, cl), "config.replace.stored"
	default:
		s := mc.pickSpec("set_target")
		raw, cl := mc.genRaw(s, true)
		a, point = mc.prepSet(rapid.Bool().Draw(t, "set_user"), s, raw, cl), "config.signal.invalidated"
	}
	beforeM := mc.m.clone()
	mc.log("PARK %s at %s, meanwhile: read every getter", a.desc, point)
	getters := append([]*getter{}, mc.getters...)
	reads := func() any {
		out := make([]any, len(getters))
		for i, g := range getters {
			out[i] = g.call()
		}
		return out
	}
	oa, ob, reached, locked := runParked(point, a.exec, reads)
	if oa.pv != nil {
		mc.panicked(a.desc, oa.pv)
	}
	a.apply(oa.res)
	name := strings.ReplaceAll(strings.TrimPrefix(point, "config."), ".", "_")
	if !reached {
		mc.class("pause_" + name + "_not_reached_operation_rejected")
		return
	}
	if ob.pv != nil {
		mc.panicked("a getter (while "+a.desc+" was parked)", ob.pv)
	}
	if locked {
		mc.class("pause_" + name + "_excluded_by_locking")
	} else {
		mc.class("pause_" + name + "_reached")
	}
	for i, got := range ob.res.([]any) {
		g := getters[i]
		wb, wa := expected(g, beforeM), expected(g, mc.m)
		if !canonEqual(got, wb) && !canonEqual(got, wa) {
			mc.failf("while %s was parked at %s, getter %s returned %s, which is neither the value before (%s) nor after (%s)", a.desc, point, g, render(got), render(wb), render(wa))
		}
	}
}

// ---------------------------------------------------------------- driver of one case

type weights struct {
	mutation, validate, perspective, newGetters, unknownSet, parkedGetter, parkedSetter int
}

func (mc *machine) stepOnce(w weights) {
	t := mc.t
	total := w.mutation + w.validate + w.perspective + w.newGetters + w.unknownSet + w.parkedGetter + w.parkedSetter
	k := rapid.IntRange(0, total-1).Draw(t, "op")
	mc.step++
	switch {
	case k < w.mutation:
		mc.run(mc.prepMutation())
	case k < w.mutation+w.validate:
		mc.opValidate()
	case k < w.mutation+w.validate+w.perspective:
		mc.opPerspective()
	case k < w.mutation+w.validate+w.perspective+w.newGetters:
		mc.opNewGetters()
	case k < w.mutation+w.validate+w.perspective+w.newGetters+w.unknownSet:
		mc.opUnknownSet()
	case k < w.mutation+w.validate+w.perspective+w.newGetters+w.unknownSet+w.parkedGetter:
		mc.opParkedGetter()
	default:
		mc.opParkedSetter()
	}
}

func runCase(t *rapid.T, kind string, minOpts, maxOpts, minOps, maxOps int, w weights) {
	mc := newMachine(t, minOpts, maxOpts)
	defer mc.finish()
	mc.checkFull()
	n := rapid.IntRange(minOps, maxOps).Draw(t, "n_ops")
	for i := 0; i < n; i++ {
		mc.stepOnce(w)
		mc.checkAfterOp(i == n-1)
	}
	// fresh getters created at the very end must agree as well
	for _, s := range mc.m.specs {
		mc.step++
		mc.checkGetter(mc.addGetter(s.key, s.typ, false))
		mc.checkGetter(mc.addGetter(s.key, s.typ, true))
	}
	h := fnv.New64a()
	for _, s := range mc.m.specs[1:] {
		_, _ = h.Write([]byte(s.String()))
	}
	_, _ = h.Write([]byte(strings.Join(mc.fp, "\n")))
	nontrivial := mc.readsAfterSet > 0
	classes := []string{kind + "_cases", fmt.Sprintf("%s_history_len_%02d-%02d", kind, n/5*5, n/5*5+4)}
	if nontrivial {
		classes = append(classes, kind+"_with_set_then_read_through_older_getter")
	}
	stats.Case(fmt.Sprintf("%s:%x", kind, h.Sum64()), nontrivial, classes...)
	if stats.WantSample(kind) && len(mc.hist) >= 4 {
		var opts []string
		for _, s := range mc.m.specs[1:] {
			opts = append(opts, s.String())
		}
		stats.Sample(kind, map[string]any{"options": opts, "history": mc.hist})
	}
}
