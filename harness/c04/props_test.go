package c04

import (
	"os"
	"testing"

	"github.com/safing/portbase/config"
	"github.com/safing/portbase/log"
	"pgregory.net/rapid"

	"verifharness/internal/stats"
)

func TestMain(m *testing.M) {
	// unknown-option / wrong-type getters log an error on every refresh; before
	// log.Start() every log line would park a goroutine forever.
	log.SetLogLevel(log.CriticalLevel)
	config.VerifHook = hook
	if stats.Thorough() {
		grace = 40 * 1000 * 1000
	}
	code := m.Run()
	_ = os.RemoveAll(procDir())
	stats.Flush(code)
	os.Exit(code)
}

// TestPropHistory: long sequential histories over 2-6 options with a few
// forced interleavings mixed in.
func TestPropHistory(t *testing.T) {
	rapid.Check(t, func(t *rapid.T) {
		runCase(t, "history", 2, 6, 3, 24, weights{mutation: 62, validate: 6, perspective: 8, newGetters: 6, unknownSet: 2, parkedGetter: 8, parkedSetter: 8})
	})
}

// TestPropSchedules: short histories that consist mostly of forced
// getter-vs-setter interleavings at the guarded yield points.
func TestPropSchedules(t *testing.T) {
	rapid.Check(t, func(t *rapid.T) {
		runCase(t, "schedule", 1, 3, 1, 6, weights{mutation: 10, newGetters: 4, parkedGetter: 43, parkedSetter: 43})
	})
}
