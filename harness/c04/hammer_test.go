package c04

// hammer_test.go: perturbation schedules. Concurrency-safe getters are called
// from 8 goroutines while one writer walks a value sequence. The oracle is the
// statement's clause "the new state is what every getter call that begins
// after the operation returned observes": a call that began after set #r
// returned and ended before set #s+1 began must observe one of the values
// #r..#s. No wall clock takes part in the verdict.

import (
	"fmt"
	"runtime"
	"sync"
	"sync/atomic"
	"testing"
	"time"

	"github.com/safing/portbase/config"
	"pgregory.net/rapid"

	"verifharness/internal/stats"
)

func perturb(d int) {
	if d < 8 {
		for i := 0; i < d; i++ {
			runtime.Gosched()
		}
		return
	}
	time.Sleep(time.Duration(d) * time.Microsecond)
}

type hammerViolation struct {
	reader, getter string
	got            any
	idx, lo, hi    int64
}

func TestPropHammer(t *testing.T) {
	rapid.Check(t, func(t *rapid.T) {
		resetGlobal(t)
		n := caseCounter.Add(1)
		prefix := fmt.Sprintf("t%d", n)
		typ := config.OptionType(rapid.IntRange(1, 3).Draw(t, "type"))
		level := config.ReleaseLevel(rapid.IntRange(0, 1).Draw(t, "level"))
		key := prefix + "/hammer/opt"
		other := prefix + "/hammer/other"
		encode := func(i int) any {
			switch typ {
			case config.OptTypeString:
				return fmt.Sprintf("v%d", i)
			case config.OptTypeStringArray:
				return []string{"v", fmt.Sprintf("%d", i)}
			}
			return int64(i)
		}
		decode := func(v any) int64 {
			var i int64 = -1
			switch x := v.(type) {
			case string:
				_, _ = fmt.Sscanf(x, "v%d", &i)
			case []string:
				if len(x) == 2 && x[0] == "v" {
					_, _ = fmt.Sscanf(x[1], "%d", &i)
				}
			case int64:
				i = x
			}
			return i
		}
		opt := &config.Option{Name: "hammer", Key: key, Description: "d", OptType: typ, ReleaseLevel: level, DefaultValue: encode(0)}
		if err := config.Register(opt); err != nil {
			t.Fatalf("harness: register: %v", err)
		}
		if err := config.Register(&config.Option{Name: "other", Key: other, Description: "d", OptType: config.OptTypeBool, DefaultValue: false}); err != nil {
			t.Fatalf("harness: register: %v", err)
		}
		if level == config.ReleaseLevelBeta {
			if err := config.SetConfigOption(relKey, "beta"); err != nil {
				t.Fatalf("enabling beta: %v", err)
			}
		}
		steps := rapid.IntRange(3, 24).Draw(t, "steps")
		// how the writer installs value #i: 0 user set, 1 default-layer set (only while the user layer is empty),
		// 2 ReplaceConfig, 3 user set preceded by an unrelated change
		kinds := make([]int, steps+1)
		userSet := false
		for i := 1; i <= steps; i++ {
			k := rapid.IntRange(0, 3).Draw(t, "writer_kind")
			if k == 1 && userSet {
				k = 0
			}
			if k != 1 {
				userSet = true
			}
			kinds[i] = k
		}
		delays := rapid.SliceOfN(rapid.SampledFrom([]int{0, 0, 0, 1, 3, 10, 50, 120, 200}), 4, 32).Draw(t, "delays")
		writerPause := rapid.SampledFrom([]int{0, 1, 5, 60}).Draw(t, "writer_pause")

		mk := func(conc bool) func() any {
			switch typ {
			case config.OptTypeString:
				f := config.GetAsString
				if conc {
					f = config.Concurrent.GetAsString
				}
				g := f(key, "fallback")
				return func() any { return g() }
			case config.OptTypeStringArray:
				f := config.GetAsStringArray
				if conc {
					f = config.Concurrent.GetAsStringArray
				}
				g := f(key, nil)
				return func() any { return append([]string{}, g()...) }
			}
			f := config.GetAsInt
			if conc {
				f = config.Concurrent.GetAsInt
			}
			g := f(key, -7)
			return func() any { return g() }
		}
		shared := mk(true)

		var started, returned atomic.Int64
		var stop atomic.Bool
		var reads, inflight, nonMonotone atomic.Int64
		var mu sync.Mutex
		var violations []hammerViolation
		var panics []any

		setDelays(delays)
		defer setDelays(nil)

		const readers = 8
		var ready, wg sync.WaitGroup
		ready.Add(readers)
		finals := make([][]func() any, readers)
		for r := 0; r < readers; r++ {
			wg.Add(1)
			go func(r int) {
				defer wg.Done()
				var once sync.Once
				markReady := func() { once.Do(ready.Done) }
				defer markReady()
				defer func() {
					if pv := recover(); pv != nil {
						mu.Lock()
						panics = append(panics, pv)
						mu.Unlock()
						stop.Store(true)
					}
				}()
				own := mk(true)
				plain := mk(false) // used by this goroutine only
				gs := []func() any{shared, own, plain}
				names := []string{"shared Concurrent getter", "own Concurrent getter", "own plain getter"}
				finals[r] = gs
				last := []int64{0, 0, 0}
				for !stop.Load() {
					for gi, g := range gs {
						lo := returned.Load()
						v := g()
						hi := started.Load()
						idx := decode(v)
						reads.Add(1)
						if hi > lo {
							inflight.Add(1)
						}
						if idx < lo || idx > hi {
							mu.Lock()
							violations = append(violations, hammerViolation{fmt.Sprint(r), names[gi], v, idx, lo, hi})
							mu.Unlock()
							stop.Store(true)
						}
						if idx < last[gi] {
							nonMonotone.Add(1)
						}
						last[gi] = idx
					}
					markReady()
					runtime.Gosched()
				}
			}(r)
		}
		ready.Wait()

		var werr error
		for i := 1; i <= steps && !stop.Load(); i++ {
			started.Store(int64(i))
			switch kinds[i] {
			case 0:
				werr = config.SetConfigOption(key, encode(i))
			case 1:
				werr = config.SetDefaultConfigOption(key, encode(i))
			case 2:
				m := map[string]interface{}{key: encode(i)}
				if level == config.ReleaseLevelBeta {
					m[relKey] = "beta"
				}
				if errs, _ := config.ReplaceConfig(m); len(errs) > 0 {
					werr = errs[0]
				}
			case 3:
				if werr = config.SetDefaultConfigOption(other, i%2 == 0); werr == nil {
					werr = config.SetConfigOption(key, encode(i))
				}
			}
			returned.Store(int64(i))
			if werr != nil {
				break
			}
			perturb(writerPause)
		}
		stop.Store(true)
		wg.Wait()
		setDelays(nil)

		if len(panics) > 0 {
			t.Fatalf("reader panicked: %v", panics[0])
		}
		if werr != nil {
			t.Fatalf("writer: installing a valid value failed: %v", werr)
		}
		if len(violations) > 0 {
			v := violations[0]
			t.Fatalf("reader %s, %s: a call that began after set #%d had returned and ended before set #%d began returned %s (= value #%d) [option type %s, %d steps, writer kinds %v]",
				v.reader, v.getter, v.lo, v.hi+1, render(v.got), v.idx, typeName(typ), steps, kinds[1:])
		}
		// after the writer finished every getter must return the final value
		final := returned.Load()
		for r := 0; r < readers; r++ {
			for gi, g := range finals[r] {
				if got := decode(g()); got != final {
					t.Fatalf("after the writer finished (last value #%d) getter %d of reader %d returns value #%d", final, gi, r, got)
				}
			}
		}
		stats.Case(fmt.Sprintf("hammer:%d:%d:%v:%v:%d", typ, level, kinds, delays, writerPause), true, "hammer_cases", "hammer_type_"+typeName(typ))
		stats.ClassN("hammer_reads", reads.Load())
		stats.ClassN("hammer_reads_overlapping_a_set", inflight.Load())
		if inflight.Load() > 0 {
			stats.Class("hammer_cases_with_read_overlapping_a_set")
		}
		if nm := nonMonotone.Load(); nm > 0 {
			// not demanded by the statement (see NOTES.md); measured only
			stats.ClassN("hammer_nonmonotone_observations", nm)
			stats.Warn("a getter went back in the value sequence (%d times); legal by the statement, unexpected for this implementation", nm)
		}
	})
}
