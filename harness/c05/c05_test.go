//go:build verif

// Package c05 decides C05: stopping a module waits for all of its managed work.
package c05

import (
	"encoding/json"
	"errors"
	"fmt"
	"os"
	"strings"
	"testing"
	"time"

	"pgregory.net/rapid"

	"verifharness/internal/stats"
	"verifharness/modsim"
)

func TestMain(m *testing.M) { stats.Main(m) }

var workKinds = []string{
	"runworker", "startworker", "service", "task", "schedtask",
	"run_mt_high", "run_mt_med", "run_mt_low",
	"start_mt_high", "start_mt_med", "start_mt_low",
	"sig_mt_high", "sig_mt_med", "sig_mt_low",
	"hook",
}

var points = []string{
	"modules.work.decremented", "modules.stopcheck.complete",
	"modules.stop.ctrlflag", "modules.stop.stopflag", "modules.stop.cancelled", "modules.stop.waiting",
	"modules.ctrlfn.returned", "modules.ctrlfn.returned",
}

func genScenario(t *rapid.T) *modsim.Scenario {
	sc := &modsim.Scenario{StartTimeoutMS: 20000, StopTimeoutMS: 8000}
	sc.Modules = modsim.GenGraph(t, 1, 5)
	id := 0
	waitTaskUsed := false
	for i := range sc.Modules {
		n := rapid.IntRange(0, 4).Draw(t, "nwork")
		for j := 0; j < n; j++ {
			id++
			w := modsim.Work{ID: id, Kind: rapid.SampledFrom(workKinds).Draw(t, "kind")}
			if rapid.IntRange(0, 3).Draw(t, "mode") == 0 {
				w.Mode = "finish"
				w.HoldUS = rapid.SampledFrom([]int{0, 1, 200, 1000, 3000}).Draw(t, "hold")
			} else {
				w.Mode = "waitctx"
				w.DelayUS = rapid.SampledFrom([]int{0, 1, 300, 2000, 8000, 30000}).Draw(t, "delay")
			}
			if (w.Kind == "task" || w.Kind == "schedtask") && w.Mode == "finish" && w.HoldUS < 2000 {
				// a task body that returns before the handler's watcher goroutine runs can stall the task queue for the
				// 1-minute execution wait (known t.ctx race, allowed by C07's wording); keep launches fast
				w.HoldUS = 2000
			}
			if (w.Kind == "task" || w.Kind == "schedtask") && w.Mode == "waitctx" {
				// a task that waits for its context blocks the (serial) task queue until its module stops: at most one
				// such item per scenario, placed last (see below), otherwise later tasks could not begin.
				if waitTaskUsed {
					w.Mode = "finish"
					w.HoldUS = 2000
					w.DelayUS = 0
				} else {
					waitTaskUsed = true
				}
			}
			if w.Kind == "service" && w.Mode == "finish" && rapid.Bool().Draw(t, "svcfails") {
				// the service worker fails and sits in its back-off wait (longer than the promptness bound) when the module stops
				w.Fail, w.BackoffMS, w.HoldUS = true, 6000, 200
			}
			if (w.Kind == "task" || w.Kind == "schedtask") && rapid.IntRange(0, 2).Draw(t, "earlier_runs") == 0 {
				// the task has been executed before (once or twice, queued again each time): the run that meets the stop
				// is a later one
				w.Requeue = rapid.IntRange(1, 2).Draw(t, "requeue")
			}
			if w.Kind == "service" && !w.Fail && rapid.Bool().Draw(t, "svcreturns") {
				// every way a service worker's function can end: the restart loop must notice the stop in each of them
				w.Returns = rapid.SampledFrom([]string{"restartnow", "ctxcanceled", "error"}).Draw(t, "svcreturn")
			}
			if rapid.IntRange(0, 5).Draw(t, "panics") == 0 && !w.Fail && !strings.HasPrefix(w.Kind, "sig_mt") {
				// (signalled microtasks run in the caller's own goroutine: a panic there is not managed code)
				// the item ends in a panic instead of returning: it has ended all the same and must be discounted
				w.Panic = rapid.SampledFrom(modsim.PanicKinds).Draw(t, "panickind")
			}
			if w.Kind == "hook" && rapid.Bool().Draw(t, "foreignsource") {
				w.On = sc.Modules[rapid.IntRange(0, len(sc.Modules)-1).Draw(t, "src")].Name
			}
			sc.Modules[i].Work = append(sc.Modules[i].Work, w)
		}
	}
	// move the single context-waiting task to the very end of the launch order
	if waitTaskUsed {
		var wt *modsim.Work
		for i := range sc.Modules {
			ws := sc.Modules[i].Work[:0]
			for _, w := range sc.Modules[i].Work {
				if (w.Kind == "task" || w.Kind == "schedtask") && w.Mode == "waitctx" && wt == nil {
					c := w
					wt = &c
					continue
				}
				ws = append(ws, w)
			}
			sc.Modules[i].Work = ws
		}
		last := &sc.Modules[len(sc.Modules)-1]
		last.Work = append(last.Work, *wt)
	}
	all := make([]string, len(sc.Modules))
	for i, m := range sc.Modules {
		all[i] = m.Name
	}
	// stop routines that fail: the module still waits for its work
	for i := range sc.Modules {
		if rapid.IntRange(0, 5).Draw(t, "stopfault") == 0 {
			sc.Modules[i].Stop.Fault = rapid.SampledFrom([]string{"error", "panic"}).Draw(t, "stopfaultkind")
			if sc.Modules[i].Stop.Fault == "panic" {
				sc.Modules[i].Stop.Panic = "string"
			}
		}
	}
	if rapid.IntRange(0, 7).Draw(t, "slotcase") == 0 {
		// the microtask limit is used up by high-priority microtasks of a dependency, so no time slots are handed
		// out: a task queued on the dependent module has been admitted but waits for its slot when the module is
		// stopped. It is never executed, and nothing of it may hold up the stop.
		sc.Modules = []modsim.Module{{Name: "m0"}, {Name: "m1", Deps: []string{"m0"}}}
		sc.MicroTaskLimit = 2
		for k := 1; k <= 3; k++ {
			sc.Modules[0].Work = append(sc.Modules[0].Work, modsim.Work{ID: k, Kind: "run_mt_high", Mode: "waitctx", DelayUS: 300})
		}
		sc.Modules[1].Work = []modsim.Work{{ID: 4, Kind: rapid.SampledFrom([]string{"task", "schedtask"}).Draw(t, "slotkind"), Mode: "finish", HoldUS: 2000, NoWait: true}}
		sc.Steps = []modsim.Step{{Op: "start"}, {Op: "launch", Mods: []string{"m0", "m1"}}, {Op: "sleep", US: rapid.SampledFrom([]int{2000, 20000}).Draw(t, "slotsleep")}, {Op: "shutdown"}, {Op: "poststop", Mods: []string{"m0", "m1"}}}
		return sc
	}
	if rapid.IntRange(0, 119).Draw(t, "slowchain") == 61 {
		// a chain of modules whose work needs a good part of the stop timeout to return - each item well inside the
		// timeout, all of them together beyond it: every module gets the whole timeout of its own
		n := rapid.IntRange(4, 5).Draw(t, "chain")
		sc.Modules = nil
		sc.StopTimeoutMS = 1500
		for i := 0; i < n; i++ {
			m := modsim.Module{Name: fmt.Sprintf("m%d", i)}
			if i > 0 {
				m.Deps = []string{fmt.Sprintf("m%d", i-1)}
			}
			m.Work = []modsim.Work{{ID: i + 1, Kind: rapid.SampledFrom([]string{"startworker", "service", "start_mt_med"}).Draw(t, "slowkind"), Mode: "waitctx", DelayUS: 500000}}
			sc.Modules = append(sc.Modules, m)
		}
		var names []string
		for _, m := range sc.Modules {
			names = append(names, m.Name)
		}
		sc.SlowItems = true
		sc.Steps = []modsim.Step{{Op: "start"}, {Op: "launch", Mods: names}, {Op: "shutdown"}, {Op: "poststop", Mods: names}}
		return sc
	}
	if rapid.IntRange(0, 5).Draw(t, "retrycase") == 0 {
		// a start routine that launches part of its work itself and then fails; the module is started again by the next
		// management pass (the work of the failed attempt must be cancelled by then) and finally stopped
		x := &sc.Modules[len(sc.Modules)-1]
		x.Start.Fault = rapid.SampledFrom([]string{"error", "panic"}).Draw(t, "retryfault")
		if x.Start.Fault == "panic" {
			x.Start.Panic = "string"
		}
		x.Start.FaultTimes = 1
		for _, w := range x.Work {
			if (w.Kind == "startworker" || w.Kind == "service" || w.Kind == "runworker" || w.Kind == "start_mt_med") && w.Mode == "waitctx" {
				x.Start.Launch = append(x.Start.Launch, w.ID)
			}
		}
		if len(x.Start.Launch) == 0 {
			id++
			x.Work = append(x.Work, modsim.Work{ID: id, Kind: "startworker", Mode: "waitctx", DelayUS: 300})
			x.Start.Launch = []int{id}
		}
		sc.Mgmt = true
		for _, m := range sc.Modules[:len(sc.Modules)-1] {
			if rapid.Bool().Draw(t, "enabled") {
				sc.Enabled = append(sc.Enabled, m.Name)
			}
		}
		sc.Steps = []modsim.Step{{Op: "start"}, {Op: "launch", Mods: all}, {Op: "enable", Mods: []string{x.Name}}, {Op: "manage"}, {Op: "manage"},
			{Op: "launch", Mods: []string{x.Name}}, {Op: "shutdown"}, {Op: "poststop", Mods: all}}
		return sc
	}
	sc.Mgmt = rapid.Bool().Draw(t, "mgmt")
	sc.Steps = append(sc.Steps, modsim.Step{Op: "start"})
	if rapid.IntRange(0, 14).Draw(t, "sigstorm") == 0 {
		// signalled microtasks whose done function is called by four goroutines at once, many times: afterwards the
		// module counters must still be exact, or a later stop is reported too early / waits out the timeout
		sc.Steps = append(sc.Steps, modsim.Step{Op: "sigstorm", Mods: all[len(all)-1:], US: 6000})
	}
	if sc.Mgmt {
		sc.Enabled = modsim.Subset(t, sc.Modules, "enabled")
		if len(sc.Enabled) == 0 {
			sc.Enabled = []string{all[len(all)-1]}
		}
		sc.Steps = append(sc.Steps, modsim.Step{Op: "launch", Mods: all})
		dis := modsim.Subset(t, sc.Modules, "disable")
		if len(dis) > 0 {
			sc.Steps = append(sc.Steps, modsim.Step{Op: "disable", Mods: dis}, modsim.Step{Op: "manage"}, modsim.Step{Op: "poststop", Mods: all})
			if rapid.Bool().Draw(t, "restart") {
				// the stopped modules are started again and get their work again: their second stop (by Shutdown or by a
				// further pass) has to wait for it like the first
				sc.Steps = append(sc.Steps, modsim.Step{Op: "enable", Mods: dis}, modsim.Step{Op: "manage"}, modsim.Step{Op: "relaunch", Mods: dis})
				if rapid.Bool().Draw(t, "stopagain") {
					sc.Steps = append(sc.Steps, modsim.Step{Op: "disable", Mods: dis}, modsim.Step{Op: "manage"})
				}
			}
		}
	} else {
		sc.Steps = append(sc.Steps, modsim.Step{Op: "launch", Mods: all})
	}
	if rapid.Bool().Draw(t, "settle") {
		sc.Steps = append(sc.Steps, modsim.Step{Op: "sleep", US: rapid.SampledFrom([]int{1, 500, 4000}).Draw(t, "settleus")})
	}
	sc.Steps = append(sc.Steps, modsim.Step{Op: "shutdown", US: rapid.SampledFrom([]int{0, 0, 0, 1, 2}).Draw(t, "shutdowncallers")}, modsim.Step{Op: "poststop", Mods: all})
	// perturbation at the guarded yield points
	nd := rapid.IntRange(0, 3).Draw(t, "ndelays")
	for i := 0; i < nd; i++ {
		sc.Delays = append(sc.Delays, modsim.Delay{
			Point:   rapid.SampledFrom(points).Draw(t, "point"),
			Ctx:     sc.Modules[rapid.IntRange(0, len(sc.Modules)-1).Draw(t, "pctx")].Name,
			Nth:     rapid.IntRange(0, 3).Draw(t, "nth"),
			DelayUS: rapid.SampledFrom([]int{200, 2000, 8000}).Draw(t, "pdelay"),
		})
	}
	return sc
}

func runAndJudge(t interface {
	Fatalf(string, ...any)
}, sc *modsim.Scenario) *modsim.Result {
	res, err := modsim.RunScenario(sc, 600*time.Second)
	if errors.Is(err, modsim.ErrChildTimeout) {
		b, _ := json.Marshal(sc)
		t.Fatalf("C05-hang: lifecycle child did not terminate within 600 s (work items return within 30 ms of cancellation)\nscenario: %s", b)
	}
	if err != nil {
		b, _ := json.Marshal(sc)
		t.Fatalf("C05-crash: %v\nscenario: %s", err, b)
	}
	if v := modsim.CheckC05(sc, res); v != nil {
		b, _ := json.Marshal(sc)
		t.Fatalf("%s\nscenario: %s\nevents:%s", v.Error(), b, modsim.RenderEvents(res.Events, 120))
	}
	return res
}

func TestPropStopWaitsForWork(t *testing.T) {
	rapid.Check(t, func(t *rapid.T) {
		sc := genScenario(t)
		t0 := time.Now()
		res := runAndJudge(t, sc)
		if d := time.Since(t0); d > time.Second {
			if os.Getenv("C05_TIMING") != "" {
				b, _ := json.Marshal(sc)
				fmt.Fprintf(os.Stderr, "C05 slow case %.1fs: %s\n", d.Seconds(), b)
			}
		}
		if d := time.Since(t0); d > 5*time.Second {
			stats.Class("slow_case_over_5s")
			stats.Sample("slow_case", map[string]any{"seconds": d.Seconds(), "scenario": sc, "events": modsim.RenderEvents(res.Events, 80)})
		}
		cls, running := modsim.C05Stats(sc, res)
		cls = append(cls, fmt.Sprintf("modules_%d", len(sc.Modules)), fmt.Sprintf("delays_%d", len(sc.Delays)))
		stats.Case(sc.Fingerprint(), running > 0, cls...)
		if running > 0 && stats.WantSample("scenario") {
			stats.Sample("scenario", map[string]any{"scenario": sc, "events": modsim.RenderEvents(res.Events, 60)})
		}
	})
}

// fixed finding: the goroutine of a finished start routine reset the "control function running" flag only after
// handing over its result; when the module was stopped right away, the late reset hit the flag of the stop routine
// and the module was reported stopped (and its dependencies began stopping) while its stop routine was still running.
func TestRegLateCtrlFlagResetEndsStopEarly(t *testing.T) {
	for _, js := range []string{
		`{"modules":[{"name":"m0","prep":{"dur_us":0},"start":{"dur_us":0},"stop":{"dur_us":0}},{"name":"m1","deps":["m0"],"prep":{"dur_us":0},"start":{"dur_us":0},"stop":{"dur_us":20000}}],"mgmt":false,"steps":[{"op":"start"},{"op":"shutdown"}],"start_timeout_ms":20000,"stop_timeout_ms":8000,"delays":[{"point":"modules.ctrlfn.returned","ctx":"m1","nth":2,"delay_us":5000}]}`,
		`{"modules":[{"name":"m0","prep":{"dur_us":0},"start":{"dur_us":0},"stop":{"dur_us":8000,"fault":"error"}}],"mgmt":false,"steps":[{"op":"start"},{"op":"shutdown"}],"start_timeout_ms":20000,"stop_timeout_ms":8000,"delays":[{"point":"modules.ctrlfn.returned","ctx":"m0","nth":2,"delay_us":3000}]}`,
	} {
		sc := &modsim.Scenario{}
		if err := json.Unmarshal([]byte(js), sc); err != nil {
			t.Fatal(err)
		}
		res := runAndJudge(t, sc)
		if v := modsim.CheckC01(sc, res); v != nil {
			t.Fatalf("%s\nevents:%s", v.Error(), modsim.RenderEvents(res.Events, 60))
		}
	}
}

// TestRegReplayCase re-executes a journalled scenario (./check C05 --replay <file.case>).
func TestRegReplayCase(t *testing.T) {
	p := os.Getenv("VERIF_REPLAY_CASE")
	if p == "" {
		t.Skip("no replay case")
	}
	sc, err := modsim.Load(p)
	if err != nil || len(sc.Modules) == 0 {
		t.Skipf("not a scenario file: %v", err)
	}
	runAndJudge(t, sc)
}
