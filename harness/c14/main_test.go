// Package c14 decides C14: subscriptions deliver every matching write in
// order; hooks fire as registered.
//
//	spec (plain data) -> journal -> run(spec) against the real database system and a model
//
// Sequential part (TestPropStateMachine): after every operation the feed of
// every subscription and the call list of every hook must equal what the model
// predicts; a hook-free listing of the storage must equal the model's storage.
// Concurrent part (TestPropConcurrent): writers with disjoint keys and one
// canceller, with forced cancel-vs-notify interleavings at the guarded yield
// points db.put.stored and db.sub.cancel.
package c14

import (
	"errors"
	"fmt"
	"os"
	"sort"
	"strings"
	"sync"
	"sync/atomic"
	"testing"

	"github.com/safing/portbase/config"
	"github.com/safing/portbase/database"
	"github.com/safing/portbase/database/record"
	"github.com/safing/portbase/database/storage"
	_ "github.com/safing/portbase/database/storage/bbolt"
	_ "github.com/safing/portbase/database/storage/hashmap"
	"github.com/safing/portbase/formats/dsd"
	"github.com/safing/portbase/runtime"

	"verifharness/internal/stats"
)

var (
	dbCounter atomic.Int64
	nsCounter atomic.Int64

	sharedMu  sync.Mutex
	sharedDBs = map[string]string{}
)

// registerConfigDatabase makes the real injected "config" database available without starting the module system
// (starting it is not an option under the race detector: the config module's own "update log level" event hook uses a
// getter that is not safe for concurrent use and is run concurrently for successive change events).
func registerConfigDatabase() error {
	// guarded export in config/verif_on.go: registers and injects the config database exactly like the module's start
	return config.VerifRegisterAsDatabase()
}

func TestMain(m *testing.M) {
	dir, err := os.MkdirTemp("/dev/shm", "verif-c14-")
	if err != nil {
		fmt.Println("cannot create scratch dir:", err)
		os.Exit(2)
	}
	if err := database.InitializeWithPath(dir); err != nil {
		fmt.Println("cannot initialize database:", err)
		os.Exit(2)
	}
	if err := registerConfigDatabase(); err != nil {
		fmt.Println("cannot inject the config database:", err)
		os.Exit(2)
	}
	// no config file: every SetConfigOption would rewrite it
	config.VerifSetConfigFile("")
	code := m.Run()
	stats.Flush(code)
	_ = database.Shutdown()
	_ = os.RemoveAll(dir)
	os.Exit(code)
}

const (
	beHashmap  = "hashmap"
	beBbolt    = "bbolt"
	beInjected = "injected"
	// an injected storage that reports itself read-only (the storage.InjectBase default): writes through an interface
	// are refused, updates pushed by the storage are announced like any other
	beInjectedRO = "injected-readonly"
	beRegistry   = "registry" // an injected runtime.Registry with a value provider that pushes updates
	beConfig     = "config"   // the config module's own injected database
)

// place: a database and a key namespace in it.
type place struct {
	backend string
	shadow  bool
	dbName  string
	ns      string
	inj     *injStorage
	ctrl    *database.Controller // injected only
	reg     *regProvider         // registry only
}

func registerDB(name, storageType string, shadow bool) error {
	_, err := database.Register(&database.Database{
		Name:         name,
		Description:  "verif c14",
		StorageType:  storageType,
		ShadowDelete: shadow,
	})
	return err
}

// openPlace: hashmap and injected databases are created per case. Hooks and
// subscriptions belong to a database, so bbolt gets a fresh database per case
// as well (its file stays open until the process ends; the case counts are
// sized accordingly).
func openPlace(backend string, shadow bool) (*place, error) {
	p := &place{backend: backend, shadow: shadow}
	switch backend {
	case beHashmap, beBbolt:
		p.dbName = fmt.Sprintf("c14-%s-%d", backend[:2], dbCounter.Add(1))
		if err := registerDB(p.dbName, backend, shadow); err != nil {
			return nil, err
		}
	case beInjected, beInjectedRO:
		p.shadow = false
		p.dbName = fmt.Sprintf("c14-in-%d", dbCounter.Add(1))
		if err := registerDB(p.dbName, database.StorageTypeInjected, false); err != nil {
			return nil, err
		}
		p.inj = &injStorage{name: p.dbName, recs: map[string]*record.Wrapper{}, fail: map[string]bool{}, readOnly: backend == beInjectedRO}
		ctrl, err := database.InjectDatabase(p.dbName, p.inj)
		if err != nil {
			return nil, err
		}
		p.ctrl = ctrl
	case beRegistry:
		p.shadow = false
		p.dbName = fmt.Sprintf("c14-rg-%d", dbCounter.Add(1))
		if err := registerDB(p.dbName, database.StorageTypeInjected, false); err != nil {
			return nil, err
		}
		reg := runtime.NewRegistry()
		p.ns = "r/"
		p.reg = &regProvider{recs: map[string]*record.Wrapper{}}
		// both orders occur in real use: modules/subsystems registers its provider on the default registry in an init
		// function, before the runtime module injects the registry as a database
		early := dbCounter.Load()%2 == 0
		if !early {
			if err := reg.InjectAsDatabase(p.dbName); err != nil {
				return nil, err
			}
		}
		push, err := reg.Register(p.ns, p.reg)
		if err != nil {
			return nil, err
		}
		p.reg.push = push
		if early {
			stats.Class("registry_provider_registered_before_injection")
			if err := reg.InjectAsDatabase(p.dbName); err != nil {
				return nil, err
			}
		}
	case beConfig:
		// one "config" database per process: a fresh key prefix per case
		p.shadow = false
		p.dbName = "config"
		p.ns = fmt.Sprintf("c14/%d/", nsCounter.Add(1))
		for _, k := range keyPool {
			err := config.Register(&config.Option{
				Name:         "verif c14 " + k,
				Key:          p.ns + k,
				Description:  "verif c14 option",
				OptType:      config.OptTypeInt,
				DefaultValue: 0,
			})
			if err != nil {
				return nil, err
			}
		}
	default:
		return nil, errors.New("unknown backend " + backend)
	}
	return p, nil
}

// ---------------------------------------------------------------- runtime value provider

// regProvider is a runtime.ValueProvider over a map, registered for the
// prefix "r/" of an injected runtime.Registry. It hands out copies.
type regProvider struct {
	mu   sync.Mutex
	recs map[string]*record.Wrapper
	push runtime.PushFunc
}

func (p *regProvider) Get(keyOrPrefix string) ([]record.Record, error) {
	p.mu.Lock()
	defer p.mu.Unlock()
	keys := make([]string, 0, len(p.recs))
	for k := range p.recs {
		if strings.HasPrefix(k, keyOrPrefix) {
			keys = append(keys, k)
		}
	}
	sort.Strings(keys)
	out := make([]record.Record, 0, len(keys))
	for _, k := range keys {
		out = append(out, copyWrapper(p.recs[k]))
	}
	return out, nil
}

// Set is called with r locked by the database system.
func (p *regProvider) Set(r record.Record) (record.Record, error) {
	w, ok := r.(*record.Wrapper)
	if !ok {
		return nil, errors.New("c14: provider only stores wrappers")
	}
	p.mu.Lock()
	p.recs[w.DatabaseKey()] = copyWrapper(w)
	p.mu.Unlock()
	return r, nil
}

// setAndPush is a change of the runtime value on the provider's side.
func (p *regProvider) setAndPush(w *record.Wrapper) {
	p.mu.Lock()
	p.recs[w.DatabaseKey()] = copyWrapper(w)
	p.mu.Unlock()
	w.Lock()
	p.push(w)
	w.Unlock()
}

func (p *regProvider) snapshot() []*record.Wrapper {
	p.mu.Lock()
	defer p.mu.Unlock()
	out := make([]*record.Wrapper, 0, len(p.recs))
	for _, w := range p.recs {
		out = append(out, copyWrapper(w))
	}
	return out
}

func (p *place) fullKey(k string) string { return p.dbName + ":" + p.ns + k }

// ---------------------------------------------------------------- injected storage

var errStorageDown = errors.New("c14: injected storage refuses this key")

// injStorage is a storage.Interface over a map, injected with
// database.InjectDatabase. It hands out copies and can be told to fail writes
// of single keys.
type injStorage struct {
	storage.InjectBase
	mu   sync.Mutex
	name string
	recs map[string]*record.Wrapper
	fail map[string]bool

	readOnly bool
}

func copyWrapper(w *record.Wrapper) *record.Wrapper {
	var meta *record.Meta
	if w.Meta() != nil {
		meta = w.Meta().Duplicate()
	}
	data := make([]byte, len(w.Data))
	copy(data, w.Data)
	c, _ := record.NewWrapper(w.Key(), meta, w.Format, data)
	return c
}

func (s *injStorage) Get(key string) (record.Record, error) {
	s.mu.Lock()
	defer s.mu.Unlock()
	w, ok := s.recs[key]
	if !ok {
		return nil, storage.ErrNotFound
	}
	return copyWrapper(w), nil
}

func (s *injStorage) Put(r record.Record) (record.Record, error) {
	w, ok := r.(*record.Wrapper)
	if !ok {
		return nil, errors.New("c14: injected storage only stores wrappers")
	}
	s.mu.Lock()
	defer s.mu.Unlock()
	if s.fail[w.DatabaseKey()] {
		return nil, errStorageDown
	}
	s.recs[w.DatabaseKey()] = copyWrapper(w)
	return r, nil
}

func (s *injStorage) Delete(key string) error {
	s.mu.Lock()
	defer s.mu.Unlock()
	if s.fail[key] {
		return errStorageDown
	}
	delete(s.recs, key)
	return nil
}

func (s *injStorage) ReadOnly() bool { return s.readOnly }

func (s *injStorage) setFail(key string, fail bool) {
	s.mu.Lock()
	s.fail[key] = fail
	s.mu.Unlock()
}

// snapshot returns copies of all stored records (hook-free view).
func (s *injStorage) snapshot() []*record.Wrapper {
	s.mu.Lock()
	defer s.mu.Unlock()
	out := make([]*record.Wrapper, 0, len(s.recs))
	for _, w := range s.recs {
		out = append(out, copyWrapper(w))
	}
	return out
}

// ---------------------------------------------------------------- records

func newWrapper(fullKey string, payload []byte, secret, crown bool) *record.Wrapper {
	data := make([]byte, len(payload))
	copy(data, payload)
	w, _ := record.NewWrapper(fullKey, nil, dsd.JSON, data)
	w.CreateMeta()
	if secret {
		w.Meta().MakeSecret()
	}
	if crown {
		w.Meta().MakeCrownJewel()
	}
	return w
}
