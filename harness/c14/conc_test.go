package c14

import (
	"encoding/json"
	"fmt"
	"strings"
	"sync"
	"sync/atomic"
	"testing"
	"time"

	"pgregory.net/rapid"

	"github.com/safing/portbase/database"
	"github.com/safing/portbase/database/query"
	"github.com/safing/portbase/database/record"

	"verifharness/internal/stats"
)

// concSpec is one concurrent case: k writers with disjoint keys, one canceller.
type concSpec struct {
	Backend string `json:"backend"`
	Shadow  bool   `json:"shadow"`
	// Writers[i] is the list of operations of writer i: 0/1 = put on its first/second key, 2/3 = delete of it (a put if absent).
	Writers [][]int `json:"writers"`
	// Mode: 0 free running, 1 a writer is parked between storage write and
	// notification while Cancel runs to completion, 2 Cancel is parked holding
	// the subscription lock until J writers wait behind it, 3 drawn delays at both
	// yield points.
	Mode        int   `json:"mode"`
	CancelAfter int   `json:"cancel_after"` // Cancel is called after this many writes were stored (modes 0, 2, 3)
	ParkArrival int   `json:"park_arrival"` // mode 1: which stored write (1-based) is parked
	J           int   `json:"j"`            // mode 2
	Delays      []int `json:"delays"`       // mode 3: microseconds, used cyclically
	NarrowSub   bool  `json:"narrow_sub"`   // the cancelled subscription only matches writer 0
	SharedQuery bool  `json:"shared_query"` // a second subscription built from the same query object stays active
	WithHook    bool  `json:"with_hook"`    // a pass-through PrePut hook is cancelled as well
	// Cancellers: how many subscriptions are cancelled at the same moment, each
	// by its own goroutine (0 = 1). DoubleCancel: one more goroutine cancels the
	// first of them a second time at the same moment.
	Cancellers   int  `json:"cancellers"`
	DoubleCancel bool `json:"double_cancel"`
	ConcRace     bool `json:"-"`
}

type cwrite struct {
	key     string // database key
	q       int64
	deleted bool
}

// sched implements the yield-point controller.
type sched struct {
	mu       sync.Mutex
	cond     *sync.Cond
	spec     *concSpec
	k        int
	arrivals int // db.put.stored arrivals
	inflight int // writers between db.put.stored and the return of their Put
	finished int
	parked   chan struct{} // mode 1: closed when the chosen arrival is parked
	resume   chan struct{} // mode 1: closed when Cancel returned
	allDone  chan struct{} // closed when the last writer finished
	reached  map[string]int

	graceExpired atomic.Int64
}

// parkGrace bounds how long a goroutine is held at a yield point when the
// condition it waits for does not come about.
const parkGrace = 500 * time.Millisecond

func (s *sched) hook(name string) {
	switch name {
	case "db.put.stored":
		s.mu.Lock()
		s.arrivals++
		s.inflight++
		n := s.arrivals
		s.reached[name]++
		s.cond.Broadcast()
		s.mu.Unlock()
		switch s.spec.Mode {
		case 1:
			if n == s.spec.ParkArrival {
				close(s.parked)
				// The grace period only chooses between two legal schedules: if
				// Cancel cannot finish while this writer is parked, the writer goes on.
				select {
				case <-s.resume:
				case <-time.After(parkGrace):
					s.graceExpired.Add(1)
				}
			}
		case 3:
			s.delay(n)
		}
	case "db.sub.cancel":
		s.mu.Lock()
		s.reached[name]++
		if s.spec.Mode == 2 {
			// Cancel holds the subscription lock here. Wait until J writers are
			// between their storage write and the end of their Put (they queue up
			// behind the lock), or no more writers can come.
			deadline := time.Now().Add(parkGrace)
			for {
				need := s.spec.J
				if rest := s.k - s.finished; rest < need {
					need = rest
				}
				if s.inflight >= need {
					break
				}
				if time.Now().After(deadline) {
					// grace period: go on with the (equally legal) schedule in which
					// the writers come later
					s.graceExpired.Add(1)
					break
				}
				wake := time.AfterFunc(20*time.Millisecond, func() {
					s.mu.Lock()
					s.cond.Broadcast()
					s.mu.Unlock()
				})
				s.cond.Wait()
				wake.Stop()
			}
		}
		n := s.arrivals
		s.mu.Unlock()
		if s.spec.Mode == 3 {
			s.delay(n + 1)
		}
	}
}

func (s *sched) delay(n int) {
	if len(s.spec.Delays) == 0 {
		return
	}
	d := s.spec.Delays[n%len(s.spec.Delays)]
	if d > 0 {
		time.Sleep(time.Duration(d) * time.Microsecond)
	}
}

func (s *sched) putReturned() {
	s.mu.Lock()
	s.inflight--
	s.cond.Broadcast()
	s.mu.Unlock()
}

func (s *sched) writerFinished() {
	s.mu.Lock()
	s.finished++
	if s.finished == s.k {
		close(s.allDone)
	}
	s.cond.Broadcast()
	s.mu.Unlock()
}

func (s *sched) waitArrivals(n int) {
	s.mu.Lock()
	for s.arrivals < n && s.finished < s.k {
		s.cond.Wait()
	}
	s.mu.Unlock()
}

// passHook is a pass-through PrePut hook that notes calls per writer and calls
// that begin after its Cancel returned.
type passHook struct {
	database.HookBase
	cancelled atomic.Bool
	late      atomic.Int64
	mu        sync.Mutex
	seen      map[string][]int64 // writer prefix -> Q values in call order
}

func (h *passHook) UsesPrePut() bool { return true }

func (h *passHook) PrePut(r record.Record) (record.Record, error) {
	if h.cancelled.Load() {
		h.late.Add(1)
	}
	cur, _ := readLocked(r)
	k := r.DatabaseKey()
	h.mu.Lock()
	h.seen[k[:strings.Index(k, "/")+1]] = append(h.seen[k[:strings.Index(k, "/")+1]], cur.Q)
	h.mu.Unlock()
	return r, nil
}

var verifHookMu sync.Mutex

func runConc(t fataler, spec concSpec) {
	journal(spec)
	verifHookMu.Lock()
	defer verifHookMu.Unlock()

	p, err := openPlace(spec.Backend, spec.Shadow)
	if err != nil {
		t.Fatalf("harness: cannot open %s database: %v", spec.Backend, err)
	}
	failf := func(format string, args ...any) {
		b, _ := json.Marshal(spec)
		t.Fatalf("%s\ncase: %s", fmt.Sprintf(format, args...), b)
	}
	k := len(spec.Writers)
	total := 0
	for _, w := range spec.Writers {
		total += len(w)
	}
	w := database.NewInterface(&database.Options{Local: true, Internal: true})

	// subscriptions, in registration order: one that stays active, the ones
	// to be cancelled, optionally one built from the query object of the first
	// cancelled one, and a last one that stays active (the neighbour behind the
	// cancelled ones in the controller's list)
	nc := spec.Cancellers
	if nc < 1 {
		nc = 1
	}
	subAll, err := w.Subscribe(query.New(p.fullKey("")))
	if err != nil {
		failf("Subscribe failed: %v", err)
	}
	cPrefixes := make([]string, nc)
	cSubs := make([]*database.Subscription, nc)
	var cQuery *query.Query
	for j := 0; j < nc; j++ {
		switch {
		case j == 0 && spec.NarrowSub:
			cPrefixes[j] = "w0/"
		case j > 0 && j%2 == 1:
			cPrefixes[j] = fmt.Sprintf("w%d/", j%k)
		}
		q := query.New(p.fullKey(cPrefixes[j]))
		if j == 0 {
			cQuery = q
		}
		cSubs[j], err = w.Subscribe(q)
		if err != nil {
			failf("Subscribe failed: %v", err)
		}
	}
	var subShared *database.Subscription
	if spec.SharedQuery {
		subShared, err = w.Subscribe(cQuery)
		if err != nil {
			failf("Subscribe failed: %v", err)
		}
	}
	subTail, err := w.Subscribe(query.New(p.fullKey("")))
	if err != nil {
		failf("Subscribe failed: %v", err)
	}
	var ph *passHook
	var rh *database.RegisteredHook
	if spec.WithHook {
		ph = &passHook{seen: map[string][]int64{}}
		rh, err = database.RegisterHook(query.New(p.fullKey("")), ph)
		if err != nil {
			failf("RegisterHook failed: %v", err)
		}
	}

	sc := &sched{spec: &spec, k: k, parked: make(chan struct{}), resume: make(chan struct{}), allDone: make(chan struct{}), reached: map[string]int{}}
	sc.cond = sync.NewCond(&sc.mu)
	database.VerifHook = sc.hook
	defer func() { database.VerifHook = nil }()

	// writers
	writes := make([][]cwrite, k)        // what each writer wrote, in its order
	started := make([]atomic.Int64, k)   // writes begun
	completed := make([]atomic.Int64, k) // writes whose Put/Delete returned
	panics := make(chan string, k+nc+8)
	var wg sync.WaitGroup
	for i := 0; i < k; i++ {
		// the write lists are fixed before the goroutines start
		present := [2]bool{}
		for n, op := range spec.Writers[i] {
			slot := op % 2
			// hashmap hands the stored object itself to the feed and Delete marks
			// that object in place, so a feed item read later no longer shows what
			// was delivered; deletes are only generated for copying back-ends here.
			del := op >= 2 && present[slot] && spec.Backend != beHashmap
			present[slot] = !del
			writes[i] = append(writes[i], cwrite{key: fmt.Sprintf("%sw%d/%d", p.ns, i, slot), q: int64(i*1000 + n + 1), deleted: del})
		}
	}
	for i := 0; i < k; i++ {
		wg.Add(1)
		go func(i int) {
			defer wg.Done()
			defer sc.writerFinished()
			defer func() {
				if r := recover(); r != nil {
					panics <- fmt.Sprintf("writer %d: %v", i, r)
				}
			}()
			for _, wr := range writes[i] {
				started[i].Add(1)
				var err error
				if wr.deleted {
					err = w.Delete(p.dbName + ":" + wr.key)
				} else {
					cur := srec{V: 1, S: "s0", Q: wr.q}
					err = w.Put(newWrapper(p.dbName+":"+wr.key, cur.payload(), false, false))
				}
				sc.putReturned()
				if err != nil {
					panics <- fmt.Sprintf("writer %d: write of %s failed: %v", i, wr.key, err)
					return
				}
				completed[i].Add(1)
			}
		}(i)
	}

	// cancellers: nc goroutines (plus one more cancelling the first subscription
	// a second time if DoubleCancel), armed by the coordinator when the drawn
	// moment has come and released together by a spinning barrier, so that their
	// Cancel calls overlap
	ncg := nc
	if spec.DoubleCancel {
		ncg++
	}
	completedBefore := make([]int64, k)
	startedAfter := make([]int64, k)
	hookCompletedBefore := make([]int64, k)
	cancelErrs := make([]error, ncg)
	var hookCancelErr error
	armed := make(chan struct{})
	var atBarrier atomic.Int64
	var cwg sync.WaitGroup
	for j := 0; j < ncg; j++ {
		cwg.Add(1)
		go func(j int) {
			defer cwg.Done()
			defer func() {
				if r := recover(); r != nil {
					panics <- fmt.Sprintf("canceller %d: %v", j, r)
				}
			}()
			sub := cSubs[j%nc]
			<-armed
			atBarrier.Add(1)
			for atBarrier.Load() < int64(ncg) {
				// spin: all cancellers leave the barrier within a few instructions
			}
			cancelErrs[j] = sub.Cancel()
		}(j)
	}
	wg.Add(1)
	go func() {
		defer wg.Done()
		defer func() {
			if r := recover(); r != nil {
				panics <- fmt.Sprintf("coordinator: %v", r)
			}
			if spec.Mode == 1 {
				select {
				case <-sc.resume:
				default:
					close(sc.resume)
				}
			}
		}()
		if spec.Mode == 1 {
			select {
			case <-sc.parked:
			case <-sc.allDone:
			}
		} else {
			sc.waitArrivals(spec.CancelAfter)
		}
		for i := range completedBefore {
			completedBefore[i] = completed[i].Load()
		}
		close(armed)
		cwg.Wait()
		for i := range startedAfter {
			startedAfter[i] = started[i].Load()
		}
		if rh != nil {
			for i := range hookCompletedBefore {
				hookCompletedBefore[i] = completed[i].Load()
			}
			hookCancelErr = rh.Cancel()
			ph.cancelled.Store(true)
		}
	}()
	wg.Wait()
	sc.mu.Lock()
	cancelArrivals := sc.reached["db.sub.cancel"]
	sc.mu.Unlock()
	close(panics)
	for msg := range panics {
		failf("CANCEL/PANIC: %s", msg)
	}
	for j, err := range cancelErrs {
		if err != nil {
			failf("CANCEL: Subscription.Cancel (canceller %d) returned %v", j, err)
		}
	}
	if hookCancelErr != nil {
		failf("HOOK: RegisteredHook.Cancel returned %v", hookCancelErr)
	}

	// later writes: after every Cancel returned, one more write per writer key.
	// They must not panic, must not reach a cancelled feed and must reach every
	// subscription that is still active.
	concWrites := make([]int, k)
	for i := 0; i < k; i++ {
		concWrites[i] = len(writes[i])
		wr := cwrite{key: fmt.Sprintf("%sw%d/0", p.ns, i), q: int64(i*1000 + 900)}
		func() {
			defer func() {
				if r := recover(); r != nil {
					failf("CANCEL/PANIC: a write after all Cancel calls returned panicked: %v", r)
				}
			}()
			cur := srec{V: 1, S: "s0", Q: wr.q}
			if err := w.Put(newWrapper(p.dbName+":"+wr.key, cur.payload(), false, false)); err != nil {
				failf("a write after the Cancel calls failed: %v", err)
			}
		}()
		writes[i] = append(writes[i], wr)
	}

	// expected per-writer sequences
	matches := func(prefix string, wr cwrite) bool { return strings.HasPrefix(wr.key, p.ns+prefix) }
	perWriter := func(items []delivery) map[int][]delivery {
		out := map[int][]delivery{}
		for _, d := range items {
			var i int
			_, _ = fmt.Sscanf(strings.TrimPrefix(d.key, p.ns), "w%d/", &i)
			out[i] = append(out[i], d)
		}
		return out
	}
	drain := func(sub *database.Subscription) (items []delivery, closed bool) {
		for {
			select {
			case item, ok := <-sub.Feed:
				if !ok {
					return items, true
				}
				d, _ := snapFeedItem(item)
				items = append(items, d)
			default:
				return items, false
			}
		}
	}
	checkComplete := func(name, prefix string, sub *database.Subscription) {
		items, closed := drain(sub)
		if closed {
			failf("DELIVERY: feed of the active subscription %s is closed", name)
		}
		got := perWriter(items)
		for i := 0; i < k; i++ {
			var want []delivery
			for _, wr := range writes[i] {
				if matches(prefix, wr) {
					want = append(want, delivery{key: wr.key, q: wr.q, s: "s0", deleted: wr.deleted})
				}
			}
			g := got[i]
			// a delete delivers the stored record: its Q is the Q of the put it deletes
			if !sameConc(g, want) {
				failf("DELIVERY: active subscription %s received for writer %d%s, expected (in this order)%s", name, i, fmtDeliveries(g), fmtDeliveries(want))
			}
		}
	}
	checkComplete("first", "", subAll)
	if subShared != nil {
		checkComplete("shared-query", cPrefixes[0], subShared)
	}
	checkComplete("last", "", subTail)

	// every cancelled subscription: closed; per writer a prefix of its
	// concurrent-phase writes, containing at least those completed before the
	// cancellers were released and at most those started before all Cancel
	// calls had returned
	partial := false
	for j := 0; j < nc; j++ {
		items, closed := drain(cSubs[j])
		if !closed {
			failf("CANCEL: the feed of cancelled subscription %d is not closed after Cancel returned", j)
		}
		if n := 0; true {
			for i := 0; i < k; i++ {
				n += concWrites[i]
			}
			if len(items) > 0 && len(items) < n {
				partial = true
			}
		}
		got := perWriter(items)
		for i := 0; i < k; i++ {
			var want []delivery
			var nBefore, nStarted int
			for n, wr := range writes[i][:concWrites[i]] {
				if !matches(cPrefixes[j], wr) {
					continue
				}
				want = append(want, delivery{key: wr.key, q: wr.q, s: "s0", deleted: wr.deleted})
				if int64(n) < completedBefore[i] {
					nBefore++
				}
				if int64(n) < startedAfter[i] {
					nStarted++
				}
			}
			g := got[i]
			if len(g) > len(want) || !sameConc(g, want[:len(g)]) {
				failf("DELIVERY: cancelled subscription %d received for writer %d%s, which is not a prefix of its writes before the Cancel%s", j, i, fmtDeliveries(g), fmtDeliveries(want))
			}
			if len(g) < nBefore {
				failf("DELIVERY: cancelled subscription %d received %d writes of writer %d, but %d matching writes had completed before Cancel was called:%s", j, len(g), i, nBefore, fmtDeliveries(g))
			}
			if len(g) > nStarted {
				failf("CANCEL: cancelled subscription %d received %d writes of writer %d, but only %d matching writes had started when Cancel returned", j, len(g), i, nStarted)
			}
		}
	}
	if ph != nil {
		if n := ph.late.Load(); n > 0 {
			failf("HOOK: %d hook calls began after RegisteredHook.Cancel had returned", n)
		}
		for i := 0; i < k; i++ {
			seen := ph.seen[fmt.Sprintf("%sw%d/", p.ns, i)]
			if int64(len(seen)) < hookCompletedBefore[i] {
				failf("HOOK: hook saw %d writes of writer %d, but %d had completed before its Cancel was called", len(seen), i, hookCompletedBefore[i])
			}
			for n, q := range seen {
				want := writes[i][n].q
				if writes[i][n].deleted {
					continue // the deleted record carries the Q of the put it deletes
				}
				if q != want {
					failf("HOOK: hook saw write Q=%d of writer %d at position %d, expected Q=%d", q, i, n, want)
				}
			}
		}
	}
	// a cancelled subscription can be cancelled again, an active one can still be cancelled
	for j := 0; j < nc; j++ {
		if err := cSubs[j].Cancel(); err != nil {
			failf("CANCEL: a second Cancel returned %v", err)
		}
	}
	for _, sub := range []*database.Subscription{subAll, subShared, subTail} {
		if sub == nil {
			continue
		}
		if err := sub.Cancel(); err != nil {
			failf("CANCEL: Cancel of an active subscription returned %v", err)
		}
		if _, closed := drain(sub); !closed {
			failf("CANCEL: the feed of a subscription that stayed active is not closed by its own Cancel (it was no longer registered)")
		}
	}

	stats.Class(fmt.Sprintf("conc_mode_%d", spec.Mode))
	stats.Class(fmt.Sprintf("conc_cancellers_%d", nc))
	if spec.DoubleCancel {
		stats.Class("conc_double_cancel_of_one_subscription")
	}
	if sc.graceExpired.Load() > 0 {
		stats.Class("conc_park_grace_expired")
	}
	sc.mu.Lock()
	if sc.reached["db.put.stored"] > 0 {
		stats.Class("conc_reached_db.put.stored")
	}
	if cancelArrivals >= 2 {
		stats.Class("conc_several_overlapping_cancels_reached_db.sub.cancel")
	}
	sc.mu.Unlock()
	var nb, na int64
	for i := 0; i < k; i++ {
		nb += completedBefore[i]
		na += int64(concWrites[i]) - startedAfter[i]
	}
	if nb > 0 && na > 0 {
		stats.Class("conc_cancel_in_the_middle")
	}
	if partial {
		stats.Class("conc_cancelled_feed_partial")
	}
	_ = total
}

// sameConc compares deliveries; for deletes the Q is that of the deleted
// record (the preceding put of the same key), so only key and deleted flag
// are compared there.
func sameConc(got, want []delivery) bool {
	if len(got) != len(want) {
		return false
	}
	for i := range got {
		if got[i].key != want[i].key || got[i].deleted != want[i].deleted {
			return false
		}
		if !got[i].deleted && got[i].q != want[i].q {
			return false
		}
	}
	return true
}

func genConc(t *rapid.T, backends []string) concSpec {
	spec := concSpec{
		Backend: rapid.SampledFrom(backends).Draw(t, "backend"),
		Shadow:  rapid.Bool().Draw(t, "shadow"),
	}
	k := rapid.IntRange(1, 4).Draw(t, "writers")
	total := 0
	for i := 0; i < k; i++ {
		ops := rapid.SliceOfN(rapid.SampledFrom([]int{0, 0, 1, 1, 2, 3}), 1, 25).Draw(t, "ops")
		spec.Writers = append(spec.Writers, ops)
		total += len(ops)
	}
	spec.Mode = rapid.IntRange(0, 3).Draw(t, "mode")
	spec.CancelAfter = rapid.IntRange(0, total).Draw(t, "cancel_after")
	spec.ParkArrival = rapid.IntRange(1, total).Draw(t, "park_arrival")
	spec.J = rapid.IntRange(1, k).Draw(t, "j")
	if spec.Mode == 3 {
		spec.Delays = rapid.SliceOfN(rapid.SampledFrom([]int{0, 0, 1, 5, 20, 80, 200}), 1, 8).Draw(t, "delays")
	}
	spec.NarrowSub = rapid.Bool().Draw(t, "narrow")
	spec.SharedQuery = rapid.Bool().Draw(t, "shared")
	spec.WithHook = rapid.Bool().Draw(t, "hook")
	spec.Cancellers = rapid.SampledFrom([]int{1, 2, 2, 3, 3, 4}).Draw(t, "cancellers")
	spec.DoubleCancel = rapid.SampledFrom([]bool{false, false, false, true}).Draw(t, "double_cancel")
	return spec
}

func TestPropConcurrent(t *testing.T) {
	var spec concSpec
	if replaySpec(&spec) && spec.Backend != "" && len(spec.Writers) > 0 {
		runConc(t, spec)
		return
	}
	backends := concBackendsFromEnv()
	rapid.Check(t, func(t *rapid.T) {
		spec := genConc(t, backends)
		runConc(t, spec)
		b, _ := json.Marshal(spec)
		stats.Case(string(b), true, "conc_backend:"+spec.Backend)
		if stats.WantSample("conc") {
			stats.Sample("conc", spec)
		}
	})
}
