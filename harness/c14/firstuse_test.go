package c14

import (
	"errors"
	"fmt"
	"sync"
	"testing"
	"time"

	"github.com/safing/portbase/database"
	"github.com/safing/portbase/database/query"
	"github.com/safing/portbase/database/record"
	"pgregory.net/rapid"

	"verifharness/internal/stats"
)

// The first use of a database. A registered database is started by whatever
// operation touches it first; in a program several goroutines get there at the
// same moment (the API answers its first requests, modules subscribe and write
// while they start). "While a subscription is active, every successful write
// ... through any interface ... is delivered to its feed" and "after cancel
// returns the feed is closed" hold from the first operation on: all operations
// have to end up with the same database behind them.
//
// k goroutines are released together on a database nothing has touched yet:
// subscriptions, writes, reads. Afterwards - sequentially, no timing involved -
// every record written in the first phase must be readable, a further write must
// reach every subscription of the first phase, and cancelling must close every feed.

func TestPropFirstUseOfADatabase(t *testing.T) {
	rapid.Check(t, func(t *rapid.T) {
		backend := rapid.SampledFrom([]string{beHashmap, beHashmap, beBbolt}).Draw(t, "backend")
		p, err := openPlace(backend, rapid.Bool().Draw(t, "shadow"))
		if err != nil {
			t.Fatalf("harness: %v", err)
		}
		db := database.NewInterface(&database.Options{Local: true, Internal: true})
		k := rapid.IntRange(2, 8).Draw(t, "goroutines")
		kinds := make([]string, k)
		for i := range kinds {
			kinds[i] = rapid.SampledFrom([]string{"sub", "sub", "put", "put", "get"}).Draw(t, "first_operation")
		}
		key := func(i int) string { return fmt.Sprintf("%s:%sfirst/k%d", p.dbName, p.ns, i) }
		subs := make([]*database.Subscription, k)
		errs := make([]error, k)
		start := make(chan struct{})
		var wg sync.WaitGroup
		for i := range kinds {
			wg.Add(1)
			go func(i int) {
				defer wg.Done()
				<-start
				switch kinds[i] {
				case "sub":
					subs[i], errs[i] = db.Subscribe(query.New(fmt.Sprintf("%s:%sfirst/", p.dbName, p.ns)))
				case "put":
					errs[i] = db.Put(newWrapper(key(i), []byte(fmt.Sprintf(`{"V":%d,"S":"first","Q":%d}`, i, i)), false, false))
				case "get":
					_, err := db.Get(key(i))
					if !errors.Is(err, database.ErrNotFound) {
						errs[i] = fmt.Errorf("get of a key nobody wrote returned %v", err)
					}
				}
			}(i)
		}
		close(start)
		wg.Wait()
		for i, e := range errs {
			if e != nil {
				t.Fatalf("FIRSTUSE: %s: operation %d (%s) of %v, all released together on a database nothing had touched, failed: %v", backend, i, kinds[i], kinds, e)
			}
		}
		// everything written is there
		for i, kd := range kinds {
			if kd != "put" {
				continue
			}
			if _, err := db.Get(key(i)); err != nil {
				t.Fatalf("FIRSTUSE: %s: the record that operation %d of %v put successfully (all released together on a database nothing had touched) cannot be read afterwards: %v", backend, i, kinds, err)
			}
		}
		// a further write reaches every subscription; earlier writes may or may not have (they were concurrent)
		late := fmt.Sprintf("%s:%sfirst/late", p.dbName, p.ns)
		if err := db.Put(newWrapper(late, []byte(`{"V":1,"S":"late","Q":99}`), false, false)); err != nil {
			t.Fatalf("harness: Put: %v", err)
		}
		nsubs := 0
		for i, s := range subs {
			if s == nil {
				continue
			}
			nsubs++
			seen := false
			for n := len(s.Feed); n > 0 && !seen; n-- {
				var r record.Record = <-s.Feed
				seen = r != nil && r.Key() == late
			}
			if !seen {
				t.Fatalf("DELIVERY: %s: the subscription that operation %d of %v made (all released together on a database nothing had touched) did not receive a matching write made after all of them had returned", backend, i, kinds)
			}
			if err := s.Cancel(); err != nil {
				t.Fatalf("CANCEL: Cancel returned %v", err)
			}
			closed := false
			for n := len(s.Feed) + 1; n > 0; n-- {
				select {
				case _, ok := <-s.Feed:
					closed = !ok
				case <-time.After(5 * time.Second):
					n = 0
				}
				if closed {
					break
				}
			}
			if !closed {
				t.Fatalf("CANCEL: %s: the feed of the subscription that operation %d of %v made is not closed after Cancel returned", backend, i, kinds)
			}
		}
		stats.Case(fmt.Sprintf("firstuse|%s|%v", backend, kinds), k >= 3, "first_use_of_a_database_by_several_goroutines", fmt.Sprintf("first_use_subscriptions_%d", min(nsubs, 3)))
		if stats.WantSample("first_use") {
			stats.Sample("first_use", map[string]any{"backend": backend, "operations": kinds})
		}
	})
}

// fixed finding (2c2d9dc): getController looked the controller up under the read lock, took the write lock and created
// one without looking again; goroutines that reached a not yet started database together each created a controller of
// their own, all but the last were dropped from the map - with the subscriptions, hooks and (hashmap) records they held.
func TestRegFirstUseStartsOneController(t *testing.T) {
	db := database.NewInterface(&database.Options{Local: true, Internal: true})
	for round := 0; round < 400; round++ {
		p, err := openPlace(beHashmap, false)
		if err != nil {
			t.Fatalf("harness: %v", err)
		}
		prefix := fmt.Sprintf("%s:%s", p.dbName, p.ns)
		subs := make([]*database.Subscription, 3)
		errs := make([]error, 6)
		start := make(chan struct{})
		var wg sync.WaitGroup
		for i := 0; i < 6; i++ {
			wg.Add(1)
			go func(i int) {
				defer wg.Done()
				<-start
				if i < 3 {
					subs[i], errs[i] = db.Subscribe(query.New(prefix))
				} else {
					errs[i] = db.Put(newWrapper(fmt.Sprintf("%sk%d", prefix, i), []byte(`{"V":1,"S":"x","Q":1}`), false, false))
				}
			}(i)
		}
		close(start)
		wg.Wait()
		for i, e := range errs {
			if e != nil {
				t.Fatalf("round %d: operation %d failed: %v", round, i, e)
			}
		}
		for i := 3; i < 6; i++ {
			if _, err := db.Get(fmt.Sprintf("%sk%d", prefix, i)); err != nil {
				t.Fatalf("round %d: a record put during the first use of the database is gone: %v", round, err)
			}
		}
		if err := db.Put(newWrapper(prefix+"late", []byte(`{"V":1,"S":"late","Q":2}`), false, false)); err != nil {
			t.Fatalf("harness: %v", err)
		}
		for i, s := range subs {
			seen := false
			for n := len(s.Feed); n > 0 && !seen; n-- {
				r := <-s.Feed
				seen = r != nil && r.Key() == prefix+"late"
			}
			if !seen {
				t.Fatalf("round %d: subscription %d, made during the first use of the database, did not receive a later write", round, i)
			}
			_ = s.Cancel()
		}
	}
}
