# Deliberate breakages for the sensitivity self-test of this check.
# usage: python3 mutants_run.py C14 mutants.py [names...]   (applies each to /dev/shm/repo-b5, runs ./check, reverts with git checkout)
C='database/controller.go'
S='database/subscription.go'
H='database/hook.go'
I='database/interface.go'
MUTANTS=[
 ('close_without_remove', [(S, '''			c.subscriptions = append(c.subscriptions[:key], c.subscriptions[key+1:]...)
			close(s.Feed)''', '''			_ = key
			close(s.Feed)''')]),
 ('remove_without_close', [(S, '''			close(s.Feed) // this close is guarded by the controllers subscriptionLock.
''', '')]),
 ('notify_before_store', [(C, '''	if !c.shadowDelete && r.Meta().IsDeleted() {
		// Immediate delete.''', '''	c.notifySubscribers(r)
	if !c.shadowDelete && r.Meta().IsDeleted() {
		// Immediate delete.'''), (C, '''	verifPoint("db.put.stored")
	c.notifySubscribers(r)
''', '''	verifPoint("db.put.stored")
''')]),
 ('perm_filter_dropped', [(C, 'if r.Meta().CheckPermission(sub.local, sub.internal) && sub.q.Matches(r) {', 'if sub.q.Matches(r) {')]),
 ('sub_match_key_only', [(C, 'if r.Meta().CheckPermission(sub.local, sub.internal) && sub.q.Matches(r) {', 'if r.Meta().CheckPermission(sub.local, sub.internal) && sub.q.MatchesKey(r.DatabaseKey()) {')]),
 ('preget_skip_matcheskey', [(C, '''		if !hook.q.MatchesKey(key) {
			continue
		}
''', '')]),
 ('postget_skip_matches', [(C, '''		if !hook.q.Matches(r) {
			continue
		}

		r, err = hook.h.PostGet(r)''', '''		r, err = hook.h.PostGet(r)''')]),
 ('preput_skip_matches', [(C, '''		if !hook.q.Matches(r) {
			continue
		}

		r, err = hook.h.PrePut(r)''', '''		r, err = hook.h.PrePut(r)''')]),
 ('preput_matches_key_only', [(C, '''		if !hook.q.Matches(r) {
			continue
		}

		r, err = hook.h.PrePut(r)''', '''		if !hook.q.MatchesKey(r.DatabaseKey()) {
			continue
		}

		r, err = hook.h.PrePut(r)''')]),
 ('hook_cancel_wrong_entry', [(H, '''			c.hooks = append(c.hooks[:key], c.hooks[key+1:]...)''', '''			c.hooks = append(c.hooks[:0], c.hooks[1:]...)
			_ = key''')]),
 ('hook_cancel_fix_reverted', [(H, 'if hook == h {', 'if hook.q == h.q {')]),
 ('sub_cancel_fix_reverted', [(S, 'if sub == s {', 'if sub.q == s.q {')]),
 ('delete_fix_reverted', [(I, '''		r.Meta().Deleted = previousState
''', '''		_ = previousState
''')]),
 ('notify_without_rlock', [(C, '''	c.subscriptionLock.RLock()
	defer c.subscriptionLock.RUnlock()

	for _, sub := range c.subscriptions {''', '''	for _, sub := range c.subscriptions {''')]),
 ('cancel_without_lock', [(S, '''	c.subscriptionLock.Lock()
	defer c.subscriptionLock.Unlock()
	verifPoint("db.sub.cancel")''', '''	verifPoint("db.sub.cancel")''')]),
 ('close_outside_lock', [(S, '''	c.subscriptionLock.Lock()
	defer c.subscriptionLock.Unlock()
	verifPoint("db.sub.cancel")

	for key, sub := range c.subscriptions {
		if sub == s {
			c.subscriptions = append(c.subscriptions[:key], c.subscriptions[key+1:]...)
			close(s.Feed) // this close is guarded by the controllers subscriptionLock.
			return nil
		}
	}
	return nil''', '''	close(s.Feed)
	c.subscriptionLock.Lock()
	defer c.subscriptionLock.Unlock()
	verifPoint("db.sub.cancel")

	for key, sub := range c.subscriptions {
		if sub == s {
			c.subscriptions = append(c.subscriptions[:key], c.subscriptions[key+1:]...)
			return nil
		}
	}
	return nil''')]),
 ('pushupdate_noop', [(C, '''		c.notifySubscribers(r)
	}
}''', '''		_ = r
	}
}''')]),
 ('preput_replacement_discarded', [(C, '''		r, err = hook.h.PrePut(r)
		if err != nil {
			return nil, err
		}''', '''		_, err = hook.h.PrePut(r)
		if err != nil {
			return nil, err
		}''')]),
 ('postget_replacement_discarded', [(C, '''		r, err = hook.h.PostGet(r)
		if err != nil {
			return nil, err
		}''', '''		_, err = hook.h.PostGet(r)
		if err != nil {
			return nil, err
		}''')]),
 ('preget_veto_swallowed', [(C, '''		if err := hook.h.PreGet(key); err != nil {
			return err
		}''', '''		_ = hook.h.PreGet(key)''')]),
 ('deletes_not_notified', [(C, '''	for _, sub := range c.subscriptions {
		if r.Meta()''', '''	for _, sub := range c.subscriptions {
		if r.Meta().IsDeleted() {
			continue
		}
		if r.Meta()''')]),
 ('double_delivery', [(C, '''			case sub.Feed <- r:
			default:
			}''', '''			case sub.Feed <- r:
			default:
			}
			if len(c.subscriptions) > 2 {
				select {
				case sub.Feed <- r:
				default:
				}
			}''')]),
 ('hook_stays_after_cancel', [(H, '''			c.hooks = append(c.hooks[:key], c.hooks[key+1:]...)
			return nil''', '''			_ = key
			return nil''')]),
]
