package c14

import (
	"encoding/json"
	"os"
	"strings"
	"testing"

	"pgregory.net/rapid"

	"verifharness/internal/stats"
)

func journal(v any) {
	path := os.Getenv("VERIF_JOURNAL")
	if path == "" {
		return
	}
	b, err := json.Marshal(v)
	if err == nil {
		_ = os.WriteFile(path, b, 0o644)
	}
}

func runSpec(t fataler, spec caseSpec, count bool) *env {
	journal(spec)
	e := newEnv(t, spec.Backend, spec.Shadow)
	defer e.finish()
	e.run(spec.Ops)
	if count {
		partialSub, partialHook := false, false
		for _, s := range e.subs {
			if s.matched > 0 && s.unmatched > 0 {
				partialSub = true
			}
		}
		for _, h := range e.hooks {
			if h.matched > 0 && h.unmatched > 0 {
				partialHook = true
			}
		}
		classes := []string{"backend:" + spec.Backend}
		add := func(c bool, name string) {
			if c {
				classes = append(classes, name)
			}
		}
		add(partialSub, "case_sub_matching_some_not_all_writes")
		add(partialHook, "case_hook_matching_some_not_all_ops")
		add(e.nCancelThenWrite > 0, "case_cancel_followed_by_write")
		add(e.nVeto > 0, "case_with_veto")
		add(e.nReplace > 0, "case_with_replace")
		add(e.nPush > 0, "case_with_pushupdate")
		add(e.nFailWrite > 0, "case_with_failing_storage_write")
		add(e.nShared > 0, "case_with_shared_query_object")
		add(e.nWithheld > 0, "case_with_delivery_withheld_for_privilege")
		add(e.nDeliveries > 0, "case_with_delivery")
		b, _ := json.Marshal(spec)
		stats.Case(string(b), partialSub || partialHook, classes...)
		stats.ClassN("deliveries_checked", int64(e.nDeliveries))
		if (partialSub || partialHook) && stats.WantSample(spec.Backend) {
			stats.Sample(spec.Backend, spec)
		}
	}
	return e
}

func replaySpec(into any) bool {
	path := os.Getenv("VERIF_REPLAY_CASE")
	if path == "" {
		return false
	}
	b, err := os.ReadFile(path)
	if err != nil {
		return false
	}
	return json.Unmarshal(b, into) == nil
}

// ---------------------------------------------------------------- generator

type weighted struct {
	kind string
	w    int
}

// Operations after the opening registrations: mostly writes and reads, so that
// every registration meets several operations.
var opWeights = []weighted{
	{"sub", 1}, {"cancelsub", 1}, {"hook", 1}, {"cancelhook", 1},
	{"put", 10}, {"putnew", 2}, {"delete", 4}, {"get", 5}, {"exists", 2}, {"push", 2}, {"setfail", 2},
}

func tableOf(ws []weighted) []string {
	var out []string
	for _, w := range ws {
		for i := 0; i < w.w; i++ {
			out = append(out, w.kind)
		}
	}
	return out
}

var opTable = tableOf(opWeights)
var regTable = []string{"sub", "sub", "hook", "hook"}

func backendsFromEnv() []string {
	if v := os.Getenv("C14_BACKENDS"); v != "" {
		return strings.Split(v, ",")
	}
	return []string{beHashmap, beBbolt, beInjected, beInjectedRO, beRegistry, beConfig}
}

// concBackendsFromEnv: the concurrent part writes and deletes through
// interfaces; it runs on the back-ends with a complete storage.
func concBackendsFromEnv() []string {
	if v := os.Getenv("C14_CONC_BACKENDS"); v != "" {
		return strings.Split(v, ",")
	}
	return []string{beHashmap, beBbolt, beInjected}
}

func genOp(table []string) *rapid.Generator[opSpec] {
	return rapid.Custom(func(t *rapid.T) opSpec {
		kind := rapid.SampledFrom(table).Draw(t, "kind")
		op := opSpec{Kind: kind}
		switch kind {
		case "sub", "hook":
			op.Prefix = rapid.SampledFrom([]int{0, 1, 1, 2, 3, 4}).Draw(t, "prefix")
			op.Cond = rapid.SampledFrom([]int{0, 0, 1, 2}).Draw(t, "cond")
			op.CondArg = rapid.IntRange(0, 8).Draw(t, "condarg")
			// one registration in eight reuses the query object of an earlier one
			op.Share = rapid.SampledFrom([]int{0, 0, 0, 0, 0, 0, 0, 1}).Draw(t, "share") * rapid.IntRange(1, 4).Draw(t, "sharewith")
			if kind == "sub" {
				op.Local = rapid.Bool().Draw(t, "local")
				op.Internal = rapid.Bool().Draw(t, "internal")
			} else {
				op.Phases = rapid.IntRange(1, 7).Draw(t, "phases")
				for i := range op.Behave {
					op.Behave[i] = rapid.SampledFrom([]int{0, 0, 0, 1, 1, 2, 2}).Draw(t, "behave")
				}
				// one registration in six hands in the Hook object of an earlier registration a second time
				op.Twin = rapid.SampledFrom([]int{0, 0, 0, 0, 0, 1}).Draw(t, "twin") * rapid.IntRange(1, 4).Draw(t, "twinof")
				if op.Behave[2] == 1 && rapid.IntRange(0, 2).Draw(t, "flips_deletion") == 0 {
					op.Behave[2] = 3
				}
			}
		case "cancelsub", "cancelhook":
			op.Target = rapid.IntRange(0, 5).Draw(t, "target")
		case "setfail":
			op.Key = rapid.IntRange(0, len(keyPool)-1).Draw(t, "key")
			op.Fail = rapid.SampledFrom([]bool{true, true, false}).Draw(t, "fail")
		default:
			op.Key = rapid.IntRange(0, len(keyPool)-1).Draw(t, "key")
			op.V = rapid.IntRange(0, 9).Draw(t, "v")
			op.S = rapid.IntRange(0, 2).Draw(t, "s")
			op.Flags = rapid.SampledFrom([]int{0, 0, 0, 1, 2, 3}).Draw(t, "flags")
			op.Iface = rapid.SampledFrom([]int{0, 0, 0, 1, 2}).Draw(t, "iface")
			if kind == "put" || kind == "putnew" || kind == "push" {
				op.TTL = rapid.SampledFrom([]int{0, 3600}).Draw(t, "ttl")
				op.Raw = rapid.IntRange(0, 3).Draw(t, "raw") == 0
			}
		}
		return op
	})
}

func genSpec(t *rapid.T, backends []string) caseSpec {
	spec := caseSpec{
		Backend: rapid.SampledFrom(backends).Draw(t, "backend"),
		Shadow:  rapid.Bool().Draw(t, "shadow"),
	}
	// a case opens with two to four registrations and continues with a mix that is mostly writes and reads
	spec.Ops = rapid.SliceOfN(genOp(regTable), 2, 4).Draw(t, "registrations")
	spec.Ops = append(spec.Ops, rapid.SliceOfN(genOp(opTable), 10, 40).Draw(t, "ops")...)
	return spec
}

func TestPropStateMachine(t *testing.T) {
	var spec caseSpec
	if replaySpec(&spec) && spec.Backend != "" && len(spec.Ops) > 0 {
		runSpec(t, spec, false)
		return
	}
	backends := backendsFromEnv()
	rapid.Check(t, func(t *rapid.T) {
		runSpec(t, genSpec(t, backends), true)
	})
}

// ---------------------------------------------------------------- exhaustive tables

type tableCfg struct {
	backend string
	shadow  bool
}

var tableCfgs = []tableCfg{{beHashmap, false}, {beHashmap, true}, {beBbolt, false}, {beBbolt, true}, {beInjected, false}, {beInjectedRO, false}, {beRegistry, false}}

// subTableCfgs: the subscription table also runs on the config module's own database.
var subTableCfgs = append(append([]tableCfg{}, tableCfgs...), tableCfg{beConfig, false})

// TestExhaustiveSingleHook enumerates every hook (phases x behaviour per phase
// x query) against a fixed history that touches a matching and a non-matching
// key with every operation, with a second pass-through hook behind it and a
// subscription watching.
func TestExhaustiveSingleHook(t *testing.T) {
	var n, nontrivial int64
	for _, cfg := range tableCfgs {
		for phases := 1; phases <= 7; phases++ {
			for b0 := 0; b0 <= 2; b0 += 2 { // PreGet: pass or veto
				for b1 := 0; b1 <= 2; b1++ {
					for b2 := 0; b2 <= 2; b2++ {
						for _, q := range []opSpec{{Prefix: 1}, {Prefix: 2, Cond: 1, CondArg: 4}, {Prefix: 0, Cond: 2, CondArg: 1}} {
							hook := q
							hook.Kind, hook.Phases, hook.Behave = "hook", phases, [3]int{b0, b1, b2}
							spec := caseSpec{Backend: cfg.backend, Shadow: cfg.shadow, Ops: []opSpec{
								hook,
								{Kind: "hook", Prefix: 0, Phases: 7},
								{Kind: "sub", Prefix: 0, Local: true, Internal: true},
								{Kind: "put", Key: 0, V: 7, S: 1, TTL: 3600},
								{Kind: "put", Key: 2, V: 7, S: 1},
								{Kind: "put", Key: 1, V: 2, S: 0},
								{Kind: "get", Key: 0},
								{Kind: "get", Key: 2},
								{Kind: "get", Key: 1},
								{Kind: "get", Key: 4},
								{Kind: "putnew", Key: 0, V: 3, S: 1},
								{Kind: "delete", Key: 0},
								{Kind: "delete", Key: 2},
								{Kind: "get", Key: 0},
								{Kind: "cancelhook", Target: 0},
								{Kind: "put", Key: 0, V: 8, S: 1},
								{Kind: "get", Key: 0},
								{Kind: "delete", Key: 0},
							}}
							e := runSpec(t, spec, false)
							n++
							if e.hooks[0].matched > 0 && e.hooks[0].unmatched > 0 {
								nontrivial++
							}
						}
					}
				}
			}
		}
	}
	stats.CaseN(n, nontrivial, "exhaustive_single_hook_histories")
	stats.Exhaustive("single hook: phases x behaviour per phase x 3 queries x 6 back-end configurations against a fixed put/get/delete history")
}

// TestExhaustiveSubscriptionTable enumerates subscriber privileges x record
// flags x query (prefix, condition) x kind of write for one subscription.
func TestExhaustiveSubscriptionTable(t *testing.T) {
	var n, nontrivial int64
	for _, cfg := range subTableCfgs {
		for priv := 0; priv < 4; priv++ {
			for flags := 0; flags < 4; flags++ {
				for prefix := 0; prefix < len(prefixPool); prefix++ {
					for _, c := range []opSpec{{}, {Cond: 1, CondArg: 4}, {Cond: 2, CondArg: 1}} {
						sub := opSpec{Kind: "sub", Prefix: prefix, Cond: c.Cond, CondArg: c.CondArg, Local: priv&1 != 0, Internal: priv&2 != 0}
						spec := caseSpec{Backend: cfg.backend, Shadow: cfg.shadow, Ops: []opSpec{
							sub,
							{Kind: "put", Key: 0, V: 7, S: 1, Flags: flags, TTL: 3600},
							{Kind: "put", Key: 1, V: 2, S: 0, Flags: flags},
							{Kind: "putnew", Key: 2, V: 9, S: 1, Flags: flags},
							{Kind: "push", Key: 0, V: 6, S: 1, Flags: flags},
							{Kind: "push", Key: 3, V: 1, S: 2, Flags: flags},
							{Kind: "put", Key: 0, V: 1, S: 1, Flags: flags, Iface: 1},
							{Kind: "delete", Key: 0},
							{Kind: "delete", Key: 1},
							{Kind: "delete", Key: 4},
							{Kind: "cancelsub", Target: 0},
							{Kind: "put", Key: 0, V: 7, S: 1, Flags: flags},
							{Kind: "delete", Key: 2},
							{Kind: "cancelsub", Target: 0},
							{Kind: "push", Key: 0, V: 6, S: 1, Flags: flags},
						}}
						e := runSpec(t, spec, false)
						n++
						if e.subs[0].matched > 0 && e.subs[0].unmatched > 0 {
							nontrivial++
						}
					}
				}
			}
		}
	}
	stats.CaseN(n, nontrivial, "exhaustive_subscription_table")
	stats.Exhaustive("single subscription: privileges x record flags x prefix x condition x 7 back-end configurations (incl. runtime.Registry and the config database) against a fixed put/push/delete/cancel history")
}

// ---------------------------------------------------------------- regressions (fixed findings)

// TestRegHookCancelSharedQuery: two hooks registered with the same query
// object; cancelling the second removed the first, the cancelled one kept
// being called.
func TestRegHookCancelSharedQuery(t *testing.T) {
	for _, cfg := range tableCfgs {
		runSpec(t, caseSpec{Backend: cfg.backend, Shadow: cfg.shadow, Ops: []opSpec{
			{Kind: "hook", Phases: 1},
			{Kind: "hook", Phases: 4, Share: 1},
			{Kind: "cancelhook", Target: 1},
			{Kind: "put", Key: 0},
			{Kind: "get", Key: 0},
			{Kind: "cancelhook", Target: 1},
			{Kind: "cancelhook", Target: 0},
			{Kind: "get", Key: 0},
		}}, false)
	}
}

// TestRegSubCancelSharedQuery: two subscriptions from the same query object;
// cancelling the second removed the first from the list and closed the second
// one's feed while it stayed registered: the next write panicked with "send on
// closed channel".
func TestRegSubCancelSharedQuery(t *testing.T) {
	for _, cfg := range tableCfgs {
		runSpec(t, caseSpec{Backend: cfg.backend, Shadow: cfg.shadow, Ops: []opSpec{
			{Kind: "sub", Local: true, Internal: true},
			{Kind: "sub", Share: 1},
			{Kind: "cancelsub", Target: 1},
			{Kind: "putnew", Key: 0},
			{Kind: "cancelsub", Target: 1},
			{Kind: "put", Key: 1},
			{Kind: "cancelsub", Target: 0},
			{Kind: "put", Key: 1},
		}}, false)
	}
	runConc(t, concSpec{Backend: beHashmap, Writers: [][]int{{0, 1, 0, 1, 0, 1}, {0, 0, 0, 0}}, Mode: 1, ParkArrival: 3, J: 1, SharedQuery: true})
}

// TestRegVetoedDelete: a PrePut hook vetoes a Delete; on the hashmap storage
// the record was gone all the same (Delete marked the stored object as deleted
// before the hook ran and left the mark when the put failed).
func TestRegVetoedDelete(t *testing.T) {
	for _, cfg := range tableCfgs {
		runSpec(t, caseSpec{Backend: cfg.backend, Shadow: cfg.shadow, Ops: []opSpec{
			{Kind: "sub", Local: true, Internal: true},
			{Kind: "put", Key: 3},
			{Kind: "hook", Phases: 7, Behave: [3]int{0, 0, 2}},
			{Kind: "delete", Key: 3},
			{Kind: "get", Key: 3},
			{Kind: "cancelhook", Target: 0},
			{Kind: "delete", Key: 3},
			{Kind: "get", Key: 3},
		}}, false)
	}
}
