#!/usr/bin/env python3
"""usage: run.py PROP mutants.py [names...]  -- applies each mutant to /dev/shm/repo-b5, runs ./check, reverts"""
import subprocess, sys, os, time, importlib.util
REPO='/dev/shm/repo-b5'
prop=sys.argv[1]
spec=importlib.util.spec_from_file_location('m', sys.argv[2]); m=importlib.util.module_from_spec(spec); spec.loader.exec_module(m)
names=sys.argv[3:]
res=[]
for name, edits in m.MUTANTS:
    if names and name not in names: continue
    subprocess.run(['git','checkout','--','.'],cwd=REPO,check=True)
    ok=True
    for f,old,new in edits:
        p=os.path.join(REPO,f); s=open(p).read()
        if s.count(old)!=1:
            print('MUTANT %s: pattern count %d in %s'%(name,s.count(old),f)); ok=False; break
        open(p,'w').write(s.replace(old,new))
    if not ok:
        res.append((name,'BADPATTERN',0)); continue
    t0=time.time()
    env=dict(os.environ, VERIF_REPO=REPO)
    r=subprocess.run(['./check',prop]+getattr(m,'EXTRA',[]),cwd='/verif',env=env,stdout=subprocess.PIPE,stderr=subprocess.STDOUT)
    out=r.stdout.decode(errors='replace')
    open('/tmp/mut/%s-%s.log'%(prop,name),'w').write(out)
    viol='VIOLATION property=' in out
    first=[l for l in out.splitlines() if any(w in l for w in ('TAINT','MODIFIED','RETURNED','LISTED','PUSHED','MODEL','INTEGRITY','panic','DELIVERY','HOOK','CANCEL','race'))][:1]
    res.append((name,'rc=%d viol=%s %.0fs'%(r.returncode,viol,time.time()-t0), first[0][:230] if first else ''))
    print(res[-1],flush=True)
subprocess.run(['git','checkout','--','.'],cwd=REPO,check=True)
print('---- summary')
for r in res: print(r[0], r[1])
