package c14

import (
	"encoding/json"
	"errors"
	"fmt"
	"sort"
	"strings"
	"sync"

	"github.com/safing/portbase/config"
	"github.com/safing/portbase/database"
	"github.com/safing/portbase/database/query"
	"github.com/safing/portbase/database/record"
	"github.com/safing/portbase/formats/dsd"

	"verifharness/internal/stats"
)

type fataler interface {
	Fatalf(format string, args ...any)
	Helper()
}

// ---------------------------------------------------------------- spec

type caseSpec struct {
	Backend string   `json:"backend"`
	Shadow  bool     `json:"shadow"`
	Ops     []opSpec `json:"ops"`
}

type opSpec struct {
	Kind string `json:"kind"` // sub cancelsub hook cancelhook put putnew delete get push setfail
	Key  int    `json:"key,omitempty"`
	// registrations
	Prefix   int    `json:"prefix,omitempty"`
	Cond     int    `json:"cond,omitempty"` // 0 none, 1 V > arg, 2 S sameas s<arg>
	CondArg  int    `json:"condarg,omitempty"`
	Local    bool   `json:"local,omitempty"`
	Internal bool   `json:"internal,omitempty"`
	Share    int    `json:"share,omitempty"`  // >0: reuse the query object of an earlier registration
	Phases   int    `json:"phases,omitempty"` // 1 PreGet, 2 PostGet, 4 PrePut
	Behave   [3]int `json:"behave,omitempty"` // per phase: 0 pass, 1 replace, 2 veto; PrePut also 3: replace with the opposite deletion state
	Target   int    `json:"target,omitempty"` // which registration to cancel
	Twin     int    `json:"twin,omitempty"`   // hook: >0: register the Hook object of an earlier registration again
	// records
	V     int  `json:"v,omitempty"`
	S     int  `json:"s,omitempty"`
	Flags int  `json:"flags,omitempty"` // 1 secret, 2 crown jewel
	Iface int  `json:"iface,omitempty"` // 0 privileged interface, 1 interface that is neither local nor internal, 2 (writes) privileged with cache + delayed writes for another database
	Fail  bool `json:"fail,omitempty"`
	TTL   int  `json:"ttl,omitempty"` // relative expiry in seconds (0: none), kept in the record's metadata
	Raw   bool `json:"raw,omitempty"` // the record is written in the RAW format (no accessor for conditions)
}

var keyPool = []string{"a/1", "a/2", "b/1", "b/2", "c"}

// ---------------------------------------------------------------- the config database

// execConfig executes an operation on the config module's injected database.
// Records are exported options: the model keeps the active value (V = Q, -1 =
// unset). Hooks and failing storage writes are not generated here.
func (e *env) execConfig(op opSpec, k string) {
	db, _, _, name := e.iface(op.Iface)
	st := e.store[k]
	switch op.Kind {
	case "hook", "cancelhook", "setfail", "exists":
		return

	case "get":
		var rec record.Record
		var err error
		e.safely("Get", func() { rec, err = db.Get(e.full(k)) })
		if err != nil {
			e.failf("GET: %s: Get(%q) on the config database failed: %v", name, k, err)
		}
		rec.Lock()
		got, _ := readConfigLocked(rec)
		rec.Unlock()
		if got != *st {
			e.failf("GET: %s: Get(%q) returned %s, expected %s", name, k, got, *st)
		}

	case "put", "putnew":
		v := int64(op.V % 10)
		w := newWrapper(e.full(k), []byte(fmt.Sprintf(`{"Value":%d}`, v)), false, false)
		cur := srec{V: v, Q: v}
		e.store[k] = &cur
		e.modelNotify(k, cur)
		var err error
		e.safely(op.Kind, func() { err = e.doPut(db, op.Kind, w) })
		if err != nil {
			e.failf("PUT: %s: %s(%q) on the config database failed: %v", name, op.Kind, k, err)
		}

	case "delete":
		// deleting an option through the database resets it; the deleted record is what was loaded
		cur := *st
		cur.Deleted = true
		e.store[k] = &srec{V: -1, Q: -1}
		e.modelNotify(k, cur)
		var err error
		e.safely("Delete", func() { err = db.Delete(e.full(k)) })
		if err != nil {
			e.failf("DELETE: %s: Delete(%q) on the config database failed: %v", name, k, err)
		}

	case "push":
		// a change from the config side: the config module pushes the update itself
		e.nPush++
		var val any
		cur := srec{V: -1, Q: -1}
		if op.Flags&1 == 0 {
			v := int64(op.V % 10)
			val, cur = v, srec{V: v, Q: v}
		}
		e.store[k] = &cur
		e.modelNotify(k, cur)
		var err error
		e.safely("SetConfigOption", func() { err = config.SetConfigOption(e.p.ns+k, val) })
		if err != nil {
			e.failf("PUSH: config.SetConfigOption(%q, %v) failed: %v", k, val, err)
		}

	default:
		e.failf("harness: unknown op %q", op.Kind)
	}
}

var prefixPool = []string{"", "a/", "a/1", "b/", "x/"}

type cond struct {
	Kind  int
	Arg   int
	Field string // name of the integer field for kind 1 ("V", or "Value" for config options)
}

func (c cond) apply(q *query.Query) *query.Query {
	switch c.Kind {
	case 1:
		f := c.Field
		if f == "" {
			f = "V"
		}
		return q.Where(query.Where(f, query.GreaterThan, c.Arg))
	case 2:
		return q.Where(query.Where("S", query.SameAs, fmt.Sprintf("s%d", c.Arg)))
	}
	return q
}

func (c cond) String() string {
	switch c.Kind {
	case 1:
		if c.Field != "" {
			return fmt.Sprintf(" where %s > %d", c.Field, c.Arg)
		}
		return fmt.Sprintf(" where V > %d", c.Arg)
	case 2:
		return fmt.Sprintf(" where S sameas s%d", c.Arg)
	}
	return ""
}

func (c cond) matches(r *srec) bool {
	if r.Opaque && c.Kind != 0 {
		return false // a record without accessor (not JSON) satisfies no condition
	}
	switch c.Kind {
	case 1:
		return r.V > int64(c.Arg)
	case 2:
		return r.S == fmt.Sprintf("s%d", c.Arg)
	}
	return true
}

// ---------------------------------------------------------------- model

// srec is the model of one record (in storage, in a feed or seen by a hook).
type srec struct {
	V       int64
	S       string
	Q       int64 // unique number of the write that produced the record
	Secret  bool
	Crown   bool
	Deleted bool
	TTL     int64 // relative expiry kept in the metadata (0: none)
	// Opaque: the record is a wrapper in a format queries cannot look into (RAW; the payload is still the JSON text,
	// so that the harness can read it). Registrations without a condition match it like any other record.
	Opaque bool
}

func (r *srec) permits(local, internal bool) bool {
	return !(r.Crown && !local) && !(r.Secret && !internal)
}

func (r *srec) payload() []byte {
	return []byte(fmt.Sprintf(`{"V":%d,"S":%q,"Q":%d}`, r.V, r.S, r.Q))
}

func (r srec) String() string {
	return fmt.Sprintf("{V=%d S=%s Q=%d secret=%v crown=%v deleted=%v ttl=%d opaque=%v}", r.V, r.S, r.Q, r.Secret, r.Crown, r.Deleted, r.TTL, r.Opaque)
}

// qreg is a query object with the data it was built from.
type qreg struct {
	q      *query.Query
	prefix string
	cond   cond
}

func (q *qreg) matchesKey(k string) bool { return strings.HasPrefix(k, q.prefix) }
func (q *qreg) matches(k string, r *srec) bool {
	return strings.HasPrefix(k, q.prefix) && q.cond.matches(r)
}
func (q *qreg) String() string { return fmt.Sprintf("%q%s", q.prefix, q.cond) }

type delivery struct {
	key     string
	q       int64
	s       string
	deleted bool
}

type msub struct {
	id       int
	reg      *qreg
	local    bool
	internal bool
	sub      *database.Subscription
	active   bool
	expect   []delivery
	// generator measurement
	matched, unmatched int
}

type hcall struct {
	phase string
	key   string
	q     int64
	s     string
}

func (c hcall) String() string {
	if c.phase == "PreGet" {
		return fmt.Sprintf("PreGet(%s)", c.key)
	}
	return fmt.Sprintf("%s(%s Q=%d S=%s)", c.phase, c.key, c.q, c.s)
}

// hhook is the harness Hook: it records its calls and passes, replaces or vetoes.
type hhook struct {
	id     int
	reg    *qreg
	phases int
	behave [3]int
	dbName string

	mu    sync.Mutex
	calls []hcall

	rh     *database.RegisteredHook
	active bool
	expect []hcall
	// obj: this registration reuses the Hook object of an earlier one (the same object registered a second time with
	// another query): calls, expectations, behaviour and the id in replacements and vetoes are those of that object
	obj *hhook
	// generator measurement
	matched, unmatched int
}

func (h *hhook) o() *hhook {
	if h.obj != nil {
		return h.obj
	}
	return h
}

func (h *hhook) vetoErr() error { return fmt.Errorf("c14 hook %d vetoes", h.id) }

func (h *hhook) UsesPreGet() bool  { return h.phases&1 != 0 }
func (h *hhook) UsesPostGet() bool { return h.phases&2 != 0 }
func (h *hhook) UsesPrePut() bool  { return h.phases&4 != 0 }

func (h *hhook) note(c hcall) {
	h.mu.Lock()
	h.calls = append(h.calls, c)
	h.mu.Unlock()
}

func (h *hhook) PreGet(dbKey string) error {
	h.note(hcall{phase: "PreGet", key: dbKey})
	if h.behave[0] == 2 {
		return h.vetoErr()
	}
	return nil
}

// readLocked reads a record that the database system has locked for the hook.
func readLocked(r record.Record) (srec, bool) {
	var out srec
	if m := r.Meta(); m != nil {
		out.Deleted = m.IsDeleted()
		if m.Deleted < 0 {
			out.TTL = -m.Deleted
		}
		out.Secret = !m.CheckPermission(true, false)
		out.Crown = !m.CheckPermission(false, true)
	}
	w, ok := r.(*record.Wrapper)
	if !ok {
		return out, false
	}
	var v struct {
		V int64
		S string
		Q int64
	}
	if (w.Format != dsd.JSON && w.Format != dsd.RAW) || json.Unmarshal(w.Data, &v) != nil {
		return out, false
	}
	out.V, out.S, out.Q = v.V, v.S, v.Q
	out.Opaque = w.Format == dsd.RAW
	return out, true
}

func replacedS(id int) string { return fmt.Sprintf("r%d", id) }

// replacement builds the record a replacing hook returns: same key and
// metadata, S rewritten.
func (h *hhook) replacement(r record.Record) record.Record {
	w, ok := r.(*record.Wrapper)
	if !ok {
		return r
	}
	cur, ok := readLocked(r)
	if !ok {
		return r
	}
	cur.S = replacedS(h.o().id)
	var meta *record.Meta
	if w.Meta() != nil {
		meta = w.Meta().Duplicate()
	}
	nw, _ := record.NewWrapper(w.Key(), meta, w.Format, cur.payload())
	return nw
}

func (h *hhook) PostGet(r record.Record) (record.Record, error) {
	cur, _ := readLocked(r)
	h.note(hcall{phase: "PostGet", key: r.DatabaseKey(), q: cur.Q, s: cur.S})
	switch h.behave[1] {
	case 1:
		return h.replacement(r), nil
	case 2:
		return nil, h.vetoErr()
	}
	return r, nil
}

func (h *hhook) PrePut(r record.Record) (record.Record, error) {
	cur, _ := readLocked(r)
	h.note(hcall{phase: "PrePut", key: r.DatabaseKey(), q: cur.Q, s: cur.S})
	switch h.behave[2] {
	case 1:
		return h.replacement(r), nil
	case 2:
		return nil, h.vetoErr()
	case 3:
		// the replacement differs in its deletion state: a delete becomes the write of a live record, a write becomes a
		// delete. What is stored and announced is the record the hook returned.
		nr := h.replacement(r)
		if nr != r {
			if m := nr.Meta(); m.IsDeleted() {
				m.Deleted = 0
			} else {
				m.Delete()
			}
		}
		return nr, nil
	}
	return r, nil
}

func (h *hhook) takeCalls() []hcall {
	h.mu.Lock()
	defer h.mu.Unlock()
	c := h.calls
	h.calls = nil
	return c
}

// ---------------------------------------------------------------- env

type env struct {
	t fataler
	p *place

	w *database.Interface // local and internal
	u *database.Interface // neither
	d *database.Interface // local and internal, with a cache, delaying the writes of another database (writes only)

	store map[string]*srec // pool key -> stored record (tombstones included)
	fail  map[string]bool
	nextQ int64

	regs  []*qreg
	subs  []*msub
	hooks []*hhook

	read func(record.Record) (srec, bool)

	stepNo int
	opName string
	// tombstoneGet: the current operation loaded a shadow-deleted record; whether
	// PostGet hooks see it is not defined by the statement.
	lenientPostGet bool
	// mustPostGet: hooks without a condition that declare PostGet and whose prefix covers the key of that get: the
	// loaded (shadow-deleted) record matches their query whatever the back end kept of its data, so they are called
	mustPostGet map[int]int

	// measurement
	nCancelThenWrite, nVeto, nReplace, nPush, nFailWrite, nShared, nDeliveries, nWithheld int
	cancelled                                                                             bool
}

func newEnv(t fataler, backend string, shadow bool) *env {
	p, err := openPlace(backend, shadow)
	if err != nil {
		t.Fatalf("harness: cannot open %s database: %v", backend, err)
	}
	e := &env{
		t:     t,
		p:     p,
		w:     database.NewInterface(&database.Options{Local: true, Internal: true}),
		u:     database.NewInterface(&database.Options{}),
		store: map[string]*srec{},
		fail:  map[string]bool{},
		read:  readLocked,
	}
	if backend == beConfig {
		e.read = readConfigLocked
		for _, k := range keyPool {
			e.store[k] = &srec{V: -1, Q: -1}
		}
	}
	return e
}

func (e *env) failf(format string, args ...any) {
	e.t.Helper()
	e.t.Fatalf("step %d (%s) on %s shadow=%v: %s", e.stepNo, e.opName, e.p.backend, e.p.shadow, fmt.Sprintf(format, args...))
}

func (e *env) full(k string) string { return e.p.fullKey(k) }

func (e *env) poolKey(dbKey string) string { return strings.TrimPrefix(dbKey, e.p.ns) }

func (e *env) iface(i int) (*database.Interface, bool, bool, string) {
	if i == 1 {
		return e.u, false, false, "interface(local=false,internal=false)"
	}
	return e.w, true, true, "interface(local=true,internal=true)"
}

// writerIface: writes (put, put-new) may also go through a privileged interface that has a cache and delays the writes of
// ANOTHER database: for records of this database it is an interface like any other - stored and announced at once.
func (e *env) writerIface(i int) (*database.Interface, bool, bool, string) {
	if i == 2 {
		if e.d == nil {
			e.d = database.NewInterface(&database.Options{Local: true, Internal: true, CacheSize: 8, DelayCachedWrites: "c14-some-other-database"})
		}
		stats.Class("write_through_an_interface_that_delays_the_writes_of_another_database")
		return e.d, true, true, "interface(local=true,internal=true,cache,delays writes of another database)"
	}
	return e.iface(i)
}

// safely runs one call into portbase and turns a panic into a failure.
func (e *env) safely(what string, f func()) {
	defer func() {
		if r := recover(); r != nil {
			e.failf("PANIC in %s: %v", what, r)
		}
	}()
	f()
}

func snapFeedItem(r record.Record) (delivery, srec) {
	return snapFeedItemWith(readLocked, r)
}

func snapFeedItemWith(read func(record.Record) (srec, bool), r record.Record) (delivery, srec) {
	r.Lock()
	defer r.Unlock()
	cur, _ := read(r)
	return delivery{key: r.DatabaseKey(), q: cur.Q, s: cur.S, deleted: cur.Deleted}, cur
}

// readConfigLocked reads an exported config option: the model of such a record
// is {V: active value or -1 when unset, Q: the same, S: ""}.
func readConfigLocked(r record.Record) (srec, bool) {
	out := srec{V: -1, Q: -1}
	if m := r.Meta(); m != nil {
		out.Deleted = m.IsDeleted()
		if m.Deleted < 0 {
			out.TTL = -m.Deleted
		}
		out.Secret = !m.CheckPermission(true, false)
		out.Crown = !m.CheckPermission(false, true)
	}
	w, ok := r.(*record.Wrapper)
	if !ok {
		return out, false
	}
	var v struct{ Value *int64 }
	if w.Format != dsd.JSON || json.Unmarshal(w.Data, &v) != nil {
		return out, false
	}
	if v.Value != nil {
		out.V, out.Q = *v.Value, *v.Value
	}
	return out, true
}

func fmtDeliveries(d []delivery) string {
	if len(d) == 0 {
		return " (none)"
	}
	var sb strings.Builder
	for _, x := range d {
		fmt.Fprintf(&sb, " (%s Q=%d S=%s deleted=%v)", x.key, x.q, x.s, x.deleted)
	}
	return sb.String()
}

func fmtCalls(c []hcall) string {
	if len(c) == 0 {
		return " (none)"
	}
	var sb strings.Builder
	for _, x := range c {
		sb.WriteString(" " + x.String())
	}
	return sb.String()
}

// ---------------------------------------------------------------- model steps

func (e *env) activeHooks() []*hhook {
	var out []*hhook
	for _, h := range e.hooks {
		if h.active {
			out = append(out, h)
		}
	}
	return out
}

type getResult struct {
	err      error // veto error of a hook
	notFound bool
	denied   bool
	rec      srec
}

func (g getResult) failed() bool { return g.err != nil || g.notFound || g.denied }

// modelGet predicts Controller.Get + the interface's permission check.
func (e *env) modelGet(k string, local, internal bool) getResult {
	for _, h := range e.activeHooks() {
		if h.phases&1 == 0 {
			continue
		}
		if !h.reg.matchesKey(k) {
			h.unmatched++
			continue
		}
		h.matched++
		h.o().expect = append(h.o().expect, hcall{phase: "PreGet", key: e.p.ns + k})
		if h.behave[0] == 2 {
			e.nVeto++
			return getResult{err: h.o().vetoErr()}
		}
	}
	st := e.store[k]
	if st == nil {
		return getResult{notFound: true}
	}
	if st.Deleted {
		// a shadow-deleted record is loaded and then found invalid: the get fails. What hooks with a condition see of it
		// depends on what the back end kept of the data (not compared); hooks without a condition match it in any case.
		e.lenientPostGet = true
		for _, h := range e.activeHooks() {
			if h.phases&2 == 0 || !h.reg.matchesKey(k) {
				continue
			}
			if h.reg.cond.Kind != 0 {
				if h.behave[1] == 2 {
					break // it may have vetoed and ended the chain
				}
				continue
			}
			if e.mustPostGet == nil {
				e.mustPostGet = map[int]int{}
			}
			e.mustPostGet[h.o().id]++
			stats.Class("postget_hook_on_shadow_deleted_record")
			if h.behave[1] == 2 {
				break
			}
		}
		return getResult{notFound: true}
	}
	cur := *st
	for _, h := range e.activeHooks() {
		if h.phases&2 == 0 {
			continue
		}
		if !h.reg.matches(k, &cur) {
			h.unmatched++
			continue
		}
		h.matched++
		h.o().expect = append(h.o().expect, hcall{phase: "PostGet", key: e.p.ns + k, q: cur.Q, s: cur.S})
		switch h.behave[1] {
		case 1:
			cur.S = replacedS(h.o().id)
			e.nReplace++
		case 2:
			e.nVeto++
			return getResult{err: h.o().vetoErr()}
		}
	}
	if !cur.permits(local, internal) {
		return getResult{denied: true}
	}
	return getResult{rec: cur}
}

// modelPrePut predicts the PrePut hook chain; it returns the record to store or the veto.
func (e *env) modelPrePut(k string, cur srec) (srec, error) {
	for _, h := range e.activeHooks() {
		if h.phases&4 == 0 {
			continue
		}
		if !h.reg.matches(k, &cur) {
			h.unmatched++
			continue
		}
		h.matched++
		h.o().expect = append(h.o().expect, hcall{phase: "PrePut", key: e.p.ns + k, q: cur.Q, s: cur.S})
		switch h.behave[2] {
		case 1:
			cur.S = replacedS(h.o().id)
			e.nReplace++
		case 2:
			e.nVeto++
			return cur, h.o().vetoErr()
		case 3:
			cur.S = replacedS(h.o().id)
			cur.Deleted = !cur.Deleted
			cur.TTL = 0
			e.nReplace++
			stats.Class("preput_hook_changed_the_deletion_state_of_the_record")
		}
	}
	return cur, nil
}

// modelNotify predicts the deliveries of one notification.
func (e *env) modelNotify(k string, cur srec) {
	for _, s := range e.subs {
		if !s.active {
			continue
		}
		if !s.reg.matches(k, &cur) {
			s.unmatched++
			continue
		}
		s.matched++
		if !cur.permits(s.local, s.internal) {
			e.nWithheld++
			continue
		}
		e.nDeliveries++
		s.expect = append(s.expect, delivery{key: e.p.ns + k, q: cur.Q, s: cur.S, deleted: cur.Deleted})
	}
	if e.cancelled {
		e.nCancelThenWrite++
	}
}

// ---------------------------------------------------------------- checks after a step

func (e *env) checkStep() {
	// subscriptions
	for _, s := range e.subs {
		who := fmt.Sprintf("subscription #%d (query %s, local=%v internal=%v)", s.id, s.reg, s.local, s.internal)
		var got []delivery
		closed := false
	drain:
		for {
			select {
			case item, ok := <-s.sub.Feed:
				if !ok {
					closed = true
					break drain
				}
				d, cur := snapFeedItemWith(e.read, item)
				if !cur.permits(s.local, s.internal) {
					e.failf("DELIVERY: %s received %s %s which it may not see", who, d.key, cur)
				}
				got = append(got, d)
			default:
				break drain
			}
		}
		if s.active && closed {
			e.failf("DELIVERY: feed of active %s is closed", who)
		}
		if !s.active && !closed {
			e.failf("CANCEL: feed of cancelled %s is not closed", who)
		}
		want := s.expect
		s.expect = nil
		if len(got) != len(want) {
			e.failf("DELIVERY: %s received%s, expected%s", who, fmtDeliveries(got), fmtDeliveries(want))
		}
		for i := range got {
			if got[i] != want[i] {
				e.failf("DELIVERY: %s received%s, expected%s", who, fmtDeliveries(got), fmtDeliveries(want))
			}
		}
	}
	// hooks
	for _, h := range e.hooks {
		if h.obj != nil {
			continue // judged with the object it shares
		}
		who := fmt.Sprintf("hook #%d (query %s, phases=%d, behaviour=%v, active=%v)", h.id, h.reg, h.phases, h.behave, h.active)
		for _, tw := range e.hooks {
			if tw.obj == h {
				who += fmt.Sprintf(" [the same Hook object is registered again as #%d with query %s, active=%v]", tw.id, tw.reg, tw.active)
			}
		}
		got := h.takeCalls()
		want := h.expect
		h.expect = nil
		if e.lenientPostGet {
			var f []hcall
			n := 0
			for _, c := range got {
				if c.phase != "PostGet" {
					f = append(f, c)
				} else {
					n++
				}
			}
			if want := e.mustPostGet[h.id]; n < want {
				e.failf("HOOK: %s declares PostGet and has no condition, the get loaded a (shadow-deleted) record under its prefix: expected %d PostGet call(s), got %d (all calls:%s)", who, want, n, fmtCalls(got))
			}
			got = f
		}
		same := len(got) == len(want)
		for i := 0; same && i < len(got); i++ {
			same = got[i] == want[i]
		}
		if !same {
			e.failf("HOOK: %s was called%s, expected%s", who, fmtCalls(got), fmtCalls(want))
		}
	}
	e.checkStorage()
}

// checkStorage compares a hook-free listing of the storage with the model.
func (e *env) checkStorage() {
	got := map[string]srec{}
	if e.p.inj != nil || e.p.reg != nil {
		var all []*record.Wrapper
		if e.p.inj != nil {
			all = e.p.inj.snapshot()
		} else {
			all = e.p.reg.snapshot()
		}
		for _, w := range all {
			cur, _ := readLocked(w)
			got[e.poolKey(w.DatabaseKey())] = cur
		}
	} else {
		// Query does not run hooks.
		it, err := e.w.Query(query.New(e.full("")))
		if err != nil {
			e.failf("harness: listing query failed: %v", err)
		}
		for r := range it.Next {
			r.Lock()
			cur, _ := e.read(r)
			r.Unlock()
			got[e.poolKey(r.DatabaseKey())] = cur
		}
		if err := it.Err(); err != nil {
			e.failf("harness: listing query ended with %v", err)
		}
	}
	want := map[string]srec{}
	for k, st := range e.store {
		if st != nil && !st.Deleted {
			want[k] = *st
		}
	}
	keys := map[string]bool{}
	for k := range got {
		keys[k] = true
	}
	for k := range want {
		keys[k] = true
	}
	var ks []string
	for k := range keys {
		ks = append(ks, k)
	}
	sort.Strings(ks)
	for _, k := range ks {
		g, gok := got[k]
		w, wok := want[k]
		if gok != wok || g != w {
			gs, ws := "absent", "absent"
			if gok {
				gs = g.String()
			}
			if wok {
				ws = w.String()
			}
			e.failf("STORAGE: key %q holds %s, expected %s (hook-free listing)", k, gs, ws)
		}
	}
}

// ---------------------------------------------------------------- executing ops

func (e *env) run(ops []opSpec) {
	for i, op := range ops {
		e.stepNo = i
		e.opName = op.Kind
		e.lenientPostGet = false
		e.mustPostGet = nil
		e.exec(op)
		e.checkStep()
	}
}

func (e *env) finish() {
	for _, s := range e.subs {
		if s.active {
			_ = s.sub.Cancel()
		}
	}
	for _, h := range e.hooks {
		if h.active {
			_ = h.rh.Cancel()
		}
	}
	if e.p.backend == beConfig {
		// drop the options of this case again
		config.VerifResetRegistry()
	}
}

func (e *env) regFor(op opSpec) (*qreg, bool) {
	if op.Share > 0 && len(e.regs) > 0 {
		e.nShared++
		return e.regs[(op.Share-1)%len(e.regs)], true
	}
	prefix := prefixPool[op.Prefix%len(prefixPool)]
	c := cond{Kind: op.Cond % 3}
	if e.p.backend == beConfig {
		// an exported option has an integer "Value" (absent when unset) and no string field of the model
		c.Field = "Value"
		if c.Kind == 2 {
			c.Kind = 0
		}
	}
	switch c.Kind {
	case 1:
		c.Arg = op.CondArg % 10
	case 2:
		c.Arg = op.CondArg % 3
	}
	r := &qreg{prefix: prefix, cond: c}
	r.q = c.apply(query.New(e.full(prefix)))
	e.regs = append(e.regs, r)
	return r, false
}

func (e *env) newRec(op opSpec) srec {
	e.nextQ++
	return srec{V: int64(op.V % 10), S: fmt.Sprintf("s%d", op.S%3), Q: e.nextQ, Secret: op.Flags&1 != 0, Crown: op.Flags&2 != 0, TTL: int64(op.TTL), Opaque: op.Raw}
}

func (e *env) exec(op opSpec) {
	k := keyPool[op.Key%len(keyPool)]
	if e.p.backend == beConfig {
		switch op.Kind {
		case "sub", "cancelsub":
		default:
			e.execConfig(op, k)
			return
		}
	}
	switch op.Kind {
	case "sub":
		if len(e.subs) >= 6 {
			return
		}
		reg, _ := e.regFor(op)
		s := &msub{id: len(e.subs), reg: reg, local: op.Local, internal: op.Internal, active: true}
		e.safely("Subscribe", func() {
			var err error
			s.sub, err = database.NewInterface(&database.Options{Local: op.Local, Internal: op.Internal}).Subscribe(reg.q)
			if err != nil {
				e.failf("Subscribe(%s) failed: %v", reg, err)
			}
		})
		e.subs = append(e.subs, s)

	case "cancelsub":
		if len(e.subs) == 0 {
			return
		}
		s := e.subs[op.Target%len(e.subs)]
		e.safely("Subscription.Cancel", func() {
			if err := s.sub.Cancel(); err != nil {
				e.failf("CANCEL: Cancel of subscription #%d returned %v", s.id, err)
			}
		})
		s.active = false
		e.cancelled = true

	case "hook":
		if len(e.hooks) >= 5 {
			return
		}
		reg, _ := e.regFor(op)
		h := &hhook{id: len(e.hooks), reg: reg, phases: op.Phases & 7, behave: op.Behave, dbName: e.p.dbName, active: true}
		if op.Twin > 0 && len(e.hooks) > 0 {
			first := e.hooks[(op.Twin-1)%len(e.hooks)].o()
			h.obj, h.phases, h.behave = first, first.phases, first.behave
			stats.Class("same_hook_object_registered_again_with_another_query")
		}
		if h.phases == 0 {
			h.phases = 4
		}
		if h.behave[2] == 3 && e.p.backend != beHashmap && e.p.backend != beBbolt {
			h.behave[2] = 1 // deletion-state changes only on the plain storages (no injected database defines a delete)
		}
		if h.behave[0] == 1 {
			h.behave[0] = 0 // PreGet has no record to replace
		}
		e.safely("RegisterHook", func() {
			var err error
			h.rh, err = database.RegisterHook(reg.q, h.o())
			if err != nil {
				e.failf("RegisterHook(%s) failed: %v", reg, err)
			}
		})
		e.hooks = append(e.hooks, h)

	case "cancelhook":
		if len(e.hooks) == 0 {
			return
		}
		h := e.hooks[op.Target%len(e.hooks)]
		e.safely("RegisteredHook.Cancel", func() {
			if err := h.rh.Cancel(); err != nil {
				e.failf("HOOK: Cancel of hook #%d returned %v", h.id, err)
			}
		})
		h.active = false
		e.cancelled = true

	case "setfail":
		if e.p.inj == nil {
			return
		}
		e.p.inj.setFail(e.p.ns+k, op.Fail)
		e.fail[k] = op.Fail

	case "push":
		if e.p.ctrl == nil && e.p.reg == nil {
			return
		}
		cur := e.newRec(op)
		w := newWrapper(e.full(k), cur.payload(), cur.Secret, cur.Crown)
		if cur.Opaque {
			w.Format = dsd.RAW
		}
		if cur.TTL > 0 {
			w.Meta().SetRelativateExpiry(cur.TTL)
		}
		w.UpdateMeta()
		e.nPush++
		e.modelNotify(k, cur)
		if e.p.reg != nil {
			// the runtime value changes on the provider's side, the provider pushes it
			cp := cur
			e.store[k] = &cp
			e.safely("runtime PushFunc", func() { e.p.reg.setAndPush(w) })
			return
		}
		e.safely("Controller.PushUpdate", func() {
			w.Lock()
			e.p.ctrl.PushUpdate(w)
			w.Unlock()
		})

	case "get":
		db, local, internal, name := e.iface(op.Iface)
		want := e.modelGet(k, local, internal)
		var rec record.Record
		var err error
		e.safely("Get", func() { rec, err = db.Get(e.full(k)) })
		switch {
		case want.failed():
			if err == nil {
				e.failf("GET: %s: Get(%q) returned a record, expected failure (veto=%v notfound=%v denied=%v)", name, k, want.err, want.notFound, want.denied)
			}
			if want.err != nil && !e.lenientPostGet && err.Error() != want.err.Error() {
				e.failf("HOOK: %s: Get(%q) failed with %q, expected the vetoing hook's error %q", name, k, err, want.err)
			}
		case err != nil:
			e.failf("GET: %s: Get(%q) failed with %q, expected %s", name, k, err, want.rec)
		default:
			rec.Lock()
			got, _ := readLocked(rec)
			rec.Unlock()
			if got != want.rec {
				e.failf("GET/HOOK: %s: Get(%q) returned %s, expected %s", name, k, got, want.rec)
			}
		}

	case "exists":
		// Exists is a get whose answer is reduced to yes / no / the error of a vetoing hook: the same hooks are called
		db, local, internal, name := e.iface(op.Iface)
		want := e.modelGet(k, local, internal)
		var ok bool
		var err error
		e.safely("Exists", func() { ok, err = db.Exists(e.full(k)) })
		switch {
		case want.err != nil:
			if err == nil || (!e.lenientPostGet && err.Error() != want.err.Error()) {
				e.failf("HOOK: %s: Exists(%q) returned (%v, %v), expected the vetoing hook's error %q", name, k, ok, err, want.err)
			}
		case e.lenientPostGet && want.notFound:
			// a shadow-deleted record is loaded and found invalid; a PostGet hook with a condition may have seen it and
			// vetoed (not compared, as for get): "no" or a veto, never "yes"
			if ok {
				e.failf("GET: %s: Exists(%q) says yes, the record is deleted", name, k)
			}
		case err != nil:
			e.failf("GET: %s: Exists(%q) failed with %q", name, k, err)
		case want.notFound && ok:
			e.failf("GET: %s: Exists(%q) says yes, the record is not there", name, k)
		case !want.notFound && !ok:
			e.failf("GET: %s: Exists(%q) says no, the record is there (denied=%v)", name, k, want.denied)
		}
		stats.Class("exists_judged_like_a_get")

	case "put", "putnew":
		db, local, internal, name := e.writerIface(op.Iface)
		if e.p.inj != nil && e.p.inj.readOnly {
			cur := e.newRec(op)
			var err error
			e.safely(op.Kind, func() { err = e.doPut(db, op.Kind, newWrapper(e.full(k), cur.payload(), cur.Secret, cur.Crown)) })
			if !errors.Is(err, database.ErrReadOnly) {
				e.failf("PUT: %s: %s(%q) on a read-only database returned %v, want ErrReadOnly", name, op.Kind, k, err)
			}
			stats.Class("write_refused_by_read_only_database")
			return
		}
		cur := e.newRec(op)
		w := newWrapper(e.full(k), cur.payload(), cur.Secret, cur.Crown)
		if cur.Opaque {
			w.Format = dsd.RAW
		}
		if cur.TTL > 0 {
			w.Meta().SetRelativateExpiry(cur.TTL)
			if op.Kind == "putnew" {
				cur.TTL = 0 // PutNew stores the record "as a new record": it resets the times kept in the metadata
			}
		}
		// interface pre-check (no hooks): an interface lacking a privilege may not overwrite a record it cannot see
		if st := e.store[k]; st != nil && !st.Deleted && !st.permits(local, internal) {
			var err error
			e.safely(op.Kind, func() { err = e.doPut(db, op.Kind, w) })
			if err == nil {
				e.failf("PUT: %s: %s(%q) overwrote a record it may not see", name, op.Kind, k)
			}
			return
		}
		stored, veto := e.modelPrePut(k, cur)
		storageFails := veto == nil && e.fail[k]
		if veto == nil && !storageFails {
			if stored.Deleted && !e.p.shadow {
				delete(e.store, k) // a PrePut hook made it a delete
			} else {
				e.store[k] = &stored
			}
			e.modelNotify(k, stored)
		}
		if storageFails {
			e.nFailWrite++
		}
		var err error
		e.safely(op.Kind, func() { err = e.doPut(db, op.Kind, w) })
		switch {
		case veto != nil:
			if err == nil || err.Error() != veto.Error() {
				e.failf("HOOK: %s: %s(%q) returned %v, expected the vetoing hook's error %q", name, op.Kind, k, err, veto)
			}
		case storageFails:
			if err == nil {
				e.failf("PUT: %s: %s(%q) succeeded although the storage refused the write", name, op.Kind, k)
			}
		case err != nil:
			e.failf("PUT: %s: %s(%q) failed with %q", name, op.Kind, k, err)
		}

	case "delete":
		db, local, internal, name := e.iface(op.Iface)
		if e.p.inj != nil && e.p.inj.readOnly {
			var err error
			e.safely("Delete", func() { err = db.Delete(e.full(k)) })
			if !errors.Is(err, database.ErrReadOnly) {
				e.failf("DELETE: %s: Delete(%q) on a read-only database returned %v, want ErrReadOnly", name, k, err)
			}
			stats.Class("write_refused_by_read_only_database")
			return
		}
		want := e.modelGet(k, local, internal)
		var veto error
		var stored srec
		storageFails := false
		if !want.failed() {
			stored = want.rec
			stored.Deleted = true
			stored.TTL = 0 // the deletion time takes the place of the relative expiry in the metadata
			if e.p.backend == beHashmap && stats.Excl("c14.hashmap_delete_veto") && e.wouldVetoPrePut(k, stored) {
				// open finding: excluded input class (see known-findings)
				stats.Excluded("c14.hashmap_delete_veto")
				e.undoExpectations()
				return
			}
			stored, veto = e.modelPrePut(k, stored)
			// a runtime registry has no delete: the storage refuses
			storageFails = veto == nil && (e.fail[k] || e.p.reg != nil)
			if veto == nil && !storageFails {
				if e.p.shadow || !stored.Deleted {
					cp := stored
					e.store[k] = &cp
				} else {
					delete(e.store, k)
				}
				e.modelNotify(k, stored)
			}
			if storageFails {
				e.nFailWrite++
			}
		}
		var err error
		e.safely("Delete", func() { err = db.Delete(e.full(k)) })
		switch {
		case want.failed():
			if err == nil {
				e.failf("DELETE: %s: Delete(%q) succeeded, expected failure (veto=%v notfound=%v denied=%v)", name, k, want.err, want.notFound, want.denied)
			}
			if want.err != nil && !e.lenientPostGet && err.Error() != want.err.Error() {
				e.failf("HOOK: %s: Delete(%q) failed with %q, expected the vetoing hook's error %q", name, k, err, want.err)
			}
		case veto != nil:
			if err == nil || err.Error() != veto.Error() {
				e.failf("HOOK: %s: Delete(%q) returned %v, expected the vetoing hook's error %q", name, k, err, veto)
			}
		case storageFails:
			if err == nil {
				e.failf("DELETE: %s: Delete(%q) succeeded although the storage refused the write", name, k)
			}
		case err != nil:
			e.failf("DELETE: %s: Delete(%q) failed with %q", name, k, err)
		}

	default:
		e.failf("harness: unknown op %q", op.Kind)
	}
}

func (e *env) doPut(db *database.Interface, kind string, w *record.Wrapper) error {
	if kind == "putnew" {
		return db.PutNew(w)
	}
	return db.Put(w)
}

// wouldVetoPrePut predicts (without recording expectations) whether the PrePut
// chain vetoes the record.
func (e *env) wouldVetoPrePut(k string, cur srec) bool {
	for _, h := range e.activeHooks() {
		if h.phases&4 == 0 || !h.reg.matches(k, &cur) {
			continue
		}
		switch h.behave[2] {
		case 1:
			cur.S = replacedS(h.o().id)
		case 2:
			return true
		case 3:
			cur.S = replacedS(h.o().id)
			cur.Deleted = !cur.Deleted
			cur.TTL = 0
		}
	}
	return false
}

// undoExpectations drops the expectations recorded for an operation that is
// not executed.
func (e *env) undoExpectations() {
	for _, h := range e.hooks {
		h.expect = nil
	}
	for _, s := range e.subs {
		s.expect = nil
	}
}
