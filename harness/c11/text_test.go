package c11

import (
	"math"
	"strconv"
	"strings"

	"pgregory.net/rapid"
)

// ---------------------------------------------------------------- grammar renderer
//
// Writes query text from the model using only database/query/README.md (and the
// clause order/keywords shown in the package's own tests): it never calls the
// printer. Choices: alternative operator names, every token either bare, bare with
// "\" escapes (README table "Everywhere else") or wrapped in '"' with '"' and '\'
// escaped (README table "Within parenthesis"), any run of blank/tab/CR/LF between
// tokens, optional blanks next to parentheses, optional parentheses around the
// whole where clause, inline "not" for clauses and "not (...)" for groups.

type renderer struct {
	t      *rapid.T
	pieces []string
	// measured
	altName, quoted, escaped, wideWS, tightParen int
}

func bareEscape(s string) string {
	var sb strings.Builder
	for i := 0; i < len(s); i++ { // bytes, so that invalid UTF-8 is passed through unchanged
		switch s[i] {
		case '(', ')', '"', '\\', '\t', '\r', '\n', ' ':
			sb.WriteByte('\\')
		}
		sb.WriteByte(s[i])
	}
	return sb.String()
}

func quoteEscape(s string) string {
	s = strings.ReplaceAll(s, `\`, `\\`)
	s = strings.ReplaceAll(s, `"`, `\"`)
	return `"` + s + `"`
}

func (r *renderer) token(s string) {
	x := uni(r.t, "tok_form", 100)
	switch {
	case s == "":
		r.quoted++
		r.pieces = append(r.pieces, `""`)
	case !needsQuoting(s):
		if x < 75 {
			r.pieces = append(r.pieces, s)
		} else {
			r.quoted++
			r.pieces = append(r.pieces, quoteEscape(s))
		}
	default:
		if x < 55 {
			r.quoted++
			r.pieces = append(r.pieces, quoteEscape(s))
		} else {
			r.escaped++
			r.pieces = append(r.pieces, bareEscape(s))
		}
	}
}

func (r *renderer) word(w string) { r.pieces = append(r.pieces, w) }

func (r *renderer) value(c *cond) {
	switch typeOfOp(c.op) {
	case tInt:
		r.token(strconv.FormatInt(c.i, 10))
	case tFloat:
		f := byte('g')
		if !math.IsInf(c.f, 0) && !math.IsNaN(c.f) {
			switch uni(r.t, "float_fmt", 6) {
			case 0:
				f = 'e'
			case 1:
				if a := math.Abs(c.f); a == 0 || (a > 1e-9 && a < 1e15) {
					f = 'f'
				}
			}
		}
		r.token(strconv.FormatFloat(c.f, f, -1, 64))
	case tString, tRegex:
		r.token(c.s)
	case tList:
		r.token(strings.Join(c.list, ","))
	case tBool:
		tx := boolTexts[c.b]
		r.token(tx[rapid.IntRange(0, len(tx)-1).Draw(r.t, "bool_text")])
	}
}

func (r *renderer) leaf(c *cond, negated bool) {
	r.token(c.key)
	if negated {
		r.word("not")
	}
	names := opNames[c.op]
	n := names[0]
	if len(names) > 1 && rapid.Bool().Draw(r.t, "alt_name") {
		n = names[1]
		r.altName++
	}
	r.word(n)
	if typeOfOp(c.op) != tExists {
		r.value(c)
	}
}

// item renders c as one element of a chain (or as the whole where clause).
func (r *renderer) item(c *cond, top bool) {
	switch c.k {
	case kLeaf:
		r.leaf(c, false)
	case kNot:
		inner := c.kids[0]
		switch inner.k {
		case kLeaf:
			r.leaf(inner, true) // name not matches "^King "
		case kNot:
			r.word("not")
			r.word("(")
			r.item(inner, false)
			r.word(")")
		default:
			r.word("not")
			r.item(inner, false) // emits its own parentheses
		}
	default:
		paren := !top || len(c.kids) < 2 || rapid.Bool().Draw(r.t, "top_paren")
		if paren {
			r.word("(")
		}
		conn := "and"
		if c.k == kOr {
			conn = "or"
		}
		for i, k := range c.kids {
			if i > 0 {
				r.word(conn)
			}
			r.item(k, false)
		}
		if paren {
			r.word(")")
		}
	}
}

func (r *renderer) sep(mandatory bool) string {
	x := uni(r.t, "ws", 100)
	switch {
	case !mandatory && x < 40:
		r.tightParen++
		return ""
	case x < 85:
		return " "
	default:
		r.wideWS++
		return string(rapid.SliceOfN(from([]rune{' ', ' ', '\t', '\n', '\r'}), 1, 3).Draw(r.t, "ws_run"))
	}
}

func (r *renderer) text(m *qmodel) string {
	r.word("query")
	r.token(m.prefix)
	if m.where != nil {
		r.word("where")
		r.item(m.where, true)
	}
	if m.orderBy != "" {
		r.word("orderby")
		r.token(m.orderBy)
	}
	if m.limit != 0 {
		r.word("limit")
		r.word(strconv.Itoa(m.limit))
	}
	if m.offset != 0 {
		r.word("offset")
		r.word(strconv.Itoa(m.offset))
	}
	var sb strings.Builder
	for i, p := range r.pieces {
		if i > 0 {
			prev := r.pieces[i-1]
			paren := p == "(" || p == ")" || prev == "(" || prev == ")"
			sb.WriteString(r.sep(!paren))
		}
		sb.WriteString(p)
	}
	// trailing blanks are harmless in the grammar
	if uni(r.t, "trail", 10) == 0 {
		sb.WriteString(" ")
	}
	return sb.String()
}
