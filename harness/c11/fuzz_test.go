package c11

import (
	"testing"

	"pgregory.net/rapid"
)

// FuzzParseQuery: raw parser input. Oracle = checkTotal (no panic, checked query or
// error, and whatever parses must survive print -> parse -> print unchanged).
func FuzzParseQuery(f *testing.F) {
	for _, s := range []string{
		"",
		"query",
		"query test:",
		`query test: where (bananas > 100 and monkeys.# <= 12) or not (coconuts < 10 and area not > 50) or name sameas Julian or name matches "^King " orderby name limit 10 offset 20`,
		`query test: where ( "bananas" > 100 and monkeys.# <= "12")or(coconuts < 10 "and" area > 50) or name sameas Julian or name matches ^King\ `,
		`query t: where (a == 1 and b == 2) or (c == 3 and d == 4)`,
		`query t: where not (a not == 1)`,
		`query t: where a sameas é`,
		`query t: where a sameas "x\\\\y\"" and b in "a b,c" limit 2147483647`,
		`query t: where a sameas "" offset 1`,
		`query "db:a b" where "a b" not ex orderby "x y"`,
		`query t: where a f== NaN or b f>= -Inf or c is T or d re ^\(x\)$`,
		`query t: where ()`,
		`query t: where not not (a ex)`,
		`query t: where a ex and`,
		`query t: where "unterminated`,
		"query t: where a sameas x\\",
		"query t:\twhere\na\r==\t1",
		`query t: where a in x`,
		`query t: limit 2147483648`,
		`query t: where a == 1 b == 2`,
		`query t: where a"b == 1`,
		"query \xff\xfe: where \xc3 sameas \xe6\x97",
	} {
		f.Add(s)
	}
	f.Fuzz(func(t *testing.T, in string) {
		checkTotal(t, in)
	})
}

// FuzzQueryModel drives the query-model generator of the round-trip properties from
// the fuzzer's bytes (coverage-guided instead of random): (a) and (b) on every input.
func FuzzQueryModel(f *testing.F) {
	f.Add([]byte{})
	f.Add([]byte{1, 2, 3, 4, 5, 6, 7, 8, 9, 10, 11, 12, 13, 14, 15, 16})
	f.Add([]byte("query t: where a sameas b and (c == 1 or d f> 2.5) orderby x limit 1 offset 2"))
	f.Add([]byte{0xff, 0xff, 0xff, 0xff, 0xff, 0xff, 0xff, 0xff, 0x80, 0, 0, 0, 0, 0, 0, 0, 0x40, 0, 0, 0, 0, 0, 0, 0})
	f.Fuzz(rapid.MakeFuzz(func(t *rapid.T) {
		if rapid.Bool().Draw(t, "text_direction") {
			propGrammarText(t)
		} else {
			propAPIRoundTrip(t)
		}
	}))
}
