// Package c11 decides C11: query text and query objects convert into each other
// without change of meaning; the parser is total and accepts the documented grammar.
package c11

import (
	"fmt"
	"math"
	"reflect"
	"strconv"
	"strings"

	"github.com/safing/portbase/database/query"
)

// ---------------------------------------------------------------- model
//
// The harness keeps its own query tree (the model). From the model it
//   - builds the query through the public API (build),
//   - renders query text from the documented grammar without using the printer (render, text_test.go),
//   - computes the canonical dump that the parsed query must have (dumpModel).
// The parsed / API-built query object is read back with reflection (dumpQuery), so that
// "tokens are preserved exactly" is decided on the object and not only through the printer.

type nodeKind uint8

const (
	kLeaf nodeKind = iota
	kAnd
	kOr
	kNot
)

type opType uint8

const (
	tInt opType = iota
	tFloat
	tString
	tList
	tRegex
	tBool
	tExists
)

func typeOfOp(op uint8) opType {
	switch {
	case op <= query.LessThanOrEqual:
		return tInt
	case op <= query.FloatLessThanOrEqual:
		return tFloat
	case op <= query.EndsWith:
		return tString
	case op == query.In:
		return tList
	case op == query.Matches:
		return tRegex
	case op == query.Is:
		return tBool
	default:
		return tExists
	}
}

// opNames lists the textual names of README.md, primary name first.
var opNames = map[uint8][]string{
	query.Equals:                  {"=="},
	query.GreaterThan:             {">"},
	query.GreaterThanOrEqual:      {">="},
	query.LessThan:                {"<"},
	query.LessThanOrEqual:         {"<="},
	query.FloatEquals:             {"f=="},
	query.FloatGreaterThan:        {"f>"},
	query.FloatGreaterThanOrEqual: {"f>="},
	query.FloatLessThan:           {"f<"},
	query.FloatLessThanOrEqual:    {"f<="},
	query.SameAs:                  {"sameas", "s=="},
	query.Contains:                {"contains", "co"},
	query.StartsWith:              {"startswith", "sw"},
	query.EndsWith:                {"endswith", "ew"},
	query.In:                      {"in"},
	query.Matches:                 {"matches", "re"},
	query.Is:                      {"is"},
	query.Exists:                  {"exists", "ex"},
}

const numOps = 18

type cond struct {
	k    nodeKind
	kids []*cond // and/or: children, not: exactly one

	// leaf
	op   uint8
	key  string
	i    int64
	f    float64
	s    string // string operand / regex source
	ex   string // regex: a string built to match the source (witness records)
	list []string
	b    bool
	// api selects the Go type in which the operand is handed to query.Where
	// (the constructors accept several, condition.go:42-76).
	api int
}

type qmodel struct {
	prefix  string // as handed to query.New
	where   *cond
	orderBy string
	limit   int
	offset  int
}

func splitPrefix(p string) (db, key string) {
	if i := strings.IndexByte(p, ':'); i >= 0 {
		return p[:i], p[i+1:]
	}
	return p, ""
}

// boolTexts are the strings README.md documents for the bool operand.
var boolTexts = map[bool][]string{
	true:  {"1", "t", "T", "true", "True", "TRUE"},
	false: {"0", "f", "F", "false", "False", "FALSE"},
}

// apiValue returns the operand in the Go type selected by c.api. Only forms that
// denote exactly the canonical operand are used.
func (c *cond) apiValue() any {
	switch typeOfOp(c.op) {
	case tInt:
		switch c.api % 6 {
		case 1:
			if c.i >= math.MinInt8 && c.i <= math.MaxInt8 {
				return int8(c.i)
			}
		case 2:
			if c.i >= 0 && c.i <= math.MaxUint16 {
				return uint16(c.i)
			}
		case 3:
			return strconv.FormatInt(c.i, 10)
		case 4:
			return int(c.i)
		case 5:
			if c.i >= math.MinInt32 && c.i <= math.MaxInt32 {
				return int32(c.i)
			}
		}
		return c.i
	case tFloat:
		switch c.api % 4 {
		case 1:
			if float64(float32(c.f)) == c.f && !(c.f == 0 && math.Signbit(c.f)) {
				return float32(c.f)
			}
		case 2:
			if c.f == math.Trunc(c.f) && math.Abs(c.f) < 1<<31 && !(c.f == 0 && math.Signbit(c.f)) {
				return int(c.f)
			}
		case 3:
			if !math.IsNaN(c.f) {
				return strconv.FormatFloat(c.f, 'g', -1, 64)
			}
		}
		return c.f
	case tString, tRegex:
		return c.s
	case tList:
		if c.api%2 == 1 && len(c.list) >= 2 {
			ok := true
			for _, e := range c.list {
				if strings.Contains(e, ",") {
					ok = false
				}
			}
			if ok {
				return strings.Join(c.list, ",")
			}
		}
		return c.list
	case tBool:
		if c.api%7 != 0 {
			tx := boolTexts[c.b]
			return tx[c.api%len(tx)]
		}
		return c.b
	}
	return nil
}

func (c *cond) build() query.Condition {
	switch c.k {
	case kAnd, kOr:
		kids := make([]query.Condition, len(c.kids))
		for i, k := range c.kids {
			kids[i] = k.build()
		}
		if c.k == kAnd {
			return query.And(kids...)
		}
		return query.Or(kids...)
	case kNot:
		return query.Not(c.kids[0].build())
	}
	return query.Where(c.key, c.op, c.apiValue())
}

func (m *qmodel) build() *query.Query {
	q := query.New(m.prefix)
	if m.where != nil {
		q.Where(m.where.build())
	}
	if m.orderBy != "" {
		q.OrderBy(m.orderBy)
	}
	if m.limit != 0 {
		q.Limit(m.limit)
	}
	if m.offset != 0 {
		q.Offset(m.offset)
	}
	return q
}

// ---------------------------------------------------------------- tree facts

type facts struct {
	leaves      int
	depth       int // nesting depth of groups/negations below the where clause
	groups      int
	nots        int
	notNot      bool
	single      bool // a group with exactly one child
	empty       bool // a group without children
	endsInGroup bool // the where clause ends with ")"
	special     bool // some key/operand/prefix/orderby needs quoting or is non-ASCII
	ops         map[uint8]bool
}

func needsQuoting(s string) bool {
	return s == "" || strings.ContainsAny(s, "()\"\\\t\r\n ")
}

func isSpecial(s string) bool {
	if needsQuoting(s) {
		return true
	}
	for _, r := range s {
		if r >= 0x80 || r == ',' {
			return true
		}
	}
	return false
}

func (c *cond) collect(f *facts, depth int) {
	if depth > f.depth {
		f.depth = depth
	}
	switch c.k {
	case kLeaf:
		f.leaves++
		f.ops[c.op] = true
		if isSpecial(c.key) {
			f.special = true
		}
		switch typeOfOp(c.op) {
		case tString, tRegex:
			if isSpecial(c.s) {
				f.special = true
			}
		case tList:
			for _, e := range c.list {
				if isSpecial(e) {
					f.special = true
				}
			}
		}
	case kNot:
		f.nots++
		if c.kids[0].k == kNot {
			f.notNot = true
		}
		c.kids[0].collect(f, depth+1)
	default:
		f.groups++
		if len(c.kids) == 1 {
			f.single = true
		}
		if len(c.kids) == 0 {
			f.empty = true
		}
		for _, k := range c.kids {
			k.collect(f, depth+1)
		}
	}
}

// lastIsGroup reports whether the text of the where clause ends in a parenthesised group.
func (c *cond) lastIsGroup(top bool) bool {
	switch c.k {
	case kLeaf:
		return false
	case kNot:
		return c.kids[0].k != kLeaf
	default:
		if !top {
			return true
		}
		if len(c.kids) == 0 {
			return false
		}
		return c.kids[len(c.kids)-1].lastIsGroup(false)
	}
}

func (m *qmodel) facts() *facts {
	f := &facts{ops: map[uint8]bool{}}
	if m.where != nil {
		m.where.collect(f, 0)
		f.endsInGroup = m.where.lastIsGroup(true)
	}
	db, key := splitPrefix(m.prefix)
	if isSpecial(db) && db != "" || isSpecial(key) && key != "" || (m.orderBy != "" && isSpecial(m.orderBy)) {
		f.special = true
	}
	return f
}

func (c *cond) leavesList(out []*cond) []*cond {
	if c == nil {
		return out
	}
	if c.k == kLeaf {
		return append(out, c)
	}
	for _, k := range c.kids {
		out = k.leavesList(out)
	}
	return out
}

// ---------------------------------------------------------------- canonical dump

func dumpFloat(f float64) string {
	if math.IsNaN(f) {
		return "NaN"
	}
	return fmt.Sprintf("%016x", math.Float64bits(f))
}

func dumpLeaf(op uint8, key string, val string) string {
	return fmt.Sprintf("L{%d %q %s}", op, key, val)
}

// dumpCond renders the model tree. Groups with exactly one child denote their child
// (the grammar has no way to tell "(x)" from "x", the parser returns the child).
func (c *cond) dump() string {
	switch c.k {
	case kAnd, kOr:
		if len(c.kids) == 1 {
			return c.kids[0].dump()
		}
		parts := make([]string, len(c.kids))
		for i, k := range c.kids {
			parts[i] = k.dump()
		}
		name := "AND"
		if c.k == kOr {
			name = "OR"
		}
		return name + "(" + strings.Join(parts, ";") + ")"
	case kNot:
		return "NOT(" + c.kids[0].dump() + ")"
	}
	switch typeOfOp(c.op) {
	case tInt:
		return dumpLeaf(c.op, c.key, strconv.FormatInt(c.i, 10))
	case tFloat:
		return dumpLeaf(c.op, c.key, dumpFloat(c.f))
	case tString, tRegex:
		return dumpLeaf(c.op, c.key, strconv.Quote(c.s))
	case tList:
		return dumpLeaf(c.op, c.key, dumpList(c.list))
	case tBool:
		return dumpLeaf(c.op, c.key, strconv.FormatBool(c.b))
	}
	return dumpLeaf(c.op, c.key, "-")
}

func dumpList(l []string) string {
	parts := make([]string, len(l))
	for i, e := range l {
		parts[i] = strconv.Quote(e)
	}
	return "[" + strings.Join(parts, ",") + "]"
}

func (m *qmodel) dump() string {
	db, key := splitPrefix(m.prefix)
	w := "-"
	if m.where != nil {
		w = m.where.dump()
	}
	lim, off := m.limit, m.offset
	return fmt.Sprintf("Q{db=%q prefix=%q order=%q limit=%d offset=%d where=%s}", db, key, m.orderBy, lim, off, w)
}

// dumpQuery reads a query object back through reflection (all fields of the
// query package are unexported; reading basic kinds needs no hook).
func dumpQuery(q *query.Query) string {
	v := reflect.ValueOf(q).Elem()
	w := "-"
	if wv := v.FieldByName("where"); !wv.IsNil() {
		w = dumpCondValue(wv)
	}
	return fmt.Sprintf("Q{db=%q prefix=%q order=%q limit=%d offset=%d where=%s}",
		v.FieldByName("dbName").String(), v.FieldByName("dbKeyPrefix").String(), v.FieldByName("orderBy").String(),
		v.FieldByName("limit").Int(), v.FieldByName("offset").Int(), w)
}

func dumpCondValue(v reflect.Value) string {
	for v.Kind() == reflect.Interface {
		v = v.Elem()
	}
	if !v.IsValid() || v.Kind() != reflect.Ptr || v.IsNil() {
		return "<nil>"
	}
	s := v.Elem()
	switch v.Type().String() {
	case "*query.andCond", "*query.orCond":
		cs := s.FieldByName("conditions")
		if cs.Len() == 1 {
			return dumpCondValue(cs.Index(0))
		}
		parts := make([]string, cs.Len())
		for i := range parts {
			parts[i] = dumpCondValue(cs.Index(i))
		}
		name := "AND"
		if v.Type().String() == "*query.orCond" {
			name = "OR"
		}
		return name + "(" + strings.Join(parts, ";") + ")"
	case "*query.notCond":
		return "NOT(" + dumpCondValue(s.FieldByName("notC")) + ")"
	}
	op := uint8(s.FieldByName("operator").Uint())
	key := s.FieldByName("key").String()
	switch v.Type().String() {
	case "*query.intCondition":
		return dumpLeaf(op, key, strconv.FormatInt(s.FieldByName("value").Int(), 10))
	case "*query.floatCondition":
		return dumpLeaf(op, key, dumpFloat(s.FieldByName("value").Float()))
	case "*query.stringCondition":
		return dumpLeaf(op, key, strconv.Quote(s.FieldByName("value").String()))
	case "*query.stringSliceCondition":
		lv := s.FieldByName("value")
		l := make([]string, lv.Len())
		for i := range l {
			l[i] = lv.Index(i).String()
		}
		return dumpLeaf(op, key, dumpList(l))
	case "*query.regexCondition":
		rv := s.FieldByName("regex")
		if rv.IsNil() {
			return dumpLeaf(op, key, "<nil regex>")
		}
		return dumpLeaf(op, key, strconv.Quote(rv.Elem().FieldByName("expr").String()))
	case "*query.boolCondition":
		return dumpLeaf(op, key, strconv.FormatBool(s.FieldByName("value").Bool()))
	case "*query.existsCondition":
		return dumpLeaf(op, key, "-")
	}
	return "<unknown " + v.Type().String() + ">"
}

// hasEmptyGroup inspects a query object for and/or groups without children.
func hasEmptyGroup(q *query.Query) bool {
	return emptyGroupIn(reflect.ValueOf(q).Elem().FieldByName("where"))
}

func emptyGroupIn(v reflect.Value) bool {
	for v.Kind() == reflect.Interface {
		v = v.Elem()
	}
	if !v.IsValid() || v.Kind() != reflect.Ptr || v.IsNil() {
		return false
	}
	s := v.Elem()
	switch v.Type().String() {
	case "*query.andCond", "*query.orCond":
		cs := s.FieldByName("conditions")
		if cs.Len() == 0 {
			return true
		}
		for i := 0; i < cs.Len(); i++ {
			if emptyGroupIn(cs.Index(i)) {
				return true
			}
		}
	case "*query.notCond":
		return emptyGroupIn(s.FieldByName("notC"))
	}
	return false
}
