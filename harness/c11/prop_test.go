package c11

import (
	"fmt"
	"os"
	"strings"
	"testing"

	"github.com/safing/portbase/database/query"
	"pgregory.net/rapid"

	"verifharness/internal/stats"
)

func TestMain(m *testing.M) { stats.Main(m) }

// devOnlyWitness is never set by the driver.
var devOnlyWitness = os.Getenv("C11_DEV_ONLY_WITNESS") == "1"

type fataler interface {
	Fatalf(format string, args ...any)
}

// parse calls ParseQuery and turns a panic into a failure of the case; it also
// checks the result contract "either a checked query or an error".
func parse(t fataler, text string) (*query.Query, error) {
	var (
		q   *query.Query
		err error
	)
	func() {
		defer func() {
			if r := recover(); r != nil {
				t.Fatalf("ParseQuery panicked on %q: %v", text, r)
			}
		}()
		q, err = query.ParseQuery(text)
	}()
	switch {
	case err == nil && q == nil:
		t.Fatalf("ParseQuery(%q) returned neither a query nor an error", text)
	case err != nil && q != nil:
		t.Fatalf("ParseQuery(%q) returned a query together with error %q", text, err)
	case err == nil && !q.IsChecked():
		t.Fatalf("ParseQuery(%q) returned an unchecked query", text)
	}
	return q, err
}

func printQ(t fataler, q *query.Query, what string) (s string) {
	defer func() {
		if r := recover(); r != nil {
			t.Fatalf("Print panicked on %s: %v", what, r)
		}
	}()
	return q.Print()
}

// reparse is the core of the round trip: q is a checked query (built through the API
// or returned by the parser). Its text must parse, print identically, and denote the same
// tree with exactly the same key/prefix/value tokens.
func reparse(t fataler, q *query.Query, origin string) (*query.Query, string) {
	p1 := printQ(t, q, origin)
	q2, err := parse(t, p1)
	if err != nil {
		t.Fatalf("the printed text of a checked query does not parse\n  origin: %s\n  printed: %q\n  error: %v", origin, p1, err)
	}
	p2 := printQ(t, q2, "reparsed "+origin)
	if devOnlyWitness {
		// development switch for the sensitivity runs (NOTES.md): leaves only the
		// record-matching oracle active so that its own strength can be measured
		return q2, p1
	}
	if p1 != p2 {
		t.Fatalf("print -> parse -> print is not stable\n  origin: %s\n  first:  %q\n  second: %q", origin, p1, p2)
	}
	if d1, d2 := dumpQuery(q), dumpQuery(q2); d1 != d2 {
		t.Fatalf("print -> parse changed the query (tokens or structure)\n  origin: %s\n  printed: %q\n  before: %s\n  after:  %s", origin, p1, d1, d2)
	}
	return q2, p1
}

// sameMatches: both queries match exactly the same witness records.
func sameMatches(t fataler, rt *rapid.T, a, b *query.Query, leaves []*cond, text string, boundaryCap, randomN int) {
	check := func(w *witness, kind string) {
		for _, s := range shapes {
			ra, pa := match(s, a, w)
			if pa != nil {
				stats.Warn("accessor panic (not C11): %v", pa)
				stats.Class("witness_accessor_panic")
				return
			}
			rb, pb := match(s, b, w)
			if pb != nil {
				t.Fatalf("matching panicked only for the reparsed query %q on %s: %v", text, s.name, pb)
			}
			if ra != rb {
				t.Fatalf("query and reparsed query disagree on a record\n  text: %q\n  shape: %s\n  record: %s json=%s\n  original matches: %v, reparsed matches: %v\n  original: %s\n  reparsed: %s",
					text, s.name, strings.Join(w.desc, " "), w.json, ra, rb, dumpQuery(a), dumpQuery(b))
			}
			if s.name == "json_accessor" {
				if ra {
					stats.Class("witness_" + kind + "_both_match")
				} else {
					stats.Class("witness_" + kind + "_both_nomatch")
				}
			}
			if s.name == "struct_record" {
				if ra {
					stats.Class("witness_struct_both_match")
				} else {
					stats.Class("witness_struct_both_nomatch")
				}
			}
		}
	}
	// Matches() = MatchesKey() && MatchesRecord(): the key prefix is part of "the same records"
	_, kp := splitPrefix(keyPrefixOf(a))
	for _, k := range []string{kp, kp + "x", dropLastRune(kp), "", "x" + kp} {
		if ma, mb := a.MatchesKey(k), b.MatchesKey(k); ma != mb {
			t.Fatalf("query and reparsed query disagree on the record key %q: %v vs %v (text %q)", k, ma, mb, text)
		}
	}
	if len(leaves) == 0 {
		check(&witness{rec: &wrec{}, json: `{"a":1}`}, "random")
		return
	}
	n := len(leaves)
	if n > boundaryCap {
		n = boundaryCap
	}
	start := 0
	if len(leaves) > n {
		start = rapid.IntRange(0, len(leaves)-n).Draw(rt, "boundary_start")
	}
	for i := start; i < start+n; i++ {
		for v := 0; v < 3; v++ {
			check(drawWitness(rt, leaves, i, v), "boundary")
		}
	}
	for i := 0; i < randomN; i++ {
		check(drawWitness(rt, leaves, -1, 0), "random")
	}
}

func keyPrefixOf(q *query.Query) string { return q.DatabaseName() + ":" + q.DatabaseKeyPrefix() }

func fingerprintClasses(m *qmodel) (*facts, []string) {
	f := m.facts()
	return f, recordClasses(m, f)
}

// ---------------------------------------------------------------- (a) API-built queries

func propAPIRoundTrip(t *rapid.T) {
	m := genModel(t, false)
	q := m.build()
	cq, err := q.Check()
	if err != nil {
		// outside the domain of the property; the generator only produces valid operands, so this is a harness defect
		t.Fatalf("harness: generated query does not pass its own check: %v (model %s)", err, m.dump())
	}
	if d := dumpQuery(cq); d != m.dump() {
		t.Fatalf("harness/API: the query built through the API is not the generated one\n  model: %s\n  built: %s", m.dump(), d)
	}
	q2, text := reparse(t, cq, "API-built "+m.dump())
	leaves := m.where.leavesList(nil)
	sameMatches(t, t, cq, q2, leaves, text, 6, 3)

	f, classes := fingerprintClasses(m)
	stats.Case("api:"+text, nontrivial(f), classes...)
	if nontrivial(f) && f.depth >= 2 && f.special && stats.WantSample("api_round_trip") {
		stats.Sample("api_round_trip", map[string]any{"printed": text, "model": m.dump()})
	}
}

func TestPropAPIRoundTrip(t *testing.T) { rapid.Check(t, propAPIRoundTrip) }

// ---------------------------------------------------------------- (b) text from the documented grammar

func propGrammarText(t *rapid.T) {
	salt(t, 1)
	m := genModel(t, true)
	r := &renderer{t: t}
	text := r.text(m)
	q, err := parse(t, text)
	if err != nil {
		t.Fatalf("a query of the documented grammar is rejected\n  text: %q\n  error: %v\n  meaning: %s", text, err, m.dump())
	}
	if d := dumpQuery(q); d != m.dump() {
		t.Fatalf("a query of the documented grammar is parsed into something else (tokens or structure)\n  text: %q\n  want: %s\n  got:  %s", text, m.dump(), d)
	}
	// the same meaning built through the API must match the same records
	api, err := m.build().Check()
	if err != nil {
		t.Fatalf("harness: generated query does not pass its own check: %v", err)
	}
	sameMatches(t, t, api, q, m.where.leavesList(nil), text, 2, 2)
	// and what the parser returned is itself a checked query: its print must round-trip
	reparse(t, q, fmt.Sprintf("parsed from %q", text))

	f, classes := fingerprintClasses(m)
	for i := range classes {
		classes[i] = "g_" + classes[i]
	}
	if r.altName > 0 {
		classes = append(classes, "g_alt_operator_name")
	}
	if r.quoted > 0 {
		classes = append(classes, "g_quoted_token")
	}
	if r.escaped > 0 {
		classes = append(classes, "g_backslash_escaped_bare_token")
	}
	if r.wideWS > 0 {
		classes = append(classes, "g_tab_cr_lf_or_wide_whitespace")
	}
	if r.tightParen > 0 {
		classes = append(classes, "g_no_blank_next_to_parenthesis")
	}
	stats.Case("text:"+text, nontrivial(f), classes...)
	if nontrivial(f) && (r.escaped > 0 || r.altName > 0) && f.endsInGroup && stats.WantSample("grammar_text") {
		stats.Sample("grammar_text", map[string]any{"text": text, "meaning": m.dump()})
	}
}

func TestPropGrammarText(t *testing.T) { rapid.Check(t, propGrammarText) }

// ---------------------------------------------------------------- (c) totality

// checkTotal: any string gives a checked query or an error, never a panic; a returned
// query is a checked query like any other and must survive print -> parse.
func checkTotal(t fataler, text string) (parsed bool) {
	q, err := parse(t, text)
	if err != nil {
		return false
	}
	if hasEmptyGroup(q) && stats.Excl(flagEmptyGroup) {
		// "()" is accepted by the parser and yields And(); open finding q.empty_group
		stats.Excluded(flagEmptyGroup)
		return true
	}
	reparse(t, q, fmt.Sprintf("parsed from %q", text))
	return true
}

var soupVocabulary = []string{
	"query", "where", "orderby", "limit", "offset", "and", "or", "not", "(", ")", "(", ")", "\"", "\\", "\\\"", "\\\\", "\\ ", " ", " ", " ", "\t", "\n",
	"==", ">", ">=", "<", "<=", "f==", "f>", "f>=", "f<", "f<=", "sameas", "s==", "contains", "co", "startswith", "sw", "endswith", "ew",
	"in", "matches", "re", "is", "exists", "ex", "db:", "db:key", "a", "b", "name", "1", "0", "-1", "2147483647", "2147483648", "1.5", "NaN", "true", "f",
	"a,b", ",", "x,", "é", "日", "🜂", "\"a b\"", "\"\"", "\"(\"", "[a-", "^ab+$", "\xff", "\x00", "9223372036854775808",
}

func genSoup(t *rapid.T) string {
	n := uni(t, "soup_n", 25)
	var sb strings.Builder
	if uni(t, "soup_head", 10) < 8 {
		sb.WriteString("query db: ")
		if rapid.Bool().Draw(t, "soup_where") {
			sb.WriteString("where ")
		}
	}
	for i := 0; i < n; i++ {
		sb.WriteString(pick(t, "soup_tok", soupVocabulary))
		if uni(t, "soup_sp", 10) < 7 {
			sb.WriteByte(' ')
		}
	}
	return sb.String()
}

// genClauseSoup: mostly well-formed sequences of clauses, connectors and parentheses,
// so that a good share of the soups gets past the first token.
func genClauseSoup(t *rapid.T) string {
	var sb strings.Builder
	sb.WriteString("query ")
	sb.WriteString(pick(t, "cs_prefix", []string{"db:", "db:k", "\"a b:\"", "é:日", ":"}))
	sb.WriteString(" where")
	conns := []string{pick(t, "cs_conn0", []string{" and", " or"})} // one connector per open group
	first := true                                                   // no connector right after "(" / "where"
	n := 1 + uni(t, "cs_n", 8)
	for i := 0; i < n; i++ {
		if !first {
			c := conns[len(conns)-1]
			switch uni(t, "cs_connkind", 12) {
			case 0:
				c = pick(t, "cs_conn", []string{" and", " or", "", " not", " and not"})
			}
			sb.WriteString(c)
		}
		first = false
		switch uni(t, "cs_paren", 8) {
		case 0, 1:
			sb.WriteString(" (")
			conns = append(conns, pick(t, "cs_connN", []string{" and", " or"}))
		case 2:
			sb.WriteString(" not (")
			conns = append(conns, pick(t, "cs_connN", []string{" and", " or"}))
		}
		sb.WriteByte(' ')
		if uni(t, "cs_reserved_key", 40) == 0 {
			sb.WriteString(pick(t, "cs_rkey", []string{"not ", "and ", "\"(\" ", "or "}))
		}
		sb.WriteString(pick(t, "cs_key", []string{"a", "b.c", "\"a b\"", "é", "limit", "x\\ y", "\"\"", "k1", "k2", "k3", "a", "b.c", "\"a b\"", "é", "offset", "x\\ y", "k1", "k2", "k3", "a", "b.c", "k4", "é", "orderby", "日", "k1", "k2", "k3", "k5"}))
		if uni(t, "cs_neg", 5) == 0 {
			sb.WriteString(" not")
		}
		sb.WriteByte(' ')
		op := uint8(uni(t, "cs_op", numOps))
		names := opNames[op]
		sb.WriteString(names[uni(t, "cs_name", len(names))])
		ty := typeOfOp(op)
		if uni(t, "cs_valtype", 20) == 0 {
			ty = opType(uni(t, "cs_anytype", 7)) // operand of another type: mostly a value error
		}
		var vals []string
		switch ty {
		case tInt:
			vals = []string{"1", "-5", "0", "9223372036854775807", "\"12\"", "+3", "9223372036854775808"}
		case tFloat:
			vals = []string{"1.5", "-0", "NaN", "+Inf", "1e21", "\"2.5\"", "0x1p-2", "1e999"}
		case tString:
			vals = []string{"x", "\"a b\"", "\"\"", "é", "\"x\\\"y\"", "x\\\\", "\"()\"", "\"(\"", "and", "a\\ b", "日", "\\(", "not"}
		case tList:
			vals = []string{"a,b", "\"a b,c\"", ",", "a,b,c,d", "x", "é,日", "\"\""}
		case tRegex:
			vals = []string{"^a\\(b", "[a-", "^ab+$", "\"a b\"", "\\d+", "\"[\\\"]\"", "x"}
		case tBool:
			vals = []string{"true", "F", "0", "T", "yes"}
		}
		if ty != tExists {
			sb.WriteByte(' ')
			sb.WriteString(pick(t, "cs_val", vals))
		}
		if len(conns) > 1 && uni(t, "cs_close", 3) == 0 {
			sb.WriteString(pick(t, "cs_closeform", []string{")", " )", ") "}))
			conns = conns[:len(conns)-1]
		}
	}
	for len(conns) > 1 && uni(t, "cs_closeall", 12) != 0 {
		sb.WriteString(")")
		conns = conns[:len(conns)-1]
	}
	sb.WriteString(pick(t, "cs_tail", []string{"", "", "", " limit 5", " orderby a", " offset 0", " orderby \"a b\" limit 1 offset 2", " limit", " limit -1", " limit 5 limit 6", " where a ex"}))
	return sb.String()
}

func mutate(t *rapid.T, text string) string {
	rs := []rune(text)
	n := rapid.IntRange(1, 3).Draw(t, "mut_n")
	for i := 0; i < n; i++ {
		pos := 0
		if len(rs) > 0 {
			pos = rapid.IntRange(0, len(rs)).Draw(t, "mut_pos")
		}
		switch uni(t, "mut_kind", 6) {
		case 0: // delete one rune
			if pos < len(rs) {
				rs = append(rs[:pos:pos], rs[pos+1:]...)
			}
		case 1: // insert a vocabulary item
			ins := []rune(pick(t, "mut_ins", soupVocabulary))
			rs = append(rs[:pos:pos], append(ins, rs[pos:]...)...)
		case 2: // truncate
			rs = rs[:pos]
		case 3: // duplicate a span
			end := pos
			if pos < len(rs) {
				end = rapid.IntRange(pos, len(rs)).Draw(t, "mut_end")
			}
			span := append([]rune{}, rs[pos:end]...)
			rs = append(rs[:end:end], append(span, rs[end:]...)...)
		case 4: // replace a rune by a control character of the grammar
			if pos < len(rs) {
				rs[pos] = pick(t, "mut_rune", []rune{'(', ')', '"', '\\', ' ', '\t', ',', '日'})
			}
		default: // swap two blank-separated words
			words := strings.Split(string(rs), " ")
			if len(words) > 2 {
				a := rapid.IntRange(0, len(words)-1).Draw(t, "mut_a")
				b := rapid.IntRange(0, len(words)-1).Draw(t, "mut_b")
				words[a], words[b] = words[b], words[a]
				rs = []rune(strings.Join(words, " "))
			}
		}
	}
	return string(rs)
}

func propTotality(t *rapid.T) {
	salt(t, 2)
	var text, class string
	switch uni(t, "total_kind", 6) {
	case 0:
		text, class = rapid.String().Draw(t, "arbitrary"), "total_arbitrary_string"
	case 1:
		text, class = genSoup(t), "total_token_soup"
	case 2:
		m := genModel(t, false)
		q, err := m.build().Check()
		if err != nil {
			t.Fatalf("harness: generated query does not pass its own check: %v", err)
		}
		text, class = mutate(t, printQ(t, q, "generated")), "total_mutated_print"
	case 3:
		m := genModel(t, true)
		r := &renderer{t: t}
		text, class = mutate(t, r.text(m)), "total_mutated_grammar_text"
	case 4:
		text, class = genClauseSoup(t), "total_clause_soup"
	default:
		text, class = "query "+rapid.String().Draw(t, "arbitrary_tail"), "total_arbitrary_after_query"
	}
	ok := checkTotal(t, text)
	res := "_rejected"
	if ok {
		res = "_parsed"
	}
	stats.Case("total:"+text, len(text) > 8, class, class+res)
	if ok && (class == "total_token_soup" || class == "total_clause_soup") && len(text) > 30 && stats.WantSample("totality_parsed_soup") {
		stats.Sample("totality_parsed_soup", map[string]any{"input": text})
	}
	if !ok && class == "total_mutated_print" && stats.WantSample("totality_rejected_mutation") {
		stats.Sample("totality_rejected_mutation", map[string]any{"input": text})
	}
}

func TestPropTotality(t *testing.T) { rapid.Check(t, propTotality) }
