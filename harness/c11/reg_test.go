package c11

import (
	"testing"

	"github.com/safing/portbase/database/accessor"
	"github.com/safing/portbase/database/query"
)

// ---------------------------------------------------------------- helpers for literal cases

// apiCase: a query built through the API that passes its check must print to a text
// that parses back, prints identically, is the same tree, and matches the same JSON documents.
func apiCase(t *testing.T, q *query.Query, docs ...string) {
	t.Helper()
	cq, err := q.Check()
	if err != nil {
		t.Fatalf("harness: literal query does not pass its check: %v", err)
	}
	q2, text := reparse(t, cq, "literal "+dumpQuery(cq))
	for _, d := range docs {
		d1, d2 := d, d
		a, b := cq.MatchesAccessor(accessor.NewJSONAccessor(&d1)), q2.MatchesAccessor(accessor.NewJSONAccessor(&d2))
		if a != b {
			t.Fatalf("%q: original matches %s = %v, reparsed = %v", text, d, a, b)
		}
	}
}

// textCase: a text of the documented grammar must parse to exactly this meaning.
func textCase(t *testing.T, text string, want *query.Query) {
	t.Helper()
	cw, err := want.Check()
	if err != nil {
		t.Fatalf("harness: literal query does not pass its check: %v", err)
	}
	q, err := parse(t, text)
	if err != nil {
		t.Fatalf("%q is rejected: %v", text, err)
	}
	if d, w := dumpQuery(q), dumpQuery(cw); d != w {
		t.Fatalf("%q is parsed into\n  %s, want\n  %s", text, d, w)
	}
}

func leafS(key, val string) query.Condition   { return query.Where(key, query.SameAs, val) }
func leafI(key string, v int) query.Condition { return query.Where(key, query.Equals, v) }

// ---------------------------------------------------------------- regressions of fixed findings

// A where clause that ends in a parenthesised group was rejected ("unexpected end") or
// swallowed the following orderby/limit/offset keyword as a condition key.
func TestRegGroupAtEndOfClause(t *testing.T) {
	ab := query.And(leafI("a", 1), leafI("b", 2))
	cd := query.And(leafI("c", 3), leafI("d", 4))
	textCase(t, `query t: where (a == 1 and b == 2) or (c == 3 and d == 4)`, query.New("t:").Where(query.Or(ab, cd)))
	textCase(t, `query t: where not (a == 1 and b == 2)`, query.New("t:").Where(query.Not(ab)))
	textCase(t, `query t: where (a == 1 and b == 2)`, query.New("t:").Where(ab))
	textCase(t, `query t: where a == 1 or (c == 3 and d == 4) limit 5`, query.New("t:").Where(query.Or(leafI("a", 1), cd)).Limit(5))
	textCase(t, `query t: where (a == 1 and b == 2) orderby a offset 2`, query.New("t:").Where(ab).OrderBy("a").Offset(2))
	apiCase(t, query.New("t:").Where(query.Or(leafI("a", 1), cd)), `{"a":1}`, `{"c":3,"d":4}`, `{"c":3}`)
	apiCase(t, query.New("t:").Where(query.Not(ab)).Limit(3), `{"a":1,"b":2}`, `{"a":1}`)
}

// The last token of the text lost the trailing bytes of a final multi-byte rune.
func TestRegLastTokenMultiByte(t *testing.T) {
	textCase(t, `query t: where a sameas é`, query.New("t:").Where(leafS("a", "é")))
	textCase(t, `query t: where a sameas x日`, query.New("t:").Where(leafS("a", "x日")))
	textCase(t, `query db:日`, query.New("db:日"))
	textCase(t, `query t: orderby 名前`, query.New("t:").OrderBy("名前"))
	apiCase(t, query.New("t:").Where(leafS("a", "🜂")), `{"a":"🜂"}`, `{"a":"�"}`)
	apiCase(t, query.New("db:é"))
}

// The parser did not turn an escaped backslash (`\\`) back into one backslash.
func TestRegParserUnescapesBackslash(t *testing.T) {
	textCase(t, `query t: where a sameas "x\\\\y"`, query.New("t:").Where(leafS("a", `x\\y`)))
	textCase(t, `query t: where a sameas "\\"`, query.New("t:").Where(leafS("a", `\`)))
	textCase(t, `query t: where a sameas "x\\"`, query.New("t:").Where(leafS("a", `x\`)))
	textCase(t, `query t: where a sameas x\\ and b == 1`, query.New("t:").Where(query.And(leafS("a", `x\`), leafI("b", 1))))
	textCase(t, `query t: where a sameas "\\\""`, query.New("t:").Where(leafS("a", `\"`)))
}

// The printer wrapped a token with a backslash in quotes but did not escape the backslash.
func TestRegPrinterEscapesBackslash(t *testing.T) {
	apiCase(t, query.New("t:").Where(leafS("a", `x\y`)), `{"a":"x\\y"}`, `{"a":"xy"}`)
	apiCase(t, query.New("t:").Where(leafS("a", `x\`)), `{"a":"x\\"}`)
	apiCase(t, query.New("t:").Where(leafS("a", `\`)), `{"a":"\\"}`)
	apiCase(t, query.New("t:").Where(leafS("a", `\\`)), `{"a":"\\\\"}`, `{"a":"\\"}`)
	apiCase(t, query.New("t:").Where(query.Where("a", query.Matches, `^\d+\s"$`)), `{"a":"12 \""}`, `{"a":"dd"}`)
}

// prepToken trimmed every leading/trailing quote, also escaped ones that belong to the value.
func TestRegQuoteAtTokenEdge(t *testing.T) {
	textCase(t, `query t: where a sameas "\"x\""`, query.New("t:").Where(leafS("a", `"x"`)))
	textCase(t, `query t: where a sameas \"x\" and b == 1`, query.New("t:").Where(query.And(leafS("a", `"x"`), leafI("b", 1))))
	textCase(t, `query t: where a sameas "x\""`, query.New("t:").Where(leafS("a", `x"`)))
	apiCase(t, query.New("t:").Where(leafS("a", `"x"`)), `{"a":"\"x\""}`, `{"a":"x"}`)
	apiCase(t, query.New("t:").Where(leafS("a", `"`)), `{"a":"\""}`, `{"a":""}`)
	apiCase(t, query.New("t:").Where(query.Where("a", query.EndsWith, `x"`)), `{"a":"x\""}`, `{"a":"x"}`)
}

// An empty string operand was printed as nothing.
func TestRegEmptyOperand(t *testing.T) {
	apiCase(t, query.New("t:").Where(leafS("a", "")), `{"a":""}`, `{"a":"x"}`)
	apiCase(t, query.New("t:").Where(query.And(query.Where("a", query.StartsWith, ""), leafI("b", 1))), `{"a":"","b":1}`)
	apiCase(t, query.New("t:").Where(query.Where("a", query.In, []string{"", ""})), `{"a":""}`)
	apiCase(t, query.New("t:").Where(leafS("a", "")).Limit(1))
	textCase(t, `query t: where a sameas "" limit 1`, query.New("t:").Where(leafS("a", "")).Limit(1))
}

// Not(Not(x)) printed "key not not op value" (rejected); Not(Not(group)) printed
// "not not (...)" which parses as a single negation.
func TestRegNotNot(t *testing.T) {
	x := leafI("a", 1)
	apiCase(t, query.New("t:").Where(query.Not(query.Not(x))), `{"a":1}`, `{"a":2}`)
	apiCase(t, query.New("t:").Where(query.Not(query.Not(query.Not(x)))), `{"a":1}`, `{"a":2}`)
	apiCase(t, query.New("t:").Where(query.Not(query.Not(query.And(x, leafI("b", 2))))), `{"a":1,"b":2}`, `{"a":2}`)
	apiCase(t, query.New("t:").Where(query.Or(query.Not(query.Not(x)), leafI("b", 2))), `{"a":1}`, `{"a":2}`)
	textCase(t, `query t: where not (a not == 1)`, query.New("t:").Where(query.Not(query.Not(x))))
}

// Not(x) of a condition whose key needs quoting put the "not" inside the quoted key.
func TestRegNotWithQuotedKey(t *testing.T) {
	apiCase(t, query.New("t:").Where(query.Not(leafS("a b", "x"))))
	apiCase(t, query.New("t:").Where(query.Not(query.Where("a b c", query.Exists, nil))))
	apiCase(t, query.New("t:").Where(query.And(query.Not(leafS(" ", "x")), leafI("b", 1))))
}

// Prefix and orderby key were printed without escaping.
func TestRegPrefixEscaped(t *testing.T) {
	apiCase(t, query.New("db:a b"))
	apiCase(t, query.New(`d"b:x`))
	apiCase(t, query.New(`db:x\`).Where(leafI("a", 1)))
	apiCase(t, query.New("db:(x)"))
}

func TestRegOrderByEscaped(t *testing.T) {
	apiCase(t, query.New("t:").OrderBy("a b"))
	apiCase(t, query.New("t:").OrderBy(`"`))
	apiCase(t, query.New("t:").OrderBy("limit 5"))
	apiCase(t, query.New("t:").Where(leafI("a", 1)).OrderBy(`x\`).Limit(2))
}

// A group with a single condition printed "(x)", which parses to x and prints "x".
func TestRegSingleConditionGroup(t *testing.T) {
	x, y := leafI("a", 1), leafI("b", 2)
	apiCase(t, query.New("t:").Where(query.Or(query.And(x), y)), `{"a":1}`, `{"b":2}`, `{}`)
	apiCase(t, query.New("t:").Where(query.And(query.Or(x), query.Or(y))), `{"a":1}`, `{"a":1,"b":2}`)
	apiCase(t, query.New("t:").Where(query.Not(query.And(query.Not(x)))), `{"a":1}`, `{"a":2}`)
	apiCase(t, query.New("t:").Where(query.And(query.And(query.And(x)))), `{"a":1}`, `{"a":2}`)
}

// ---------------------------------------------------------------- witnesses of open findings

// q.in_short: an In list with fewer than two elements passes Check but its text is
// rejected ("could not parse … to []string" is demanded by the package's own TestParseErrors).
func TestWitnessInShort(t *testing.T) {
	apiCase(t, query.New("t:").Where(query.Where("a", query.In, []string{"x"})), `{"a":"x"}`)
}

// q.in_comma: the list is printed joined by commas; an element containing a comma
// comes back as two elements.
func TestWitnessInComma(t *testing.T) {
	apiCase(t, query.New("t:").Where(query.Where("a", query.In, []string{"a,b", "c"})), `{"a":"a,b"}`, `{"a":"a"}`)
}

// q.reserved_key: a key that is a control word cannot be written in the text form
// (the tokenizer drops the information that it was quoted).
func TestWitnessReservedKey(t *testing.T) {
	apiCase(t, query.New("t:").Where(query.Where("and", query.Exists, nil)), `{"and":1}`)
	apiCase(t, query.New("t:").Where(leafI("not", 1)), `{"not":1}`)
	apiCase(t, query.New("t:").Where(leafI("(", 1)))
}

// q.empty_group: And() / Or() pass Check but have no text form.
func TestWitnessEmptyGroup(t *testing.T) {
	apiCase(t, query.New("t:").Where(query.Or()), `{}`)
	apiCase(t, query.New("t:").Where(query.And(leafI("a", 1), query.Or())), `{"a":1}`)
}
