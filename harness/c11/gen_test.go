package c11

import (
	"math"
	"regexp"
	"strings"

	"github.com/safing/portbase/database/query"
	"pgregory.net/rapid"

	"verifharness/internal/stats"
)

// Exclusion flags of the open findings (known-findings). When a flag is active the
// generator avoids exactly that class by construction and counts the would-be case.
const (
	flagInShort     = "q.in_short"     // In list with fewer than two elements
	flagInComma     = "q.in_comma"     // In list with an element containing a comma
	flagReservedKey = "q.reserved_key" // condition key that is a control word: and, or, not, (, )
	flagEmptyGroup  = "q.empty_group"  // And()/Or() without conditions
)

const maxDepth = 4

// ---------------------------------------------------------------- strings

// alphabet of the property's quantifier: letters, digits, space, tab, quote,
// backslash, parentheses, comma and multi-byte runes (plus CR/LF, the other two
// control characters README.md names). Repetition = weight.
var alphabet = []rune{
	'a', 'b', 'c', 'x', 'y', 'Z', 'K', '0', '1', '7', 'a', 'b', 'e', 'n', 't',
	' ', ' ', '\t', '"', '"', '\\', '\\', '(', ')', ',', ',',
	'é', '日', '🜂', 'ß', '\n', '\r', '-', '.', '_', ':', '#', '=', '>', '\v', '\u00a0', '\x00', '\'',
}

var plainAlphabet = []rune{'a', 'b', 'c', 'x', 'y', 'Z', 'K', '0', '1', '7', 'e', 'n', 't', 'é', '日', '-', '.', '_'}

// wholeStrings are operand values that are interesting as a whole.
var wholeStrings = []string{
	"", " ", "\"", "\\", "\\\\", "\"\"", "\\\"", "(", ")", "()", "and", "or", "not", "where", "limit",
	"a b", "a\\b", "a\"b", "\"a\"", "a\\", "\\a", "日", "é", "x🜂", "true", "12", "a,b", ",", "\t", "a\nb", "it's", "\\ ", " \\",
	"\xff", "a\xc3", "\xe6\x97", "x\\\xff", // invalid UTF-8 is still a Go string
}

func genStr(t *rapid.T, label string, maxLen int) string {
	switch r := uni(t, label+"_kind", 100); {
	case r < 20:
		return pick(t, label+"_whole", wholeStrings)
	case r < 45:
		return string(rapid.SliceOfN(from(plainAlphabet), 1, maxLen).Draw(t, label+"_plain"))
	default:
		return string(rapid.SliceOfN(from(alphabet), 0, maxLen).Draw(t, label))
	}
}

// ---------------------------------------------------------------- keys

var schemaKeys = map[opType][]string{
	tInt:    {"I1", "I2", "U1"},
	tFloat:  {"F1", "F2"},
	tString: {"S1", "S2"},
	tList:   {"S1", "S2"},
	tRegex:  {"S1", "S2"},
	tBool:   {"B1", "B2"},
	tExists: {"S1", "I1", "F1", "B1", "Nope"},
}

var advisedKeys = []string{
	"name", "age", "sub.name", "sub.deep.x", "arr.0", "arr.2", "arr.#", "tags.#", "k1",
	"orderby", "limit", "offset", "where", "query", "in", "is", "exists", "true", "sameas",
}

var nonASCIIKeys = []string{"größe", "名前", "clé", "ключ", "k🜂", "日"}

var reservedKeys = []string{"and", "or", "not", "(", ")"}

func isReservedKey(k string) bool {
	for _, r := range reservedKeys {
		if k == r {
			return true
		}
	}
	return false
}

var freeKey = rapid.StringMatching(`[A-Za-z][A-Za-z0-9]{0,6}`)

func genKey(t *rapid.T, ty opType, label string, grammar bool) (key string, class string) {
	switch r := uni(t, label+"_kind", 100); {
	case r < 50:
		key, class = pick(t, label+"_schema", schemaKeys[ty]), "key_schema"
	case r < 65:
		key, class = pick(t, label+"_advised", advisedKeys), "key_advised"
	case r < 78:
		key, class = freeKey.Draw(t, label+"_free"), "key_free"
	case r < 86:
		key, class = pick(t, label+"_nonascii", nonASCIIKeys), "key_nonascii"
	case r < 96:
		key, class = genStr(t, label+"_special", 4), "key_special"
	default:
		key, class = pick(t, label+"_reserved", reservedKeys), "key_reserved"
	}
	if isReservedKey(key) {
		if grammar {
			// a control word cannot be a key in the documented grammar
			return "k" + key, "key_special"
		}
		if stats.Excl(flagReservedKey) {
			stats.Excluded(flagReservedKey)
			return "k" + key, "key_special"
		}
		return key, "key_reserved"
	}
	return key, class
}

// ---------------------------------------------------------------- operands

var intBoundaries = []int64{
	math.MinInt64, math.MinInt64 + 1, math.MaxInt64, math.MaxInt64 - 1, 1 << 31, -(1 << 31), 1<<31 - 1, 1 << 53, 1<<53 + 1, -(1 << 53) - 1,
	1 << 62, 255, 256, 65535, 65536, 127, 128, -128, -129,
}

func genInt(t *rapid.T) int64 {
	switch uni(t, "int_kind", 5) {
	case 0:
		return int64(rapid.IntRange(-3, 3).Draw(t, "int_small"))
	case 1:
		return rapid.Int64().Draw(t, "int_uniform")
	case 2:
		return pick(t, "int_boundary", intBoundaries)
	case 3:
		return int64(rapid.IntRange(-1000, 1000).Draw(t, "int_mid"))
	default:
		return int64(uni(t, "int_u16", 65536))
	}
}

var floatSpecials = []float64{
	0, math.Copysign(0, -1), math.Inf(1), math.Inf(-1), math.NaN(), math.MaxFloat64, -math.MaxFloat64,
	math.SmallestNonzeroFloat64, 1e21, 1e20, 1e-7, 0.1, 1.0 / 3.0, 120.413, 1 << 53, 1<<53 + 2, 0.000001, 1e-5, 123456789.125,
}

func genFloat(t *rapid.T) float64 {
	switch uni(t, "float_kind", 5) {
	case 0:
		return float64(rapid.IntRange(-3, 3).Draw(t, "float_small"))
	case 1:
		return float64(rapid.IntRange(-10000, 10000).Draw(t, "float_dec")) / 10
	case 2:
		return pick(t, "float_special", floatSpecials)
	case 3:
		return rapid.Float64().Draw(t, "float_uniform")
	default:
		return float64(rapid.Float32().Draw(t, "float_f32"))
	}
}

// regexPieces: source fragment and a string it matches.
var regexPieces = [][2]string{
	{`^`, ""}, {`$`, ""}, {`abc`, "abc"}, {`[a-c]+`, "abca"}, {`\d{2}`, "42"}, {`(x|y)`, "y"}, {`.*`, "zz"}, {`\s`, " "}, {`\\`, `\`},
	{`"`, `"`}, {` `, " "}, {`\(`, "("}, {`\)`, ")"}, {`é`, "é"}, {`日+`, "日日"}, {`🜂`, "🜂"}, {`a b`, "a b"}, {`,`, ","}, {`\t`, "\t"},
	{`[^"]`, "q"}, {`\x41`, "A"}, {`(?i)k`, "K"}, {`x?`, ""}, {`[\\"]`, `\`},
}

func genRegex(t *rapid.T) (src, example string) {
	n := rapid.IntRange(1, 3).Draw(t, "re_n")
	var sb, ex strings.Builder
	for i := 0; i < n; i++ {
		if uni(t, "re_kind", 4) == 0 {
			// regexp.Compile rejects patterns that are not valid UTF-8
			lit := strings.ToValidUTF8(genStr(t, "re_lit", 3), "?")
			sb.WriteString(regexp.QuoteMeta(lit))
			ex.WriteString(lit)
		} else {
			p := pick(t, "re_piece", regexPieces)
			sb.WriteString(p[0])
			ex.WriteString(p[1])
		}
	}
	src = sb.String()
	if _, err := regexp.Compile(src); err != nil {
		stats.Class("regex_fallback")
		return regexp.QuoteMeta(src), src
	}
	return src, ex.String()
}

func genList(t *rapid.T, grammar bool) []string {
	var n int
	switch r := uni(t, "list_n_kind", 100); {
	case r < 3:
		n = 0
	case r < 10:
		n = 1
	default:
		n = rapid.IntRange(2, 4).Draw(t, "list_n")
	}
	l := make([]string, 0, 4)
	for i := 0; i < n; i++ {
		l = append(l, genStr(t, "list_elem", 4))
	}
	if len(l) < 2 && (grammar || stats.Excl(flagInShort)) {
		if !grammar {
			stats.Excluded(flagInShort)
		}
		for len(l) < 2 {
			l = append(l, genStr(t, "list_pad", 3))
		}
	}
	comma := false
	for _, e := range l {
		if strings.Contains(e, ",") {
			comma = true
		}
	}
	if comma && (grammar || stats.Excl(flagInComma)) {
		if !grammar {
			stats.Excluded(flagInComma)
		}
		for i := range l {
			l[i] = strings.ReplaceAll(l[i], ",", ";")
		}
	}
	return l
}

func genLeaf(t *rapid.T, grammar bool) *cond {
	c := &cond{k: kLeaf}
	c.op = uint8(rapid.IntRange(0, numOps-1).Draw(t, "op"))
	c.api = uni(t, "api", 42)
	ty := typeOfOp(c.op)
	var class string
	c.key, class = genKey(t, ty, "key", grammar)
	stats.Class(class)
	switch ty {
	case tInt:
		c.i = genInt(t)
	case tFloat:
		c.f = genFloat(t)
	case tString:
		c.s = genStr(t, "sval", 6)
	case tRegex:
		c.s, c.ex = genRegex(t)
	case tList:
		c.list = genList(t, grammar)
	case tBool:
		c.b = rapid.Bool().Draw(t, "bval")
	}
	return c
}

func genCond(t *rapid.T, depth int, grammar bool) *cond {
	r := uni(t, "node", 100)
	leafP := 30 + 17*depth
	if depth >= maxDepth || r < leafP {
		return genLeaf(t, grammar)
	}
	rest := 100 - leafP
	switch x := (r - leafP) * 100 / rest; {
	case x < 36, x < 72:
		c := &cond{k: kAnd}
		if x >= 36 {
			c.k = kOr
		}
		var n int
		switch s := uni(t, "group_size_kind", 100); {
		case s < 3:
			n = 0
		case s < 12:
			n = 1
		default:
			n = rapid.IntRange(2, 4).Draw(t, "group_size")
		}
		if n == 0 && (grammar || stats.Excl(flagEmptyGroup)) {
			if !grammar {
				stats.Excluded(flagEmptyGroup)
			}
			n = 2
		}
		for i := 0; i < n; i++ {
			c.kids = append(c.kids, genCond(t, depth+1, grammar))
		}
		return c
	default:
		return &cond{k: kNot, kids: []*cond{genCond(t, depth+1, grammar)}}
	}
}

var (
	dbNameGen = rapid.StringMatching(`[a-z]{1,5}`)
	dbPathGen = rapid.StringMatching(`[a-z0-9/._-]{0,8}`)
)

func genPrefix(t *rapid.T) (string, string) {
	switch r := uni(t, "prefix_kind", 100); {
	case r < 65:
		return dbNameGen.Draw(t, "db") + ":" + dbPathGen.Draw(t, "path"), "prefix_plain"
	case r < 75:
		return pick(t, "prefix_odd", []string{"", ":", "db", "db:", ":x", "a:b:c", "query", "where"}), "prefix_odd"
	case r < 87:
		return pick(t, "prefix_nonascii", []string{"db:路径/é", "db:é", "ü:", "数据", "core:🜂", "db:x/日"}), "prefix_nonascii"
	default:
		return genStr(t, "prefix_special", 6), "prefix_special"
	}
}

func genOrderBy(t *rapid.T) (string, string) {
	switch r := uni(t, "orderby_kind", 100); {
	case r < 50:
		return "", "orderby_none"
	case r < 82:
		return pick(t, "orderby_advised", advisedKeys), "orderby_plain"
	case r < 90:
		return pick(t, "orderby_nonascii", nonASCIIKeys), "orderby_nonascii"
	default:
		s := genStr(t, "orderby_special", 5)
		if s == "" {
			return "", "orderby_none"
		}
		return s, "orderby_special"
	}
}

// genCount draws limit/offset within the bound the parser documents for itself
// (strconv.ParseUint(…, 10, 31)); 0 means "not set".
func genCount(t *rapid.T, label string) int {
	switch r := uni(t, label+"_kind", 100); {
	case r < 50:
		return 0
	case r < 75:
		return rapid.IntRange(1, 100).Draw(t, label+"_small")
	case r < 85:
		return pick(t, label+"_boundary", []int{1, 1<<31 - 1, 1<<31 - 2, 1 << 30, 10, 9, 99, 100})
	default:
		return rapid.IntRange(1, 1<<31-1).Draw(t, label+"_uniform")
	}
}

func genModel(t *rapid.T, grammar bool) *qmodel {
	m := &qmodel{}
	var pc, oc string
	m.prefix, pc = genPrefix(t)
	stats.Class(pc)
	if uni(t, "has_where", 100) >= 4 {
		m.where = genCond(t, 0, grammar)
	}
	m.orderBy, oc = genOrderBy(t)
	stats.Class(oc)
	m.limit = genCount(t, "limit")
	m.offset = genCount(t, "offset")
	return m
}

// recordClasses measures the generator (DESIGN.md section 5).
func recordClasses(m *qmodel, f *facts) []string {
	cl := []string{
		"depth_" + itoa(f.depth),
	}
	switch {
	case f.leaves == 0:
		cl = append(cl, "leaves_0")
	case f.leaves == 1:
		cl = append(cl, "leaves_1")
	case f.leaves <= 4:
		cl = append(cl, "leaves_2_4")
	case f.leaves <= 12:
		cl = append(cl, "leaves_5_12")
	default:
		cl = append(cl, "leaves_13_up")
	}
	for op := range f.ops {
		cl = append(cl, "op_"+opNames[op][0])
	}
	if f.notNot {
		cl = append(cl, "not_not")
	}
	if f.nots > 0 {
		cl = append(cl, "has_not")
	}
	if f.single {
		cl = append(cl, "single_child_group")
	}
	if f.empty {
		cl = append(cl, "empty_group")
	}
	if f.endsInGroup {
		cl = append(cl, "where_ends_in_group")
	}
	if f.special {
		cl = append(cl, "special_token")
	}
	if m.orderBy != "" || m.limit != 0 || m.offset != 0 {
		cl = append(cl, "has_orderby_limit_offset")
	}
	if m.limit != 0 && m.offset != 0 && m.orderBy != "" {
		cl = append(cl, "has_orderby_and_limit_and_offset")
	}
	for _, l := range m.where.leavesList(nil) {
		if typeOfOp(l.op) == tList {
			cl = append(cl, "in_list_len_"+itoa(len(l.list)))
		}
	}
	return cl
}

func itoa(i int) string {
	if i > 9 {
		return "10_up"
	}
	return string(rune('0' + i))
}

func nontrivial(f *facts) bool {
	return f.leaves >= 2 || f.depth >= 2 || f.special
}

var _ = query.Equals
