package c11

import (
	"fmt"
	"math"
	"strings"
	"sync"
	"unicode/utf8"

	"github.com/safing/portbase/database/accessor"
	"github.com/safing/portbase/database/query"
	"github.com/safing/portbase/database/record"
	"github.com/safing/portbase/formats/dsd"
	"github.com/tidwall/sjson"
	"pgregory.net/rapid"
)

// wrec is the harness schema: one field or two per operand type of README.md.
type wrec struct {
	record.Base
	sync.Mutex

	S1, S2 string
	I1, I2 int64
	U1     uint16
	F1, F2 float64
	B1, B2 bool
}

// witness is one record in its three shapes: a Go struct (StructAccessor), a JSON
// document (JSONAccessor) and a JSON record wrapper (JSONBytesAccessor).
type witness struct {
	rec  *wrec
	json string
	desc []string
}

func satAdd(v int64, d int64) int64 {
	if d > 0 && v > math.MaxInt64-d {
		return math.MaxInt64
	}
	if d < 0 && v < math.MinInt64-d {
		return math.MinInt64
	}
	return v + d
}

func dropLastRune(s string) string {
	if s == "" {
		return s
	}
	_, n := utf8.DecodeLastRuneInString(s)
	return s[:len(s)-n]
}

// valueFor picks a field value near the operand of leaf l. Variants 0..2 are the
// boundary values (operand itself and its two neighbours).
func valueFor(t *rapid.T, l *cond, variant int) (val any, present bool) {
	switch typeOfOp(l.op) {
	case tInt:
		switch variant {
		case 0:
			return l.i, true
		case 1:
			return satAdd(l.i, -1), true
		case 2:
			return satAdd(l.i, 1), true
		case 3:
			return int64(rapid.IntRange(-3, 3).Draw(t, "w_int")), true
		case 4:
			return fmt.Sprint(l.i), true
		case 5:
			return nil, false
		default:
			return rapid.Int64().Draw(t, "w_int64"), true
		}
	case tFloat:
		switch variant {
		case 0:
			return l.f, true
		case 1:
			return math.Nextafter(l.f, math.Inf(1)), true
		case 2:
			return math.Nextafter(l.f, math.Inf(-1)), true
		case 3:
			return float64(rapid.IntRange(-5, 5).Draw(t, "w_float")), true
		case 4:
			return fmt.Sprint(l.f), true
		case 5:
			return nil, false
		default:
			return math.Trunc(l.f), true
		}
	case tString:
		switch variant {
		case 0:
			return l.s, true
		case 1:
			return l.s + "x", true
		case 2:
			return "x" + l.s, true
		case 3:
			return "x" + l.s + "y", true
		case 4:
			return dropLastRune(l.s), true
		case 5:
			return nil, false
		default:
			return genStr(t, "w_str", 4), true
		}
	case tList:
		el := ""
		if len(l.list) > 0 {
			el = l.list[0]
		}
		switch variant {
		case 0:
			return el, true
		case 1:
			if len(l.list) > 0 {
				return l.list[len(l.list)-1], true
			}
			return "", true
		case 2:
			return strings.Join(l.list, ","), true
		case 3:
			return el + "x", true
		case 4:
			// a fragment of an element (decides whether a comma inside an element survived)
			for _, e := range l.list {
				if i := strings.IndexByte(e, ','); i >= 0 {
					return e[:i], true
				}
			}
			return dropLastRune(el), true
		case 5:
			return nil, false
		default:
			return genStr(t, "w_lstr", 4), true
		}
	case tRegex:
		switch variant {
		case 0:
			return l.ex, true
		case 1:
			return "zz" + l.ex + "zz", true
		case 2:
			return dropLastRune(l.ex), true
		case 5:
			return nil, false
		case 3:
			return genStr(t, "w_restr", 4), true
		default:
			return l.ex + "\n", true
		}
	case tBool:
		switch variant {
		case 0, 2, 6:
			return l.b, true
		case 1, 3:
			return !l.b, true
		case 4:
			return "true", true
		default:
			return nil, false
		}
	default: // exists
		switch variant {
		case 0, 3:
			return "v", true
		case 2, 4:
			return int64(1), true
		case 6:
			return false, true
		default:
			return nil, false
		}
	}
}

func jsonSafeFloat(f float64) float64 {
	switch {
	case math.IsNaN(f):
		return 0
	case math.IsInf(f, 1):
		return math.MaxFloat64
	case math.IsInf(f, -1):
		return -math.MaxFloat64
	}
	return f
}

func (w *witness) set(key string, val any) {
	w.desc = append(w.desc, fmt.Sprintf("%q=%#v", key, val))
	// struct shape
	switch v := val.(type) {
	case int64:
		switch key {
		case "I1":
			w.rec.I1 = v
		case "I2":
			w.rec.I2 = v
		case "U1":
			switch {
			case v < 0:
				w.rec.U1 = 0
			case v > math.MaxUint16:
				w.rec.U1 = math.MaxUint16
			default:
				w.rec.U1 = uint16(v)
			}
		}
	case float64:
		switch key {
		case "F1":
			w.rec.F1 = v
		case "F2":
			w.rec.F2 = v
		}
	case string:
		switch key {
		case "S1":
			w.rec.S1 = v
		case "S2":
			w.rec.S2 = v
		}
	case bool:
		switch key {
		case "B1":
			w.rec.B1 = v
		case "B2":
			w.rec.B2 = v
		}
	}
	// JSON shape
	jv := val
	if f, ok := val.(float64); ok {
		jv = jsonSafeFloat(f)
	}
	path := key
	if strings.HasSuffix(key, ".#") {
		// array length selector: give the parent an array of about that length
		n := 3
		if i, ok := val.(int64); ok && i >= 0 && i <= 6 {
			n = int(i)
		}
		arr := make([]string, n)
		for i := range arr {
			arr[i] = "e"
		}
		path, jv = strings.TrimSuffix(key, ".#"), arr
	}
	if path == "" {
		return
	}
	func() {
		defer func() { _ = recover() }() // sjson on odd paths: the field is then simply not set
		if out, err := sjson.Set(w.json, path, jv); err == nil {
			w.json = out
		}
	}()
}

// drawWitness builds one record. focus >= 0 makes it a boundary record of that
// leaf (variant 0..2); all other fields are drawn near some operand using them.
func drawWitness(t *rapid.T, leaves []*cond, focus, focusVariant int) *witness {
	w := &witness{rec: &wrec{}, json: `{}`}
	done := map[string]bool{}
	for _, first := range leaves {
		key := first.key
		if done[key] {
			continue
		}
		done[key] = true
		var l *cond
		variant := 0
		if focus >= 0 && leaves[focus].key == key {
			l, variant = leaves[focus], focusVariant
		} else {
			var same []*cond
			for _, o := range leaves {
				if o.key == key {
					same = append(same, o)
				}
			}
			l = same[0]
			if len(same) > 1 {
				l = same[rapid.IntRange(0, len(same)-1).Draw(t, "w_leaf")]
			}
			variant = uni(t, "w_variant", 7)
		}
		if val, present := valueFor(t, l, variant); present {
			w.set(key, val)
		}
	}
	return w
}

type shape struct {
	name string
	eval func(q *query.Query, w *witness) bool
}

var shapes = []shape{
	{"json_accessor", func(q *query.Query, w *witness) bool {
		j := w.json
		return q.MatchesAccessor(accessor.NewJSONAccessor(&j))
	}},
	{"json_wrapper_record", func(q *query.Query, w *witness) bool {
		r, err := record.NewWrapper("db:key", nil, dsd.JSON, []byte(w.json))
		if err != nil {
			panic(err)
		}
		return q.MatchesRecord(r)
	}},
	{"struct_record", func(q *query.Query, w *witness) bool { return q.MatchesRecord(w.rec) }},
	{"struct_accessor", func(q *query.Query, w *witness) bool {
		return q.MatchesAccessor(accessor.NewStructAccessor(w.rec))
	}},
}

// match evaluates q on one shape; a panic inside an accessor is not C11's business
// and is reported as such.
func match(s shape, q *query.Query, w *witness) (res bool, panicked any) {
	defer func() {
		if r := recover(); r != nil {
			panicked = r
		}
	}()
	return s.eval(q, w), nil
}
