package c11

import (
	"math/bits"

	"pgregory.net/rapid"
)

// rapid's integer generators (IntRange, SampledFrom) are deliberately biased towards
// small values: a "30 % of the cases" threshold on IntRange(0, 99) is hit far more
// often than 30 %. Weighted choices of the generators therefore draw fair bits.

var fairBits = func() []*rapid.Generator[[]bool] {
	g := make([]*rapid.Generator[[]bool], 24)
	for k := range g {
		g[k] = rapid.SliceOfN(rapid.Bool(), k, k)
	}
	return g
}()

// uni draws an (up to 1/8 relative error) uniform integer in [0, n).
func uni(t *rapid.T, label string, n int) int {
	if n <= 1 {
		return 0
	}
	k := bits.Len(uint(n-1)) + 3
	v := 0
	for i, b := range fairBits[k].Draw(t, label) {
		if b {
			v |= 1 << i
		}
	}
	return v % n
}

func pick[E any](t *rapid.T, label string, s []E) E {
	return s[uni(t, label, len(s))]
}

// from is a generator form of pick (for SliceOfN).
func from[E any](s []E) *rapid.Generator[E] {
	return rapid.Custom(func(t *rapid.T) E { return pick(t, "elem", s) })
}

// salt shifts the random stream so that the properties of one shard (which all get
// the same -rapid.seed) do not walk through identical query models.
func salt(t *rapid.T, n int) {
	for i := 0; i < n; i++ {
		rapid.Bool().Draw(t, "salt")
	}
}
