//go:build verif

package c13

import (
	"bytes"
	"encoding/json"
	"fmt"
	"os"
	"reflect"
	"runtime"
	"strings"
	"time"

	"github.com/safing/portbase/database/query"

	"verifharness/internal/stats"
)

type fataler interface {
	Fatalf(format string, args ...any)
}

// ---------------------------------------------------------------- model

type recState struct {
	known   bool           // the content is known to the model
	deleted bool           // deleted through the API in this case
	obj     map[string]any // the JSON object that was stored (decoded with UseNumber)
}

type subState struct {
	op       string
	db       string
	prefix   string
	hasWhere bool
	pred     func(map[string]any) (matches, sure bool) // the meaning of a known where-clause (see knownClauses), else nil
}

type model struct {
	recs map[string]*recState // full key -> knowledge
	subs map[string]*subState // active subscriptions (sequential mode)
}

func decodeObject(b []byte) (map[string]any, bool) {
	if !json.Valid(b) {
		return nil, false // also rejects trailing garbage such as "{}}" (Decoder.More does not)
	}
	d := json.NewDecoder(bytes.NewReader(b))
	d.UseNumber()
	var v any
	if err := d.Decode(&v); err != nil {
		return nil, false
	}
	if d.More() {
		return nil, false
	}
	o, ok := v.(map[string]any)
	return o, ok
}

// normKey is the key a record reports for itself: "db:key".
func normKey(key string) string {
	if !strings.Contains(key, ":") {
		return key + ":"
	}
	return key
}

func isPersistent(key string) bool {
	db, _ := splitKey(key)
	b := backendByName(db)
	return b != nil && b.Persistent
}

// subFor parses the query text the way the API documents it ("query <db>:<prefix> [where ...]").
func subFor(op, text string) (*subState, bool) {
	q, err := query.ParseQuery(text)
	if err != nil {
		return nil, false
	}
	if _, err := q.Check(); err != nil {
		return nil, false
	}
	st := &subState{op: op, db: q.DatabaseName(), prefix: q.DatabaseKeyPrefix(), hasWhere: strings.Contains(q.Print(), " where ")}
	if i := strings.Index(text, " where "); i >= 0 {
		st.pred = knownClauses[strings.TrimSpace(text[i:])]
	}
	return st, true
}

// knownClauses: where-clauses of the generator whose meaning is spelled out here by hand (not taken from the parser under
// test), over the fields N (an integer) and B (a boolean). A predicate answers (matches, sure); it is sure only when
// the fields it looks at are absent or of the type the operator is made for - what a condition does with a value of
// another type is not a matter of this property.
var knownClauses = map[string]func(map[string]any) (bool, bool){
	"where N > 0":     func(o map[string]any) (bool, bool) { n, ok, sure := intField(o, "N"); return ok && n > 0, sure },
	"where not N > 3": func(o map[string]any) (bool, bool) { n, ok, sure := intField(o, "N"); return !(ok && n > 3), sure },
	"where not N > 3 and B is true": func(o map[string]any) (bool, bool) {
		n, ok, sure := intField(o, "N")
		b, bok, bsure := boolField(o, "B")
		return !(ok && n > 3) && bok && b, sure && bsure
	},
	"where not N > 3 or B is true": func(o map[string]any) (bool, bool) {
		n, ok, sure := intField(o, "N")
		b, bok, bsure := boolField(o, "B")
		return !(ok && n > 3) || (bok && b), sure && bsure
	},
}

func intField(o map[string]any, name string) (v int64, present, sure bool) {
	x, ok := o[name]
	if !ok {
		return 0, false, true
	}
	num, isNum := x.(json.Number)
	if !isNum {
		return 0, false, false
	}
	i, err := num.Int64()
	if err != nil || i > 1<<52 || i < -(1<<52) {
		return 0, false, false
	}
	return i, true, true
}

func boolField(o map[string]any, name string) (v, present, sure bool) {
	x, ok := o[name]
	if !ok {
		return false, false, true
	}
	b, isBool := x.(bool)
	return b, isBool, isBool
}

func (s *subState) matchesKey(key string) bool {
	db, dbKey := splitKey(key)
	return db == s.db && strings.HasPrefix(dbKey, s.prefix)
}

// ---------------------------------------------------------------- reply helpers

func typesOf(rs []reply) string {
	var p []string
	for _, r := range rs {
		p = append(p, r.opID+"|"+r.typ)
	}
	return "[" + strings.Join(p, " ") + "]"
}

func renderReplies(rs []reply) string {
	var b strings.Builder
	for _, r := range rs {
		fmt.Fprintf(&b, "    %s\n", r)
	}
	return b.String()
}

// parseRecordReply splits "key|data" of ok/upd/new replies for a known key.
func parseRecordReply(r reply, key string) (data []byte, ok bool) {
	if !r.hasRest {
		return nil, false
	}
	if !bytes.HasPrefix(r.rest, []byte(key+"|")) {
		return nil, false
	}
	return r.rest[len(key)+1:], true
}

// checkRecordData: the data of an ok/upd/new reply is the JSON form ('J' + object) with a _meta section.
func checkRecordData(data []byte) (map[string]any, string) {
	if len(data) < 2 || data[0] != 'J' {
		return nil, fmt.Sprintf("record data does not start with the JSON format byte: %q", clip(string(data), 60))
	}
	o, ok := decodeObject(data[1:])
	if !ok {
		return nil, fmt.Sprintf("record data is not a JSON object: %q", clip(string(data), 120))
	}
	if _, ok := o["_meta"].(map[string]any); !ok {
		return nil, fmt.Sprintf("record data has no _meta section: %q", clip(string(data), 120))
	}
	return o, ""
}

func sameContent(stored, got map[string]any) bool {
	a := map[string]any{}
	for k, v := range stored {
		if k != "_meta" {
			a[k] = v
		}
	}
	b := map[string]any{}
	for k, v := range got {
		if k != "_meta" {
			b[k] = v
		}
	}
	return reflect.DeepEqual(a, b)
}

// ---------------------------------------------------------------- running a case

type runner struct {
	t     fataler
	c     *dbCase
	conn  *conn
	m     *model
	notes []string
	fired []firedWrite // in-send writes executed during the current step (sequential mode)
}

// stepWrite is a change of a record that happened during one step: the step's
// own write or a write the reply consumer performed inside send.
type stepWrite struct {
	kind     string
	key      string
	payload  []byte          // format byte + body (create / update)
	atReply  int             // in-send writes: index of the triggering reply within the step's replies
	inSend   bool            //
	optional map[string]bool // op-ids of subscriptions that need not announce it if their query phase shows it
	used     map[string]bool // consumed by a notification of this subscription
}

func (w *stepWrite) isDelete() bool { return w.kind == kDelete }

// firedWrites turns the executed in-send writes of the step into stepWrites
// (successful ones only) and updates the record model.
func (r *runner) firedWrites(cm msg, classes map[string]int) []*stepWrite {
	var out []*stepWrite
	for _, f := range r.fired {
		classes["insend_write_"+f.Trigger+"_executed"]++
		if f.TTL && f.err == nil {
			classes["insend_write_with_relative_expiry"]++
		}
		if f.err != nil {
			classes["insend_write_failed"]++
			continue
		}
		key := normKey(f.Key)
		w := &stepWrite{kind: f.Kind, key: key, payload: f.Payload, atReply: f.atReply, inSend: true, used: map[string]bool{}, optional: map[string]bool{}}
		if f.Trigger == "ok" && f.Op == cm.OpID && cm.Kind == kQsub {
			// during the query phase of this very qsub: the query, the subscription or both may show it
			w.optional[cm.OpID] = true
			classes["insend_write_during_query_phase_of_qsub"]++
		}
		if f.Trigger == "done" && f.Op == cm.OpID && cm.Kind == kQsub {
			classes["insend_write_at_query_to_sub_transition"]++
		}
		out = append(out, w)
		if f.Kind == kDelete {
			r.m.recs[key] = &recState{known: true, deleted: true}
		} else {
			delete(r.m.recs, key)
			if o, ok := decodeObject(f.Payload[1:]); ok && f.Payload[0] == 'J' && isPersistent(key) {
				r.m.recs[key] = &recState{known: true, obj: o}
			}
		}
	}
	return out
}

// checkNotifications: every subscription announces every successful matching
// write of the step exactly once (subscriptions with a condition: at most once),
// and nothing else. notes: the notification replies per subscription op-id.
func (r *runner) checkNotifications(bad func(string, ...any), classes map[string]int, subs map[string]*subState, notes map[string][]reply, writes []*stepWrite, got []reply) {
	for _, op := range sortedKeys(notes) {
		if _, ok := subs[op]; !ok {
			bad("reply %s belongs neither to this request nor to an active subscription", notes[op][0])
		}
	}
	for _, op := range sortedKeys(subs) {
		s := subs[op]
		for _, g := range notes[op] {
			classes["sub_notification_"+g.typ]++
			var hit *stepWrite
			for _, w := range writes {
				if w.used[op] || !s.matchesKey(w.key) {
					continue
				}
				switch g.typ {
				case "del":
					if w.isDelete() && string(g.rest) == w.key {
						hit = w
					}
				case "upd", "new":
					if _, ok := parseRecordReply(g, w.key); ok && !w.isDelete() {
						hit = w
					}
				case "warning":
					if !w.isDelete() {
						hit = w
					}
				default:
					bad("subscription reply of type %q", g.typ)
				}
				if hit != nil {
					break
				}
			}
			if hit == nil {
				bad("subscription %q (%s:%s) sent %s, which announces no successful matching change of this step (or one it had announced already)", op, s.db, s.prefix, g)
			}
			hit.used[op] = true
			if g.typ == "upd" || g.typ == "new" {
				data, _ := parseRecordReply(g, hit.key)
				if len(data) < 1 || data[0] != 'J' {
					bad("the record of a notification is not in the JSON form: %q", clip(string(data), 60))
				}
				if hit.kind != kInsert && len(hit.payload) >= 2 && hit.payload[0] == 'J' {
					if written, ok := decodeObject(hit.payload[1:]); ok {
						// the written JSON object is what subscribers are told, plus _meta
						obj, why := checkRecordData(data)
						if why != "" {
							bad("notification for the written object %v: %s", written, why)
						}
						if !sameContent(written, obj) {
							bad("notification carries %v, written was %v", obj, written)
						}
						classes["notification_content_checked"]++
					}
				}
			}
		}
		// subscriptions with a condition whose meaning is known: announced if and only if the written object satisfies it
		if s.pred != nil {
			for _, w := range writes {
				if !s.matchesKey(w.key) || w.isDelete() || w.kind == kInsert || len(w.payload) < 2 || w.payload[0] != 'J' || w.optional[op] {
					continue
				}
				obj, ok := decodeObject(w.payload[1:])
				if !ok {
					continue
				}
				m, sure := s.pred(obj)
				switch {
				case !sure:
				case m && !w.used[op]:
					bad("subscription %q (%s:%s with a condition) never announced the %s of %q, whose object %v satisfies the condition", op, s.db, s.prefix, w.kind, w.key, obj)
				case !m && w.used[op]:
					bad("subscription %q (%s:%s with a condition) announced the %s of %q, whose object %v does not satisfy the condition", op, s.db, s.prefix, w.kind, w.key, obj)
				default:
					classes["sub_condition_judged_against_written_object"]++
				}
			}
		}
		// nothing lost
		for _, w := range writes {
			if w.used[op] || !s.matchesKey(w.key) || s.hasWhere {
				continue
			}
			how := "the request's own write"
			if w.inSend {
				how = fmt.Sprintf("a write the reply consumer made and got acknowledged inside send, on reply %d of this step", w.atReply)
			}
			if !w.optional[op] {
				bad("subscription %q (%s:%s, no condition) never announced the %s of %q (%s)", op, s.db, s.prefix, w.kind, w.key, how)
			}
			// written while this qsub's query phase ran: then the query must account for it
			seenBefore, seenAfter := false, false
			for j, g := range got {
				if g.opID == op && g.typ == "ok" {
					if _, ok := parseRecordReply(g, w.key); ok {
						if j > w.atReply {
							seenAfter = true
						} else {
							seenBefore = true
						}
					}
				}
			}
			switch {
			case w.isDelete() && (seenBefore || seenAfter):
				bad("qsub %q reported %q in its query phase, the record was deleted during that phase (acknowledged inside send), and no del followed", op, w.key)
			case !w.isDelete() && !seenAfter:
				bad("qsub %q: %q was written during its query phase (acknowledged inside send on reply %d); neither a later ok record nor a notification shows it", op, w.key, w.atReply)
			}
			classes["insend_write_shown_by_query_only"]++
		}
	}
}

func (r *runner) failf(format string, args ...any) {
	if r.conn.ws != nil {
		_ = r.conn.ws.Close()
	} else {
		r.conn.dbapi.VerifShutdown()
	}
	r.t.Fatalf("%s\n--- case ---\n%s\n--- all replies ---\n%s", fmt.Sprintf(format, args...), r.c.render(), renderReplies(r.conn.snapshot()))
}

// runCase executes a case and checks it. It returns class names for statistics.
func runCase(t fataler, c *dbCase) map[string]int {
	writeJournal(c)
	t0 := time.Now()
	for _, p := range c.Prefill {
		if err := storePrefill(p); err != nil {
			t.Fatalf("harness: prefill %v failed: %s", p, err)
		}
	}
	for _, db := range c.BulkDBs {
		for i := 0; i < c.Bulk; i++ {
			p := prefill{Key: fmt.Sprintf("%s:%sbulk%03d", db, c.NS, i), Form: "json", Object: fmt.Sprintf(`{"Name":"bulk","N":%d}`, i)}
			if err := storePrefill(p); err != nil {
				t.Fatalf("harness: prefill %v failed: %s", p, err)
			}
		}
	}
	timePrefill += time.Since(t0)
	r := &runner{t: t, c: c, conn: newConn(), m: &model{recs: map[string]*recState{}, subs: map[string]*subState{}}}
	for _, p := range c.Prefill {
		if p.Form == "json" && isPersistent(p.Key) {
			if o, ok := decodeObject([]byte(p.Object)); ok {
				r.m.recs[normKey(p.Key)] = &recState{known: true, obj: o}
			}
		}
	}
	r.conn.sendYields = c.SendYields
	for _, a := range c.InSend {
		r.conn.actions = append(r.conn.actions, &sendAction{inSend: a})
	}
	// nothing of an earlier case may still be running
	if total, _, dump := handlerGoroutines(); total != 0 {
		t.Fatalf("harness: %d database API handler goroutines are alive before the case starts\n%s", total, dump)
	}
	classes := map[string]int{}
	if c.Concurrent {
		r.runConcurrent(classes)
	} else {
		r.runSequential(classes)
	}
	r.conn.dbapi.VerifShutdown()
	return classes
}

// quiet waits for the API to come to rest. satisfied (optional) tells whether the
// reply the last message must produce has arrived; if it has not although the
// API looks at rest, the harness looks ten more times before it believes it.
func (r *runner) quiet(what string, satisfied func() bool) int {
	parked, ok, dump := waitQuiet(2)
	if ok && satisfied != nil && !satisfied() {
		stats.Class("rest_rechecked_because_reply_missing")
		parked, ok, dump = waitQuiet(10)
	}
	if !ok {
		// Handler goroutines are stuck. Whatever they hold stays locked, so no
		// further case can be executed in this process: report and end it. The
		// driver turns the death into a violation whose replay is the journal.
		fmt.Fprintf(os.Stderr, "WEDGED: the database API did not come to rest within %s %s: handler goroutines are still running\n--- case ---\n%s\n--- all replies ---\n%s\n--- goroutines ---\n%s\n",
			waitBound, what, r.c.render(), renderReplies(r.conn.snapshot()), dump)
		stats.Flush(1)
		os.Exit(1)
	}
	return parked
}

// ---------------------------------------------------------------- sequential mode (exact oracle)

func (r *runner) runSequential(classes map[string]int) {
	for i := range r.c.Msgs {
		raw := r.c.Msgs[i].Raw
		cm := classify(raw)
		before := r.conn.count()
		r.conn.handle(raw)
		parked := r.quiet(fmt.Sprintf("after message %d", i), func() bool { return r.terminalArrived(cm, before) })
		all := r.conn.snapshot()
		r.fired = r.conn.takeFired()
		for k := range r.fired {
			r.fired[k].atReply -= before
		}
		r.checkStep(i, cm, all[before:], classes)
		if parked != len(r.m.subs) {
			r.failf("after message %d (%q): %d subscription handlers are waiting for changes, the replies so far imply %d active subscriptions %v",
				i, clip(string(raw), 80), parked, len(r.m.subs), sortedKeys(r.m.subs))
		}
	}
	// end of connection: cancel what is still subscribed, everything must end with done
	for _, op := range sortedKeys(r.m.subs) {
		before := r.conn.count()
		r.conn.handle([]byte(op + "|cancel"))
		r.quiet("after the final cancel of "+op, nil)
		r.fired = r.conn.takeFired()
		r.checkStep(len(r.c.Msgs), msg{Kind: kCancel, OpID: op}, r.conn.snapshot()[before:], classes)
	}
	if total, _, dump := handlerGoroutines(); total != 0 {
		r.failf("%d handler goroutines are left after every subscription was cancelled\n%s", total, dump)
	}
}

// terminalArrived: has the reply that ends the handling of cm been recorded?
func (r *runner) terminalArrived(cm msg, before int) bool {
	var want []string
	switch cm.Kind {
	case kGet:
		want = []string{"ok", "error"}
	case kCreate, kUpdate, kInsert, kDelete:
		want = []string{"success", "error"}
	case kQuery, kQsub:
		want = []string{"done", "error"}
	case kMalformed:
		want = []string{"error"}
	default:
		return true
	}
	for _, rp := range r.conn.snapshot()[before:] {
		for _, t := range want {
			if rp.typ == t && (rp.opID == cm.OpID || cm.Kind == kMalformed) {
				return true
			}
		}
	}
	return false
}

// checkStep compares the replies produced by one message with the protocol.
func (r *runner) checkStep(i int, cm msg, got []reply, classes map[string]int) {
	bad := func(format string, args ...any) {
		_, _, dump := handlerGoroutines()
		var rel []string
		for _, g := range strings.Split(dump, "\n\n") {
			if strings.Contains(g, "portbase/api.") || strings.Contains(g, "portbase/database") {
				rel = append(rel, g)
			}
		}
		r.failf("message %d %q (%s): %s\n  replies to this message: %s\n  replies recorded now: %d\n  goroutines inside portbase api/database at the time of the verdict:\n%s", i, clip(string(cm.Raw), 120), cm.Kind, fmt.Sprintf(format, args...), typesOf(got), r.conn.count(), strings.Join(rel, "\n\n"))
	}
	own := func(types ...string) (mine, rest []reply) {
		for _, g := range got {
			isType := false
			for _, t := range types {
				if g.typ == t {
					isType = true
				}
			}
			if g.opID == cm.OpID && isType {
				mine = append(mine, g)
			} else {
				rest = append(rest, g)
			}
		}
		return
	}
	classes["msg_"+cm.Kind]++

	switch cm.Kind {
	case kMalformed:
		if len(got) != 1 || got[0].typ != "error" {
			bad("a malformed message must be answered with exactly one error reply")
		}
		if got[0].opID != "" && got[0].opID != cm.OpID {
			bad("the error reply carries op-id %q", got[0].opID)
		}

	case kGet:
		mine, rest := own("ok", "error")
		if len(mine) != 1 || len(rest) != 0 {
			bad("get must yield exactly one ok or error carrying its op-id and nothing else")
		}
		st := r.m.recs[normKey(cm.Key)]
		if mine[0].typ == "ok" {
			classes["get_ok"]++
			data, ok := parseRecordReply(mine[0], normKey(cm.Key))
			if !ok {
				bad("ok reply does not carry the key %q followed by the record", normKey(cm.Key))
			}
			if len(data) < 1 || data[0] != 'J' {
				bad("the record of an ok reply is not in the JSON form: %q", clip(string(data), 60))
			}
			if st != nil && st.known && !st.deleted {
				// what was stored is a JSON object: it comes back unchanged, plus the _meta section
				classes["roundtrip_checked"]++
				obj, why := checkRecordData(data)
				if why != "" {
					bad("round trip of %v: %s", st.obj, why)
				}
				if !sameContent(st.obj, obj) {
					bad("round trip: stored object %v was read back as %v", st.obj, obj)
				}
			}
		} else {
			classes["get_error"]++
			if st != nil && st.known && !st.deleted {
				bad("round trip: the record was stored through the API as %v but get answers %s", st.obj, mine[0])
			}
		}

	case kQuery, kQsub:
		terminal := -1
		notes := map[string][]reply{}
		for j, g := range got {
			if g.opID != cm.OpID || (terminal >= 0 && cm.Kind == kQsub && got[terminal].typ == "done") {
				// notifications: in-send writes of this step are announced to the subscriptions
				// that are active, and to this qsub once its query phase is over
				notes[g.opID] = append(notes[g.opID], g)
				continue
			}
			switch g.typ {
			case "ok":
				classes["query_ok_record"]++
				if !g.hasRest {
					bad("ok reply without record")
				}
			case "warning":
				classes["query_warning"]++
			case "done", "error":
				if terminal < 0 {
					terminal = j
				}
			default:
				bad("unexpected reply type %q", g.typ)
			}
			if terminal >= 0 && j > terminal {
				bad("reply %s after the terminal %s", g, got[terminal].typ)
			}
		}
		if terminal < 0 {
			bad("query ended without done or error")
		}
		classes[cm.Kind+"_"+got[terminal].typ]++
		subs := map[string]*subState{}
		for op, s := range r.m.subs {
			subs[op] = s
		}
		if cm.Kind == kQsub && got[terminal].typ == "done" {
			s, ok := subFor(cm.OpID, cm.Query)
			if !ok {
				bad("harness: query text accepted by the API does not parse here")
			}
			r.m.subs[cm.OpID] = s
			subs[cm.OpID] = s
		}
		r.checkNotifications(bad, classes, subs, notes, r.firedWrites(cm, classes), got)

	case kSub:
		switch {
		case len(got) == 0:
			s, ok := subFor(cm.OpID, cm.Query)
			if !ok {
				bad("no reply although the query text is invalid (an error reply is due)")
			}
			r.m.subs[cm.OpID] = s
			classes["sub_active"]++
		case len(got) == 1 && got[0].typ == "error" && got[0].opID == cm.OpID:
			classes["sub_error"]++
		default:
			bad("sub yields nothing until a change or cancel, or exactly one error")
		}

	case kCreate, kUpdate, kInsert, kDelete:
		mine, rest := own("success", "error")
		if len(mine) != 1 {
			bad("%s must yield exactly one success or error carrying its op-id", cm.Kind)
		}
		success := mine[0].typ == "success"
		classes[cm.Kind+"_"+mine[0].typ]++
		key := normKey(cm.Key)
		// notifications: for the request's own write and for writes made inside send meanwhile
		notes := map[string][]reply{}
		for _, g := range rest {
			notes[g.opID] = append(notes[g.opID], g)
		}
		var writes []*stepWrite
		if success {
			writes = append(writes, &stepWrite{kind: cm.Kind, key: key, payload: cm.Payload, used: map[string]bool{}, optional: map[string]bool{}})
		}
		extra := r.firedWrites(cm, classes)
		r.checkNotifications(bad, classes, r.m.subs, notes, append(writes, extra...), got)
		for _, w := range extra {
			if w.key == key {
				// the consumer changed the very record this request wrote: its content is whatever came last
				delete(r.m.recs, key)
				success = false
			}
		}
		// model
		switch {
		case cm.Kind == kInsert:
			delete(r.m.recs, key) // content after an (attempted) insert is not modelled
		case !success:
			// a failed create/update/delete leaves the record as it was
		case cm.Kind == kDelete:
			r.m.recs[key] = &recState{known: true, deleted: true}
		default:
			delete(r.m.recs, key)
			if len(cm.Payload) >= 2 && cm.Payload[0] == 'J' && isPersistent(key) {
				if o, ok := decodeObject(cm.Payload[1:]); ok {
					r.m.recs[key] = &recState{known: true, obj: o}
					classes["write_json_object"]++
				}
			}
		}

	case kCancel:
		if _, active := r.m.subs[cm.OpID]; active {
			if len(got) != 1 || got[0].typ != "done" || got[0].opID != cm.OpID {
				bad("cancel of an active subscription must end it with exactly one done")
			}
			delete(r.m.subs, cm.OpID)
			classes["cancel_active_sub"]++
		} else {
			// nothing is running under this op-id: silence or one error
			if len(got) > 1 || (len(got) == 1 && (got[0].typ != "error" || got[0].opID != cm.OpID)) {
				bad("cancel of an op-id without running operation may only be answered with one error for that op-id")
			}
			classes["cancel_nothing"]++
		}
	}
}

// ---------------------------------------------------------------- concurrent mode (automaton per op-id)

func (r *runner) runConcurrent(classes map[string]int) {
	msgs := make([]msg, 0, len(r.c.Msgs)+4)
	yields := map[int]int{}
	for i := 0; i+1 < len(r.c.Yields); i += 2 {
		yields[r.c.Yields[i]] = r.c.Yields[i+1]
	}
	for i := range r.c.Msgs {
		for y := 0; y < yields[i]; y++ {
			runtime.Gosched()
		}
		msgs = append(msgs, classify(r.c.Msgs[i].Raw))
		r.conn.handle(r.c.Msgs[i].Raw)
	}
	r.quiet("after all messages were sent", nil)
	// end of connection: cancel every subscription that is registered
	for round := 0; round < 8; round++ {
		_, subs := r.conn.dbapi.VerifState()
		if len(subs) == 0 {
			break
		}
		for _, op := range subs {
			msgs = append(msgs, msg{Kind: kCancel, OpID: op})
			r.conn.handle([]byte(op + "|cancel"))
		}
		r.quiet("after cancelling the remaining subscriptions", nil)
	}
	if total, _, dump := handlerGoroutines(); total != 0 {
		r.failf("%d handler goroutines are left after every registered subscription was cancelled\n%s", total, dump)
	}
	r.fired = r.conn.takeFired()
	r.checkTranscript(msgs, r.conn.snapshot(), classes)
}

func (r *runner) checkTranscript(msgs []msg, replies []reply, classes map[string]int) {
	type opInfo struct {
		m           *msg
		idx         int
		cancels     []int // message indices of cancels for this op-id
		malformed   int   // malformed messages whose first field is this op-id
		notifyKeys  map[string]int
		replies     []reply
		writeOK     bool
		writeKey    string
		writeDelete bool
	}
	ops := map[string]*opInfo{}
	get := func(op string) *opInfo {
		if ops[op] == nil {
			ops[op] = &opInfo{idx: -1}
		}
		return ops[op]
	}
	malformedTotal := 0
	for i := range msgs {
		m := &msgs[i]
		classes["msg_"+m.Kind]++
		switch m.Kind {
		case kCancel:
			o := get(m.OpID)
			o.cancels = append(o.cancels, i)
		case kMalformed:
			malformedTotal++
			get(m.OpID).malformed++
			if m.OpID != "" {
				get("").malformed++
			}
		default:
			o := get(m.OpID)
			if o.m != nil {
				r.failf("harness: op-id %q is used by two requests of a concurrent case", m.OpID)
			}
			o.m, o.idx = m, i
		}
	}
	for _, rp := range replies {
		o, ok := ops[rp.opID]
		if !ok {
			r.failf("reply %s carries an op-id that no message of this case used", rp)
		}
		o.replies = append(o.replies, rp)
	}

	// successful writes, per key (for the notification check)
	writes := map[string]int{}
	deletes := map[string]int{}
	for _, op := range sortedKeys(ops) {
		o := ops[op]
		if o.m == nil {
			continue
		}
		switch o.m.Kind {
		case kCreate, kUpdate, kInsert, kDelete:
			for _, rp := range o.replies {
				if rp.typ == "success" {
					if o.m.Kind == kDelete {
						deletes[normKey(o.m.Key)]++
					} else {
						writes[normKey(o.m.Key)]++
					}
				}
			}
		}
	}

	// writes the reply consumer made inside send count as changes as well
	for _, f := range r.fired {
		classes["insend_write_"+f.Trigger+"_executed"]++
		if f.err != nil {
			classes["insend_write_failed"]++
			continue
		}
		if f.Kind == kDelete {
			deletes[normKey(f.Key)]++
		} else {
			writes[normKey(f.Key)]++
		}
	}

	for _, op := range sortedKeys(ops) {
		o := ops[op]
		bad := func(format string, args ...any) {
			what := "no request"
			if o.m != nil {
				what = fmt.Sprintf("message %d %q", o.idx, clip(string(o.m.Raw), 100))
			}
			r.failf("op-id %q (%s, %d cancels): %s\n  replies with this op-id: %s", op, what, len(o.cancels), fmt.Sprintf(format, args...), typesOf(o.replies))
		}
		// errors that are not the operation's own: one per cancel at most, one per malformed message
		budget := len(o.cancels) + o.malformed
		firstExtra := len(msgs) + 1 // index of the first message that can cause a foreign error
		if len(o.cancels) > 0 {
			firstExtra = o.cancels[0]
		}
		if o.malformed > 0 {
			firstExtra = -1 // not tracked per message
		}
		foreignErr := func(rp reply) bool {
			if rp.typ == "error" && budget > 0 && rp.sentMsgs > firstExtra {
				budget--
				return true
			}
			return false
		}
		cancelled := func(rp reply) bool { return len(o.cancels) > 0 && rp.sentMsgs > o.cancels[0] }

		if o.m == nil {
			// only cancels and/or malformed messages used this op-id
			for _, rp := range o.replies {
				if !foreignErr(rp) {
					bad("reply %s, but only cancels / malformed messages used this op-id (at most one error each)", rp)
				}
			}
			continue
		}

		switch o.m.Kind {
		case kGet, kCreate, kUpdate, kInsert, kDelete:
			pos := "success"
			if o.m.Kind == kGet {
				pos = "ok"
			}
			nPos, nErr := 0, 0
			for _, rp := range o.replies {
				switch rp.typ {
				case pos:
					nPos++
				case "error":
					nErr++
				default:
					bad("unexpected reply type %q", rp.typ)
				}
			}
			ownErr := 0
			if nPos == 0 {
				ownErr = 1
			}
			if nPos > 1 || nPos+nErr < 1 || nErr-ownErr > budget {
				bad("%s must yield exactly one %s or error (plus at most one error per cancel)", o.m.Kind, pos)
			}
			classes[o.m.Kind+"_answered"]++

		case kQuery:
			ended := false
			for _, rp := range o.replies {
				switch {
				case ended:
					if !foreignErr(rp) {
						bad("reply %s after the query ended", rp)
					}
				case rp.typ == "ok" || rp.typ == "warning":
				case rp.typ == "done":
					ended = true
				case rp.typ == "error":
					if !foreignErr(rp) {
						ended = true
					}
				default:
					bad("unexpected reply type %q", rp.typ)
				}
			}
			if !ended && len(o.cancels) == 0 {
				bad("query without cancel ended without done or error")
			}
			if len(o.cancels) > 0 {
				classes["query_with_cancel"]++
			}

		case kSub, kQsub:
			phase := "sub"
			if o.m.Kind == kQsub {
				phase = "query"
			}
			s, parsed := subFor(op, o.m.Query)
			dones := 0
			for _, rp := range o.replies {
				switch {
				case phase == "ended":
					if !foreignErr(rp) {
						bad("reply %s after the operation ended", rp)
					}
				case rp.typ == "error":
					if !foreignErr(rp) {
						phase = "ended" // the operation's own error
					}
				case phase == "query":
					switch rp.typ {
					case "ok", "warning":
					case "done":
						phase = "sub"
						dones++
					default:
						bad("reply type %q in the query phase", rp.typ)
					}
				case phase == "sub":
					switch rp.typ {
					case "upd", "new", "del":
						classes["sub_notification_"+rp.typ]++
						if !parsed {
							bad("notification although the query text is invalid")
						}
						// nothing invented: the key was written successfully in this case
						var key string
						if rp.typ == "del" {
							key = string(rp.rest)
						} else {
							key, _, _ = strings.Cut(string(rp.rest), "|J")
						}
						if !s.matchesKey(key) {
							bad("notification %s for a key outside %s:%s*", rp, s.db, s.prefix)
						}
						if o.notifyKeys == nil {
							o.notifyKeys = map[string]int{}
						}
						o.notifyKeys[rp.typ+" "+key]++
					case "warning":
						classes["sub_notification_warning"]++
					case "done":
						if !cancelled(rp) {
							bad("done although no cancel had been sent")
						}
						dones++
						phase = "ended"
					default:
						bad("reply type %q in the subscription phase", rp.typ)
					}
				}
			}
			// Nothing invented: not more notifications for a key than successful changes of
			// it. A back end that keeps the record object itself (hashmap) lets a
			// subscriber that lags behind see the latest state for an earlier change as
			// well, so a del may stand for an update that a delete followed.
			for k := range o.notifyKeys {
				typ, key, _ := strings.Cut(k, " ")
				n := o.notifyKeys["upd "+key] + o.notifyKeys["new "+key] + o.notifyKeys["del "+key]
				if n > writes[key]+deletes[key] {
					bad("%d notifications for %q but only %d changes of it succeeded", n, key, writes[key]+deletes[key])
				}
				if typ == "del" && deletes[key] == 0 {
					bad("del notification for %q although no delete of it succeeded", key)
				}
			}
			if phase != "ended" {
				// every registered subscription was cancelled at the end and the handlers came to rest
				bad("operation neither failed nor ended with done after its cancel (phase %s)", phase)
			}
			if len(o.notifyKeys) > 0 {
				classes["sub_received_updates"]++
			}
			if len(o.cancels) > 0 && o.m.Kind == kQsub {
				classes["qsub_with_cancel"]++
			}
		}
	}

	// malformed messages: each is answered with one error; they can only be told apart by count here
	if malformedTotal > 0 {
		classes["case_with_malformed"]++
	}
	stats.ClassN("transcript_replies", int64(len(replies)))
}
