package c13

import (
	"encoding/json"
	"fmt"
	"os"
	"strings"
	"sync"
	"sync/atomic"
	"testing"
	"time"

	"pgregory.net/rapid"

	"github.com/safing/portbase/database/accessor"
	"github.com/safing/portbase/database/record"
	"github.com/safing/portbase/formats/dsd"

	"verifharness/internal/stats"
)

// A cancel that is handled while a write is being announced to the
// subscriptions: the element "every interleaving of concurrently handled
// requests with cancels and with writes feeding subscriptions" of C13, with the
// interleaving owned by the harness instead of left to the scheduler.
//
// The write is an internal Put of a harness record type. Announcing it to a
// subscription that has a where clause asks the record for its accessor
// (Controller.notifySubscribers -> Query.Matches -> Record.GetAccessor): that
// call is the yield point. When it is reached for the chosen subscription the
// record hands a "<op>|cancel" message to the API and gives it time to be
// handled (until the done reply arrives, bounded). Whatever the code does with
// the cancel at that moment - block it until the announcement is over, as it
// does, or handle it at once - the protocol must come out the same:
//
//   - the process survives (a send on the closed feed is a crash),
//   - every subscription that was not cancelled announces the write exactly once,
//   - the cancelled one announces it at most once and ends with exactly one done,
//     nothing after it,
//   - the final cancels end every other subscription with one done and leave no
//     handler goroutine behind.

type yieldRecord struct {
	record.Base
	sync.Mutex

	N    int64
	Name string

	hook *yieldHook
}

type yieldHook struct {
	calls  atomic.Int32
	at     int32
	action func()
}

func (r *yieldRecord) GetAccessor(self record.Record) accessor.Accessor {
	if h := r.hook; h != nil {
		if h.calls.Add(1) == h.at+1 {
			h.action()
		}
	}
	return r.Base.GetAccessor(self)
}

type cancelRaceCase struct {
	DB        string   `json:"db"`
	NS        string   `json:"ns"`
	Kinds     []string `json:"kinds"`      // sub / qsub per subscription
	Wheres    []string `json:"wheres"`     // where clause per subscription (all match N=5)
	Cancel    int      `json:"cancel"`     // index of the subscription cancelled at the yield point
	Second    int      `json:"second"`     // -1 or index of a second subscription cancelled at the same moment
	YieldAt   int      `json:"yield_at"`   // the accessor call (0-based) at which the cancel is handed over
	WaitMS    int      `json:"wait_ms"`    // how long the yield point gives the cancel
	Writes    int      `json:"writes"`     // plain writes after the raced one
	APIWrites bool     `json:"api_writes"` // the later writes are API update messages instead of internal puts
}

func (c *cancelRaceCase) render() string {
	b, _ := json.Marshal(c)
	return "cancelrace " + string(b)
}

var matchingWheres = []string{"N > 0", "N == 5", "Name sameas y", "N > 0 and Name startswith y", "(N > 4 or N < 0)", "Name sw y"}

func genCancelRace(t *rapid.T) *cancelRaceCase {
	var dbs []string
	for _, b := range backends {
		if b.Persistent && !b.SafeKeys {
			dbs = append(dbs, b.Name)
		}
	}
	n := rapid.IntRange(1, 4).Draw(t, "subs")
	c := &cancelRaceCase{DB: rapid.SampledFrom(dbs).Draw(t, "db"), NS: newNS(), Second: -1}
	for i := 0; i < n; i++ {
		c.Kinds = append(c.Kinds, rapid.SampledFrom([]string{kSub, kSub, kQsub}).Draw(t, "kind"))
		c.Wheres = append(c.Wheres, rapid.SampledFrom(matchingWheres).Draw(t, "where"))
	}
	c.Cancel = rapid.IntRange(0, n-1).Draw(t, "cancel")
	if n > 1 && rapid.Bool().Draw(t, "two_cancels") {
		c.Second = rapid.IntRange(0, n-1).Draw(t, "second")
		if c.Second == c.Cancel {
			c.Second = -1
		}
	}
	c.YieldAt = rapid.IntRange(0, n-1).Draw(t, "yield_at")
	c.WaitMS = rapid.SampledFrom([]int{2, 5, 10}).Draw(t, "wait_ms")
	c.Writes = rapid.IntRange(0, 2).Draw(t, "writes")
	c.APIWrites = rapid.Bool().Draw(t, "api_writes")
	return c
}

func writeCancelRaceJournal(c *cancelRaceCase) {
	if j := os.Getenv("VERIF_JOURNAL"); j != "" {
		b, _ := json.Marshal(map[string]any{"cancelrace": c})
		_ = os.WriteFile(j, b, 0o644)
	}
}

func readCancelRaceJournal(path string) (*cancelRaceCase, bool) {
	raw, err := os.ReadFile(path)
	if err != nil {
		return nil, false
	}
	var j struct {
		C *cancelRaceCase `json:"cancelrace"`
	}
	if json.Unmarshal(raw, &j) != nil || j.C == nil {
		return nil, false
	}
	return j.C, true
}

func runCancelRace(t fataler, c *cancelRaceCase) {
	writeCancelRaceJournal(c)
	cn := newConn()
	op := func(i int) string { return fmt.Sprintf("s%d", i) }
	fail := func(format string, args ...any) {
		t.Fatalf("%s\n  case: %s\n  replies:\n%s", fmt.Sprintf(format, args...), c.render(), renderReplies(cn.snapshot()))
	}
	repliesOf := func(opID string) []reply {
		var out []reply
		for _, r := range cn.snapshot() {
			if r.opID == opID {
				out = append(out, r)
			}
		}
		return out
	}
	countNotes := func(opID, key string) int {
		n := 0
		for _, r := range repliesOf(opID) {
			if (r.typ == "upd" || r.typ == "new") && strings.HasPrefix(string(r.rest), key+"|") {
				n++
			}
		}
		return n
	}
	countType := func(opID, typ string) int {
		n := 0
		for _, r := range repliesOf(opID) {
			if r.typ == typ {
				n++
			}
		}
		return n
	}
	waitFor := func(what string, cond func() bool) {
		w := newWaiter()
		for !cond() {
			if !w.pause() {
				fail("WEDGED: %s did not happen within %s", what, waitBound)
			}
		}
	}

	prefix := c.DB + ":" + c.NS
	// subscriptions are registered one after the other, so that their order in the controller's list is the case's order
	for i := range c.Kinds {
		cn.handle([]byte(fmt.Sprintf("%s|%s|query %s where %s", op(i), c.Kinds[i], prefix, c.Wheres[i])))
		if c.Kinds[i] == kQsub {
			waitFor("done of the query phase of "+op(i), func() bool { return countType(op(i), "done") == 1 })
		}
		// at rest the handler goroutine is parked in the subscription's receive loop
		if _, ok, dump := waitQuiet(2); !ok {
			fail("WEDGED while registering %s:\n%s", op(i), dump)
		}
		// a probe write shows that the subscription is live and its receive loop running
		probeKey := fmt.Sprintf("%sprobe%d", prefix, i)
		w, err := record.NewWrapper(probeKey, nil, dsd.JSON, []byte(`{"N":5,"Name":"y"}`))
		if err != nil {
			fail("harness: %s", err)
		}
		probe := func() {
			if err := internalDB.Put(w); err != nil {
				fail("harness: probe write: %s", err)
			}
		}
		probe()
		deadline := time.Now().Add(50 * time.Millisecond)
		waitFor("the probe notification of "+op(i), func() bool {
			if countNotes(op(i), probeKey) > 0 {
				return true
			}
			if time.Now().After(deadline) {
				// a sub is registered by its handler goroutine some time after Handle returned: probe again
				probe()
				deadline = time.Now().Add(50 * time.Millisecond)
			}
			return false
		})
	}
	if _, ok, dump := waitQuiet(2); !ok {
		fail("WEDGED before the raced write:\n%s", dump)
	}

	// the raced write
	cancelled := map[int]bool{c.Cancel: true}
	if c.Second >= 0 {
		cancelled[c.Second] = true
	}
	racedKey := prefix + "raced"
	yr := &yieldRecord{N: 5, Name: "y"}
	yr.SetKey(racedKey)
	yr.UpdateMeta()
	yr.Meta().Created -= 3600
	cancelSeenDuringNotify := false
	yr.hook = &yieldHook{at: int32(c.YieldAt), action: func() {
		for i := range cancelled {
			cn.handle([]byte(op(i) + "|cancel"))
		}
		deadline := time.Now().Add(time.Duration(c.WaitMS) * time.Millisecond)
		for time.Now().Before(deadline) {
			all := true
			for i := range cancelled {
				if countType(op(i), "done") < 1+btoi(c.Kinds[i] == kQsub) {
					all = false
				}
			}
			if all {
				cancelSeenDuringNotify = true
				return
			}
			time.Sleep(100 * time.Microsecond)
		}
	}}
	if err := internalDB.Put(yr); err != nil {
		fail("harness: raced write: %s", err)
	}
	if got := yr.hook.calls.Load(); int(got) <= c.YieldAt {
		// the announcement did not ask this record for its accessor that often: hand the cancels over now
		stats.Class("cancelrace:yield_point_not_reached")
		stats.Warn("C13 cancelrace: Record.GetAccessor was called %d times while announcing a write to %d subscriptions with where clauses", got, len(c.Kinds))
		yr.hook.action()
	}
	for i := range c.Kinds {
		if cancelled[i] {
			want := 1 + btoi(c.Kinds[i] == kQsub)
			waitFor("the done that ends the cancelled "+op(i), func() bool { return countType(op(i), "done") >= want })
		} else {
			waitFor("the announcement of the raced write by "+op(i), func() bool { return countNotes(op(i), racedKey) >= 1 })
		}
	}

	// later writes: only the remaining subscriptions announce them
	for j := 0; j < c.Writes; j++ {
		key := fmt.Sprintf("%slater%d", prefix, j)
		if c.APIWrites {
			wop := fmt.Sprintf("w%d", j)
			cn.handle([]byte(fmt.Sprintf(`%s|update|%s|J{"N":5,"Name":"y"}`, wop, key)))
			waitFor("success of "+wop, func() bool { return countType(wop, "success")+countType(wop, "error") >= 1 })
			if countType(wop, "success") != 1 {
				fail("update %s must succeed", wop)
			}
		} else {
			w, err := record.NewWrapper(key, nil, dsd.JSON, []byte(`{"N":5,"Name":"y"}`))
			if err != nil {
				fail("harness: %s", err)
			}
			if err := internalDB.Put(w); err != nil {
				fail("harness: later write: %s", err)
			}
		}
		for i := range c.Kinds {
			if !cancelled[i] {
				waitFor("the announcement of "+key+" by "+op(i), func() bool { return countNotes(op(i), key) >= 1 })
			}
		}
	}

	// end everything
	for i := range c.Kinds {
		if !cancelled[i] {
			cn.handle([]byte(op(i) + "|cancel"))
		}
	}
	for i := range c.Kinds {
		want := 1 + btoi(c.Kinds[i] == kQsub)
		waitFor("the final done of "+op(i), func() bool { return countType(op(i), "done") >= want })
	}
	if parked, ok, dump := waitQuiet(3); !ok || parked != 0 {
		fail("WEDGED: handler goroutines are left after all subscriptions were cancelled (%d parked subscriptions):\n%s", parked, dump)
	}

	// the transcript
	all := cn.snapshot()
	for _, r := range all {
		if r.opID == "" || (!strings.HasPrefix(r.opID, "s") && !strings.HasPrefix(r.opID, "w")) {
			fail("a reply without a request: %s", r)
		}
	}
	for i := range c.Kinds {
		rs := repliesOf(op(i))
		wantDone := 1 + btoi(c.Kinds[i] == kQsub)
		if n := countType(op(i), "done"); n != wantDone {
			fail("%s (%s) must end with exactly one done (plus one for a qsub's query phase): got %d", op(i), c.Kinds[i], n)
		}
		if last := rs[len(rs)-1]; last.typ != "done" {
			fail("%s: reply after the final done: %s", op(i), last)
		}
		for _, r := range rs {
			switch r.typ {
			case "upd", "new", "done", "ok":
			default:
				fail("%s: unexpected reply %s", op(i), r)
			}
		}
		n := countNotes(op(i), racedKey)
		switch {
		case cancelled[i] && n > 1:
			fail("the cancelled %s announced the raced write %d times", op(i), n)
		case !cancelled[i] && n != 1:
			fail("%s was not cancelled and must announce the raced write exactly once: got %d (subscriptions %v, cancelled %v, cancel handed over at accessor call %d)", op(i), n, c.Kinds, sortedKeys(cancelledNames(cancelled)), c.YieldAt)
		}
		for j := 0; j < c.Writes; j++ {
			key := fmt.Sprintf("%slater%d", prefix, j)
			n := countNotes(op(i), key)
			if cancelled[i] && n != 0 {
				fail("the cancelled %s announced the later write %s", op(i), key)
			}
			if !cancelled[i] && n != 1 {
				fail("%s must announce the later write %s exactly once: got %d", op(i), key, n)
			}
		}
	}

	classes := []string{"cancelrace:subs=" + fmt.Sprint(len(c.Kinds)), "cancelrace:db=" + c.DB}
	if cancelSeenDuringNotify {
		classes = append(classes, "cancelrace:cancel_completed_inside_the_announcement")
	} else {
		classes = append(classes, "cancelrace:cancel_held_until_the_announcement_was_over")
	}
	if c.Second >= 0 {
		classes = append(classes, "cancelrace:two_cancels")
	}
	if c.YieldAt <= c.Cancel {
		classes = append(classes, "cancelrace:cancelled_not_yet_notified")
	} else {
		classes = append(classes, "cancelrace:cancelled_already_notified")
	}
	fp := strings.ReplaceAll(c.render(), c.NS, "NS/")
	stats.Case(fp, true, classes...)
}

func cancelledNames(m map[int]bool) map[string]bool {
	out := map[string]bool{}
	for i := range m {
		out[fmt.Sprintf("s%d", i)] = true
	}
	return out
}

func btoi(b bool) int {
	if b {
		return 1
	}
	return 0
}

var cancelRaceReplayOnce sync.Once

// TestPropCancelDuringNotify: see the comment at the top of this file.
func TestPropCancelDuringNotify(t *testing.T) {
	if path := os.Getenv("VERIF_REPLAY_CASE"); path != "" {
		if c, ok := readCancelRaceJournal(path); ok {
			cancelRaceReplayOnce.Do(func() {
				t.Logf("replaying journalled case: %s", c.render())
				runCancelRace(t, c)
			})
			return
		}
		if _, ok := readJournal(path); ok {
			return
		}
	}
	rapid.Check(t, func(t *rapid.T) {
		c := genCancelRace(t)
		runCancelRace(t, c)
		if stats.WantSample("cancelrace") {
			stats.Sample("cancelrace", c.render())
		}
	})
}

// ---------------------------------------------------------------- bursts of subscriptions

// TestPropSubscriptionBurst: many sub/qsub requests for the same database are handled at the same moment (Handle
// starts a goroutine per request, so they register concurrently), then one write follows: every one of them must
// announce it, and every one must end with done when cancelled. A subscription that got lost while registering shows
// as a missing announcement and a cancel that is never answered.
func TestPropSubscriptionBurst(t *testing.T) {
	if path := os.Getenv("VERIF_REPLAY_CASE"); path != "" {
		if _, ok := readJournal(path); ok {
			return
		}
		if _, ok := readCancelRaceJournal(path); ok {
			return
		}
	}
	rapid.Check(t, func(t *rapid.T) {
		var dbs []string
		for _, b := range backends {
			if b.Persistent && !b.SafeKeys {
				dbs = append(dbs, b.Name)
			}
		}
		db := rapid.SampledFrom(dbs).Draw(t, "db")
		n := rapid.IntRange(8, 24).Draw(t, "subs")
		rounds := rapid.IntRange(20, 60).Draw(t, "rounds")
		ns := newNS()
		if j := os.Getenv("VERIF_JOURNAL"); j != "" {
			_ = os.WriteFile(j, []byte(fmt.Sprintf(`{"burst":{"db":%q,"subs":%d,"rounds":%d}}`, db, n, rounds)), 0o644)
		}
		for round := 0; round < rounds; round++ {
			cn := newConn()
			fail := func(format string, args ...any) {
				t.Fatalf("%s\n  burst of %d subscriptions on %s, round %d\n  replies:\n%s", fmt.Sprintf(format, args...), n, db, round, renderReplies(cn.snapshot()))
			}
			count := func(op, typ string) int {
				k := 0
				for _, r := range cn.snapshot() {
					if r.opID == op && r.typ == typ {
						k++
					}
				}
				return k
			}
			waitFor := func(what string, cond func() bool) {
				w := newWaiter()
				for !cond() {
					if !w.pause() {
						fail("WEDGED: %s did not happen within %s", what, waitBound)
					}
				}
			}
			prefix := fmt.Sprintf("%s:%sb%d/", db, ns, round)
			for i := 0; i < n; i++ {
				kind := kSub
				if i%5 == 4 {
					kind = kQsub
				}
				cn.handle([]byte(fmt.Sprintf("s%d|%s|query %s", i, kind, prefix)))
			}
			if _, ok, dump := waitQuiet(2); !ok {
				fail("WEDGED while registering:\n%s", dump)
			}
			w, err := record.NewWrapper(prefix+"x", nil, dsd.JSON, []byte(`{"N":5}`))
			if err != nil {
				fail("harness: %s", err)
			}
			if err := internalDB.Put(w); err != nil {
				fail("harness: write: %s", err)
			}
			if _, ok, dump := waitQuiet(2); !ok {
				fail("WEDGED after the write:\n%s", dump)
			}
			for i := 0; i < n; i++ {
				op := fmt.Sprintf("s%d", i)
				if k := count(op, "upd") + count(op, "new"); k != 1 {
					fail("subscription %s announced the write %d times, want once", op, k)
				}
				cn.handle([]byte(op + "|cancel"))
			}
			for i := 0; i < n; i++ {
				op := fmt.Sprintf("s%d", i)
				want := 1 + btoi(i%5 == 4)
				waitFor("the done of "+op, func() bool { return count(op, "done") >= want })
			}
			if parked, ok, dump := waitQuiet(2); !ok || parked != 0 {
				fail("WEDGED: handler goroutines are left after all subscriptions were cancelled (%d parked):\n%s", parked, dump)
			}
		}
		stats.Case(fmt.Sprintf("burst %s %d %d", db, n, rounds), true, "subscription_burst")
	})
}
