//go:build verif

// Package c13 decides C13: every database-API message gets the replies its
// protocol prescribes; the handler is total; written records read back unchanged.
//
// The module system (database, config, api) is started once per process. Every
// case uses a fresh api.CreateDatabaseAPI(send) instance and its own key name
// space inside databases of several back ends that are registered once.
// The API handles requests on bare goroutines: a panic there kills the process.
// Every case is therefore written to $VERIF_JOURNAL before it is executed; the
// driver turns the death of the process into a violation whose replay file is
// that journal (VERIF_REPLAY_CASE re-executes it).
package c13

import (
	"fmt"
	"net"
	"os"
	"runtime"
	"strings"
	"sync"
	"testing"
	"time"

	"github.com/gorilla/websocket"

	"github.com/safing/portbase/api"
	"github.com/safing/portbase/database"
	_ "github.com/safing/portbase/database/dbmodule"
	"github.com/safing/portbase/database/record"
	_ "github.com/safing/portbase/database/storage/badger"
	_ "github.com/safing/portbase/database/storage/bbolt"
	_ "github.com/safing/portbase/database/storage/fstree"
	_ "github.com/safing/portbase/database/storage/hashmap"
	_ "github.com/safing/portbase/database/storage/sinkhole"
	"github.com/safing/portbase/dataroot"
	"github.com/safing/portbase/log"
	"github.com/safing/portbase/modules"

	"verifharness/internal/stats"
)

// backend describes one registered database of the harness.
type backend struct {
	Name       string // database name
	Storage    string
	Shadow     bool // ShadowDelete
	Persistent bool // Get returns what Put stored
	SafeKeys   bool // only file-name safe keys may be sent to it
}

var backends = []backend{
	{Name: "c13hm", Storage: "hashmap", Persistent: true},
	{Name: "c13hs", Storage: "hashmap", Shadow: true, Persistent: true},
	{Name: "c13bb", Storage: "bbolt", Persistent: true},
	{Name: "c13bs", Storage: "bbolt", Shadow: true, Persistent: true},
	{Name: "c13fs", Storage: "fstree", Persistent: true, SafeKeys: true},
	{Name: "c13sk", Storage: "sinkhole"},
}

var withBadger = os.Getenv("VERIF_C13_BADGER") == "1"

func backendByName(name string) *backend {
	for i := range backends {
		if backends[i].Name == name {
			return &backends[i]
		}
	}
	return nil
}

// apiAddr is the loopback address the api module listens on (the websocket transport of the database API is there).
var apiAddr string

var (
	internalDB = database.NewInterface(&database.Options{Local: true, Internal: true})
	panicCh    = make(chan *modules.ModuleError, 256)
)

func TestMain(m *testing.M) {
	os.Exit(run(m))
}

func run(m *testing.M) int {
	removeStaleRoots("verif-c13-")
	root, err := os.MkdirTemp("/dev/shm", "verif-c13-")
	if err != nil {
		fmt.Fprintf(os.Stderr, "c13: no scratch dir: %s\n", err)
		return 2
	}
	defer os.RemoveAll(root)
	if err := dataroot.Initialize(root, 0o755); err != nil {
		fmt.Fprintf(os.Stderr, "c13: dataroot: %s\n", err)
		return 2
	}
	apiAddr = freeLoopbackAddr()
	api.SetDefaultAPIListenAddress(apiAddr)
	if lvl := os.Getenv("VERIF_C13_LOG"); lvl != "" {
		log.SetLogLevel(log.ParseLevel(lvl))
	} else {
		log.SetLogLevel(log.CriticalLevel)
	}
	modules.SetErrorReportingChannel(panicCh)
	modules.SetStdErrReporting(os.Getenv("VERIF_C13_LOG") != "")
	if err := modules.Start(); err != nil {
		fmt.Fprintf(os.Stderr, "c13: modules.Start: %s\n", err)
		return 2
	}
	if withBadger {
		backends = append(backends, backend{Name: "c13bd", Storage: "badger", Persistent: true})
	}
	for _, b := range backends {
		if _, err := database.Register(&database.Database{Name: b.Name, Description: "verif C13 " + b.Storage, StorageType: b.Storage, ShadowDelete: b.Shadow}); err != nil {
			fmt.Fprintf(os.Stderr, "c13: register %s: %s\n", b.Name, err)
			return 2
		}
	}
	code := m.Run()
	stats.Flush(code)
	if os.Getenv("VERIF_C13_TIMING") != "" {
		fmt.Fprintf(os.Stderr, "c13 timing: waiting for rest %s in %d polls, prefill %s\n", timeQuiet, quietPolls, timePrefill)
	}
	// no modules.Shutdown (see harness README); the scratch dir is removed by the deferred call
	return code
}

// removeStaleRoots deletes data roots of earlier test processes that were
// killed (fuzz workers are) and could not remove theirs: older than an hour.
func removeStaleRoots(prefix string) {
	entries, err := os.ReadDir("/dev/shm")
	if err != nil {
		return
	}
	for _, e := range entries {
		if !e.IsDir() || !strings.HasPrefix(e.Name(), prefix) {
			continue
		}
		if info, err := e.Info(); err == nil && time.Since(info.ModTime()) > time.Hour {
			_ = os.RemoveAll("/dev/shm/" + e.Name())
		}
	}
}

func freeLoopbackAddr() string {
	l, err := net.Listen("tcp", "127.0.0.1:0")
	if err != nil {
		return "127.0.0.1:18818"
	}
	defer l.Close()
	return l.Addr().String()
}

// ---------------------------------------------------------------- connection

type reply struct {
	raw      []byte
	opID     string
	typ      string
	rest     []byte // everything after "opID|type|" (nil if absent)
	hasRest  bool
	sentMsgs int // number of request messages handed to Handle before this reply was recorded
}

func (r reply) String() string {
	s := string(r.raw)
	if len(s) > 160 {
		s = s[:160] + "..."
	}
	return fmt.Sprintf("%q", s)
}

type conn struct {
	dbapi api.DatabaseAPI

	mu         sync.Mutex
	replies    []reply
	sent       int
	sendYields int

	// websocket transport: messages go out over ws, a reader goroutine hands every frame to send
	ws      *websocket.Conn
	wsWrite sync.Mutex
	wsDone  chan struct{}
	wsErr   error

	actions []*sendAction // writes to perform inside send
	okCount map[string]int
	fired   []firedWrite
}

type sendAction struct {
	inSend
	done bool
}

// firedWrite is an in-send write that was executed.
type firedWrite struct {
	inSend
	atReply int // index (in conn.replies) of the reply that triggered it
	err     error
}

// apiLikeDB has the permissions the database API has.
var apiLikeDB = database.NewInterface(nil)

// apiLikeTTLDB: the same permissions, and every record written through it expires an hour later.
var apiLikeTTLDB = database.NewInterface(&database.Options{AlwaysSetRelativateExpiry: 3600})

func performWrite(a inSend) error {
	switch a.Kind {
	case kDelete:
		return apiLikeDB.Delete(a.Key)
	case kCreate, kUpdate:
		if len(a.Payload) < 2 {
			return fmt.Errorf("harness: short payload")
		}
		w, err := record.NewWrapper(a.Key, nil, a.Payload[0], a.Payload[1:])
		if err != nil {
			return err
		}
		db := apiLikeDB
		if a.TTL {
			db = apiLikeTTLDB
		}
		if a.Kind == kCreate {
			return db.PutNew(w)
		}
		return db.Put(w)
	}
	return fmt.Errorf("harness: unknown in-send write %q", a.Kind)
}

// takeFired returns and forgets the in-send writes executed so far.
func (c *conn) takeFired() []firedWrite {
	c.mu.Lock()
	defer c.mu.Unlock()
	f := c.fired
	c.fired = nil
	return f
}

func newConn() *conn {
	c := &conn{}
	c.dbapi = api.CreateDatabaseAPI(c.send)
	return c
}

func (c *conn) send(data []byte) {
	for i := 0; i < c.sendYields; i++ {
		runtime.Gosched()
	}
	raw := append([]byte(nil), data...)
	r := reply{raw: raw}
	parts := strings.SplitN(string(raw), "|", 3)
	r.opID = parts[0]
	if len(parts) > 1 {
		r.typ = parts[1]
	}
	if len(parts) > 2 {
		r.rest = []byte(parts[2])
		r.hasRest = true
	}
	c.mu.Lock()
	r.sentMsgs = c.sent
	c.replies = append(c.replies, r)
	at := len(c.replies) - 1
	var due []*sendAction
	if len(c.actions) > 0 {
		if r.typ == "ok" {
			if c.okCount == nil {
				c.okCount = map[string]int{}
			}
			c.okCount[r.opID]++
		}
		for _, a := range c.actions {
			if a.done || a.Op != r.opID {
				continue
			}
			switch {
			case a.Trigger == "done" && r.typ == "done",
				a.Trigger == "ok" && r.typ == "ok" && c.okCount[r.opID] == a.N,
				a.Trigger == "note" && (r.typ == "upd" || r.typ == "new"):
				a.done = true
				due = append(due, a)
			}
		}
	}
	c.mu.Unlock()
	// the consumer acts before it returns: a write through an interface with the API's permissions
	for _, a := range due {
		err := performWrite(a.inSend)
		c.mu.Lock()
		c.fired = append(c.fired, firedWrite{inSend: a.inSend, atReply: at, err: err})
		c.mu.Unlock()
	}
}

func (c *conn) handle(msg []byte) {
	c.mu.Lock()
	c.sent++
	c.mu.Unlock()
	if c.ws != nil {
		c.wsWrite.Lock()
		err := c.ws.WriteMessage(websocket.BinaryMessage, msg)
		c.wsWrite.Unlock()
		if err != nil {
			c.mu.Lock()
			c.wsErr = err
			c.mu.Unlock()
		}
		return
	}
	c.dbapi.Handle(msg)
}

func (c *conn) snapshot() []reply {
	c.mu.Lock()
	defer c.mu.Unlock()
	return append([]reply(nil), c.replies...)
}

func (c *conn) count() int {
	c.mu.Lock()
	defer c.mu.Unlock()
	return len(c.replies)
}

// ---------------------------------------------------------------- quiescence

var (
	stackMu  sync.Mutex
	stackBuf = make([]byte, 256<<10)

	timeQuiet, timePrefill time.Duration // statistics for VERIF_C13_TIMING
	quietPolls             int64
)

// handlerGoroutines counts the goroutines that are inside a request handler of
// any DatabaseAPI instance (they were started by Handle with "go api.handleX"),
// and how many of them are parked in processSub waiting for feed/shutdown.
func handlerGoroutines() (total, parkedSubs int, dump string) {
	stackMu.Lock()
	defer stackMu.Unlock()
	for {
		n := runtime.Stack(stackBuf, true)
		if n < len(stackBuf) {
			dump = string(stackBuf[:n])
			break
		}
		stackBuf = make([]byte, 4*len(stackBuf))
	}
	for _, g := range strings.Split(dump, "\n\n") {
		// "go api.handleX(...)" starts in the compiler generated wrapper Handle.gowrapN
		// and is inside handleX as soon as it runs.
		if !strings.Contains(g, "api.(*DatabaseAPI).handle") && !strings.Contains(g, "api.(*DatabaseAPI).Handle.") {
			continue
		}
		total++
		head, _, _ := strings.Cut(g, "\n")
		if strings.Contains(head, "[select") && parkedInProcessSub(g) {
			parkedSubs++
		}
	}
	return
}

// parkedInProcessSub: the select the goroutine waits in is the one of processSub's receive loop - not one further down
// (a subscription handler that is inside send, where the reply consumer writes to a storage whose commit path waits in
// a select of its own, is busy, not parked).
func parkedInProcessSub(g string) bool {
	lines := strings.Split(g, "\n")
	for _, l := range lines[1:] {
		if strings.HasPrefix(l, "\t") || strings.HasPrefix(l, "runtime.") {
			continue
		}
		return strings.Contains(l, "api.(*DatabaseAPI).processSub(")
	}
	return false
}

// waitBound is generous; every wait below is for goroutines that only have
// in-memory (or tmpfs) work to do. The storage back ends themselves give up on
// a query consumer after 1s (hashmap, bbolt, fstree) or 1min (badger).
const waitBound = 90 * time.Second

type waiter struct {
	start time.Time
	n     int
}

func newWaiter() *waiter { return &waiter{start: time.Now()} }

// pause yields, then sleeps with increasing duration; false when the bound is exceeded.
func (w *waiter) pause() bool {
	w.n++
	switch {
	case w.n < 20:
		runtime.Gosched()
	case w.n < 200:
		time.Sleep(20 * time.Microsecond)
	default:
		time.Sleep(time.Millisecond)
	}
	return time.Since(w.start) < waitBound
}

// waitQuiet waits until no request handler goroutine is running except
// subscriptions parked in their receive loop, in `confirm` consecutive
// observations. One observation is not trusted: runtime.Stack(all) stops the
// world, but a goroutine that is returning from a system call at that moment
// (the fstree back end does file I/O) is traced from a stale stack pointer and
// can appear without its handler frames (seen twice in ~10^6 cases, both
// times on fstree, never reproduced).
func waitQuiet(confirm int) (parkedSubs int, ok bool, dump string) {
	w := newWaiter()
	defer func() { timeQuiet += time.Since(w.start) }()
	seen := 0
	for {
		quietPolls++
		total, parked, d := handlerGoroutines()
		if total == parked {
			seen++
			if seen >= confirm {
				return parked, true, ""
			}
			runtime.Gosched()
			if seen > 2 {
				time.Sleep(300 * time.Microsecond)
			}
			continue
		}
		seen = 0
		if !w.pause() {
			return parked, false, d
		}
	}
}
