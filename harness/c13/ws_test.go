package c13

import (
	"fmt"
	"net/http"
	"strings"
	"sync"
	"testing"
	"time"

	"github.com/gorilla/websocket"
	"pgregory.net/rapid"

	"github.com/safing/portbase/api"
	"github.com/safing/portbase/config"
	"github.com/safing/portbase/modules"

	"verifharness/internal/stats"
)

// The database API as clients reach it: over the websocket endpoint of the api
// module (/api/database/v1). Every connection has its own DatabaseAPI, a reader
// that hands every frame to Handle and a writer that sends the queued replies.
// The same protocol automaton as for the concurrent in-process cases judges the
// transcript; on top of it the end of a connection is observed: when the client
// goes away, with or without subscriptions and queries still running, nothing of
// that connection may be left behind (handler goroutines, workers of the api
// module), and the process goes on serving other connections.

const wsKey = "c13-websocket-key"

var wsKeyOnce sync.Once

func dialWS(t fataler) *conn {
	wsKeyOnce.Do(func() {
		// the endpoint wants admin permission: an API key
		if err := config.SetConfigOption(api.CfgAPIKeys, []string{wsKey + "?read=admin&write=admin"}); err != nil {
			t.Fatalf("harness: cannot configure an API key: %v", err)
		}
		time.Sleep(20 * time.Millisecond) // the keys are imported by a change event hook
	})
	hdr := http.Header{"Authorization": []string{"Bearer " + wsKey}}
	var ws *websocket.Conn
	var err error
	for try := 0; try < 200; try++ {
		ws, _, err = websocket.DefaultDialer.Dial("ws://"+apiAddr+"/api/database/v1", hdr)
		if err == nil {
			break
		}
		time.Sleep(10 * time.Millisecond)
	}
	if err != nil {
		t.Fatalf("harness: cannot open the websocket endpoint of the api module: %v", err)
	}
	c := &conn{ws: ws, wsDone: make(chan struct{})}
	go func() {
		defer close(c.wsDone)
		for {
			_, data, err := ws.ReadMessage()
			if err != nil {
				return
			}
			c.send(data)
		}
	}()
	return c
}

func apiWorkers() int {
	st := modules.GetStatus()
	if st == nil || st.Modules["api"] == nil {
		return -1
	}
	return st.Modules["api"].Workers
}

// settled waits until the API is at rest and every reply produced so far has reached the client. A handler puts its
// replies into the connection's send queue before it returns; the queue, its single writer and the socket keep the
// order. So once the handlers are at rest a fence request is sent: when its reply arrives, everything before it has.
var fenceCounter int

func (r *runner) settled(what string) {
	r.quiet(what, nil)
	fenceCounter++
	op := fmt.Sprintf("fence#%d", fenceCounter)
	r.conn.handle([]byte(op + "|get|c13hm:" + r.c.NS + "fence"))
	w := newWaiter()
	for {
		for _, rp := range r.conn.snapshot() {
			if rp.opID == op {
				r.quiet(what+" (fence answered)", nil) // the fence's own handler
				return
			}
		}
		select {
		case <-r.conn.wsDone:
			r.failf("the server closed the websocket connection %s", what)
		default:
		}
		if !w.pause() {
			r.failf("WEDGED: the reply to a get sent %s did not arrive within %s", what, waitBound)
		}
	}
}

// withoutFences drops the replies to the fence requests.
func withoutFences(rs []reply) []reply {
	out := rs[:0:0]
	for _, rp := range rs {
		if !strings.HasPrefix(rp.opID, "fence#") {
			out = append(out, rp)
		}
	}
	return out
}

// closeAndCheckTeardown closes the client side and requires that everything that belongs to the connection ends.
func (r *runner) closeAndCheckTeardown(what string, baseWorkers int) {
	_ = r.conn.ws.Close()
	select {
	case <-r.conn.wsDone:
	case <-time.After(10 * time.Second):
		r.failf("harness: the websocket reader did not end after Close")
	}
	w := newWaiter()
	seen := 0
	for {
		total, _, dump := handlerGoroutines()
		workers := apiWorkers()
		if total == 0 && workers <= baseWorkers {
			// one observation is not trusted (see waitQuiet)
			if seen++; seen >= 3 {
				return
			}
			time.Sleep(300 * time.Microsecond)
			continue
		}
		seen = 0
		if !w.pause() {
			r.failf("WEDGED: %s: %d handler goroutines and %d workers of the api module (before the connection: %d) are left %s after the client closed the websocket connection\n%s",
				what, total, workers, baseWorkers, waitBound, dump)
		}
	}
}

func runWebsocketCase(t fataler, c *dbCase, abrupt int) map[string]int {
	writeJournal(c)
	for _, p := range c.Prefill {
		if err := storePrefill(p); err != nil {
			t.Fatalf("harness: prefill %v failed: %s", p, err)
		}
	}
	for _, db := range c.BulkDBs {
		for i := 0; i < c.Bulk; i++ {
			p := prefill{Key: fmt.Sprintf("%s:%sbulk%03d", db, c.NS, i), Form: "json", Object: fmt.Sprintf(`{"Name":"bulk","N":%d}`, i)}
			if err := storePrefill(p); err != nil {
				t.Fatalf("harness: prefill %v failed: %s", p, err)
			}
		}
	}
	if _, ok, dump := waitQuiet(2); !ok {
		t.Fatalf("harness: database API handler goroutines are alive before the case starts\n%s", dump)
	}
	base := apiWorkers()
	classes := map[string]int{}
	r := &runner{t: t, c: c, conn: dialWS(t), m: &model{recs: map[string]*recState{}, subs: map[string]*subState{}}}

	// phase 1: the protocol over the wire
	msgs := make([]msg, 0, len(c.Msgs)+4)
	for i := range c.Msgs {
		msgs = append(msgs, classify(c.Msgs[i].Raw))
		r.conn.handle(c.Msgs[i].Raw)
	}
	r.settled("after all messages were sent over the websocket")
	// end of the conversation: cancel every subscription the case may have registered
	cancelled := map[string]bool{}
	for _, m := range msgs {
		if (m.Kind == kSub || m.Kind == kQsub) && !cancelled[m.OpID] {
			cancelled[m.OpID] = true
			msgs = append(msgs, msg{Kind: kCancel, OpID: m.OpID})
			r.conn.handle([]byte(m.OpID + "|cancel"))
		}
	}
	// a cancelled subscription's handler is parked until it notices the closed feed: wait until all handlers are gone
	// (bounded), only then is everything they had to say in the send queue
	{
		w := newWaiter()
		seen := 0
		for {
			total, _, dump := handlerGoroutines()
			if total == 0 {
				if seen++; seen >= 3 {
					break
				}
				time.Sleep(300 * time.Microsecond)
				continue
			}
			seen = 0
			if !w.pause() {
				r.failf("%d handler goroutines are left %s after every subscription was cancelled (websocket)\n%s", total, waitBound, dump)
			}
		}
	}
	r.settled("after cancelling the subscriptions over the websocket")
	if r.conn.wsErr != nil {
		r.failf("the server closed the websocket connection during the conversation: %v", r.conn.wsErr)
	}
	select {
	case <-r.conn.wsDone:
		r.failf("the server closed the websocket connection during the conversation")
	default:
	}
	r.checkTranscript(msgs, withoutFences(r.conn.snapshot()), classes)
	r.closeAndCheckTeardown("after an orderly conversation", base)

	// phase 2: the client goes away while subscriptions (and a query over the bulk records) are running
	if abrupt > 0 && len(c.DBs) > 0 {
		r.conn = dialWS(t)
		for i := 0; i < abrupt; i++ {
			kind := []string{kSub, kQsub, kSub}[i%3]
			r.conn.handle([]byte(fmt.Sprintf("t%d|%s|query %s:%s", i, kind, c.DBs[0], c.NS)))
		}
		r.settled("after registering subscriptions that will be abandoned")
		// a write that the subscriptions announce, so that replies are on their way when the client leaves
		performWriteQuiet(c)
		r.closeAndCheckTeardown(fmt.Sprintf("with %d subscriptions running", abrupt), base)
		classes["ws_client_left_with_subscriptions_running"]++
	}
	return classes
}

// performWriteQuiet stores one record in the case's name space through the internal interface.
func performWriteQuiet(c *dbCase) {
	_ = storePrefill(prefill{Key: fmt.Sprintf("%s:%sabandoned", c.DBs[0], c.NS), Form: "json", Object: `{"Name":"x","N":1}`})
}

func TestPropWebsocket(t *testing.T) {
	if replayed(t) {
		return
	}
	rapid.Check(t, func(t *rapid.T) {
		c := genCase(t, true)
		c.Websocket = true
		c.InSend, c.SendYields = nil, 0
		abrupt := rapid.IntRange(0, 3).Draw(t, "abandoned_subscriptions")
		classes := runWebsocketCase(t, c, abrupt)
		classes["websocket"]++
		recordCase(c, classes)
		if stats.WantSample("websocket") && len(c.Msgs) > 3 {
			stats.Sample("websocket", c.render())
		}
	})
}
