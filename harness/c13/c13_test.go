//go:build verif

package c13

import (
	"encoding/json"
	"fmt"
	"os"
	"sort"
	"strings"
	"sync"
	"testing"

	"github.com/safing/portbase/formats/dsd"
	"pgregory.net/rapid"

	"verifharness/internal/stats"
)

// ---------------------------------------------------------------- generators

type gen struct {
	t        *rapid.T
	ns       string
	dbs      []backend
	keys     []string // keys of the case: prefilled and fresh ones
	typed    []string // keys of typed records
	usedOps  map[string]bool
	subOps   []string // op-ids of sub / qsub / query requests (cancel targets)
	written  []string // keys that create/update messages of the case target
	allOps   []string
	conc     bool
	opSerial int
}

var jsonFieldNames = []string{"Name", "N", "F", "B", "Tags", "M", "x", "y", "Inner", "ü", "a b", "_meta", "key|with|pipes"}

func (g *gen) jsonValue(depth int) any {
	t := g.t
	switch rapid.IntRange(0, 9).Draw(t, "vkind") {
	case 0:
		return rapid.SampledFrom([]string{"", "x", "typed", "hello world", "pipe|in|value", "quote\"and\\slash", "ünïcödé ✓", "{\"not\":\"nested\"}", "\u0000\u001f"}).Draw(t, "str")
	case 1:
		return rapid.Int64Range(-5, 5).Draw(t, "smallint")
	case 2:
		return rapid.SampledFrom([]any{int64(1) << 53, int64(-1) << 62, 1.5, -0.25, 1e100, 0}).Draw(t, "num")
	case 3:
		return rapid.Bool().Draw(t, "bool")
	case 4:
		return nil
	case 5:
		if depth > 1 {
			return []any{}
		}
		n := rapid.IntRange(0, 3).Draw(t, "alen")
		l := make([]any, n)
		for i := range l {
			l[i] = g.jsonValue(depth + 1)
		}
		return l
	case 6:
		return []any{"a", "b"}
	case 7:
		if depth > 1 {
			return map[string]any{}
		}
		return g.jsonObject(depth + 1)
	default:
		return rapid.StringN(0, 8, 16).Draw(t, "rstr")
	}
}

func (g *gen) jsonObject(depth int) map[string]any {
	n := rapid.IntRange(0, 4).Draw(g.t, "fields")
	o := map[string]any{}
	for i := 0; i < n; i++ {
		o[rapid.SampledFrom(jsonFieldNames).Draw(g.t, "field")] = g.jsonValue(depth)
	}
	return o
}

func mustJSON(v any) []byte {
	b, err := json.Marshal(v)
	if err != nil {
		panic(err)
	}
	return b
}

// payload: format byte + body
func (g *gen) payload() []byte {
	t := g.t
	switch rapid.IntRange(0, 13).Draw(t, "pkind") {
	case 0, 1, 2, 3, 4, 5:
		b := mustJSON(g.jsonObject(0))
		if rapid.IntRange(0, 5).Draw(t, "ws") == 0 {
			b = append(append([]byte(" \n"), b...), " \n"...)
		}
		return append([]byte{dsd.JSON}, b...)
	case 6:
		return append([]byte{dsd.JSON}, rapid.SampledFrom([]string{`[1,2]`, `"str"`, `42`, `null`, `true`, `{"a":1}{"b":2}`, `{"a":1,}`, `{`, `}`, `{"a"`, `{"a":1} trailing`, ``, ` `}).Draw(t, "oddjson")...)
	case 7:
		v := g.jsonObject(0)
		d, err := dsd.Dump(v, dsd.CBOR)
		if err != nil {
			return []byte{dsd.CBOR, 0xa0}
		}
		return d
	case 8:
		v := g.jsonObject(0)
		d, err := dsd.Dump(v, dsd.MsgPack)
		if err != nil {
			return []byte{dsd.MsgPack, 0x80}
		}
		return d
	case 9:
		return append([]byte{dsd.RAW}, rapid.SliceOfN(rapid.Byte(), 0, 12).Draw(t, "rawbody")...)
	case 10:
		// arbitrary format byte
		return append([]byte{rapid.Byte().Draw(t, "fmt")}, mustJSON(g.jsonObject(0))...)
	case 11:
		return rapid.SliceOfN(rapid.Byte(), 0, 1).Draw(t, "short") // shorter than format + body
	case 12:
		return append([]byte{dsd.JSON}, rapid.SliceOfN(rapid.Byte(), 0, 24).Draw(t, "junk")...)
	default:
		return append([]byte{dsd.GenCode}, 1, 2, 3)
	}
}

// insert payloads are bare JSON (no format byte)
func (g *gen) insertPayload() []byte {
	t := g.t
	switch rapid.IntRange(-3, 9).Draw(t, "ikind") {
	case -3, -2, -1:
		// new fields / same-typed replacements: these usually succeed on JSON records
		return []byte(rapid.SampledFrom([]string{`{"added":1}`, `{"added":"s","more":true}`, `{"Name":"renamed"}`, `{"N":8}`, `{"B":false,"F":0.5}`, `{"Tags":["z"]}`, `{"M":{"k":"w"}}`, `{"Inner":{"X":2}}`, `{"x":null}`}).Draw(t, "compatible"))
	case 0, 1, 2, 3:
		return mustJSON(g.jsonObject(1))
	case 4, 5:
		// aimed at the fields of the typed record
		o := map[string]any{}
		for _, f := range rapid.SliceOfNDistinct(rapid.SampledFrom([]string{"Name", "N", "F", "B", "Tags", "M", "Inner", "Base", "Mutex", "dbKey", "Nope"}), 1, 3, rapid.ID[string]).Draw(t, "tfields") {
			o[f] = g.jsonValue(1)
		}
		return mustJSON(o)
	case 6:
		return []byte(rapid.SampledFrom([]string{`{}`, `[]`, `[1,2]`, `"s"`, `1`, `null`, ``, `{"a":`, `{"a.b":1}`, `{"a.0":1}`, `{"#":1}`, `{"M.k":"w"}`, `{"":1}`, `{"a":{"b":{"c":1}}}`}).Draw(t, "oddinsert"))
	case 7:
		return append([]byte{dsd.JSON}, mustJSON(g.jsonObject(1))...) // with a format byte, which insert does not expect
	default:
		return rapid.SliceOfN(rapid.Byte(), 0, 16).Draw(t, "junk")
	}
}

var opIDPool = []string{"1", "42", "0", "007", "op-7", "α-β", "a b", "x\ny", "\x00", "ok", "error", "cancel", "done", strings.Repeat("9", 120), "-1", "1.5", "{}"}

func (g *gen) freshOp() string {
	t := g.t
	var op string
	switch rapid.IntRange(0, 5).Draw(t, "opkind") {
	case 0:
		if !g.conc {
			op = "" // the empty op-id is legal; concurrent cases keep it for the replies to malformed messages
		} else {
			op = "e"
		}
	case 1, 2:
		op = rapid.SampledFrom(opIDPool).Draw(t, "oppool")
	case 3:
		op = strings.ReplaceAll(rapid.StringN(0, 6, 12).Draw(t, "oprand"), "|", "/")
	default:
		g.opSerial++
		op = fmt.Sprintf("%d", 100+g.opSerial)
	}
	if g.conc && op == "" {
		op = "e0"
	}
	for g.usedOps[op] {
		g.opSerial++
		op = fmt.Sprintf("%s#%d", op, g.opSerial)
	}
	return op
}

// opFor returns the op-id for a new request. One-shot requests of sequential
// cases may reuse the op-id of an earlier, completed one-shot request.
func (g *gen) opFor(kind string) string {
	oneShot := kind == kGet || kind == kCreate || kind == kUpdate || kind == kInsert || kind == kDelete
	if !g.conc && oneShot && len(g.allOps) > 0 && rapid.IntRange(0, 7).Draw(g.t, "reuse") == 0 {
		op := rapid.SampledFrom(g.allOps).Draw(g.t, "reused")
		isSub := false
		for _, s := range g.subOps {
			if s == op {
				isSub = true
			}
		}
		if !isSub {
			return op
		}
	}
	op := g.freshOp()
	g.usedOps[op] = true
	g.allOps = append(g.allOps, op)
	if !oneShot {
		g.subOps = append(g.subOps, op)
	}
	return op
}

func (g *gen) db() backend { return rapid.SampledFrom(g.dbs).Draw(g.t, "db") }

func (g *gen) key(forWrite bool, kind string) string {
	t := g.t
	if kind == kInsert && len(g.typed) > 0 && rapid.IntRange(0, 2).Draw(t, "typedtarget") == 0 {
		return rapid.SampledFrom(g.typed).Draw(t, "typedkey")
	}
	if len(g.written) > 0 && rapid.IntRange(0, 3).Draw(t, "written") == 0 {
		return rapid.SampledFrom(g.written).Draw(t, "writtenkey") // a key an earlier message of the case wrote to
	}
	k := rapid.IntRange(0, 19).Draw(t, "keykind")
	switch {
	case k < 13 && len(g.keys) > 0:
		return rapid.SampledFrom(g.keys).Draw(t, "poolkey")
	case k < 15 && len(g.typed) > 0:
		return rapid.SampledFrom(g.typed).Draw(t, "typedkey")
	case k < 16:
		return g.db().Name + ":" + g.ns + "never-written"
	}
	odd := []string{"", "nodb", "unknown-db:key", g.db().Name + ":", g.db().Name, ":", "c13:" + g.ns}
	if !forWrite {
		odd = append(odd, "api:endpoints", "api:auth/permissions", "api:verif/no/such/endpoint", "api:", "config:core/devMode", "config:core/nope", "config:")
	}
	if kind == kGet || kind == kDelete {
		b := g.db()
		if !b.SafeKeys {
			odd = append(odd, b.Name+":"+g.ns+"with|pipe", b.Name+":"+g.ns+"ünï\x00", b.Name+":"+g.ns+strings.Repeat("k", 300))
		}
	}
	return rapid.SampledFrom(odd).Draw(t, "oddkey")
}

var whereClauses = []string{
	"", "", "", "",
	" where N > 0", " where N == 7", " where Name sameas typed", " where Name sameas x", " where B is true", " where F f> 1",
	" where (N > 0 and B is true)", " where (N > 100 or Name startswith t)", " where not N > 3", " where Tags contains a", " where M.k sameas v",
	" where x exists", " where Name matches ^t", " where Name in a,b,typed",
	" where not N > 3 and B is true", " where not N > 3 or B is true", " where not N > 3",
}

var queryTails = []string{"", "", "", " limit 1", " limit 2 offset 1", " orderby N", " orderby Name limit 3", " offset 1"}

var badQueries = []string{
	"", "query", "query ", "querry x:", "query nodb", "query unknown-db:", "query :", "get x", "query x:y where", "query x:y where N", "query x:y where N ==",
	"query x:y where N == abc", "query x:y where (N > 1", "query x:y where N > 1)", "query x:y where N > 1 and B is true or F f> 1", "query x:y limit", "query x:y limit -1",
	"query x:y limit 1 limit 2", "query x:y where N unknownop 1", "query x:y where Name matches (", "query x:y orderby", "query api:", "query api:endpoints", "query config:core/",
	"query x:y where \"", "query x:y where ü sameas \"ö", "query x:y where N > 99999999999999999999",
}

func (g *gen) queryText() string {
	t := g.t
	if rapid.IntRange(0, 6).Draw(t, "badquery") == 0 {
		q := rapid.SampledFrom(badQueries).Draw(t, "bq")
		return strings.ReplaceAll(q, "x:y", g.db().Name+":"+g.ns)
	}
	prefix := g.ns
	switch rapid.IntRange(0, 5).Draw(t, "prefix") {
	case 0:
		prefix = g.ns + "r"
	case 1:
		prefix = g.ns + "nothing-here"
	}
	return "query " + g.db().Name + ":" + prefix + rapid.SampledFrom(whereClauses).Draw(t, "where") + rapid.SampledFrom(queryTails).Draw(t, "tail")
}

func (g *gen) malformed() []byte {
	t := g.t
	g.opSerial++
	tag := fmt.Sprintf("m%d", g.opSerial) // first field, unique within the case
	switch rapid.IntRange(0, 7).Draw(t, "mkind") {
	case 0:
		return []byte(rapid.SampledFrom([]string{"", "|", "||", "|||", "x", "cancel", "get", "|get", "get|", "1|get", "1|", "|cancel|", "\x00", "1|cancel|2"}).Draw(t, "fixed"))
	case 1:
		return []byte(tag + "|" + rapid.SampledFrom([]string{"GET", "fetch", "", " get", "get ", "subscribe", "cancel ", "put", "ok", "error"}).Draw(t, "verb") + "|" + g.key(false, kGet))
	case 2:
		// create / update / insert without the payload separator
		return []byte(tag + "|" + rapid.SampledFrom([]string{kCreate, kUpdate, kInsert}).Draw(t, "verb") + "|" + rapid.SampledFrom([]string{"", "c13hm:x", "nokey"}).Draw(t, "arg"))
	case 3:
		return []byte(tag + "|" + rapid.SampledFrom([]string{kGet, kQuery, kSub, kDelete, kCreate}).Draw(t, "verb"))
	case 4:
		// separator soup
		n := rapid.IntRange(1, 8).Draw(t, "soup")
		var b strings.Builder
		b.WriteString(tag)
		for i := 0; i < n; i++ {
			b.WriteString(rapid.SampledFrom([]string{"|", "||", "get", "cancel", "query", ":", "\n", "J{", "1"}).Draw(t, "piece"))
		}
		return []byte(b.String())
	default:
		return rapid.SliceOfN(rapid.Byte(), 0, 40).Draw(t, "bytes")
	}
}

func (g *gen) message() msg {
	t := g.t
	kind := rapid.SampledFrom([]string{
		kGet, kGet, kGet, kQuery, kQuery, kQuery, kSub, kSub, kQsub, kQsub, kCreate, kCreate, kCreate, kUpdate, kUpdate, kUpdate,
		kInsert, kInsert, kInsert, kDelete, kDelete, kCancel, kCancel, kMalformed,
	}).Draw(t, "kind")
	switch kind {
	case kGet, kDelete:
		return build(kind, g.opFor(kind), g.key(kind == kDelete, kind), "", nil)
	case kQuery, kSub, kQsub:
		return build(kind, g.opFor(kind), "", g.queryText(), nil)
	case kCreate, kUpdate:
		key := g.key(true, kind)
		g.written = append(g.written, key)
		return build(kind, g.opFor(kind), key, "", g.payload())
	case kInsert:
		return build(kind, g.opFor(kind), g.key(true, kind), "", g.insertPayload())
	case kCancel:
		var op string
		switch {
		case len(g.subOps) > 0 && rapid.IntRange(0, 9).Draw(t, "ctarget") < 7:
			op = rapid.SampledFrom(g.subOps).Draw(t, "csub")
		case len(g.allOps) > 0 && rapid.Bool().Draw(t, "cany"):
			op = rapid.SampledFrom(g.allOps).Draw(t, "cop")
		default:
			g.opSerial++
			op = fmt.Sprintf("nothing-%d", g.opSerial)
		}
		return build(kCancel, op, "", "", nil)
	default:
		raw := g.malformed()
		// the classification decides what it really is (random bytes may be well-formed)
		m := classify(raw)
		if m.Kind != kMalformed && m.Kind != kCancel {
			if g.usedOps[m.OpID] || (g.conc && m.OpID == "") {
				return build(kGet, g.opFor(kGet), "nodb", "", nil)
			}
			g.usedOps[m.OpID] = true
			g.allOps = append(g.allOps, m.OpID)
			if m.Kind == kSub || m.Kind == kQsub || m.Kind == kQuery {
				g.subOps = append(g.subOps, m.OpID)
			}
		}
		return m
	}
}

// inSendActions lets the reply consumer write matching records from inside the
// send function at chosen replies of the case's queries / subscriptions: at the
// done that ends a (qsub's) query phase, at the N-th ok record, at the first
// notification. The writes use keys of their own under the operation's prefix.
func (g *gen) inSendActions(c *dbCase) {
	t := g.t
	type cand struct {
		m msg
		s *subState
	}
	var cands []cand
	for _, m := range c.Msgs {
		cm := classify(m.Raw)
		if cm.Kind != kQuery && cm.Kind != kSub && cm.Kind != kQsub {
			continue
		}
		s, ok := subFor(cm.OpID, cm.Query)
		if !ok || backendByName(s.db) == nil || !strings.HasPrefix(s.prefix, g.ns) {
			continue
		}
		cands = append(cands, cand{cm, s})
	}
	if len(cands) == 0 || rapid.IntRange(0, 9).Draw(t, "insend") >= 5 {
		return
	}
	n := rapid.IntRange(1, 2).Draw(t, "ninsend")
	for i := 0; i < n; i++ {
		cd := rapid.SampledFrom(cands).Draw(t, "insendop")
		a := inSend{Op: cd.m.OpID}
		switch cd.m.Kind {
		case kQsub:
			a.Trigger = rapid.SampledFrom([]string{"done", "done", "done", "ok", "note"}).Draw(t, "trigger")
		case kQuery:
			a.Trigger = rapid.SampledFrom([]string{"done", "ok"}).Draw(t, "trigger")
		default:
			a.Trigger = "note"
		}
		if a.Trigger == "ok" {
			a.N = rapid.IntRange(1, 2).Draw(t, "okn")
		}
		a.Kind = rapid.SampledFrom([]string{kCreate, kCreate, kUpdate, kDelete}).Draw(t, "wkind")
		if a.Kind == kDelete {
			a.Key = fmt.Sprintf("%s:%sd%d", cd.s.db, cd.s.prefix, i)
			c.Prefill = append(c.Prefill, prefill{Key: a.Key, Form: "json", Object: `{"Name":"to be deleted inside send","N":1}`})
		} else {
			a.Key = fmt.Sprintf("%s:%sw%d", cd.s.db, cd.s.prefix, i)
			a.Payload = []byte(fmt.Sprintf(`J{"Name":"written inside send","N":%d,"B":true}`, 5+i))
			a.TTL = rapid.IntRange(0, 2).Draw(t, "insend_ttl") == 0
		}
		c.InSend = append(c.InSend, a)
	}
}

var prefillObjects = []string{
	`{"Name":"x","N":1,"B":true,"F":2.5,"Tags":["a"],"M":{"k":"v"}}`,
	`{"Name":"typed","N":7}`,
	`{"N":200,"Name":"tz","x":null}`,
	`{}`,
	`{"Name":"ünï|pipe","N":-3,"Inner":{"X":1}}`,
}

func genCase(t *rapid.T, conc bool) *dbCase {
	g := &gen{t: t, ns: newNS(), usedOps: map[string]bool{}, conc: conc}
	g.dbs = rapid.SliceOfNDistinct(rapid.SampledFrom(backends), 1, 2, func(b backend) string { return b.Name }).Draw(t, "dbs")
	c := &dbCase{NS: g.ns, Concurrent: conc}
	for _, b := range g.dbs {
		c.DBs = append(c.DBs, b.Name)
	}

	for _, b := range g.dbs {
		n := rapid.IntRange(0, 5).Draw(t, "nprefill")
		for i := 0; i < n; i++ {
			key := fmt.Sprintf("%s:%sr%d", b.Name, g.ns, i)
			form := rapid.SampledFrom([]string{"json", "json", "json", "cbor", "msgpack", "raw", "typed", "typed", "secret"}).Draw(t, "form")
			p := prefill{Key: key, Form: form, Object: rapid.SampledFrom(prefillObjects).Draw(t, "pobj")}
			if form == "raw" {
				p.Object = "raw \x00\x01 bytes"
			}
			c.Prefill = append(c.Prefill, p)
			if form == "typed" {
				g.typed = append(g.typed, key)
			} else {
				g.keys = append(g.keys, key)
			}
		}
		for i := 0; i < 2; i++ {
			g.keys = append(g.keys, fmt.Sprintf("%s:%sn%d", b.Name, g.ns, i))
		}
		// only the first colon separates the database name from the key: further colons belong to the key
		g.keys = append(g.keys, b.Name+":"+g.ns+"h:alpha", b.Name+":"+g.ns+"h:beta")
	}
	sort.Strings(g.keys)

	// a third of the cases starts by subscribing to the name space
	if rapid.IntRange(0, 2).Draw(t, "lead") == 0 {
		kind := rapid.SampledFrom([]string{kSub, kQsub}).Draw(t, "leadkind")
		c.Msgs = append(c.Msgs, build(kind, g.opFor(kind), "", "query "+g.db().Name+":"+g.ns+rapid.SampledFrom(whereClauses).Draw(t, "leadwhere"), nil))
	}
	n := rapid.IntRange(1, 12).Draw(t, "nmsgs")
	for len(c.Msgs) < n {
		c.Msgs = append(c.Msgs, g.message())
	}
	g.inSendActions(c)
	if conc && rapid.IntRange(0, 2).Draw(t, "bulk") == 0 {
		// many records and a slow consumer: queries take long enough for cancels and writes to race them
		c.Bulk = rapid.SampledFrom([]int{15, 40, 120}).Draw(t, "nbulk")
		for _, b := range g.dbs {
			if b.Persistent {
				c.BulkDBs = append(c.BulkDBs, b.Name)
			}
		}
		c.SendYields = rapid.SampledFrom([]int{0, 1, 5, 50}).Draw(t, "sendyields")
	}
	if conc {
		ny := rapid.IntRange(0, 4).Draw(t, "nyields")
		for i := 0; i < ny; i++ {
			c.Yields = append(c.Yields, rapid.IntRange(0, len(c.Msgs)-1).Draw(t, "yat"), rapid.IntRange(1, 30).Draw(t, "yn"))
		}
	}
	return c
}

// ---------------------------------------------------------------- replay of a journalled case

var replayOnce sync.Once

// replayed runs the case of $VERIF_REPLAY_CASE if that file is a journal written
// by this package (the driver saves it when the test process died).
func replayed(t *testing.T) bool {
	path := os.Getenv("VERIF_REPLAY_CASE")
	if path == "" {
		return false
	}
	c, ok := readJournal(path)
	if !ok {
		return false
	}
	replayOnce.Do(func() {
		t.Logf("replaying journalled case:\n%s", c.render())
		if c.Websocket {
			runWebsocketCase(t, c, 2)
			return
		}
		runCase(t, c)
	})
	return true
}

func recordCase(c *dbCase, classes map[string]int) {
	var fp strings.Builder
	for _, m := range c.Msgs {
		fp.Write(m.Raw)
		fp.WriteByte(0)
	}
	for _, a := range c.InSend {
		fmt.Fprintf(&fp, "insend %s %s %d %s %s\x00", a.Op, a.Trigger, a.N, a.Kind, a.Key)
	}
	// the name space differs per case: strip it from the fingerprint
	f := strings.ReplaceAll(fp.String(), c.NS, "NS/")
	nontrivial := false
	var cl []string
	for k, n := range classes {
		stats.ClassN(k, int64(n))
		cl = append(cl, "case_with_"+k)
		if k != "msg_malformed" && k != "msg_cancel" && k != "cancel_nothing" {
			nontrivial = true
		}
	}
	mode := "sequential"
	if c.Concurrent {
		mode = "concurrent"
	}
	stats.Case(mode+f, nontrivial, cl...)
}

// ---------------------------------------------------------------- properties

// TestPropSequential: sequences of 1-12 messages, each one handled to rest before
// the next: the replies to every single message are compared with the protocol,
// the subscriptions' notifications with the writes, reads with what was written.
func TestPropSequential(t *testing.T) {
	if replayed(t) {
		return
	}
	rapid.Check(t, func(t *rapid.T) {
		c := genCase(t, false)
		classes := runCase(t, c)
		recordCase(c, classes)
		if stats.WantSample("sequential") && len(c.Msgs) > 3 {
			stats.Sample("sequential", c.render())
		}
	})
}

// TestPropConcurrent: the messages are handed over without waiting; the replies
// per op-id must be a word of the protocol automaton; everything ends.
func TestPropConcurrent(t *testing.T) {
	if replayed(t) {
		return
	}
	rapid.Check(t, func(t *rapid.T) {
		c := genCase(t, true)
		classes := runCase(t, c)
		recordCase(c, classes)
		if stats.WantSample("concurrent") && len(c.Msgs) > 3 {
			stats.Sample("concurrent", c.render())
		}
	})
}

// ---------------------------------------------------------------- fuzz target

// FuzzHandle: one arbitrary message between a subscription to the name space and a
// read, against a hashmap and a bbolt database holding records of every form.
func FuzzHandle(f *testing.F) {
	for _, s := range []string{
		"1|get|c13hm:NS/r0", "2|query|query c13bb:NS/", "3|sub|query c13hm:NS/ where N > 0", "4|qsub|query c13bb:NS/r",
		"5|create|c13hm:NS/n0|J{\"a\":1}", "6|update|c13bb:NS/r0|J{\"Name\":\"y\"}", "7|insert|c13hm:NS/r0|{\"N\":5}", "7|insert|c13hm:NS/r3|{\"Tags\":[\"x\"]}",
		"7|insert|c13hm:NS/r1|{\"a\":1}", "8|delete|c13bb:NS/r0", "s|cancel", "9|cancel", "", "|", "||", "1|nope|x", "1|create|c13hm:NS/x", "1|create|c13hm:NS/x|J",
		"1|create|c13hm:NS/x|\xff{}", "1|get|api:endpoints", "1|query|query c13hm:NS/ where (", "1|update|c13bb:NS/r2|C\xa1aa\x01", "|update|c13bb:NS/r0|J{}}", "u|update|c13hm:NS/r0|J{\"a\":1} x", "1|get|api:endpoints?a b", "|get|api:\x80? \xff",
	} {
		f.Add([]byte(s))
	}
	f.Fuzz(func(t *testing.T, data []byte) {
		ns := newNS()
		raw := []byte(strings.ReplaceAll(string(data), "NS/", ns))
		m := classify(raw)
		if bridgeRawQuery(m) {
			if stats.Excl("c13.api_bridge_raw_query") {
				// open finding C13-bridge-request-line: this input class kills the process
				stats.Excluded("c13.api_bridge_raw_query")
				return
			}
		}
		if m.Kind != kMalformed && m.Kind != kCancel {
			// keep the message inside the harness databases (or the read-only foreign ones)
			db := ""
			switch m.Kind {
			case kGet, kDelete, kCreate, kUpdate, kInsert:
				db, _ = splitKey(m.Key)
			}
			isWrite := m.Kind != kGet && m.Kind != kQuery && m.Kind != kSub && m.Kind != kQsub
			if isWrite && db != "c13hm" && db != "c13bb" && db != "c13hs" && db != "c13sk" {
				return
			}
			if isWrite && !strings.HasPrefix(m.Key[len(db):], ":"+ns) {
				return // writes stay inside the case's own name space
			}
			if m.OpID == "s" {
				return
			}
		}
		c := &dbCase{NS: ns}
		for i, form := range []string{"json", "cbor", "raw", "typed", "msgpack"} {
			for _, db := range []string{"c13hm", "c13bb"} {
				c.Prefill = append(c.Prefill, prefill{Key: fmt.Sprintf("%s:%sr%d", db, ns, i), Form: form, Object: prefillObjects[i%len(prefillObjects)]})
			}
		}
		c.Msgs = []msg{
			build(kSub, "s", "", "query c13hm:"+ns, nil),
			classify(raw),
			build(kGet, "g1", "c13hm:"+ns+"r0", "", nil),
			build(kGet, "g2", "c13bb:"+ns+"r0", "", nil),
		}
		runCase(t, c)
	})
}

// ---------------------------------------------------------------- regressions (fixed findings)

// TestRegInsertWithoutAccessor: insert into a record that is not stored as JSON
// (no accessor) dereferenced nil on the request goroutine and killed the process.
func TestRegInsertWithoutAccessor(t *testing.T) {
	for _, db := range []string{"c13hm", "c13bb", "c13fs"} {
		ns := newNS()
		c := &dbCase{NS: ns}
		for i, form := range []string{"raw", "cbor", "msgpack"} {
			c.Prefill = append(c.Prefill, prefill{Key: fmt.Sprintf("%s:%sr%d", db, ns, i), Form: form, Object: `{"Name":"x","N":1}`})
		}
		c.Msgs = append(c.Msgs, build(kSub, "s", "", "query "+db+":"+ns, nil))
		for i := 0; i < 3; i++ {
			c.Msgs = append(c.Msgs, build(kInsert, fmt.Sprintf("i%d", i), fmt.Sprintf("%s:%sr%d", db, ns, i), "", []byte(`{"N":2}`)))
		}
		// a JSON record whose data is empty has no accessor either
		c.Msgs = append(c.Msgs,
			build(kCreate, "c", db+":"+ns+"empty", "", []byte("J ")),
			build(kInsert, "i", db+":"+ns+"empty", "", []byte(`{"N":2}`)))
		runCase(t, c)
	}
}

// TestRegInsertKindMatchesTypeDoesNot: inserting a JSON array / object into a
// []string / map[string]string field of a typed record paniced in reflect.Set.
func TestRegInsertKindMatchesTypeDoesNot(t *testing.T) {
	ns := newNS()
	key := "c13hm:" + ns + "typed"
	c := &dbCase{NS: ns, Prefill: []prefill{{Key: key, Form: "typed"}}}
	for i, p := range []string{`{"Tags":["x","y"]}`, `{"M":{"k":"w"}}`, `{"Tags":[1,2]}`, `{"M":{"k":1}}`, `{"Inner":{"X":2}}`, `{"Name":"n","N":3,"F":1.25,"B":false}`, `{"Tags":[]}`, `{"M":{}}`, `{"N":1.5}`, `{"N":"1"}`, `{"Name":null}`} {
		c.Msgs = append(c.Msgs, build(kInsert, fmt.Sprintf("i%d", i), key, "", []byte(p)))
	}
	c.Msgs = append(c.Msgs, build(kGet, "g", key, "", nil))
	runCase(t, c)
}

// TestRegInsertRacingQueryOnHashmap: on the hashmap back end an insert (Put of the
// stored record object: record lock, then database lock) and a running query
// (database lock, then record lock) dead-locked each other; the database stayed
// locked for every later request.
func TestRegInsertRacingQueryOnHashmap(t *testing.T) {
	for round := 0; round < 6; round++ {
		ns := newNS()
		c := &dbCase{NS: ns, Concurrent: true, Bulk: 120, BulkDBs: []string{"c13hm"}, SendYields: 20}
		c.Msgs = append(c.Msgs, build(kQuery, "q1", "", "query c13hm:"+ns, nil), build(kQsub, "q2", "", "query c13hm:"+ns+" where N > 10", nil))
		for i := 0; i < 10; i++ {
			c.Msgs = append(c.Msgs, build(kInsert, fmt.Sprintf("i%d", i), fmt.Sprintf("c13hm:%sbulk%03d", ns, (i*37+round*11)%120), "", []byte(`{"touched":true}`)))
		}
		c.Msgs = append(c.Msgs, build(kQuery, "q3", "", "query c13hm:"+ns+"bulk0", nil), build(kCancel, "q1", "", "", nil))
		runCase(t, c)
	}
}

// TestRegQsubNoGapBetweenQueryAndSubscription: a matching record that is written
// and acknowledged right when the query phase of a qsub ends (inside the send of
// its done), during the query phase (inside the send of an ok record) or inside
// the send of a notification must be announced (seeded change C13-3 subscribed
// only after the query phase).
func TestRegQsubNoGapBetweenQueryAndSubscription(t *testing.T) {
	for _, db := range []string{"c13hm", "c13bb", "c13fs", "c13hs"} {
		for _, trigger := range []string{"done", "ok", "note"} {
			ns := newNS()
			c := &dbCase{NS: ns}
			for i := 0; i < 3; i++ {
				c.Prefill = append(c.Prefill, prefill{Key: fmt.Sprintf("%s:%sr%d", db, ns, i), Form: "json", Object: `{"Name":"x","N":1}`})
			}
			c.Prefill = append(c.Prefill, prefill{Key: db + ":" + ns + "d0", Form: "json", Object: `{"Name":"to be deleted","N":1}`})
			c.Msgs = []msg{
				build(kSub, "other", "", "query "+db+":"+ns, nil),
				build(kQsub, "qs", "", "query "+db+":"+ns, nil),
				build(kCreate, "c1", db+":"+ns+"n1", "", []byte(`J{"a":1}`)),
				build(kGet, "g1", db+":"+ns+"w0", "", nil),
			}
			c.InSend = []inSend{
				{Op: "qs", Trigger: trigger, N: 2, Kind: kCreate, Key: db + ":" + ns + "w0", Payload: []byte(`J{"Name":"late","N":2}`)},
				{Op: "qs", Trigger: trigger, N: 2, Kind: kDelete, Key: db + ":" + ns + "d0"},
			}
			runCase(t, c)
		}
	}
}

// bridgeRawQuery: a request that reads a record of the "api" bridge database
// whose key carries a raw query ('?'): the input class of the open finding
// C13-bridge-request-line (exclusion flag c13.api_bridge_raw_query).
func bridgeRawQuery(m msg) bool {
	switch m.Kind {
	case kGet, kDelete, kInsert, kCreate, kUpdate:
		db, rest := splitKey(m.Key)
		return db == "api" && strings.Contains(rest, "?")
	}
	return false
}

// TestRegBridgeRequestLine (fixed finding; found by FuzzHandle in the thorough
// tier): "N|get|api:<path>?<query with a space>" reaches api.callAPI, which copies
// the raw query unescaped into httptest.NewRequest; that function panics on a
// malformed request line, on the bare request goroutine: the process dies.
// The witness fails (the test process dies) while the defect exists.
func TestRegBridgeRequestLine(t *testing.T) {
	ns := newNS()
	c := &dbCase{NS: ns, Msgs: []msg{
		build(kGet, "1", "api:endpoints?a b", "", nil),
		build(kGet, "2", "api:auth/permissions? HTTP/9.9", "", nil),
		build(kDelete, "3", "api:endpoints?x y", "", nil),
		build(kGet, "4", "api:endpoints?fine=1", "", nil),
		// the same function takes the HTTP method from the written record
		build(kUpdate, "5", "api:endpoints", "", []byte(`J{"Method":"NOT A METHOD"}`)),
		build(kUpdate, "6", "api:endpoints", "", []byte(`J{"Method":"GET"}`)),
	}}
	runCase(t, c)
}
