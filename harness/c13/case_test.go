//go:build verif

package c13

import (
	"bytes"
	"encoding/base64"
	"encoding/json"
	"fmt"
	"os"
	"sort"
	"strings"
	"sync"
	"sync/atomic"

	"github.com/safing/portbase/database/record"
	"github.com/safing/portbase/formats/dsd"
)

// ---------------------------------------------------------------- case description

// message kinds
const (
	kGet       = "get"
	kQuery     = "query"
	kSub       = "sub"
	kQsub      = "qsub"
	kCreate    = "create"
	kUpdate    = "update"
	kInsert    = "insert"
	kDelete    = "delete"
	kCancel    = "cancel"
	kMalformed = "malformed"
)

// msg is one request. Raw is what is handed to Handle; the other fields say
// what the generator meant (the oracle only trusts them after re-deriving the
// shape from Raw, see classify).
type msg struct {
	Kind    string `json:"kind"`
	OpID    string `json:"op"`
	Key     string `json:"key,omitempty"`
	Query   string `json:"query,omitempty"`
	Payload []byte `json:"payload,omitempty"`
	Raw     []byte `json:"raw"`
}

func build(kind, op, key, query string, payload []byte) msg {
	m := msg{Kind: kind, OpID: op, Key: key, Query: query, Payload: payload}
	switch kind {
	case kGet, kDelete:
		m.Raw = []byte(op + "|" + kind + "|" + key)
	case kQuery, kSub, kQsub:
		m.Raw = []byte(op + "|" + kind + "|" + query)
	case kCreate, kUpdate, kInsert:
		m.Raw = append([]byte(op+"|"+kind+"|"+key+"|"), payload...)
	case kCancel:
		m.Raw = []byte(op + "|cancel")
	}
	return m
}

// classify re-derives what a raw message is according to the protocol comment
// in api/database.go: "opID|cmd|args", cancel is "opID|cancel".
func classify(raw []byte) msg {
	parts := bytes.SplitN(raw, []byte("|"), 3)
	if len(parts) == 2 && string(parts[1]) == "cancel" {
		return msg{Kind: kCancel, OpID: string(parts[0]), Raw: raw}
	}
	if len(parts) != 3 {
		return msg{Kind: kMalformed, Raw: raw}
	}
	op, cmd, rest := string(parts[0]), string(parts[1]), parts[2]
	switch cmd {
	case kGet, kDelete:
		return msg{Kind: cmd, OpID: op, Key: string(rest), Raw: raw}
	case kQuery, kSub, kQsub:
		return msg{Kind: cmd, OpID: op, Query: string(rest), Raw: raw}
	case kCreate, kUpdate, kInsert:
		kp := bytes.SplitN(rest, []byte("|"), 2)
		if len(kp) != 2 {
			return msg{Kind: kMalformed, OpID: op, Raw: raw}
		}
		return msg{Kind: cmd, OpID: op, Key: string(kp[0]), Payload: kp[1], Raw: raw}
	}
	return msg{Kind: kMalformed, OpID: op, Raw: raw}
}

// prefill describes a record stored (through an internal, fully privileged
// interface) before the API sees the first message.
type prefill struct {
	Key    string `json:"key"`
	Form   string `json:"form"` // json | cbor | msgpack | raw | typed | secret
	Object string `json:"object,omitempty"`
}

// inSend is a write the reply consumer performs synchronously inside the send
// function when a particular reply arrives (a slow / re-entrant transport is a
// legal schedule): the write is acknowledged before send returns.
type inSend struct {
	Op      string `json:"op"`      // op-id of the query / sub / qsub whose reply triggers the write
	Trigger string `json:"trigger"` // done: its (first) done | ok: its N-th ok record | note: its first upd/new
	N       int    `json:"n,omitempty"`
	Kind    string `json:"kind"` // create | update | delete
	Key     string `json:"key"`
	Payload []byte `json:"payload,omitempty"` // format byte + body
	// TTL: the consumer's interface stamps a relative expiry (an hour) on what it writes: a live record whose metadata
	// carries a negative "deleted" value; subscribers are told of a new / updated record all the same
	TTL bool `json:"ttl,omitempty"`
}

type dbCase struct {
	NS         string    `json:"ns"`
	Prefill    []prefill `json:"prefill"`
	Msgs       []msg     `json:"msgs"`
	Concurrent bool      `json:"concurrent"`
	Yields     []int     `json:"yields,omitempty"`      // concurrent mode: scheduler yields before message i
	SendYields int       `json:"send_yields,omitempty"` // the reply consumer yields this often per reply (a slow connection)
	Bulk       int       `json:"bulk,omitempty"`        // additional JSON records NS/bulk<i> in every database of the case
	BulkDBs    []string  `json:"bulk_dbs,omitempty"`
	InSend     []inSend  `json:"in_send,omitempty"`
	DBs        []string  `json:"dbs,omitempty"`       // the databases of the case
	Websocket  bool      `json:"websocket,omitempty"` // the messages travel over the websocket endpoint of the api module
}

var caseCounter atomic.Int64

func newNS() string {
	return fmt.Sprintf("p%d-%d/", os.Getpid(), caseCounter.Add(1))
}

// ---------------------------------------------------------------- journal

type journal struct {
	Marker string `json:"verif_c13_journal"`
	Case   dbCase `json:"case"`
}

func writeJournal(c *dbCase) {
	path := os.Getenv("VERIF_JOURNAL")
	if path == "" {
		return
	}
	b, err := json.Marshal(journal{Marker: "v1", Case: *c})
	if err != nil {
		return
	}
	_ = os.WriteFile(path, b, 0o644)
}

func readJournal(path string) (*dbCase, bool) {
	b, err := os.ReadFile(path)
	if err != nil {
		return nil, false
	}
	var j journal
	if err := json.Unmarshal(b, &j); err != nil || j.Marker != "v1" {
		return nil, false
	}
	return &j.Case, true
}

func (c *dbCase) render() string {
	var b strings.Builder
	fmt.Fprintf(&b, "namespace %q, %d prefilled records, concurrent=%v\n", c.NS, len(c.Prefill), c.Concurrent)
	for _, p := range c.Prefill {
		fmt.Fprintf(&b, "  prefill %-8s %q %s\n", p.Form, p.Key, p.Object)
	}
	for i, m := range c.Msgs {
		fmt.Fprintf(&b, "  msg %2d: %q\n", i, clip(string(m.Raw), 200))
	}
	for _, a := range c.InSend {
		fmt.Fprintf(&b, "  inside send, on the %s (n=%d) of op %q: %s %q %q (acknowledged before send returns)\n", a.Trigger, a.N, a.Op, a.Kind, a.Key, clip(string(a.Payload), 80))
	}
	fmt.Fprintf(&b, "  (base64 of the messages: ")
	for _, m := range c.Msgs {
		b.WriteString(base64.StdEncoding.EncodeToString(m.Raw) + " ")
	}
	b.WriteString(")")
	return b.String()
}

func clip(s string, n int) string {
	if len(s) > n {
		return s[:n] + "..."
	}
	return s
}

// ---------------------------------------------------------------- prefilling

type typedRecord struct {
	record.Base
	sync.Mutex

	Name  string
	N     int64
	F     float64
	B     bool
	Tags  []string
	M     map[string]string
	Inner struct{ X int }
}

func storePrefill(p prefill) error {
	switch p.Form {
	case "json", "secret":
		w, err := record.NewWrapper(p.Key, nil, dsd.JSON, []byte(p.Object))
		if err != nil {
			return err
		}
		w.UpdateMeta()
		w.Meta().Created -= 3600 // an old record: later changes are updates, not creations
		if p.Form == "secret" {
			w.Meta().MakeSecret()
		}
		return internalDB.Put(w)
	case "cbor", "msgpack":
		var v any
		if err := json.Unmarshal([]byte(p.Object), &v); err != nil {
			return err
		}
		f := uint8(dsd.CBOR)
		if p.Form == "msgpack" {
			f = dsd.MsgPack
		}
		d, err := dsd.Dump(v, f)
		if err != nil {
			return err
		}
		w, err := record.NewWrapper(p.Key, nil, f, d[1:])
		if err != nil {
			return err
		}
		return internalDB.Put(w)
	case "raw":
		w, err := record.NewWrapper(p.Key, nil, dsd.RAW, []byte(p.Object))
		if err != nil {
			return err
		}
		return internalDB.Put(w)
	case "typed":
		r := &typedRecord{Name: "typed", N: 7, F: 1.5, B: true, Tags: []string{"a", "b"}, M: map[string]string{"k": "v"}}
		r.SetKey(p.Key)
		r.UpdateMeta()
		r.Meta().Created -= 3600
		return internalDB.Put(r)
	}
	return fmt.Errorf("unknown prefill form %q", p.Form)
}

// ---------------------------------------------------------------- small helpers

func splitKey(key string) (db, dbKey string) {
	db, dbKey, _ = strings.Cut(key, ":")
	return
}

func sortedKeys[V any](m map[string]V) []string {
	l := make([]string, 0, len(m))
	for k := range m {
		l = append(l, k)
	}
	sort.Strings(l)
	return l
}
