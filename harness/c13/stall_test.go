package c13

import (
	"fmt"
	"strings"
	"sync"
	"testing"
	"time"

	"pgregory.net/rapid"

	"github.com/safing/portbase/api"

	"verifharness/internal/stats"
)

// A reply consumer that stalls. "query yields ok records and then exactly one
// done or error": also when the connection does not take the replies for a
// while. The storage executors give up on a consumer after a second; whatever
// they do then, the request has to come to its end - a done, or an error such
// as "query timeout" - and its handler has to go away.
//
// The database holds 12-40 matching records; the send function of the
// connection sleeps 1.25 s on the k-th ok reply. Oracle: after the consumer
// has resumed, exactly one terminal reply with the request's op-id arrives
// (within 15 s - the unchanged code sends it at once), every ok carries a stored
// key once, and no handler goroutine is left. (A qsub that ended its query
// phase with done is cancelled and must then end with a second done.)

func TestPropStalledReplyConsumer(t *testing.T) {
	rapid.Check(t, func(t *rapid.T) {
		db := rapid.SampledFrom([]string{"c13hm", "c13hm", "c13hs", "c13bb", "c13fs"}).Draw(t, "db")
		kind := rapid.SampledFrom([]string{kQuery, kQuery, kQsub}).Draw(t, "kind")
		n := rapid.IntRange(12, 40).Draw(t, "records")
		stallAt := rapid.IntRange(1, 3).Draw(t, "stall_at_ok")
		ns := newNS()
		stored := map[string]bool{}
		for i := 0; i < n; i++ {
			k := fmt.Sprintf("%s:%sr%03d", db, ns, i)
			if err := storePrefill(prefill{Key: k, Form: "json", Object: fmt.Sprintf(`{"Name":"stall","N":%d}`, i)}); err != nil {
				t.Fatalf("harness: prefill %s: %v", k, err)
			}
			stored[k] = true
		}
		if _, ok, dump := waitQuiet(2); !ok {
			t.Fatalf("harness: database API handler goroutines are alive before the case starts\n%s", dump)
		}
		var mu sync.Mutex
		var replies []string
		oks := 0
		resumed := make(chan struct{})
		dbapi := api.CreateDatabaseAPI(func(data []byte) {
			s := string(data)
			mu.Lock()
			replies = append(replies, s)
			stall := false
			if strings.HasPrefix(s, "q1|ok|") {
				oks++
				stall = oks == stallAt
			}
			mu.Unlock()
			if stall {
				time.Sleep(1250 * time.Millisecond)
				close(resumed)
			}
		})
		dbapi.Handle([]byte(fmt.Sprintf("q1|%s|query %s:%s", kind, db, ns)))
		select {
		case <-resumed:
		case <-time.After(30 * time.Second):
			t.Fatalf("harness: the %d-th ok reply of a %s over %d records never came", stallAt, kind, n)
		}
		terminal := func() (done, errs int) {
			mu.Lock()
			defer mu.Unlock()
			for _, r := range replies {
				switch {
				case r == "q1|done":
					done++
				case strings.HasPrefix(r, "q1|error|"):
					errs++
				}
			}
			return
		}
		deadline := time.Now().Add(15 * time.Second)
		for {
			d, e := terminal()
			if d+e > 0 {
				break
			}
			if time.Now().After(deadline) {
				mu.Lock()
				got := len(replies)
				mu.Unlock()
				_, _, dump := handlerGoroutines()
				t.Fatalf("%s over %d records of %s, the connection stalled for 1.25 s on ok reply %d: 15 s after it took replies again the request has neither been ended with done nor with an error (%d replies so far)\n%s", kind, n, db, stallAt, got, dump)
			}
			time.Sleep(time.Millisecond)
		}
		d, e := terminal()
		if kind == kQsub && d == 1 && e == 0 {
			dbapi.Handle([]byte("q1|cancel"))
		}
		if _, ok, dump := waitQuiet(3); !ok {
			t.Fatalf("%s over %d records of %s with a stalled connection: handler goroutines are left after the request ended\n%s", kind, n, db, dump)
		}
		mu.Lock()
		defer mu.Unlock()
		seen := map[string]bool{}
		dones, errs := 0, 0
		for _, r := range replies {
			parts := strings.SplitN(r, "|", 4)
			switch {
			case len(parts) >= 3 && parts[0] == "q1" && parts[1] == "ok":
				if dones+errs > 0 {
					t.Fatalf("an ok reply after the terminal reply: %q", clip(r, 80))
				}
				if !stored[parts[2]] || seen[parts[2]] {
					t.Fatalf("ok reply for %q, which is not a stored record of this case or was listed before", parts[2])
				}
				seen[parts[2]] = true
			case r == "q1|done":
				dones++
			case strings.HasPrefix(r, "q1|error|"):
				errs++
			default:
				t.Fatalf("reply %q belongs to no request of this connection", clip(r, 80))
			}
		}
		wantDone := 1
		if kind == kQsub && errs == 0 {
			wantDone = 2 // end of the query phase, end of the subscription
		}
		if errs > 1 || (errs == 1 && dones != 0) || (errs == 0 && dones != wantDone) {
			t.Fatalf("%s with a stalled connection ended with %d done and %d error replies", kind, dones, errs)
		}
		if errs == 0 && len(seen) != n {
			t.Fatalf("%s ended with done after %d of %d records", kind, len(seen), n)
		}
		cls := "stalled_consumer_request_ended_with_error"
		if errs == 0 {
			cls = "stalled_consumer_request_ended_with_done"
		}
		stats.Case(fmt.Sprintf("stall|%s|%s|%d|%d", db, kind, n, stallAt), true, "stalled_reply_consumer", cls)
	})
}
